import XpmVerif.Model.XpIndex
/-! Helper lemmas for M7 (C16): membership facts of the list primitives, the invariant `Inv` of all
    reachable states and its preservation by every operation, and the frame lemma of a block body. -/
namespace XpmVerif.XpIndex

/-! ### primitives -/

theorem mem_names {es : List Entry} {n : Link} : n ∈ names es ↔ ∃ e, e ∈ es ∧ e.name = n := by
  simp [names]

theorem hasName_iff {es : List Entry} {n : Link} : hasName es n = true ↔ n ∈ names es := by
  simp only [hasName, names, List.any_eq_true, List.mem_map, beq_iff_eq]

theorem mem_moveOne {bak : List Entry} {e x : Entry} :
    x ∈ moveOne bak e ↔ x ∈ bak ∨ (x = e ∧ e.name ∉ names bak) := by
  unfold moveOne
  split
  · rename_i h; rw [hasName_iff] at h; grind
  · rename_i h; rw [hasName_iff] at h; simp; grind

theorem mem_moveAll_of_bak {jobs bak : List Entry} {x : Entry} (h : x ∈ bak) : x ∈ moveAll bak jobs := by
  induction jobs generalizing bak with
  | nil => simpa [moveAll] using h
  | cons e js ih =>
    simp only [moveAll, List.foldl_cons]
    exact ih (mem_moveOne.2 (Or.inl h))

theorem mem_moveAll {jobs bak : List Entry} {x : Entry} (h : x ∈ moveAll bak jobs) : x ∈ bak ∨ x ∈ jobs := by
  induction jobs generalizing bak with
  | nil => left; simpa [moveAll] using h
  | cons e js ih =>
    simp only [moveAll, List.foldl_cons] at h
    rcases ih h with h | h
    · rcases mem_moveOne.1 h with h | ⟨h, _⟩
      · exact Or.inl h
      · right; simp [h]
    · right; simp [h]

theorem mem_names_moveAll {jobs bak : List Entry} {n : Link} :
    n ∈ names (moveAll bak jobs) ↔ n ∈ names bak ∨ n ∈ names jobs := by
  induction jobs generalizing bak with
  | nil => simp [moveAll, names]
  | cons e js ih =>
    simp only [moveAll, List.foldl_cons]
    have := @ih (moveOne bak e)
    simp only [moveAll] at this
    rw [this]
    have h1 : n ∈ names (moveOne bak e) ↔ n ∈ names bak ∨ n = e.name := by
      simp only [mem_names, mem_moveOne]
      constructor
      · rintro ⟨x, (hx | ⟨rfl, _⟩), rfl⟩
        · exact Or.inl ⟨x, hx, rfl⟩
        · exact Or.inr rfl
      · rintro (⟨x, hx, rfl⟩ | rfl)
        · exact ⟨x, Or.inl hx, rfl⟩
        · by_cases hh : e.name ∈ names bak
          · obtain ⟨y, hy, hye⟩ := mem_names.1 hh
            exact ⟨y, Or.inl hy, hye⟩
          · exact ⟨e, Or.inr ⟨rfl, fun h' => hh (mem_names.2 h')⟩, rfl⟩
    rw [h1]
    simp [names]
    grind

/-- when every link points to the directory of the job it is named after, moving loses no link -/
theorem mem_moveAll_of_jobs {jobs bak : List Entry} {x : Entry}
    (hb : ∀ e, e ∈ bak → e.target = e.name) (hj : ∀ e, e ∈ jobs → e.target = e.name)
    (h : x ∈ jobs) : x ∈ moveAll bak jobs := by
  have hn : x.name ∈ names (moveAll bak jobs) := mem_names_moveAll.2 (Or.inr (mem_names.2 ⟨x, h, rfl⟩))
  obtain ⟨y, hy, hyn⟩ := mem_names.1 hn
  have hty : y.target = y.name := by
    rcases mem_moveAll hy with h' | h'
    · exact hb y h'
    · exact hj y h'
  have : y = x := by
    have hx := hj x h
    cases x; cases y; simp_all
  exact this ▸ hy

theorem nodup_moveOne {bak : List Entry} {e : Entry} (h : (names bak).Nodup) : (names (moveOne bak e)).Nodup := by
  unfold moveOne
  split
  · exact h
  · rename_i hh
    have : e.name ∉ names bak := by rw [← hasName_iff]; simpa using hh
    simp only [names, List.map_append, List.map_cons, List.map_nil] at *
    rw [List.nodup_append]
    refine ⟨h, by simp, ?_⟩
    intro a ha b hb
    simp at hb
    subst hb
    intro hab
    subst hab
    exact this ha

theorem nodup_moveAll {jobs bak : List Entry} (h : (names bak).Nodup) : (names (moveAll bak jobs)).Nodup := by
  induction jobs generalizing bak with
  | nil => simpa [moveAll] using h
  | cons e js ih =>
    simp only [moveAll, List.foldl_cons]
    exact ih (nodup_moveOne h)

theorem mem_link {jobs : List Entry} {l : Link} {x : Entry} :
    x ∈ link jobs l ↔ x = ⟨l, l⟩ ∨ (x ∈ jobs ∧ x.name ≠ l) := by
  simp [link]

theorem mem_names_link {jobs : List Entry} {l n : Link} :
    n ∈ names (link jobs l) ↔ n = l ∨ n ∈ names jobs := by
  simp only [mem_names, mem_link]
  constructor
  · rintro ⟨x, (rfl | ⟨hx, _⟩), rfl⟩
    · exact Or.inl rfl
    · exact Or.inr ⟨x, hx, rfl⟩
  · rintro (rfl | ⟨x, hx, rfl⟩)
    · exact ⟨⟨n, n⟩, Or.inl rfl, rfl⟩
    · by_cases h : x.name = l
      · exact ⟨⟨l, l⟩, Or.inl rfl, h.symm⟩
      · exact ⟨x, Or.inr ⟨hx, h⟩, rfl⟩

theorem nodup_link {jobs : List Entry} {l : Link} (h : (names jobs).Nodup) : (names (link jobs l)).Nodup := by
  simp only [link, names, List.map_cons, List.nodup_cons]
  constructor
  · simp
  · exact List.Nodup.sublist (List.Sublist.map Entry.name (List.filter_sublist (l := jobs) (p := fun e => e.name != l))) h

/-! ### the invariant -/

structure Inv (s : St) : Prop where
  lockInside : s.inside = s.lock.toList
  idleCur : s.lock = none → s.cur = []
  heldBak : s.lock ≠ none → s.bak.isSome
  targeted : ∀ e, e ∈ indexed s → e.target = e.name
  insideJobs : s.lock ≠ none → ∀ n, n ∈ names s.jobs ↔ n ∈ s.cur
  exact : ∀ n, (n ∈ names s.jobs ∨ n ∈ names (bakList s)) ↔ (n ∈ s.plan ∨ n ∈ s.aborted ∨ n ∈ s.cur ∨ n ∈ s.junk)
  nodupJobs : (names s.jobs).Nodup
  nodupBak : (names (bakList s)).Nodup

theorem inv_init : Inv init := by
  constructor <;> simp [init, indexed, bakList, names]

theorem toList_eq {l : Option Proc} : l.toList = match l with | none => [] | some p => [p] := by
  cases l <;> rfl

theorem inv_enter {s : St} (h : Inv s) (p : Proc) : Inv (step s (.enter p)) := by
  simp only [step]
  split
  · exact h
  · rename_i hl
    have hl' : s.lock = none := by cases hh : s.lock <;> simp_all
    have hin : s.inside = [] := by rw [h.lockInside, hl']; rfl
    have hcur := h.idleCur hl'
    constructor
    · simp [hin]
    · simp
    · simp
    · intro e he
      simp only [indexed, bakList, Option.getD_some, List.nil_append] at he
      rcases mem_moveAll he with h' | h'
      · exact h.targeted e (by simp [indexed]; exact Or.inr h')
      · exact h.targeted e (by simp [indexed]; exact Or.inl h')
    · simp [names]
    · intro n
      have := h.exact n
      simp only [bakList, Option.getD_some, mem_names_moveAll] at *
      simp [names] at *
      rw [hcur] at this
      simp at this
      rw [← this]
      grind
    · simp [names]
    · simp only [bakList, Option.getD_some]
      exact nodup_moveAll h.nodupBak

theorem lock_of_inside {s : St} (h : Inv s) {p : Proc} (hp : s.inside.contains p = true) : s.lock = some p := by
  have := h.lockInside
  cases hl : s.lock with
  | none => rw [hl] at this; simp [this] at hp
  | some q => rw [hl] at this; simp [this] at hp; simp [hp]

theorem inside_of_lock {s : St} (h : Inv s) {p : Proc} (hp : s.lock = some p) : s.inside = [p] := by
  rw [h.lockInside, hp]; rfl

theorem inv_submit {s : St} (h : Inv s) (p : Proc) (l : Link) : Inv (step s (.submit p l)) := by
  simp only [step]
  split
  · rename_i hp
    have hl := lock_of_inside h hp
    constructor
    · exact h.lockInside
    · simp [hl]
    · exact h.heldBak
    · intro e he
      simp only [indexed, List.mem_append, mem_link, bakList] at he
      rcases he with (rfl | ⟨he, _⟩) | he
      · rfl
      · exact h.targeted e (by simp [indexed, he])
      · exact h.targeted e (by simp [indexed, bakList, he])
    · intro _ n
      have := h.insideJobs (by simp [hl]) n
      simp only [mem_names_link, List.mem_cons, this]
    · intro n
      have := h.exact n
      simp only [mem_names_link, List.mem_cons, bakList] at *
      grind
    · exact nodup_link h.nodupJobs
    · exact h.nodupBak
  · exact h

theorem inv_abort {s : St} (h : Inv s) (p : Proc) :
    Inv (if s.inside.contains p then
      { s with inside := s.inside.erase p, lock := unlock s.lock p, aborted := s.aborted ++ s.cur, cur := [] }
    else s) := by
  split
  · rename_i hp
    have hl := lock_of_inside h hp
    have hi := inside_of_lock h hl
    constructor
    · simp [hi, hl, unlock]
    · simp
    · simp [hl, unlock]
    · exact h.targeted
    · simp [hl, unlock]
    · intro n
      have := h.exact n
      simp only [bakList, List.mem_append] at *
      grind
    · exact h.nodupJobs
    · exact h.nodupBak
  · exact h

theorem inv_exitOk {s : St} (h : Inv s) (p : Proc) : Inv (step s (.exitOk p)) := by
  simp only [step]
  split
  · rename_i hp
    have hl := lock_of_inside h hp
    have hi := inside_of_lock h hl
    constructor
    · simp [hi, hl, unlock]
    · simp
    · simp [hl, unlock]
    · intro e he
      exact h.targeted e (by simp [indexed, bakList] at he ⊢; exact Or.inl he)
    · simp [hl, unlock]
    · intro n
      have := h.insideJobs (by simp [hl]) n
      simp [bakList, names] at *
      exact this
    · exact h.nodupJobs
    · simp [bakList, names]
  · exact h

theorem inv_killedEntering {s : St} (h : Inv s) (p : Proc) (mv : List Link) : Inv (step s (.killedEntering p mv)) := by
  simp only [step]
  split
  · exact h
  · rename_i hl
    have hl' : s.lock = none := by cases hh : s.lock <;> simp_all
    constructor
    · exact h.lockInside
    · exact h.idleCur
    · simp [hl']
    · intro e he
      simp only [indexed, bakList, Option.getD_some, List.mem_append, List.mem_filter] at he
      rcases he with ⟨he, _⟩ | he
      · exact h.targeted e (by simp [indexed, he])
      · rcases mem_moveAll he with h' | h'
        · exact h.targeted e (by simp [indexed, bakList]; exact Or.inr h')
        · exact h.targeted e (by simp [indexed]; exact Or.inl (List.mem_filter.1 h').1)
    · simp [hl']
    · intro n
      have := h.exact n
      rw [← this]
      simp only [bakList, Option.getD_some, mem_names_moveAll]
      simp only [mem_names, List.mem_filter]
      constructor
      · rintro (⟨e, ⟨he, _⟩, rfl⟩ | ⟨e, he, rfl⟩ | ⟨e, ⟨he, _⟩, rfl⟩)
        · exact Or.inl ⟨e, he, rfl⟩
        · exact Or.inr ⟨e, he, rfl⟩
        · exact Or.inl ⟨e, he, rfl⟩
      · rintro (⟨e, he, rfl⟩ | ⟨e, he, rfl⟩)
        · by_cases hm : mv.contains e.name = true
          · exact Or.inr (Or.inr ⟨e, ⟨he, hm⟩, rfl⟩)
          · exact Or.inl ⟨e, ⟨he, by simpa using hm⟩, rfl⟩
        · exact Or.inr (Or.inl ⟨e, he, rfl⟩)
    · exact List.Nodup.sublist (List.Sublist.map Entry.name List.filter_sublist) h.nodupJobs
    · simp only [bakList, Option.getD_some]
      exact nodup_moveAll h.nodupBak
  
theorem inv_killedExiting {s : St} (h : Inv s) (p : Proc) (rm : List Link) : Inv (step s (.killedExiting p rm)) := by
  simp only [step]
  split
  · rename_i hp
    have hl := lock_of_inside h hp
    have hi := inside_of_lock h hl
    have hb : ∀ x, x ∈ bakList { s with bak := s.bak.map (fun _ => (bakList s).filter (fun e => !rm.contains e.name)) }
        ↔ x ∈ (bakList s).filter (fun e => !rm.contains e.name) := by
      intro x
      cases hbk : s.bak <;> simp [bakList, hbk]
    constructor
    · simp [hi, hl, unlock]
    · simp
    · simp [hl, unlock]
    · intro e he
      simp only [indexed, List.mem_append] at he
      rcases he with he | he
      · exact h.targeted e (by simp [indexed]; exact Or.inl he)
      · have := (hb e).1 he
        exact h.targeted e (by simp [indexed]; exact Or.inr (List.mem_filter.1 this).1)
    · simp [hl, unlock]
    · intro n
      have hj := h.insideJobs (by simp [hl]) n
      have hbn : n ∈ names (bakList { s with bak := s.bak.map (fun _ => (bakList s).filter (fun e => !rm.contains e.name)) })
          ↔ n ∈ names ((bakList s).filter (fun e => !rm.contains e.name)) := by
        simp only [mem_names, hb]
      simp only [bakList] at hbn ⊢
      simp only [hbn, hj]
      simp
    · exact h.nodupJobs
    · have : bakList { s with bak := s.bak.map (fun _ => (bakList s).filter (fun e => !rm.contains e.name)) }
        = (bakList s).filter (fun e => !rm.contains e.name) ∨ bakList { s with bak := s.bak.map (fun _ => (bakList s).filter (fun e => !rm.contains e.name)) } = [] := by
        cases hbk : s.bak <;> simp [bakList, hbk]
      simp only [bakList] at this ⊢
      rcases this with h' | h'
      · rw [h']
        exact List.Nodup.sublist (List.Sublist.map Entry.name List.filter_sublist) h.nodupBak
      · rw [h']; simp [names]
  · exact h

theorem inv_step {s : St} (h : Inv s) (op : Op) : Inv (step s op) := by
  cases op with
  | enter p => exact inv_enter h p
  | submit p l => exact inv_submit h p l
  | exitOk p => exact inv_exitOk h p
  | exitExc p => simpa only [step] using inv_abort h p
  | killed p => simpa only [step] using inv_abort h p
  | killedEntering p mv => exact inv_killedEntering h p mv
  | killedExiting p rm => exact inv_killedExiting h p rm

theorem inv_run {s : St} (h : Inv s) (ops : List Op) : Inv (run ops s) := by
  induction ops generalizing s with
  | nil => exact h
  | cons op ops ih => exact ih (inv_step h op)

theorem inv_reach (ops : List Op) : Inv (run ops init) := inv_run inv_init ops

theorem run_append (a b : List Op) (s : St) : run (a ++ b) s = run b (run a s) := by
  simp [run, List.foldl_append]

theorem run_cons (a : Op) (b : List Op) (s : St) : run (a :: b) s = run b (step s a) := rfl

/-! ### the body of a block: nothing but the submissions of the holder has an effect -/

theorem step_keeps {s : St} (h : Inv s) {p : Proc} (hl : s.lock = some p) (op : Op) (hk : op.keeps p = true) :
    (step s op).lock = some p ∧ (step s op).bak = s.bak ∧ (step s op).plan = s.plan ∧
    (step s op).aborted = s.aborted ∧ (step s op).junk = s.junk ∧
    (∀ n, n ∈ (step s op).cur ↔ n ∈ s.cur ∨ n ∈ submitted p [op]) := by
  have hi := inside_of_lock h hl
  cases op with
  | enter q => simp [step, hl, submitted]
  | submit q l =>
    by_cases hq : q = p
    · subst hq; simp [step, hi, hl, submitted]; grind
    · simp [step, hi, hl, submitted, hq]
  | exitOk q =>
    have hq : ¬ q = p := by simpa [Op.keeps] using hk
    simp [step, hi, hl, submitted, hq]
  | exitExc q =>
    have hq : ¬ q = p := by simpa [Op.keeps] using hk
    simp [step, hi, hl, submitted, hq]
  | killed q =>
    have hq : ¬ q = p := by simpa [Op.keeps] using hk
    simp [step, hi, hl, submitted, hq]
  | killedEntering q mv => simp [step, hl, submitted]
  | killedExiting q rm =>
    have hq : ¬ q = p := by simpa [Op.keeps] using hk
    simp [step, hi, hl, submitted, hq]

theorem submitted_cons (p : Proc) (op : Op) (ops : List Op) :
    submitted p (op :: ops) = submitted p [op] ++ submitted p ops := by
  cases op <;> simp [submitted]
  split <;> simp

theorem body_run {s : St} (h : Inv s) {p : Proc} (hl : s.lock = some p) (ops : List Op)
    (hk : ∀ op, op ∈ ops → op.keeps p = true) :
    (run ops s).lock = some p ∧ (run ops s).bak = s.bak ∧ (run ops s).plan = s.plan ∧
    (run ops s).aborted = s.aborted ∧ (run ops s).junk = s.junk ∧
    (∀ n, n ∈ (run ops s).cur ↔ n ∈ s.cur ∨ n ∈ submitted p ops) := by
  induction ops generalizing s with
  | nil => simp [run, submitted, hl]
  | cons op ops ih =>
    obtain ⟨a1, a2, a3, a4, a5, a6⟩ := step_keeps h hl op (hk op (by simp))
    obtain ⟨b1, b2, b3, b4, b5, b6⟩ := ih (inv_step h op) a1 (fun o ho => hk o (by simp [ho]))
    rw [run_cons]
    refine ⟨b1, b2.trans a2, b3.trans a3, b4.trans a4, b5.trans a5, ?_⟩
    intro n
    rw [b6, a6, submitted_cons p op ops, List.mem_append, or_assoc]

/-- a link of a well-targeted, name-indexed folder is determined by its name -/
theorem mem_of_name {es : List Entry} (ht : ∀ e, e ∈ es → e.target = e.name) {e : Entry}
    (hn : e.name ∈ names es) (he : e.target = e.name) : e ∈ es := by
  obtain ⟨y, hy, hyn⟩ := mem_names.1 hn
  have := ht y hy
  have : y = e := by cases e; cases y; simp_all
  exact this ▸ hy

/-- state after `enter p` on an idle state -/
theorem enter_idle {s : St} (hl : s.lock = none) (p : Proc) :
    step s (.enter p) = { s with lock := some p, inside := p :: s.inside,
                                 bak := some (moveAll (bakList s) s.jobs), jobs := [], cur := [] } := by
  simp [step, hl]

theorem exitOk_inside {s : St} (h : Inv s) {p : Proc} (hl : s.lock = some p) :
    step s (.exitOk p) = { s with bak := none, inside := [], lock := none, plan := s.cur,
                                  aborted := [], junk := [], cur := [] } := by
  simp [step, inside_of_lock h hl, hl, unlock]

theorem abort_inside {s : St} (h : Inv s) {p : Proc} (hl : s.lock = some p) (fin : Op)
    (hfin : fin = Op.exitExc p ∨ fin = Op.killed p) :
    step s fin = { s with inside := [], lock := none, aborted := s.aborted ++ s.cur, cur := [] } := by
  rcases hfin with rfl | rfl <;> simp [step, inside_of_lock h hl, hl, unlock]

theorem killedExiting_inside {s : St} (h : Inv s) {p : Proc} (hl : s.lock = some p) (rm : List Link) :
    step s (.killedExiting p rm) =
      { s with bak := some ((bakList s).filter (fun e => !rm.contains e.name)), inside := [], lock := none,
               plan := s.cur, aborted := [], junk := names ((bakList s).filter (fun e => !rm.contains e.name)),
               cur := [] } := by
  have hb := h.heldBak (by simp [hl])
  obtain ⟨b, hb'⟩ := Option.isSome_iff_exists.1 hb
  simp [step, inside_of_lock h hl, hl, unlock, hb']

/-- the state `S` in which the block of `p` ends, for a run `enter p :: body` started after `pre` -/
theorem run_shape (pre body : List Op) (p : Proc)
    (hfree : (run pre init).lock = none) (hbody : ∀ op, op ∈ body → op.keeps p = true) :
    ∃ S : St, (∀ fin, run (pre ++ Op.enter p :: body ++ [fin]) init = step S fin) ∧ Inv S ∧
      S.lock = some p ∧
      S.bak = some (moveAll (bakList (run pre init)) (run pre init).jobs) ∧
      S.plan = (run pre init).plan ∧ S.aborted = (run pre init).aborted ∧ S.junk = (run pre init).junk ∧
      (∀ n, n ∈ S.cur ↔ n ∈ submitted p body) ∧
      (∀ e, e ∈ S.jobs ↔ (e.name ∈ submitted p body ∧ e.target = e.name)) := by
  have h0 := inv_reach pre
  have h1 := inv_step h0 (Op.enter p)
  have e1 := enter_idle hfree p
  have l1 : (step (run pre init) (Op.enter p)).lock = some p := by rw [e1]
  have c1 : (step (run pre init) (Op.enter p)).cur = [] := by rw [e1]
  have k1 : (step (run pre init) (Op.enter p)).bak = some (moveAll (bakList (run pre init)) (run pre init).jobs) := by rw [e1]
  have p1 : (step (run pre init) (Op.enter p)).plan = (run pre init).plan := by rw [e1]
  have a1 : (step (run pre init) (Op.enter p)).aborted = (run pre init).aborted := by rw [e1]
  have j1 : (step (run pre init) (Op.enter p)).junk = (run pre init).junk := by rw [e1]
  obtain ⟨b1, b2, b3, b4, b5, b6⟩ := body_run h1 l1 body hbody
  have h2 := inv_run h1 body
  have hrun : ∀ fin, run (pre ++ Op.enter p :: body ++ [fin]) init =
      step (run body (step (run pre init) (Op.enter p))) fin := by
    intro fin
    simp only [run_append, run_cons]
    rfl
  generalize run body (step (run pre init) (Op.enter p)) = S at *
  have hcur : ∀ n, n ∈ S.cur ↔ n ∈ submitted p body := by
    intro n; rw [b6, c1]; simp
  refine ⟨S, hrun, h2, b1, b2.trans k1, b3.trans p1, b4.trans a1, b5.trans j1, hcur, ?_⟩
  · have hj := h2.insideJobs (by simp [b1])
    have ht := h2.targeted
    intro e
    constructor
    · intro he
      refine ⟨?_, ht e (by simp [indexed, he])⟩
      exact (hcur _).1 ((hj e.name).1 (mem_names.2 ⟨e, he, rfl⟩))
    · rintro ⟨hn, het⟩
      have : e.name ∈ names S.jobs := by rw [hj, hcur]; exact hn
      exact mem_of_name (fun x hx => ht x (by simp [indexed, hx])) this het

end XpmVerif.XpIndex
