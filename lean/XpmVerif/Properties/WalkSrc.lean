import XpmVerif.Generated.WalkSrc
import XpmVerif.Model.GenPath
import XpmVerif.Model.Ident
/-! Source obligations for `Generated/WalkSrc.lean` (the plan of `ConfigWalk.__call__`, read off the Python AST on every run by
    harness/xv/translate/walksrc.py).  Two hand-written links say that the walkers of the models follow the plan `Walk.expected`
    — `Ident.visit` (sealing C14, pre-task collection C01/C03, reachability) and `GenPath.nodeRefs` (positions of generated paths,
    C17) are the interpreters of that plan — and `walk_plan_is_source` says that the plan in the source IS `Walk.expected`.
    A change of what is walked, in which order, or under which pushed key (seeded C17e: tasks walked one by one instead of through
    the list branch; a walk that stops crossing into the producing task) makes `walk_plan_is_source` fail; a shape outside the
    translator's subset (seeded C14-listfastpath) leaves the reference plan and the correspondence decides. -/
namespace XpmVerif.WalkSrc
open XpmVerif XpmVerif.Walk

/-! ## interpreters of a plan in the two models that walk configurations -/

/-- positions walked below a configuration by a plan (C17's model). -/
def stepRefs (enc : GenPath.Str → GenPath.Str) (lp : Bool) (nd : GenPath.Node) : Step → List GenPath.Ref
  | .args pushName _ =>
    if pushName then GenPath.refsArgs enc nd.args else (nd.args.map (fun kv => GenPath.refs enc kv.2)).flatten
  | .tasks w key viaList =>
    let l := match w with | .pre => nd.preTasks | .init => nd.initTasks
    let rs : List GenPath.Ref := if viaList && lp then GenPath.refsList enc 0 (l.map GenPath.Val.ref) else l.map (fun n => ([], n))
    match key with | some k => rs.map (GenPath.prep k.toList) | none => rs
  | .task _ _ => []

def nodeRefsPlan (enc : GenPath.Str → GenPath.Str) (p : Plan) (nd : GenPath.Node) : List GenPath.Ref :=
  (p.config.map (stepRefs enc p.listPushesIndex nd)).flatten

/-- children visited by a plan in the reachability walker of the identifier / sealing model (C04, C14, C01). -/
def stepVisit (rec_ : Nat → List Nat → List Nat) (n : Nat) (nd : Ident.Node) : Step → List Nat → List Nat
  | .args _ _, vis => Ident.walkVals rec_ (nd.args.map (·.value)) vis
  | .tasks .pre _ _, vis => Ident.walkNodes rec_ nd.preTasks vis
  | .tasks .init _ _, vis => Ident.walkNodes rec_ nd.initTasks vis
  | .task _ notSelf, vis => match nd.task with
    | some t => if notSelf && t = n then vis else rec_ t vis
    | none => vis

def visitPlan (p : Plan) (g : Ident.Graph) (stop : Nat → Bool) : Nat → Nat → List Nat → List Nat
  | 0, _, vis => vis
  | fuel + 1, n, vis =>
    if vis.contains n then vis else
    let vis := n :: vis
    if p.stopsWhenRefused && stop n then vis else
    p.config.foldl (fun vis s => stepVisit (visitPlan p g stop fuel) n (g.node n) s vis) vis

/-- C17: the positions walked below a configuration in the path model are those of the plan (arguments under their name,
    pre-tasks under `__pre_tasks__/<rank>`, init tasks under `__init_tasks__/<rank>`, in that order). -/
theorem nodeRefs_follows_plan (enc : GenPath.Str → GenPath.Str) (nd : GenPath.Node) :
    GenPath.nodeRefs enc nd = nodeRefsPlan enc expected nd := by
  have h1 : stepRefs enc true nd (.args true true) = GenPath.refsArgs enc nd.args := rfl
  have h2 : stepRefs enc true nd (.tasks .pre (some "__pre_tasks__") true)
      = (GenPath.refsList enc 0 (nd.preTasks.map GenPath.Val.ref)).map (GenPath.prep GenPath.preKey) := rfl
  have h3 : stepRefs enc true nd (.tasks .init (some "__init_tasks__") true)
      = (GenPath.refsList enc 0 (nd.initTasks.map GenPath.Val.ref)).map (GenPath.prep GenPath.initKey) := rfl
  have h4 : stepRefs enc true nd (.task true true) = [] := rfl
  show _ = ([stepRefs enc true nd (.args true true), stepRefs enc true nd (.tasks .pre (some "__pre_tasks__") true),
             stepRefs enc true nd (.tasks .init (some "__init_tasks__") true), stepRefs enc true nd (.task true true)]).flatten
  rw [h1, h2, h3, h4]
  simp only [GenPath.nodeRefs, List.flatten_cons, List.flatten_nil, List.append_nil, List.append_assoc]

/-- C14 / C01: the reachability walker of the identifier and sealing model visits what the plan says, in its order (a refused
    configuration is marked visited and not descended; the producing task is crossed when it is another object). -/
theorem visit_follows_plan (g : Ident.Graph) (stop : Nat → Bool) (fuel n : Nat) (vis : List Nat) :
    Ident.visit g stop fuel n vis = visitPlan expected g stop fuel n vis := by
  induction fuel generalizing n vis with
  | zero => rfl
  | succ fuel ih =>
    have hrec : Ident.visit g stop fuel = visitPlan expected g stop fuel := by
      funext m v; exact ih m v
    unfold Ident.visit visitPlan
    simp only [hrec, expected, List.foldl, stepVisit, Bool.true_and]
    split
    · rfl
    · split
      · rfl
      · cases h : (g.node n).task with
        | none => simp
        | some t => by_cases ht : t = n <;> simp [ht]

/-- the plan read off the source is the plan the models follow. -/
theorem walk_plan_is_source : Gen.walkPlanSrc = expected := by decide

/-- C14 (`seal_reaches_all` applies to the source's walker): with the plan of the source, the walker IS `Ident.visit`. -/
theorem visit_is_source (g : Ident.Graph) (stop : Nat → Bool) (fuel n : Nat) (vis : List Nat) :
    Ident.visit g stop fuel n vis = visitPlan Gen.walkPlanSrc g stop fuel n vis := by
  rw [walk_plan_is_source]; exact visit_follows_plan g stop fuel n vis

/-- C17 (`genpath_*` apply to the source's walker). -/
theorem nodeRefs_is_source (enc : GenPath.Str → GenPath.Str) (nd : GenPath.Node) :
    GenPath.nodeRefs enc nd = nodeRefsPlan enc Gen.walkPlanSrc nd := by
  rw [walk_plan_is_source]; exact nodeRefs_follows_plan enc nd

/-- the plan matters: walking the tasks one by one (no rank pushed) gives two pre-tasks the same position (seeded C17e). -/
example :
    nodeRefsPlan id { expected with config := [.tasks .pre (some "__pre_tasks__") false] } { preTasks := [1, 2] }
      = [(["__pre_tasks__".toList], 1), (["__pre_tasks__".toList], 2)] := by decide

end XpmVerif.WalkSrc
