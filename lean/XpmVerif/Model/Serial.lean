import XpmVerif.Model.Ident
/-! M5: serialisation of configuration graphs (`core/objects.py` `_outputjsonvalue`,
    `__get_objects__`/`__collect_objects__`, `load_objects`, `_objectFromParameters`,
    `fromParameters`; `core/serialization.py` `state_dict`/`from_state_dict`) and creation of runtime
    objects (`FromPython` walk with `ObjectStore`, `fromConfig`, `run.py::run`).
    Import-free apart from the graph model M0/M1, executable.

    Object identity.  A definition carries the python `id` of its object; the model uses the node
    index.  `load_objects` keeps a dictionary `id → new object`, so the loaded graph is an association
    list keyed by the *original* ids: "isomorphic" is then "equal at every id" plus "ids are distinct".

    Abstractions (canonicalised away by the harness on the implementation side): an enum value is one
    string `module.qualname:name` (the code writes three fields); `is_folder` of a serialised data path
    is not modelled; `module`/`type`/`typename` of a definition is one class name. -/
namespace XpmVerif.Serial
open XpmVerif.Ident

/-- what the current source does at the three places where the designs's findings F8 / F20 live
    (`Generated/SerialFlags.lean` is produced from the source on every run). -/
structure Flags where
  /-- `__get_objects__` writes `meta` whenever it is not `None` (false: only when truthy). -/
  metaWriteAll : Bool
  /-- `load_objects` restores `meta` whenever it is present and not `None` (false: only when truthy). -/
  metaReadAll : Bool
  /-- `load_objects` restores `init-tasks` on a configuration object. -/
  initRestored : Bool
  deriving Repr, DecidableEq

/-! ### JSON values -/

inductive JVal where
  | null
  | bool (b : Bool)
  | int (i : Int)
  | float (bits : Nat)
  | str (s : List Nat)
  | arr (l : List JVal)
  | obj (ks : List (List Nat)) (vs : List JVal)
  deriving Repr, Inhabited

def kType : List Nat := [116, 121, 112, 101]                         -- "type"
def kValue : List Nat := [118, 97, 108, 117, 101]                    -- "value"
def kIsFolder : List Nat := [105, 115, 95, 102, 111, 108, 100, 101, 114]   -- "is_folder"
def sPython : List Nat := [112, 121, 116, 104, 111, 110]             -- "python"
def sPath : List Nat := [112, 97, 116, 104]                          -- "path"
def sPathSer : List Nat := [112, 97, 116, 104, 46, 115, 101, 114, 105, 97, 108, 105, 122, 101, 100]  -- "path.serialized"
def sEnum : List Nat := [101, 110, 117, 109]                         -- "enum"
def sDict : List Nat := [100, 105, 99, 116]                          -- "dict"

mutual
/-- `ConfigInformation._outputjsonvalue`. -/
def encJ : Val → JVal
  | .none => .null
  | .bool b => .bool b
  | .int i => .int i
  | .float b => .float b
  | .str s => .str s
  | .enum s => .obj [kType, kValue] [.str sEnum, .str s]
  | .path s => .obj [kType, kValue] [.str sPath, .str s]
  | .list l => .arr (encJs l)
  | .dict ks vs =>
    -- `if "type" in items: return {"type": "dict", "value": items}` (fix 738540e of finding F9)
    if ks.contains kType then .obj [kType, kValue] [.str sDict, .obj ks (encJs vs)] else .obj ks (encJs vs)
  | .ref n => .obj [kType, kValue] [.str sPython, .int n]
def encJs : List Val → List JVal
  | [] => []
  | v :: vs => encJ v :: encJs vs
end

/-- a field of a definition: a data argument (`is_data`) holding a path goes through
    `context.serialize` and is written as a `path.serialized` object. -/
def encField (isData : Bool) (v : Val) : JVal :=
  match isData, v with
  | true, .path s => .obj [kType, kValue, kIsFolder] [.str sPathSer, .str s, .bool false]
  | _, v => encJ v

inductive Err where
  | duplicateId (id : Nat)
  | unknownClass
  | unknownObject (id : Nat)      -- `objects[id]`: KeyError
  | unhandledType                 -- `raise Exception("Unhandled type: %s", …)`
  | malformed                     -- a typed object without the expected members
  | unknownField                  -- `xpmtype.arguments[name]`: KeyError
  | requiredNone                  -- "Cannot set required attribute to None"
  | empty
  | noDataLoader                  -- `RuntimeError("No serialization path was given")` (Model/SerialData.lean)
  deriving Repr, DecidableEq

def lookupJ (k : List Nat) : List (List Nat) → List JVal → Option JVal
  | k' :: ks, v :: vs => if k = k' then some v else lookupJ k ks vs
  | _, _ => none

mutual
/-- `ConfigInformation._objectFromParameters`; `ids` = keys of the `objects` dictionary. -/
def decJ (ids : List Nat) : JVal → Except Err Val
  | .null => .ok .none
  | .bool b => .ok (.bool b)
  | .int i => .ok (.int i)
  | .float b => .ok (.float b)
  | .str s => .ok (.str s)
  | .arr l => (decJs ids l).map .list
  | .obj ks vs =>
    match lookupJ kType ks vs with
    | none => (decJs ids vs).map (.dict ks)
    | some (.str t) =>
      if t = sDict then decWrapped ids ks vs
      else if t = sPython then
        match lookupJ kValue ks vs with
        | some (.int i) => if ids.contains i.toNat then .ok (.ref i.toNat) else .error (.unknownObject i.toNat)
        | _ => .error .malformed
      else if t = sPath then
        match lookupJ kValue ks vs with
        | some (.str s) => .ok (.path s)
        | _ => .error .malformed
      else if t = sPathSer then
        match lookupJ kValue ks vs with
        | some (.str s) => .ok (.path s)      -- a `SerializedPath`; resolved with the data loader (identity here)
        | _ => .error .malformed
      else if t = sEnum then
        match lookupJ kValue ks vs with
        | some (.str s) => .ok (.enum s)
        | _ => .error .malformed
      else .error .unhandledType
    | some _ => .error .unhandledType
/-- `value["type"] == "dict"`: the items of the member `"value"` (a wrapped dictionary). -/
def decWrapped (ids : List Nat) : List (List Nat) → List JVal → Except Err Val
  | k :: ks, v :: vs =>
    if kValue = k then
      match v with
      | .obj ks' vs' => (decJs ids vs').map (.dict ks')
      | _ => .error .malformed
    else decWrapped ids ks vs
  | _, _ => .error .malformed
def decJs (ids : List Nat) : List JVal → Except Err (List Val)
  | [] => .ok []
  | j :: js =>
    match decJ ids j with
    | .error e => .error e
    | .ok v =>
      match decJs ids js with
      | .error e => .error e
      | .ok vs => .ok (v :: vs)
end

/-! ### which configurations a node refers to -/

mutual
def cfgRefs : Val → List Nat
  | .list l => cfgRefsL l
  | .dict _ vs => cfgRefsL vs
  | .ref n => [n]
  | _ => []
def cfgRefsL : List Val → List Nat
  | [] => []
  | v :: vs => cfgRefs v ++ cfgRefsL vs
end

def argRefs (nd : Node) : List Nat := cfgRefsL (nd.args.map (·.value))

def optL : Option Nat → List Nat
  | some t => [t]
  | none => []

/-- children visited by `__get_objects__`: values, task, pre-tasks, init tasks (in this order). -/
def succAll (g : Graph) (n : Nat) : List Nat :=
  let nd := g.node n
  argRefs nd ++ optL nd.task ++ nd.preTasks ++ nd.initTasks

/-- children visited by the `FromPython` walk (`recurse_task = False`). -/
def succInst (g : Graph) (n : Nat) : List Nat :=
  let nd := g.node n
  argRefs nd ++ nd.preTasks ++ nd.initTasks

/-! ### depth-first walk with a visited list: the shape shared by `__get_objects__`
    (`context.serialized`) and `ConfigWalk.__call__` (`visited` + `ObjectStore.constructed`) -/

inductive TEv where
  | enter (n : Nat)
  | exit (n : Nat)
  deriving Repr, DecidableEq

def dfs (succ : Nat → List Nat) : Nat → Nat → (List TEv × List Nat) → (List TEv × List Nat)
  | 0, _, st => st
  | fuel + 1, n, st =>
    if st.2.contains n then st else
    let st' := (succ n).foldl (fun s m => dfs succ fuel m s) (st.1 ++ [.enter n], n :: st.2)
    (st'.1 ++ [.exit n], st'.2)

def dfsList (succ : Nat → List Nat) (fuel : Nat) (roots : List Nat) (st : List TEv × List Nat) : List TEv × List Nat :=
  roots.foldl (fun s m => dfs succ fuel m s) st

def exitsOf : List TEv → List Nat
  | [] => []
  | .exit n :: r => n :: exitsOf r
  | .enter _ :: r => exitsOf r

def entersOf : List TEv → List Nat
  | [] => []
  | .enter n :: r => n :: entersOf r
  | .exit _ :: r => entersOf r

/-! ### definitions -/

structure Def where
  id : Nat
  cname : List Nat
  fields : List (List Nat × JVal)
  pre : Option (List Nat) := none
  init : Option (List Nat) := none
  mflag : Option Bool := none
  task : Option Nat := none
  deriving Repr, Inhabited

/-- a class of the library as `load_objects` sees it: `args` carry the state right after the
    parameter-less `__init__()` (clone of the default, else `None`/absent). -/
structure Cls where
  name : List Nat
  typeId : List Nat
  args : List Arg
  data : List (List Nat) := []       -- names of the `is_data` arguments
  deriving Repr, Inhabited

/-- a configuration graph together with the python class of each node. -/
structure SGraph where
  g : Graph
  cname : List (List Nat)
  deriving Repr, Inhabited

def SGraph.cls (sg : SGraph) (n : Nat) : List Nat := sg.cname.getD n []

/-- class lookup of `load_objects`: `getqualattr(mod, definition["type"])` where `mod` is the imported
    package module, or — for a class that does not live in a package — the module obtained by executing
    the *file recorded for that very definition*.  A class name of the model is therefore
    `module:qualname` for package classes and `<defining file>:qualname` otherwise; the module name under
    which a file happens to be registered (`__main__`/`_main_`, or the stem shared by two files in different
    directories) is not part of it: two files registered under one module name hold distinct classes. -/
def findCls (lib : List Cls) (name : List Nat) : Option Cls := lib.find? (fun c => c.name == name)

def isNone : Val → Bool
  | .none => true
  | _ => false

/-- `argument.name in self.values`: a value is missing exactly when it is required and was never given. -/
def present (a : Arg) : Bool := !isNone a.value || !a.required

def optList (l : List Nat) : Option (List Nat) := if l.isEmpty then none else some l

/-- `if self.meta: state_dict["meta"] = self.meta` (or `is not None` once F8 is repaired). -/
def writeMeta (fl : Flags) (m : Option Bool) : Option Bool :=
  if fl.metaWriteAll then m else (if m = some true then some true else none)

/-- `meta = definition.get("meta", None); if meta: xpminfo._meta = meta`. -/
def readMeta (fl : Flags) (m : Option Bool) : Option Bool :=
  if fl.metaReadAll then m else (if m = some true then some true else none)

def mkDef (fl : Flags) (lib : List Cls) (sg : SGraph) (n : Nat) : Def :=
  let nd := sg.g.node n
  let data := match findCls lib (sg.cls n) with | some c => c.data | none => []
  { id := n, cname := sg.cls n,
    fields := (nd.args.filter present).map (fun a => (a.name, encField (data.contains a.name) a.value)),
    pre := optList nd.preTasks, init := optList nd.initTasks,
    mflag := writeMeta fl nd.mflag, task := nd.task }

/-- order in which `__get_objects__` emits the objects needed by `roots` (one shared `serialized` set). -/
def serialOrder (g : Graph) (roots : List Nat) : List Nat :=
  exitsOf (dfsList (succAll g) (g.size + 1) roots ([], [])).1

/-- `__get_objects__([], context)` / `__json__` / the `objects` member of `state_dict`. -/
def serialize (fl : Flags) (lib : List Cls) (sg : SGraph) (roots : List Nat) : List Def :=
  (serialOrder sg.g roots).map (mkDef fl lib sg)

/-- `state_dict(context, value)`: the objects needed by `value` and the encoded value. -/
def stateDict (fl : Flags) (lib : List Cls) (sg : SGraph) (v : Val) : List Def × JVal :=
  (serialize fl lib sg (cfgRefs v), encJ v)

/-! ### loading as configuration objects -/

/-- one loaded object: its class and its state. -/
structure LObj where
  cname : List Nat
  node : Node
  deriving Repr, Inhabited

abbrev Loaded := List (Nat × LObj)

def firstDup : List Nat → Option Nat
  | [] => none
  | x :: xs => if xs.contains x then some x else firstDup xs

def decFields (ids : List Nat) : List (List Nat × JVal) → Except Err (List (List Nat × Val))
  | [] => .ok []
  | (k, j) :: r =>
    match decJ ids j with
    | .error e => .error e
    | .ok v =>
      match decFields ids r with
      | .error e => .error e
      | .ok vs => .ok ((k, v) :: vs)

def lookupV (k : List Nat) : List (List Nat × Val) → Option Val
  | [] => none
  | (k', v) :: r => if k = k' then some v else lookupV k r

/-- `o.__xpm__.set(name, v, bypass=True)` for every decoded field (`fields` is a dictionary). -/
def setFields (args : List Arg) (fields : List (List Nat × Val)) : List Arg :=
  args.map (fun a => match lookupV a.name fields with
    | some v => { a with value := v }
    | none => a)

def checkFields (args : List Arg) : List (List Nat × Val) → Except Err Unit
  | [] => .ok ()
  | (k, v) :: r =>
    match args.find? (fun a => a.name == k) with
    | none => .error .unknownField
    | some a => if a.required && isNone v then .error .requiredNone else checkFields args r

def checkIds (ids : List Nat) : List Nat → Except Err Unit
  | [] => .ok ()
  | x :: xs => if ids.contains x then checkIds ids xs else .error (.unknownObject x)

/-- second pass of `load_objects(as_instance=False)` for one definition. -/
def loadDef (fl : Flags) (lib : List Cls) (ids : List Nat) (d : Def) : Except Err LObj :=
  match findCls lib d.cname with
  | none => .error .unknownClass
  | some c =>
    match decFields ids d.fields with
    | .error e => .error e
    | .ok fs =>
      match checkFields c.args fs with
      | .error e => .error e
      | .ok _ =>
        let pre := d.pre.getD []
        let init := if fl.initRestored then d.init.getD [] else []
        match checkIds ids (pre ++ init ++ optL d.task) with
        | .error e => .error e
        | .ok _ =>
          .ok { cname := d.cname,
                node := { typeId := c.typeId, args := setFields c.args fs, task := d.task,
                          mflag := readMeta fl d.mflag, sealed := true, preTasks := pre, initTasks := init } }

def loadDefs (fl : Flags) (lib : List Cls) (ids : List Nat) : List Def → Except Err Loaded
  | [] => .ok []
  | d :: ds =>
    match loadDef fl lib ids d with
    | .error e => .error e
    | .ok o =>
      match loadDefs fl lib ids ds with
      | .error e => .error e
      | .ok r => .ok ((d.id, o) :: r)

/-- `ConfigInformation.load_objects(definitions, as_instance=False)`: first pass creates one object
    per definition (`assert definition["id"] not in objects`), second pass fills them. -/
def load (fl : Flags) (lib : List Cls) (defs : List Def) : Except Err Loaded :=
  let ids := defs.map (·.id)
  match firstDup ids with
  | some x => .error (.duplicateId x)
  | none => loadDefs fl lib ids defs

/-- `fromParameters(definitions, as_instance=False)`: the objects and the id of the last one. -/
def fromParameters (fl : Flags) (lib : List Cls) (defs : List Def) : Except Err (Loaded × Nat) :=
  match defs.getLast? with
  | none => .error .empty
  | some d => (load fl lib defs).map (fun l => (l, d.id))

/-- `from_state_dict(state)`: the objects and the decoded `data`. -/
def fromStateDict (fl : Flags) (lib : List Cls) (st : List Def × JVal) : Except Err (Loaded × Val) :=
  match load fl lib st.1 with
  | .error e => .error e
  | .ok l => (decJ (st.1.map (·.id)) st.2).map (fun v => (l, v))

def lookupObj (n : Nat) : Loaded → Option LObj
  | [] => none
  | (k, o) :: r => if n = k then some o else lookupObj n r

/-- the loaded objects as a graph of M1 (ids that were not loaded hold an empty node). -/
def toGraph (l : Loaded) (size : Nat) : Graph :=
  { nodes := (List.range size).map (fun n => match lookupObj n l with
      | some o => o.node
      | none => { typeId := [], args := [] }) }

/-- the loaded objects seen again as a configuration graph with classes: what a second
    `__get_objects__` (writing a graph that was itself loaded) works on.  The model's writer reads
    neither `sealed` nor the `loaded` flag of a configuration: nothing of a loaded configuration is
    left out. -/
def regraph (l : Loaded) (size : Nat) : SGraph :=
  { g := toGraph l size,
    cname := (List.range size).map (fun n => match lookupObj n l with
      | some o => o.cname
      | none => []) }

/-- write, load, write the loaded graph again, load again. -/
def reloadTwice (fl : Flags) (lib : List Cls) (sg : SGraph) (roots : List Nat) : Except Err (Loaded × List Def × Loaded) :=
  match load fl lib (serialize fl lib sg roots) with
  | .error e => .error e
  | .ok l1 =>
    let defs2 := serialize fl lib (regraph l1 sg.g.size) roots
    match load fl lib defs2 with
    | .error e => .error e
    | .ok l2 => .ok (l1, defs2, l2)

/-! ### vocabulary of the theorems -/

mutual
/-- no dictionary inside the value has a key `"type"` (finding F9: such a dictionary is read back as
    a typed object). -/
def noTypeKey : Val → Bool
  | .list l => noTypeKeyL l
  | .dict ks vs => !ks.contains kType && noTypeKeyL vs
  | _ => true
def noTypeKeyL : List Val → Bool
  | [] => true
  | v :: vs => noTypeKey v && noTypeKeyL vs
end

/-- state of an argument right after the parameter-less `__init__`: clone of the default, else `None`. -/
def initVal (a : Arg) : Val :=
  match a.default with
  | some d => d
  | none => .none

def reset (a : Arg) : Arg := { a with value := initVal a }

/-- what the current source makes of a node when it is written and read back as a configuration. -/
def reloadNode (fl : Flags) (nd : Node) : Node :=
  { nd with sealed := true, mflag := readMeta fl (writeMeta fl nd.mflag),
            initTasks := if fl.initRestored then nd.initTasks else [] }

/-! ### runtime objects: events observed by the task code -/

inductive Ev where
  | new (n : Nat)                    -- the runtime object of configuration `n` is created
  | init (n : Nat)                   -- its parameter-less `__init__`
  | set (n : Nat) (name : List Nat)  -- one parameter is assigned
  | postInit (n : Nat)               -- `__post_init__`
  | exec (n : Nat)                   -- `execute()` of a lightweight task
  | body (n : Nat)                   -- `task.execute()` in `run.py`
  deriving Repr, DecidableEq

def presentNames (nd : Node) : List (List Nat) := (nd.args.filter present).map (·.name)

/-- first occurrences, in order (`dict` keyed by `id`, `set` of completed ids). -/
def firstOcc : List Nat → List Nat → List Nat
  | _, [] => []
  | seen, x :: xs => if seen.contains x then firstOcc seen xs else x :: firstOcc (x :: seen) xs

def evOfT (g : Graph) : TEv → List Ev
  | .enter n => [.new n, .init n]
  | .exit n => (presentNames (g.node n)).map (.set n) ++ [.postInit n]

/-- result of `config.instance(context, objects=store)` (the graph is validated and sealed):
    `constructed` = configurations the store already holds an initialised object for. -/
structure InstRun where
  trace : List TEv       -- walk of `FromPython`
  store : List Nat       -- configurations with a constructed object afterwards
  preTasks : List Nat    -- `processor.pre_tasks` (insertion order)
  deriving Repr

def instanceWalk (g : Graph) (constructed : List Nat) (root : Nat) : InstRun :=
  let r := dfs (succInst g) (g.size + 1) root ([], constructed)
  { trace := r.1, store := r.2,
    preTasks := firstOcc [] ((exitsOf r.1).flatMap (fun n => (g.node n).preTasks)) }

/-- the attribute values `postprocess` assigns to each new runtime object, in the order the objects
    are completed; a reference denotes the runtime object of that configuration (the stub kept in the
    store), whether it was built earlier, is still being built (cycle) or was built by an earlier call. -/
def instanceAttrs (g : Graph) (constructed : List Nat) (root : Nat) : List (Nat × List (List Nat × Val)) :=
  (exitsOf (instanceWalk g constructed root).trace).map
    (fun n => (n, ((g.node n).args.filter present).map (fun a => (a.name, a.value))))

/-- the events of `fromConfig`: the walk, then every gathered pre-task is executed. -/
def instanceLog (g : Graph) (constructed : List Nat) (root : Nat) : List Ev :=
  let r := instanceWalk g constructed root
  r.trace.flatMap (evOfT g) ++ r.preTasks.map .exec

def fillEvents (d : Def) : List Ev :=
  .init d.id :: (d.fields.map (fun f => Ev.set d.id f.1) ++ [.postInit d.id])

def preList (defs : List Def) : List Nat := firstOcc [] (defs.flatMap (fun d => d.pre.getD []))

def initList (defs : List Def) : List Nat :=
  match defs.getLast? with
  | some d => d.init.getD []
  | none => []

/-- the events of `fromParameters(definitions, as_instance=True)`: objects are created, then filled
    and post-initialised one definition after the other, then the de-duplicated pre-tasks run, then the
    init tasks of the last definition. -/
def loadInstanceLog (defs : List Def) : List Ev :=
  defs.map (fun d => Ev.new d.id) ++ defs.flatMap fillEvents
    ++ (preList defs).map .exec ++ (initList defs).map .exec

def instanceValuesAux (ids : List Nat) : List Def → Except Err (List (Nat × List (List Nat × Val)))
  | [] => .ok []
  | d :: ds =>
    match decFields ids d.fields with
    | .error e => .error e
    | .ok fs =>
      match instanceValuesAux ids ds with
      | .error e => .error e
      | .ok r => .ok ((d.id, fs) :: r)

/-- the parameter values assigned to the runtime objects by `load_objects(as_instance=True)`
    (`setattr(o, name, _objectFromParameters(value, objects))`; a reference is the object of that id). -/
def instanceValues (defs : List Def) : Except Err (List (Nat × List (List Nat × Val))) :=
  instanceValuesAux (defs.map (·.id)) defs

/-- `run.py::run`: the task is rebuilt from `params.json`, then its body starts. -/
def runLog (defs : List Def) : List Ev :=
  loadInstanceLog defs ++ (match defs.getLast? with | some d => [.body d.id] | none => [])

/-! ### the third way runtime objects are made: a saved *value* loaded as instances
    (`serialization.from_state_dict(state, as_instance=True)` / `serialization.load(path, as_instance=True)`) -/

/-- the events of `ConfigInformation.load_objects(definitions, as_instance=True)` alone.
    First loop: one object per definition, in definition order (`cls.XPMValue.__new__`, no `__init__`).
    Second loop, again in definition order, for each definition: the parameter-less `__init__()`, `setattr`
    of every written field (`_objectFromParameters` only looks objects up: a reference is the object created
    by the first loop, whether or not it was filled yet), then `__post_init__()` — on EVERY definition,
    whatever refers to it (roots, inner nodes, upstream tasks behind a `task` link, lightweight tasks).
    `pre-tasks` / `init-tasks` / `task` members of a definition are not read at all when `as_instance`. -/
def loadObjectsLog (defs : List Def) : List Ev :=
  defs.map (fun d => Ev.new d.id) ++ defs.flatMap fillEvents

/-- the call log of `from_state_dict(state, as_instance=True)` (and of `load(path, as_instance=True)`, which
    reads `definition.json` and calls it): `load_objects(state["objects"], as_instance=True)`, then
    `_objectFromParameters(state["data"], objects)`, which builds lists / dictionaries and looks objects up —
    it calls nothing on them.  Unlike `fromParameters`, nothing is executed afterwards: no pre-task, no
    init task (`state_load_runs_no_pretask`). -/
def loadStateLog (defs : List Def) (_data : JVal) : List Ev := loadObjectsLog defs

/-- what `from_state_dict(state, as_instance=True)` returns and what the objects hold: the parameter values
    assigned to each runtime object (keyed by the id of its definition, in definition order) and the decoded
    `data`; in both, `.ref n` is THE runtime object created for definition `n` (`objects[n]`).
    `assert definition["id"] not in objects` is the duplicate check of the first loop. -/
def fromStateDictInst (st : List Def × JVal) : Except Err (List (Nat × List (List Nat × Val)) × Val) :=
  match firstDup (st.1.map (·.id)) with
  | some x => .error (.duplicateId x)
  | none =>
    match instanceValues st.1 with
    | .error e => .error e
    | .ok attrs => (decJ (st.1.map (·.id)) st.2).map (fun v => (attrs, v))

end XpmVerif.Serial
