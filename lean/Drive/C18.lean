import XpmVerif.Basic.JsonUtil
import XpmVerif.Model.Specs
import XpmVerif.Model.SpecsParse
import XpmVerif.Model.SpecsLex
/-! Line-protocol driver for M8 (C18).  `lake env lean --run Drive/C18.lean < ops.jsonl` -/
open Lean XpmVerif XpmVerif.J XpmVerif.Specs

def cudaOf (j : Json) : Cuda := { memory := natF j "memory", minMemory := natF j "min_memory" }
def cpuOf (j : Json) : Cpu := { memory := natF j "memory", cores := natF j "cores" }
def hostOf (j : Json) : Host :=
  { cuda := (arrF j "cuda").map cudaOf, cpu := cpuOf (fld j "cpu"), priority := intF j "priority",
    maxDuration := natF j "max_duration", minGpu := natF j "min_gpu" }
def reqOf (j : Json) : Req :=
  { gpus := (arrF j "gpus").map cudaOf, cpu := cpuOf (fld j "cpu"), duration := natF j "duration" }

def cudaJ (c : Cuda) : Json := Json.mkObj [("memory", c.memory), ("min_memory", c.minMemory)]
def reqJ (r : Req) : Json :=
  Json.mkObj [("gpus", Json.arr (r.gpus.map cudaJ).toArray),
    ("cpu", Json.mkObj [("memory", r.cpu.memory), ("cores", r.cpu.cores)]), ("duration", r.duration)]

def sfxOf : String → MemSuffix | "G" => .G | "M" => .M | _ => .none
def unitOf : String → DurUnit | "h" => .h | "hours" => .hours | "d" => .d | _ => .days
def itemOf (j : Json) : SpecItem :=
  if strF j "k" == "mem" then .mem (natF j "n") (sfxOf (strF j "sfx")) else .cores (natF j "n")
def termOf (j : Json) : Specs.Term :=
  match strF j "t" with
  | "duration" => .duration (natF j "n") (unitOf (strF j "u"))
  | "cuda" => .cuda ((arrF j "items").map itemOf) (optNat (fld j "mult"))
  | _ => .cpu ((arrF j "items").map itemOf)

def tokOf (j : Json) : Tok :=
  match strF j "k" with
  | "duration" => .kwDuration | "cuda" => .kwCuda | "cpu" => .kwCpu | "mem" => .kwMem | "cores" => .kwCores
  | "(" => .lpar | ")" => .rpar | "," => .comma | "=" => .eq | "*" => .star | "&" => .amp | "|" => .bar
  | "num" => .num (natF j "n")
  | "memlit" => .memlit (natF j "n") (sfxOf (strF j "sfx"))
  | _ => .unit (unitOf (strF j "u"))

/-- a fresh heap holding `a` at address 0 and `b` at address 3. -/
def heap2 (a b : Req) : Heap :=
  { cpus := fun i => if i = 1 then a.cpu else b.cpu
    gpus := fun i => if i = 2 then a.gpus else b.gpus
    reqs := fun i => if i = 0 then { cpuRef := 1, gpusRef := 2, duration := a.duration }
                     else { cpuRef := 4, gpusRef := 5, duration := b.duration }
    next := 6 }

def optJ {α} (f : α → Json) : Option α → Json | none => Json.null | some a => f a

def step (_ : Unit) (j : Json) : Unit × Json :=
  let out :=
    match strF j "op" with
    | "match" =>
      let host := hostOf (fld j "host")
      let reqs := (arrF j "reqs").map reqOf
      Json.mkObj [("each", Json.arr (reqs.map (fun r => optJ (fun (s : Int) => (s : Json)) (reqMatch r host))).toArray),
        ("union", optJ (fun (p : Int × Nat) => Json.arr #[(p.1 : Json), (p.2 : Json)]) (unionMatch reqs host))]
    | "and" =>
      -- the operation as the *code* performs it (copy kind from the source), observed on the heap
      let a := reqOf (fld j "a"); let b := reqOf (fld j "b")
      let h := heap2 a b
      let same := boolF j "same"
      let (h', n) := h.andOp andCopy 0 (if same then 0 else 3)
      Json.mkObj [("result", reqJ (h'.val n)), ("a_after", reqJ (h'.val 0)), ("b_after", reqJ (h'.val 3))]
    | "mul" =>
      let a := reqOf (fld j "a")
      let h := heap2 a a
      let (h', n) := h.mulOp mulCopy 0 (natF j "c")
      Json.mkObj [("result", reqJ (h'.val n)), ("a_after", reqJ (h'.val 0)), ("same_object", n == 0)]
    | "text" =>
      let alts := (arrF j "alts").map (fun c => (arr c).map termOf)
      (match evalAlt alts with
       | some rs => Json.mkObj [("reqs", Json.arr (rs.map reqJ).toArray)]
       | none => Json.mkObj [("reqs", Json.str "error")])
    | "parse" =>   -- token-level grammar, then the visitor semantics
      (match (parseToks ((arrF j "toks").map tokOf)).bind evalAlt with
       | some rs => Json.mkObj [("reqs", Json.arr (rs.map reqJ).toArray)]
       | none => Json.mkObj [("reqs", Json.str "error")])
    | "lextext" =>   -- character level: lexer, token grammar, visitor semantics
      (match evalText (strF j "text") with
       | some rs => Json.mkObj [("reqs", Json.arr (rs.map reqJ).toArray)]
       | none => Json.mkObj [("reqs", Json.str "error")])
    | "size" => Json.mkObj [("v", optJ (fun (n : Nat) => (n : Json)) (parseSize (strF j "text").toList))]
    | "timespan" => Json.mkObj [("v", optJ (fun (n : Nat) => (n : Json)) (parseTimespan (strF j "text").toList))]
    | op => Json.mkObj [("error", Json.str s!"bad-op {op}")]
  ((), out)

def main : IO Unit := J.loop step ()
