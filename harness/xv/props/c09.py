"""C09 — tokens are always given back and waiting jobs eventually run (one scheduler, in-process token)."""
from .. import common
from . import _sched, c09files

PROP = "C09"
MODULES = ["XpmVerif.Properties.C09"] + c09files.MODULES
GEN = dict(max_jobs=7, max_tokens=3, resubmit=False, markers=True, fail_p=0.3)
RULE = ('random workloads with up to 3 tokens, failures and aborted starts x random schedules + exhaustive schedules of 5 small workloads; monitors: at quiescence every token shows its total and no job whose request fits is left waiting; non-trivial = some dependency and >= 2 out-of-FIFO deliveries')


def prove(ctx):
    _sched.prove(ctx, MODULES)


def correspond(ctx):
    _sched.run(ctx, PROP, GEN, RULE, 1500, 25000)
    c09files.correspond(ctx)   # file-based token shared by several schedulers (model M2')


def search(ctx):
    _sched.search(ctx, PROP, GEN)
    c09files.search(ctx)


def run_witness(ctx, finding):
    c09files.run_witness(ctx, finding) or _sched.run_witness(ctx, PROP, finding)


def replay(ctx, obj):
    mine = {"failures": [x for x in obj.get("failures", []) if x["case"].get("engine") != "tokeng" and "scenario" not in x["case"]]}
    return max(c09files.replay(ctx, obj), _sched.replay_events(ctx, PROP, mine))
