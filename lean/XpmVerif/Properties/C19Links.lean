import XpmVerif.Proofs.FilterLinks
/-! C19 — the cleaning commands on a job store with symbolic links (`jobs/<type>/<id>` being a link to
    another job directory, dangling links, index links pointing to store links, chains of links).
    Model: `Model/CleanLinks.lean`.  The theorems of `Properties/C19.lean` are re-proved for these
    layouts; `LL.res k` is the directory the store entry `k` resolves to (`none`: dangling or absent). -/
namespace XpmVerif.C19Links
open XpmVerif.Filter

/-- **`jobs clean`, second sentence, with links in the store.** The command succeeds, leaves
    experiments and links untouched, and a job directory is gone afterwards iff `--perform`, the
    directory is the resolution of some link of the index of the experiment named by `--experiment`
    (if given), the filter selects it and its state is finished. -/
theorem clean_exact_links (rx : Rx) (sc : String → String) (LL : LLayout) (o : CleanOpts) :
    ∃ LL', cleanImplL Quirks.none rx sc LL o = some LL' ∧ LL'.xps = LL.xps ∧ LL'.links = LL.links ∧
      ∀ j, j ∈ LL'.jobs ↔
        j ∈ LL.jobs ∧ ¬ (o.perform = true ∧ inScopeL LL o j ∧ selected rx o j = true
                        ∧ isFinished (stateSpec j) = true) := by
  obtain ⟨LL', h, hx, hl, hm⟩ := mem_cleanImplL rx sc LL o
  refine ⟨LL', h, hx, hl, fun j => ?_⟩
  rw [hm j, ← inScope_view]
  simp [toRemove]

/-- **never a running job**, with links in the store (whatever points to it). -/
theorem clean_never_running_links (rx : Rx) (sc : String → String) (LL : LLayout) (o : CleanOpts) (j : Job)
    (hj : j ∈ LL.jobs) (hr : j.running = true) :
    ∃ LL', cleanImplL Quirks.none rx sc LL o = some LL' ∧ j ∈ LL'.jobs := by
  obtain ⟨LL', h, _, _, hm⟩ := mem_cleanImplL rx sc LL o
  exact ⟨LL', h, (hm j).2 ⟨hj, by simp [toRemove, running_not_finished j hr]⟩⟩

/-- **only with `--perform`**, with links in the store. -/
theorem clean_noop_without_perform_links (rx : Rx) (sc : String → String) (LL : LLayout) (o : CleanOpts)
    (h : o.perform = false) : cleanImplL Quirks.none rx sc LL o = some LL := by
  rw [cleanImplL_view, cleanImpl_none, clean_of_not_perform rx LL.view o h]
  rfl

/-- **`orphans --clean`, third sentence, with links in the store.** Experiments are untouched; a job
    directory is gone iff `--clean` and no live link of an index (or, unless `--ignore-old`, backup
    index) bears its name or resolves to it; a live store link is unlinked iff `--clean` and no live
    index link bears its name or resolves to a directory of that name (links listed before their
    targets, see the model); dangling links are left alone. -/
theorem orphans_exact_links (LL : LLayout) (o : OrphOpts) :
    (orphansImplL LL o).xps = LL.xps ∧
    (∀ j, j ∈ (orphansImplL LL o).jobs ↔ j ∈ LL.jobs ∧ ¬ (o.clean = true ∧ ¬ refL LL o j.key)) ∧
    (∀ l, l ∈ (orphansImplL LL o).links ↔
      l ∈ LL.links ∧ ¬ (o.clean = true ∧ (LL.res l.key).isSome = true ∧ ¬ refL LL o l.key)) :=
  ⟨rfl, mem_orphansImplL_jobs LL o, mem_orphansImplL_links LL o⟩

/-- a directory reached from an experiment only *through a store link* (the index names the link) is
    referenced: `orphans --clean` keeps both the link and the directory (F18/F24 fixed). -/
theorem orphans_keeps_through_link (LL : LLayout) (o : OrphOpts) (x : Xp) (k : Key) (j : Job)
    (hx : x ∈ LL.xps) (hk : k ∈ x.index) (hr : LL.res k = some j) (hj : j ∈ LL.jobs) :
    j ∈ (orphansImplL LL o).jobs ∧ ∀ l ∈ LL.links, l.key = k → l ∈ (orphansImplL LL o).links := by
  refine ⟨(mem_orphansImplL_jobs LL o j).2 ⟨hj, fun ⟨_, hn⟩ => hn ⟨x, hx, k, Or.inl hk, j, hr, Or.inr rfl⟩⟩, ?_⟩
  intro l hl hlk
  exact (mem_orphansImplL_links LL o l).2 ⟨hl, fun ⟨_, _, hn⟩ => hn ⟨x, hx, k, Or.inl hk, j, hr, Or.inl hlk.symm⟩⟩

/-- **histories** on a store with links: experiments untouched, no job directory and no link appears,
    and an unfinished job directory named by some index is never removed. -/
theorem history_safe_links (rx : Rx) (sc : String → String) (cs : List Cmd) (LL : LLayout) :
    (runCmdsL Quirks.none rx sc LL cs).xps = LL.xps ∧
    (∀ j, j ∈ (runCmdsL Quirks.none rx sc LL cs).jobs → j ∈ LL.jobs) ∧
    (∀ l, l ∈ (runCmdsL Quirks.none rx sc LL cs).links → l ∈ LL.links) ∧
    (∀ j, j ∈ LL.jobs → isFinished (stateSpec j) = false → (∃ x ∈ LL.xps, j.key ∈ x.index) →
        j ∈ (runCmdsL Quirks.none rx sc LL cs).jobs) := by
  induction cs generalizing LL with
  | nil => exact ⟨rfl, fun _ h => h, fun _ h => h, fun _ h _ _ => h⟩
  | cons c cs ih =>
    have hx := runCmdL_xps rx sc LL c
    obtain ⟨i1, i2, i3, i4⟩ := ih (runCmdL Quirks.none rx sc LL c)
    simp only [runCmdsL, List.foldl_cons] at i1 i2 i3 i4 ⊢
    refine ⟨i1.trans hx, fun j hj => runCmdL_jobs rx sc LL c j (i2 j hj),
      fun l hl => runCmdL_links rx sc LL c l (i3 l hl), fun j hj hf hi => ?_⟩
    exact i4 j (runCmdL_keeps rx sc LL c j hj hf hi) hf (by rw [hx]; exact hi)

/-- without links the extended model is the model of `Properties/C19.lean`. -/
theorem noLinks_clean (q : Quirks) (rx : Rx) (sc : String → String) (L : Layout) (o : CleanOpts) :
    (cleanImplL q rx sc L.noLinks o).map (·.jobs) = (cleanImpl q rx sc L.noLinks.view o).map (·.jobs) := by
  rw [cleanImplL_view]; cases cleanImpl q rx sc L.noLinks.view o <;> rfl

/-! non-vacuity: `a.t/new` is a directory, `a.t/old -> a.t/new` a link (left by `deprecated list --fix`),
    `a.t/gone -> a.t/nothing` dangling, `c.t/x` an orphan directory, `c.t/lx -> c.t/x` an orphan link;
    experiment `e1` names the *link* `a.t/old`. -/
def jNew : Job := { ty := "a.t", id := "new", done := true, failed := false, pid := false, alive := false, tags := [] }
def jX : Job := { ty := "c.t", id := "x", done := true, failed := false, pid := false, alive := false, tags := [] }
def LL0 : LLayout :=
  { jobs := [jNew, jX],
    links := [⟨("a.t", "old"), ("a.t", "new")⟩, ⟨("a.t", "gone"), ("a.t", "nothing")⟩, ⟨("c.t", "lx"), ("c.t", "x")⟩],
    xps := [{ name := "e1", index := [("a.t", "old")], backup := none }] }

example : LL0.res ("a.t", "old") = some jNew ∧ LL0.res ("a.t", "gone") = none := by decide
/-- `orphans --clean` keeps `a.t/new` (referenced through the link), removes `c.t/x`, unlinks `c.t/lx`, keeps the dangling link. -/
example : (orphansImplL LL0 { clean := true }).jobs = [jNew] ∧
    (orphansImplL LL0 { clean := true }).links = [⟨("a.t", "old"), ("a.t", "new")⟩, ⟨("a.t", "gone"), ("a.t", "nothing")⟩] := by decide
/-- `jobs clean --experiment e1 --perform` removes the directory the index link resolves to, and only it. -/
example : (cleanImplL Quirks.none (fun _ _ => false) id LL0 { experiment := some "e1", perform := true }).map (·.jobs) = some [jX] := by decide

end XpmVerif.C19Links
