import XpmVerif.Basic.JsonUtil
import XpmVerif.Model.Clean
import XpmVerif.Model.CleanLinks
import XpmVerif.Model.CleanPartial
import XpmVerif.Generated.FilterSrc
/-! Line-protocol driver for M9 (C19).  `lake env lean --run Drive/C19.lean < ops.jsonl` -/
open Lean XpmVerif XpmVerif.J XpmVerif.Filter XpmVerif.Gen

def quirksOf (j : Json) : Quirks :=
  { memberObj := boolF j "memberObj", regexRaises := boolF j "regexRaises",
    xpByScript := boolF j "xpByScript", failedFirst := boolF j "failedFirst" }

def varOf (j : Json) : Var :=
  match str j with
  | "@state" => .state
  | "@name" => .name
  | t => .tag t

def atomOf (j : Json) : Atom :=
  let v := varOf (fld j "v")
  match strF j "k" with
  | "eqv" => .eqVar v (varOf (fld j "w"))
  | "eqc" => .eqConst v (strF j "c")
  | "in" => .isIn v ((arrF j "cs").map str)
  | "notin" => .notIn v ((arrF j "cs").map str)
  | _ => .regex v (strF j "p")

def opOf (j : Json) : Op := if str j == "and" then .and else .or

def exprOf (j : Json) : Expr :=
  { first := atomOf (fld j "first"),
    rest := (arrF j "rest").map (fun p => match arr p with
      | [o, a] => (opOf o, atomOf a)
      | _ => (.and, atomOf p)) }

def optStr (j : Json) : Option String := if isNull j then none else some (str j)
def pairOf (j : Json) : String × String := match arr j with | [a, b] => (str a, str b) | _ => ("", "")

def infoOfJson (j : Json) : Info :=
  { state := optStr (fld j "state"), name := strF j "name", tags := (arrF j "tags").map pairOf }

/-- table of the regular-expression matches computed by Python's `re` for the pairs of this case. -/
def rxOf (j : Json) : Rx :=
  let tbl := (arr j).map (fun t => match arr t with | [p, v, b] => (str p, str v, bool b) | _ => ("", "", false))
  fun pat v => tbl.any (fun t => t.1 == pat && t.2.1 == v && t.2.2)

def jobOf (j : Json) : Job :=
  { ty := strF j "ty", id := strF j "id", done := boolF j "done", failed := boolF j "failed",
    pid := boolF j "pid", alive := boolF j "alive", tags := (arrF j "tags").map pairOf }

def xpOf (j : Json) : Xp :=
  { name := strF j "name", index := (arrF j "index").map pairOf,
    backup := if isNull (fld j "backup") then none else some ((arrF j "backup").map pairOf) }

def layoutOf (j : Json) : Layout := { jobs := (arrF j "jobs").map jobOf, xps := (arrF j "xps").map xpOf }

def linkOf (j : Json) : Link := match arr j with
  | [a, b, c, d] => { key := (str a, str b), target := (str c, str d) }
  | _ => { key := ("", ""), target := ("", "") }

def llayoutOf (j : Json) : LLayout :=
  { jobs := (arrF j "jobs").map jobOf, links := (arrF j "links").map linkOf, xps := (arrF j "xps").map xpOf }

def linksJ (l : List Link) : Json := Json.arr (l.map (fun x => Json.str (x.key.1 ++ "/" ++ x.key.2))).toArray

def hjobOf (j : Json) : HJob :=
  { job := jobOf j, hz := { noTags := boolF j "noTags", nonStr := (arrF j "nonStr").map str } }

def cleanOptsOf (j : Json) : CleanOpts :=
  { experiment := optStr (fld j "experiment"),
    filter := if isNull (fld j "filter") then none else some (exprOf (fld j "filter")),
    perform := boolF j "perform" }

def orphOptsOf (j : Json) : OrphOpts := { clean := boolF j "clean", ignoreOld := boolF j "ignore_old" }

def cmdOf (j : Json) : Cmd :=
  if strF j "cmd" == "orphans" then .orphans (orphOptsOf j) else .clean (cleanOptsOf j)

/-- `rsplit(".", 1)[-1]` -/
def scriptOf (s : String) : String := (s.splitOn ".").getLast?.getD s

def optBoolJ : Option Bool → Json | none => Json.null | some b => Json.bool b
def optStrJ : Option String → Json | none => Json.null | some s => Json.str s
def keysJ (l : List Job) : Json := Json.arr (l.map (fun j => Json.str (j.ty ++ "/" ++ j.id))).toArray
def hkeysJ (l : List HJob) : Json := keysJ (l.map (·.job))
def stJ (s : Option JState) : Json := optStrJ (s.map JState.name)

def step (_ : Unit) (j : Json) : Unit × Json :=
  let q := quirksOf (fld j "q")
  -- `"src": true`: the implementation side is the definitions regenerated from the source (`Generated/FilterSrc.lean`)
  let src := boolF j "src"
  let rx := rxOf (fld j "rx")
  let out :=
    match strF j "op" with
    | "filter" =>
      let e := exprOf (fld j "expr")
      let infos := (arrF j "infos").map infoOfJson
      Json.mkObj [("impl", Json.arr (infos.map (fun i => optBoolJ (if src then evalSrc rx e i else evalImpl q rx e i))).toArray),
        ("spec", Json.arr (infos.map (fun i => Json.bool (evalSpec rx e i))).toArray)]
    | "state" =>
      let jobs := (arrF j "jobs").map jobOf
      Json.mkObj [("impl", Json.arr (jobs.map (fun x => stJ (if src then stateSrc x else stateImpl q x))).toArray),
        ("spec", Json.arr (jobs.map (fun x => stJ (stateSpec x))).toArray)]
    | "clean" =>
      let L := layoutOf (fld j "layout")
      let o := cleanOptsOf (fld j "opts")
      let spec := clean rx L o
      (match (if src then cleanSrc rx scriptOf L o else cleanImpl q rx scriptOf L o) with
       | none => Json.mkObj [("raised", true), ("remaining", keysJ L.jobs), ("spec_remaining", keysJ spec.jobs)]
       | some L' => Json.mkObj [("raised", false), ("remaining", keysJ L'.jobs), ("spec_remaining", keysJ spec.jobs)])
    | "orphans" =>
      let L := layoutOf (fld j "layout")
      let o := orphOptsOf (fld j "opts")
      Json.mkObj [("remaining", keysJ (if src then orphansSrc L o else orphansImpl L o).jobs),
        ("referenced", keysJ (L.jobs.filter (referenced L o)))]
    | "cleanP" =>
      -- jobs in enumeration order, with what makes the filter raise on them; policy read from the source
      let L : HLayout := { jobs := (arrF (fld j "layout") "jobs").map hjobOf, xps := (arrF (fld j "layout") "xps").map xpOf }
      let o := cleanOptsOf (fld j "opts")
      let r := cleanPSrc rx L o
      Json.mkObj [("raised", r.1), ("remaining", hkeysJ r.2.jobs),
        ("kleene", Json.arr (L.jobs.map (fun hj => match o.filter with
          | none => Json.str "T"
          | some e => Json.str (match evalK rx e (infoOf stateSpec hj.job) hj.hz with | .t => "T" | .f => "F" | .e => "E"))).toArray)]
    | "cleanL" =>
      let LL := llayoutOf (fld j "layout")
      let o := cleanOptsOf (fld j "opts")
      (match cleanImplL q rx scriptOf LL o with
       | none => Json.mkObj [("raised", true), ("remaining", keysJ LL.jobs), ("links", linksJ LL.links)]
       | some L' => Json.mkObj [("raised", false), ("remaining", keysJ L'.jobs), ("links", linksJ L'.links)])
    | "orphansL" =>
      let LL := llayoutOf (fld j "layout")
      let o := orphOptsOf (fld j "opts")
      let r := orphansImplL LL o
      Json.mkObj [("remaining", keysJ r.jobs), ("links", linksJ r.links),
        ("live", linksJ (LL.links.filter (fun l => (LL.res l.key).isSome)))]
    | "history" =>
      let L := layoutOf (fld j "layout")
      let cs := (arrF j "cmds").map cmdOf
      Json.mkObj [("remaining", keysJ (if src then runCmdsSrc rx scriptOf L cs else runCmds q rx scriptOf L cs).jobs)]
    | op => Json.mkObj [("error", Json.str s!"bad-op {op}")]
  ((), out)

def main : IO Unit := J.loop step ()
