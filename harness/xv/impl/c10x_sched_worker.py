"""Worker (C10, real scheduler): jobs launched by the real `Scheduler` (`experiment` -> `aio_submit` -> `aio_start` ->
`CommandLineJob.aio_run`) through launchers whose *submission call returns late*, as `sbatch`/`ssh` do.

usage: python -m xv.impl.c10x_sched_worker <in.json> <out.json>
in:  {"pkgdir", "module", "ws", "pythonpath", "case": {"id", "jobs": [job], "runs": [submit kind per run]}}
     job: {"x": int, "first": "ok"|"exc"|"exit3"|"exit0" (how the FIRST execution of the body ends; later ones succeed),
           "hold": seconds the body lasts}
     submit kind (public extension points only: a `DirectLauncher` subclass whose `processbuilder()` returns a
     `LocalProcessBuilder` subclass; `start()` spawns the process at once and gives the hand back ...):
       "prompt"      ... at once (the stock local launcher)
       "delay:<s>"   ... <s> seconds later
       "until-end"   ... once the job process is gone (or has been asleep without using CPU for QUIET seconds, or after
                     MAXWAIT seconds) plus a short pause
out: {"runs": [{"kind", "error", "failed_experiment", "jobs": [obs]}]}
     obs: {"x", "state", "done", "failed", "pid", "pid_content", "pid_alive", "lockfree", "bodylog", "submit_returned_after",
           "process_gone_at_return"}   -- public observables: files of the job directory, `flock` probe, task-side log
"""
import json
import logging
import os
import sys
import time
import traceback
from pathlib import Path

MAXWAIT = 12.0  # cap of "until-end"
QUIET = 1.5     # "until-end" also returns once the job process has slept this long without using any CPU: it is waiting for
                # something (with the unchanged code: for the scheduler), so waiting longer for its end would only cost time
PAUSE = 0.3
GONE_WAIT = 20.0  # how long an observed pid-file owner is given to disappear before the case is declared unobservable


def _gone(pid):
    import psutil
    try:
        return psutil.Process(pid).status() == psutil.STATUS_ZOMBIE
    except psutil.NoSuchProcess:
        return True
    except Exception:
        return False


def main():
    logging.disable(logging.CRITICAL)
    data = json.loads(Path(sys.argv[1]).read_text())
    case, ws = data["case"], Path(data["ws"])
    os.environ["XPM_WORKDIR"] = str(ws / "xpmwork")
    sys.path.insert(0, data["pkgdir"])
    import importlib
    import fasteners
    Body = importlib.import_module(data["module"] + ".tasks").Body
    from experimaestro import experiment
    from experimaestro.scheduler import FailedExperiment
    from experimaestro.connectors.local import LocalConnector, LocalProcessBuilder
    from experimaestro.launchers.direct import DirectLauncher

    returned = {}  # script path -> (seconds start() took, job process gone when it returned)

    class LateReturnBuilder(LocalProcessBuilder):
        kind = "prompt"

        def start(self, task_mode=False):
            t0 = time.time()
            process = super().start(task_mode)
            gone, why = False, self.kind.split(":")[0]
            if self.kind.startswith("delay:"):
                time.sleep(float(self.kind.split(":")[1]))
            elif self.kind == "until-end":
                why = self.wait_end(process.tospec().get("pid"), t0)
                gone = why == "gone"
                time.sleep(PAUSE)
            returned[str(self.command[-1])] = (round(time.time() - t0, 2), gone, why)
            return process

        @staticmethod
        def wait_end(pid, t0):
            """gone: the process ended | quiet: it has been asleep without using any CPU for QUIET seconds (it waits for
            something -- no body of these cases sleeps that long) | cap"""
            import psutil
            try:
                ps = psutil.Process(pid)
            except psutil.NoSuchProcess:
                return "gone"
            last, since = None, None
            while time.time() - t0 < MAXWAIT:
                time.sleep(0.05)
                if _gone(pid):
                    return "gone"
                try:
                    ct = ps.cpu_times()
                    cpu, asleep = ct.user + ct.system, ps.status() == psutil.STATUS_SLEEPING
                except psutil.Error:
                    continue
                now = time.time()
                if asleep and cpu == last:
                    since = since or now
                    if now - since >= QUIET:
                        return "quiet"
                else:
                    since, last = None, cpu
            return "cap"

    def launcher_for(kind):
        class B(LateReturnBuilder):
            pass

        B.kind = kind

        class L(DirectLauncher):
            def processbuilder(self):
                return B()

        return L(LocalConnector.instance())

    out = {"runs": []}
    for kind in case["runs"]:
        run = {"kind": kind, "error": None, "failed_experiment": False, "jobs": []}
        tasks = []
        returned.clear()
        try:
            try:
                with experiment(ws, "c10x", port=-1) as xp:
                    xp.setenv("PYTHONPATH", data["pythonpath"])
                    launcher = launcher_for(kind)
                    outs = []
                    for js in case["jobs"]:
                        t = Body(x=js["x"], first=js["first"], hold=js["hold"])
                        outs.append(t.submit(launcher=launcher))
                        tasks.append(t)
            except FailedExperiment:
                run["failed_experiment"] = True
            for js, t in zip(case["jobs"], tasks):
                job = t.__xpm__.job
                o = {"x": js["x"], "state": job.state.name}
                pidpath = Path(job.pidpath)
                o["pid_content"], o["pid_alive"] = None, None
                if pidpath.exists():
                    # the property speaks of a job that has ended: give the process named by the file the time to disappear
                    try:
                        o["pid_content"] = pidpath.read_text()
                        pid = json.loads(o["pid_content"])["pid"]
                        t0 = time.time()
                        while not _gone(pid) and time.time() - t0 < GONE_WAIT:
                            time.sleep(0.1)
                        o["pid_alive"] = not _gone(pid)
                    except Exception:
                        pass
                    time.sleep(0.2)
                failed = Path(job.failedpath)
                lk = fasteners.InterProcessLock(str(job.lockpath))
                free = lk.acquire(blocking=False)
                if free:
                    lk.release()
                bl = Path(job.path) / "bodylog"
                r = returned.get(str(Path(job.path) / f"{job.name}.py")) or next(
                    (v for k, v in returned.items() if Path(k).parent == Path(job.path)), None)
                o.update(done=Path(job.donepath).exists(), failed=failed.read_text() if failed.exists() else None,
                         pid=pidpath.exists(), lockfree=bool(free), bodylog=bl.read_text().split() if bl.exists() else [],
                         submit_returned_after=r[0] if r else None, process_gone_at_return=r[1] if r else None,
                         submit_returned_because=r[2] if r else None,
                         launched=r is not None)
                run["jobs"].append(o)
        except BaseException:
            run["error"] = traceback.format_exc()[-1500:]
        out["runs"].append(run)
    Path(sys.argv[2]).write_text(json.dumps(out))


if __name__ == "__main__":
    main()
