import XpmVerif.Proofs.FileTokensNames
import XpmVerif.Properties.C08Files
/-! C08, file-based part, *who a token file names* (model `Model/FileTokensNames.lean` = M2' whose `reclaim` reads the
    holder's designation written in the token file and resolves it in the watching process).  `ReachableN nm cfg s` = any
    finite sequence of steps from the empty directory, for any number of processes, each process reading designations its
    own way (`nm.resolve p`).  The capacity statements of `C08Files` hold for every naming in which all processes resolve the
    designation of a job alike and the writer reaches its own job (`DesignationsAbsolute`, `WriterResolves`); they fail, with
    a kernel-checked run, for a relative path resolved against another working directory.  The check ties the hypothesis to the
    code: the designation the real `TokenFile.create` writes is resolved by the model (`resolvePath`) and by real processes
    in different working directories, for every way of naming a workspace the API and the command line offer. -/
namespace XpmVerif.C08Names
open XpmVerif.FileTokens XpmVerif.FileTokensNames

variable {δ σ : Type}

/-- C08 "at no instant do the jobs … hold more than the token's total … whatever … the number of schedulers or processes
    sharing the token directory", with the name in the token file made explicit: when every process resolves the designation
    of a holder alike and the writer reaches its own job through it, the amounts recorded by the token files never exceed the
    total. -/
theorem disk_capacity_named (nm : Naming δ) (ha : DesignationsAbsolute nm) (hw : WriterResolves nm) (cfg : Cfg) (s : St)
    (r : ReachableN nm cfg s) : diskSum cfg s ≤ cfg.total :=
  C08Files.disk_capacity cfg s (reachableN_reachable nm (faithful_of nm ha hw) cfg s r)

/-- C08 stated on the jobs, same hypotheses: the active jobs (token taken, process not gone) all have their token file, are
    pairwise distinct and together ask at most the total. -/
theorem running_capacity_named (nm : Naming δ) (ha : DesignationsAbsolute nm) (hw : WriterResolves nm) (cfg : Cfg) (s : St)
    (r : ReachableN nm cfg s) :
    (∀ f ∈ s.active, f ∈ names s.disk) ∧ s.active.Nodup ∧ sumReq cfg.req s.active ≤ cfg.total :=
  C08Files.running_capacity cfg s (reachableN_reachable nm (faithful_of nm ha hw) cfg s r)

/-- "a token file is never deleted while the process it names is alive": under the same hypotheses a watcher (of any process)
    can delete the token file of `f` only when `f` is not active, and the file of an active job is on disk. -/
theorem token_file_kept_while_holder_alive (nm : Naming δ) (ha : DesignationsAbsolute nm) (hw : WriterResolves nm) (cfg : Cfg)
    (s : St) (r : ReachableN nm cfg s) (f : Name) (hf : f ∈ s.active) :
    f ∈ names s.disk ∧ ∀ p, enabledN nm s (.reclaim p f) = false := by
  refine ⟨(running_capacity_named nm ha hw cfg s r).1 f hf, fun p => ?_⟩
  simp [enabledN, holderGone_faithful nm (faithful_of nm ha hw), hf]

/-- the two hypotheses together say exactly that every process reads the name in the file of `f` as `f`; then the named
    model and M2' have the same reachable states (nothing is lost by the naming layer). -/
theorem named_reachable_iff (nm : Naming δ) (ha : DesignationsAbsolute nm) (hw : WriterResolves nm) (cfg : Cfg) (s : St) :
    ReachableN nm cfg s ↔ Reachable cfg s :=
  ⟨reachableN_reachable nm (faithful_of nm ha hw) cfg s, reachable_reachableN nm (faithful_of nm ha hw) cfg s⟩

/-- designations that are absolute paths are resolved alike by all processes, whatever their working directories. -/
theorem absolute_paths_resolve_alike (w : World σ) (desig : Name → Desig σ) (h : ∀ f, (desig f).isAbs = true) :
    DesignationsAbsolute (pathNaming w desig) :=
  fun p q f => resolvePath_abs w p q (desig f) (h f)

/-- `Workspace.__init__`'s `path.absolute()`: when the writer `wr f` of each token file makes the path it uses itself
    (`d f`, through which it reaches its job) absolute in its own working directory before writing it, both hypotheses hold,
    hence the capacity statements, whatever the working directories of the processes and however the workspace was named. -/
theorem writer_absolute_suffices (w : World σ) (d : Name → Desig σ) (wr : Name → Proc)
    (hown : ∀ f, resolvePath w (wr f) (d f) = some f) :
    let nm := pathNaming w fun f => absolute (w.cwd (wr f)) (d f)
    DesignationsAbsolute nm ∧ WriterResolves nm ∧
      ∀ cfg s, ReachableN nm cfg s → diskSum cfg s ≤ cfg.total ∧ sumReq cfg.req s.active ≤ cfg.total := by
  intro nm
  have hf : Faithful nm := fun p f => by
    show resolvePath w p (absolute (w.cwd (wr f)) (d f)) = some f
    rw [resolvePath_absolute]; exact hown f
  refine ⟨faithful_absolute nm hf, faithful_writer nm hf, fun cfg s r => ?_⟩
  have r' := reachableN_reachable nm hf cfg s r
  exact ⟨C08Files.disk_capacity cfg s r', (C08Files.running_capacity cfg s r').2.2⟩

/-- why runs whose processes share one working directory never show the difference: relative designations are then resolved
    alike too. -/
theorem same_cwd_resolve_alike (w : World σ) (desig : Name → Desig σ) (h : ∀ p q, w.cwd p = w.cwd q) :
    DesignationsAbsolute (pathNaming w desig) :=
  fun p q f => resolvePath_same_cwd w p q (desig f) (h p q)

/-- the hypothesis `DesignationsAbsolute` cannot be dropped: there is a naming in which every writer reaches its own job
    (`WriterResolves`) but holders are named by a relative path, two processes with different working directories, and a run of
    the named model — process 1's watcher resolves the designation of the running job 7 against its own directory, finds no pid
    file and deletes the token file (reclaim of a live holder) — after which two jobs are active under a token of total 1 and the
    token file of the first is gone. -/
theorem relative_designation_breaks_capacity :
    ∃ (nm : Naming (Desig Nat)) (cfg : Cfg) (s : St), WriterResolves nm ∧ ¬ DesignationsAbsolute nm ∧ ReachableN nm cfg s ∧
      cfg.total < sumReq cfg.req s.active ∧ ∃ f ∈ s.active, f ∉ names s.disk :=
  ⟨nmRel, cfg1, run cfg1 (init cfg1) evsRel, nmRel_writerResolves, nmRel_not_absolute,
   reachableN_run nmRel cfg1 evsRel _ .init (by decide +kernel), by decide +kernel, 7, by decide +kernel, by decide +kernel⟩

/-! ### the hypotheses are satisfiable on non-trivial values; the counter-example run step by step -/

/-- absolute designations in a world with two different working directories: hypotheses hold. -/
example : DesignationsAbsolute nmAbs ∧ WriterResolves nmAbs := ⟨faithful_absolute _ nmAbs_faithful, faithful_writer _ nmAbs_faithful⟩
/-- … and the run of the counter-example is *not* a run of that model: the watcher of process 1 must wait for job 7. -/
example : enabledN nmAbs (run cfg1 (init cfg1) (evsRel.take 4)) (.reclaim 1 7) = false := by decide +kernel
example : enabledN nmRel (run cfg1 (init cfg1) (evsRel.take 4)) (.reclaim 1 7) = true := by decide +kernel
/-- process 0 resolves the relative name of its job, process 1 does not; made absolute by the writer, both do. -/
example : resolvePath wRel 0 (relDesig 7) = some 7 ∧ resolvePath wRel 1 (relDesig 7) = none ∧
    resolvePath wRel 1 (absolute (wRel.cwd 0) (relDesig 7)) = some 7 := by decide
/-- the end of the counter-example: jobs 8 and 7 active, only the file of 8 on disk, total 1. -/
example : (run cfg1 (init cfg1) evsRel).active = [8, 7] ∧ names (run cfg1 (init cfg1) evsRel).disk = [8] := by decide +kernel
/-- a non-trivial reachable state of the faithful model (the two-process run of `C08Files`). -/
example : ReachableN nmAbs cfg2 (run cfg2 (init cfg2) evs2) := reachableN_run nmAbs cfg2 evs2 _ .init (by decide +kernel)
end XpmVerif.C08Names
