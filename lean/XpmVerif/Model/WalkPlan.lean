/-! The *plan* of `ConfigWalk.__call__` (`core/objects.py`): what is walked below a configuration, in which order, under which
    pushed position keys.  The plan is an abstraction of the method body in normal form; `Generated/WalkSrc.lean` holds the plan read
    off the Python AST on every run, `expected` is the plan the hand-written walkers of the models follow (`Ident.visit`: sealing,
    pre-task collection, dependency collection; `GenPath.nodeRefs` / `walkNode`: positions of generated paths), and
    `Properties/WalkSrc.lean` proves both facts.  Import-free. -/
namespace XpmVerif.Walk

inductive Which where
  | pre | init
  deriving DecidableEq, Repr

inductive Step where
  /-- `for arg, v in info.xpmvalues()`: walk `v` under `push(arg.name)` (or without push); `None` values skipped or not -/
  | args (pushName : Bool) (skipNone : Bool)
  /-- the pre-tasks / init tasks: walked when the list is not empty, under `push(key)`; through the list branch (which pushes the
      rank of each task) or one by one -/
  | tasks (w : Which) (key : Option String) (viaList : Bool)
  /-- `x.__xpm__.task`: walked (without push) when it is not `None`, [when `recurse_task`], [when it is another object] -/
  | task (needsRecurseFlag : Bool) (notSelf : Bool)
  deriving DecidableEq, Repr

structure Plan where
  /-- the configuration is marked visited (with its stub) before `preprocess` decides whether to descend -/
  visitedBeforePreprocess : Bool
  /-- a refused configuration (`preprocess` returned False) is not descended -/
  stopsWhenRefused : Bool
  config : List Step
  /-- `postprocess` is called after all children -/
  postprocessLast : Bool
  /-- list items are walked under `push(str(i))` -/
  listPushesIndex : Bool
  /-- dict values are walked under `push(dictkey_component(key))` (`dictPushesKey`), the key going through the encoder -/
  dictPushesKey : Bool
  dictKeyEncoded : Bool
  deriving DecidableEq, Repr

def expected : Plan :=
  { visitedBeforePreprocess := true, stopsWhenRefused := true,
    config := [.args true true, .tasks .pre (some "__pre_tasks__") true, .tasks .init (some "__init_tasks__") true, .task true true],
    postprocessLast := true, listPushesIndex := true, dictPushesKey := true, dictKeyEncoded := true }

end XpmVerif.Walk
