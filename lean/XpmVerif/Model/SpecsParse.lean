import XpmVerif.Model.Specs
/-! M8 (text): token-level model of the arpeggio grammar of `launcherfinder/parser.py`.
    Tokenisation (whitespace skipping, the regular expressions `\d+(G|M)?`, `\d+`, `h(ours)?|d(ays)?`)
    is modelled in `Model/SpecsLex.lean` (character level); a bare number is the token `num` wherever it stands
    (`\d+` and `\d+(G|M)?` overlap), so `mem = 12` is `kwMem, eq, num 12`. -/
namespace XpmVerif.Specs

inductive Tok where
  | kwDuration | kwCuda | kwCpu | kwMem | kwCores
  | lpar | rpar | comma | eq | star | amp | bar
  | num (n : Nat)                       -- `\d+`
  | memlit (n : Nat) (s : MemSuffix)    -- `\d+(G|M)?`
  | unit (u : DurUnit)
  deriving Repr, DecidableEq

def renderItem : SpecItem → List Tok
  | .mem n .none => [.kwMem, .eq, .num n]
  | .mem n s => [.kwMem, .eq, .memlit n s]
  | .cores n => [.kwCores, .eq, .num n]

def renderItems : List SpecItem → List Tok
  | [] => []
  | [i] => renderItem i
  | i :: is => renderItem i ++ .comma :: renderItems is

def renderTerm : Specs.Term → List Tok
  | .duration n u => [.kwDuration, .eq, .num n, .unit u]
  | .cuda items mult => .kwCuda :: .lpar :: renderItems items ++ .rpar :: (match mult with | some k => [.star, .num k] | none => [])
  | .cpu items => .kwCpu :: .lpar :: renderItems items ++ [.rpar]

def renderConj : List Specs.Term → List Tok
  | [] => []
  | [t] => renderTerm t
  | t :: ts => renderTerm t ++ .amp :: renderConj ts

def renderAlts : List (List Specs.Term) → List Tok
  | [] => []
  | [c] => renderConj c
  | c :: cs => renderConj c ++ .bar :: renderAlts cs

/-- one spec item; `cudaOnly` = inside `cuda(...)` (only `mem`). -/
def parseItem (cudaOnly : Bool) : List Tok → Option (SpecItem × List Tok)
  | .kwMem :: .eq :: .memlit n s :: r => some (.mem n s, r)
  | .kwMem :: .eq :: .num n :: r => some (.mem n .none, r)
  | .kwCores :: .eq :: .num n :: r => if cudaOnly then none else some (.cores n, r)
  | _ => none

/-- `ZeroOrMore(item, sep=",")` followed by `)`; returns the items and what follows the `)`. -/
def parseItems (cudaOnly : Bool) : Nat → List Tok → Option (List SpecItem × List Tok)
  | 0, _ => none
  | fuel + 1, ts =>
    match ts with
    | .rpar :: r => some ([], r)
    | _ =>
      match parseItem cudaOnly ts with
      | none => none
      | some (i, r) =>
        match r with
        | .rpar :: r' => some ([i], r')
        | .comma :: r' =>
          (match r' with
           | .rpar :: _ => none            -- a separator must be followed by an item
           | _ => match parseItems cudaOnly fuel r' with
             | some (is, r'') => some (i :: is, r'')
             | none => none)
        | _ => none

def parseTerm (ts : List Tok) : Option (Specs.Term × List Tok) :=
  match ts with
  | .kwDuration :: .eq :: .num n :: .unit u :: r => some (.duration n u, r)
  | .kwCuda :: .lpar :: r =>
    (match parseItems true (r.length + 1) r with
     | some (items, r') =>
       (match r' with
        | .star :: .num k :: r'' => some (.cuda items (some k), r'')
        | .star :: _ => none
        | _ => some (.cuda items none, r'))
     | none => none)
  | .kwCpu :: .lpar :: r =>
    (match parseItems false (r.length + 1) r with
     | some (items, r') => some (.cpu items, r')
     | none => none)
  | _ => none

/-- `OneOrMore(term, sep="&")`. -/
def parseConj : Nat → List Tok → Option (List Specs.Term × List Tok)
  | 0, _ => none
  | fuel + 1, ts =>
    match parseTerm ts with
    | none => none
    | some (t, r) =>
      match r with
      | .amp :: r' => (match parseConj fuel r' with | some (tl, r'') => some (t :: tl, r'') | none => none)
      | _ => some ([t], r)

/-- `OneOrMore(one_spec, sep="|"), EOF`. -/
def parseAlts : Nat → List Tok → Option (List (List Specs.Term))
  | 0, _ => none
  | fuel + 1, ts =>
    match parseConj (ts.length + 1) ts with
    | none => none
    | some (c, r) =>
      match r with
      | [] => some [c]
      | .bar :: r' => (match parseAlts fuel r' with | some cs => some (c :: cs) | none => none)
      | _ => none

def parseToks (ts : List Tok) : Option (List (List Specs.Term)) := parseAlts (ts.length + 1) ts

end XpmVerif.Specs
