"""AST translator for the validation code -> XpmVerif/Generated/ValidateSrc.lean

Reads (never imports) `core/types.py` (`IntType … ObjectType .validate`, `Type.fromType`), `core/arguments.py`
(`Argument.validate`, `Argument.__init__`, `ArgumentOptions.create`) and `core/objects.py` (`ConfigInformation.set`,
`.validate`, `._validate_value`, `._validate`, `.submit`).

Method: every method body is *executed abstractly*, once per kind of argument value (`Kind` of Model/ValidateSrc.lean: the
classes of values that the isinstance / math.modf / value.get("$type") tests can tell apart) or once per combination of the
boolean inputs (bypass, required, generator, …), over a small subset of Python (if/elif/else, return, raise, assert,
assignments, tuple unpacking of math.modf, list/dict comprehensions and the equivalent accumulating for-loops, and/or/not,
is/==/!=, isinstance with names or tuples).  The outcome per kind (`Act`) is written as a table.  Two bodies that behave the
same on every kind give the same table, whatever their shape (renamed locals, `if not c: A else: B`, early returns, merged
conditions): a behaviour-preserving rewrite inside the subset regenerates the same file; a change of behaviour changes a table
entry and the source obligation of Properties/C15Src.lean about it no longer checks.  A body outside the subset is NOT an
alarm: the reference entry is generated with a comment, the message says `untranslated: …; falls back on the correspondence`
(the switches are then the probed ones), and the differential correspondence of the check decides."""
import ast
from pathlib import Path

KINDS = ["none", "bool", "int", "floatNan", "floatInf", "floatInt", "floatFrac", "str", "path", "enumSame", "enumOther",
         "list", "tuple", "dictPath", "dictOther", "cfgSub", "cfgUnsub", "cfgOther", "other"]
FLOATS = {"floatNan", "floatInf", "floatInt", "floatFrac"}
DICTS = {"dictPath", "dictOther"}
CFGS = {"cfgSub", "cfgUnsub", "cfgOther"}
ISA = {"float": FLOATS, "int": {"int", "bool"}, "bool": {"bool"}, "str": {"str"}, "dict": DICTS, "Dict": DICTS,
       "list": {"list"}, "List": {"list"}, "tuple": {"tuple"}, "Path": {"path"}, "Config": CFGS, "Enum": {"enumSame", "enumOther"},
       "ENUMCLS": {"enumSame"}, "BASETYPE": {"cfgSub", "cfgUnsub"}}
ERR = {"ValueError": "invalid", "TypeError": "invalid", "AssertionError": "assertion", "OverflowError": "overflow",
       "AttributeError": "attribute"}


class Unt(Exception):
    """outside the subset"""


class _Return(Exception):
    def __init__(self, val):
        self.val = val


class _Raise(Exception):
    def __init__(self, err):
        self.err = err


def find(tree, cls, fn):
    for c in tree.body:
        if isinstance(c, ast.ClassDef) and c.name == cls:
            for f in c.body:
                if isinstance(f, (ast.FunctionDef, ast.AsyncFunctionDef)) and f.name == fn:
                    return f
    raise Unt(f"{cls}.{fn} not found")


def class_errs(tree):
    """exception classes defined in the module -> the class of the model's `Err` they fall in (what `except ValueError` /
    `except TypeError` catch is `invalid`)"""
    table = dict(ERR)
    for _ in range(3):
        for c in tree.body:
            if isinstance(c, ast.ClassDef):
                bases = [table.get(b.id) for b in c.bases if isinstance(b, ast.Name)]
                bases = [b for b in bases if b]
                if bases:
                    table[c.name] = "invalid" if "invalid" in bases else bases[0]
    return table


class Interp:
    """abstract execution of one function body for one kind of `value` and one assignment of the boolean atoms"""

    def __init__(self, errs, kind=None, atoms=None, vname="value", selfattrs=None):
        self.errs = errs
        self.kind = kind
        self.atoms = atoms or {}
        self.env = {vname: ("V",)} if vname else {}
        self.selfattrs = selfattrs or {}
        self.effects = []

    # ---- expressions
    def ev(self, n):
        if isinstance(n, ast.Constant):
            return ("const", n.value)
        if isinstance(n, ast.Name):
            if n.id in self.env:
                return self.env[n.id]
            return ("name", n.id)
        if isinstance(n, ast.JoinedStr):
            return ("const", "<fstring>")
        if isinstance(n, ast.BinOp) and isinstance(n.op, ast.Mod) and isinstance(n.left, ast.Constant):
            return ("const", "<format>")
        if isinstance(n, ast.Attribute):
            txt = ast.unparse(n)
            if txt in self.atoms:
                return ("atom", txt)
            base = self.ev(n.value)
            if base == ("name", "self"):
                if n.attr in self.selfattrs:
                    return self.selfattrs[n.attr]
                return ("self", n.attr)
            if base == ("V",) and n.attr == "__xpm__":
                return ("Vxpm",)
            if base == ("Vxpm",) and ("Vxpm." + n.attr) in self.atoms:
                return ("atom", "Vxpm." + n.attr)
            return ("attr", base, n.attr)
        if isinstance(n, ast.Tuple):
            return ("tuple", tuple(self.ev(e) for e in n.elts))
        if isinstance(n, ast.List) and not n.elts:
            return ("acc_list",)
        if isinstance(n, ast.Dict) and not n.keys:
            return ("acc_dict",)
        if isinstance(n, ast.UnaryOp) and isinstance(n.op, ast.Not):
            return ("const", not self.truth(self.ev(n.operand)))
        if isinstance(n, ast.BoolOp):
            last = None
            for v in n.values:
                last = self.ev(v)
                t = self.truth(last)
                if isinstance(n.op, ast.And) and not t:
                    return last
                if isinstance(n.op, ast.Or) and t:
                    return last
            return last
        if isinstance(n, ast.IfExp):
            return self.ev(n.body) if self.truth(self.ev(n.test)) else self.ev(n.orelse)
        if isinstance(n, ast.Compare) and len(n.ops) == 1:
            return ("const", self.compare(n.ops[0], self.ev(n.left), self.ev(n.comparators[0])))
        if isinstance(n, ast.Subscript) and isinstance(n.slice, ast.Constant):
            if ast.unparse(n) in self.atoms:
                return ("atom", ast.unparse(n))
            b = self.ev(n.value)
            if b == ("modf",) and n.slice.value in (0, 1):
                return ("modf_rest",) if n.slice.value == 0 else ("modf_int",)
            raise Unt(f"subscript {ast.unparse(n)}")
        if isinstance(n, ast.ListComp) and len(n.generators) == 1 and not n.generators[0].ifs:
            g = n.generators[0]
            if self.ev(g.iter) == ("V",) and isinstance(g.target, ast.Name) and self.is_validate_of(n.elt, g.target.id):
                return ("maplist",)
            raise Unt(f"list comprehension {ast.unparse(n)[:60]}")
        if isinstance(n, ast.DictComp) and len(n.generators) == 1 and not n.generators[0].ifs:
            g = n.generators[0]
            if self.is_items(g.iter) and isinstance(g.target, ast.Tuple) and len(g.target.elts) == 2:
                k, v = [e.id for e in g.target.elts]
                if self.is_validate_of(n.value, v):
                    if self.is_validate_of(n.key, k):
                        return ("mapdict", True)
                    if isinstance(n.key, ast.Name) and n.key.id == k:
                        return ("mapdict", False)
            raise Unt(f"dict comprehension {ast.unparse(n)[:60]}")
        if isinstance(n, ast.Call):
            return self.call(n)
        raise Unt(f"expression {ast.unparse(n)[:60]}")

    def is_items(self, n):
        return isinstance(n, ast.Call) and isinstance(n.func, ast.Attribute) and n.func.attr == "items" and self.ev(n.func.value) == ("V",)

    def is_validate_of(self, n, var):
        """`self.<attr>.validate(<var>)`"""
        return (isinstance(n, ast.Call) and isinstance(n.func, ast.Attribute) and n.func.attr == "validate" and len(n.args) == 1
                and isinstance(n.args[0], ast.Name) and n.args[0].id == var and self.ev(n.func.value)[0] == "self")

    def call(self, n):
        f = n.func
        if isinstance(f, ast.Name):
            if f.id == "isinstance" and len(n.args) == 2:
                return ("const", self.isinstance(self.ev(n.args[0]), n.args[1]))
            if f.id == "hasattr":
                a = self.ev(n.args[0])
                txt = f"hasattr({ast.unparse(n.args[0])}, {ast.unparse(n.args[1])})"
                if txt in self.atoms:
                    return ("atom", txt)
                raise Unt(txt)
            if f.id in ("int", "float", "str", "bool", "Path") and len(n.args) == 1:
                return ("call", f.id, self.ev(n.args[0]))
            if f.id in self.errs:
                return ("exc", self.errs[f.id])
        if isinstance(f, ast.Attribute):
            if ast.unparse(f) == "math.modf" and self.ev(n.args[0]) == ("V",):
                return ("modf",)
            base = self.ev(f.value)
            if base == ("V",) and f.attr == "is_integer" and not n.args:
                if self.kind not in FLOATS:
                    raise Unt("is_integer on a non-float")
                return ("const", self.kind == "floatInt")
            if base == ("V",) and f.attr == "get" and n.args and isinstance(n.args[0], ast.Constant):
                if self.kind not in DICTS:
                    raise Unt("value.get on a non-dict")
                return ("get", n.args[0].value)
            if f.attr == "validate" and len(n.args) == 1 and base[0] == "self":
                return ("validated", base, self.ev(n.args[0]))
            if f.attr == "check" and len(n.args) == 1 and "checker.check" in self.atoms:
                return ("atom", "checker.check")
            if f.attr == "get" and base[0] in ("self", "attr") and n.args:
                return ("lookup", ast.unparse(f.value), self.ev(n.args[0]))
            if base[0] in ("call", "unk", "get"):
                return ("unk", ast.unparse(n)[:60])   # a method of a computed value (`Path(value).absolute()`): no word for it
        raise Unt(f"call {ast.unparse(n)[:60]}")

    def isinstance(self, x, tnode):
        if x != ("V",):
            raise Unt("isinstance of something else than the value")
        names = tnode.elts if isinstance(tnode, ast.Tuple) else [tnode]
        for t in names:
            v = self.ev(t)
            key = None
            if v[0] == "name" and v[1] in ISA:
                key = v[1]
            elif v == ("self", "type"):
                key = "ENUMCLS"
            elif v == ("self", "basetype"):
                key = "BASETYPE"
            if key is None:
                raise Unt(f"isinstance against {ast.unparse(t)}")
            if self.kind in ISA[key]:
                return True
        return False

    def truth(self, v):
        if v[0] == "const":
            return bool(v[1])
        if v[0] == "atom":
            return bool(self.atoms[v[1]])
        if v == ("V",):
            if self.kind == "none":
                return False
            raise Unt("truth value of the argument")
        if v[0] in ("self", "name") and (v[0] + "." + v[1]) in self.atoms:
            return bool(self.atoms[v[0] + "." + v[1]])
        raise Unt(f"truth value of {v}")

    def compare(self, op, a, b):
        if isinstance(op, (ast.Is, ast.IsNot, ast.Eq, ast.NotEq)):
            neg = isinstance(op, (ast.IsNot, ast.NotEq))
            if b == ("const", None) or a == ("const", None):
                x = a if b == ("const", None) else b
                if x == ("V",):
                    r = self.kind == "none"
                elif x[0] == "atom":
                    r = not self.atoms[x[1]]
                elif x[0] == "const":
                    r = x[1] is None
                else:
                    raise Unt(f"comparison of {x} with None")
                return r != neg
            if isinstance(op, (ast.Eq, ast.NotEq)):
                for x, y in ((a, b), (b, a)):
                    if x == ("modf_rest",) and y == ("const", 0):
                        if self.kind not in FLOATS:
                            raise Unt("modf of a non-float")
                        return (self.kind in ("floatInf", "floatInt")) != neg
                    if x == ("get", "$type") and y == ("const", "path"):
                        return (self.kind == "dictPath") != neg
        raise Unt("comparison")

    # ---- statements
    def run(self, body):
        for s in body:
            self.stmt(s)

    def stmt(self, s):
        if isinstance(s, (ast.Import, ast.ImportFrom, ast.Pass)):
            return
        if isinstance(s, ast.Expr):
            if isinstance(s.value, ast.Constant):
                return
            txt = ast.unparse(s.value)
            if txt.startswith("logger.") or txt == "self.__initialize__()":
                return
            self.effect(s.value)
            return
        if isinstance(s, ast.Return):
            raise _Return(self.ev(s.value) if s.value is not None else ("const", None))
        if isinstance(s, ast.Raise):
            if s.exc is None:
                raise _Raise("reraise")
            v = self.ev(s.exc)
            if v[0] == "exc":
                raise _Raise(v[1])
            if v[0] == "name" and v[1] in self.errs:
                raise _Raise(self.errs[v[1]])
            raise Unt(f"raise {ast.unparse(s.exc)[:40]}")
        if isinstance(s, ast.Assert):
            if not self.truth(self.ev(s.test)):
                raise _Raise("assertion")
            return
        if isinstance(s, ast.If):
            self.run(s.body if self.truth(self.ev(s.test)) else s.orelse)
            return
        if isinstance(s, ast.Assign) and len(s.targets) == 1:
            t = s.targets[0]
            v = self.ev(s.value)
            if isinstance(t, ast.Name):
                self.env[t.id] = v
                return
            if isinstance(t, ast.Tuple) and v == ("modf",) and len(t.elts) == 2:
                self.env[t.elts[0].id] = ("modf_rest",)
                self.env[t.elts[1].id] = ("modf_int",)
                return
            self.assign(t, v)
            return
        if isinstance(s, ast.For):
            self.loop(s)
            return
        raise Unt(f"statement {ast.unparse(s)[:60]}")

    def effect(self, call):
        raise Unt(f"call statement {ast.unparse(call)[:60]}")

    def assign(self, target, v):
        raise Unt(f"assignment to {ast.unparse(target)[:40]}")

    def loop(self, s):
        # accumulating loops equivalent to the two comprehensions
        if not self.is_items(s.iter) and self.ev(s.iter) == ("V",) and isinstance(s.target, ast.Name) and len(s.body) == 1 and not s.orelse:
            b = s.body[0]
            if (isinstance(b, ast.Expr) and isinstance(b.value, ast.Call) and isinstance(b.value.func, ast.Attribute)
                    and b.value.func.attr == "append" and isinstance(b.value.func.value, ast.Name)
                    and self.env.get(b.value.func.value.id) == ("acc_list",) and self.is_validate_of(b.value.args[0], s.target.id)):
                self.env[b.value.func.value.id] = ("maplist",)
                return
        if self.is_items(s.iter) and isinstance(s.target, ast.Tuple) and len(s.target.elts) == 2 and not s.orelse:
            k, v = [e.id for e in s.target.elts]
            checked = {}   # local name -> validated key
            for b in s.body:
                if isinstance(b, ast.Assign) and isinstance(b.targets[0], ast.Name) and self.is_validate_of(b.value, k):
                    checked[b.targets[0].id] = True
                    continue
                if (isinstance(b, ast.Assign) and isinstance(b.targets[0], ast.Subscript) and isinstance(b.targets[0].value, ast.Name)
                        and self.env.get(b.targets[0].value.id) == ("acc_dict",) and self.is_validate_of(b.value, v)):
                    key = b.targets[0].slice
                    if self.is_validate_of(key, k) or (isinstance(key, ast.Name) and key.id in checked):
                        self.env[b.targets[0].value.id] = ("mapdict", True)
                        continue
                    if isinstance(key, ast.Name) and key.id == k:
                        self.env[b.targets[0].value.id] = ("mapdict", False)
                        continue
                raise Unt(f"dict-building loop: {ast.unparse(b)[:60]}")
            return
        raise Unt(f"loop {ast.unparse(s)[:60]}")


def act_of(v, kind):
    """the returned symbolic value as an action, canonical for the kind"""
    if v == ("V",):
        return "same"
    if v == ("const", None):
        return "retNone"
    if v == ("maplist",):
        return "mapElems"
    if v[0] == "mapdict":
        return f"mapItems {'true' if v[1] else 'false'}"
    if v[0] == "call":
        f, a = v[1], v[2]
        if f == "int" and kind in FLOATS and a in (("modf_int",), ("V",)):
            return {"floatInt": "toInt", "floatInf": "raise overflow", "floatNan": "raise invalid"}.get(kind, "unknown")
        if f == "int" and a == ("V",) and kind == "int":
            return "same"
        if f == "float" and a == ("V",):
            return "same" if kind in FLOATS else ("toFloat" if kind in ("int", "bool") else "unknown")
        if f == "str" and a == ("V",) and kind == "str":
            return "same"
        if f == "bool" and a == ("V",):
            return "same" if kind == "bool" else "toBool"
        if f == "Path" and a == ("V",):
            return "same" if kind == "path" else ("toPath" if kind == "str" else "raise invalid")
        if f == "Path" and a == ("get", "$value") and kind in DICTS:
            return "pathOfValue"
    return "unknown"


def cfg_atoms(kind):
    """ObjectType.validate looks at `self.task` and `value.__xpm__.job`: the assignments of the two that a kind stands for"""
    if kind == "cfgUnsub":
        return [{"self.task": True, "Vxpm.job": False}]
    if kind == "cfgSub":
        return [{"self.task": False, "Vxpm.job": False}, {"self.task": False, "Vxpm.job": True}, {"self.task": True, "Vxpm.job": True}]
    return [{}]


def table(fn, errs, with_atoms=False):
    """Kind -> Act for a `validate(self, value)` method"""
    vname = fn.args.args[1].arg
    out = {}
    for k in KINDS:
        acts = set()
        for atoms in (cfg_atoms(k) if with_atoms else [{}]):
            it = Interp(errs, k, atoms, vname)
            try:
                it.run(fn.body)
                acts.add("retNone")
            except _Return as r:
                acts.add(act_of(r.val, k))
            except _Raise as r:
                acts.add(f"raise {r.err}")
        if len(acts) != 1:
            raise Unt(f"{fn.name}: the outcome for {k} depends on more than the kind")
        out[k] = acts.pop()
    return out


# ---------------------------------------------------------------------------
# UnionType.validate


def union(tree, errs):
    fn = find(tree, "UnionType", "validate")
    vname = fn.args.args[1].arg
    loops = [s for s in fn.body if isinstance(s, ast.For)]
    if len(loops) != 1 or ast.unparse(loops[0].iter) != "self.types" or not isinstance(loops[0].target, ast.Name):
        raise Unt("UnionType.validate: expected one loop over self.types")
    lp = loops[0]
    tries = [s for s in lp.body if isinstance(s, ast.Try)]
    if len(tries) != 1 or len(lp.body) != 1 or tries[0].orelse or tries[0].finalbody:
        raise Unt("UnionType.validate: expected one try statement in the loop")
    t = tries[0]
    if not (len(t.body) == 1 and isinstance(t.body[0], ast.Return) and ast.unparse(t.body[0].value) == f"{lp.target.id}.validate({vname})"):
        raise Unt("UnionType.validate: the try body is not `return alternative.validate(value)`")
    caught = set()
    for h in t.handlers:
        if not all(isinstance(b, (ast.Pass, ast.Continue)) for b in h.body):
            raise Unt("UnionType.validate: a handler does something")
        names = h.type.elts if isinstance(h.type, ast.Tuple) else ([h.type] if h.type is not None else [ast.Name("Exception")])
        caught |= {ast.unparse(x) for x in names}
    catch = {"invalid": {"ValueError", "TypeError"} <= caught or "Exception" in caught,
             "assertion": bool({"AssertionError", "Exception"} & caught), "overflow": bool({"OverflowError", "ArithmeticError", "Exception"} & caught),
             "attribute": bool({"AttributeError", "Exception"} & caught)}
    if ({"ValueError", "TypeError"} & caught) and not catch["invalid"]:
        catch["invalid"] = False   # only one of the two classes of `invalid` is swallowed: the model's union does not apply
    tail_stmts = fn.body[fn.body.index(lp) + 1:]
    tail = {}
    for k in KINDS:
        it = Interp(errs, k, {}, vname)
        try:
            it.run(tail_stmts)
            tail[k] = "retNone"
        except _Return as r:
            tail[k] = act_of(r.val, k)
        except _Raise as r:
            tail[k] = f"raise {r.err}"
    # does the final message format the alternatives' names?
    msg_names = False
    cls = next(c for c in tree.body if isinstance(c, ast.ClassDef) and c.name == "UnionType")
    meths = {f.name: f for f in cls.body if isinstance(f, ast.FunctionDef)}
    for s in ast.walk(ast.Module(tail_stmts, [])):
        if isinstance(s, ast.Raise) and s.exc is not None:
            txt = ast.unparse(s.exc)
            used = [m for m in ("__str__", "__repr__", "name") if (m == "name" and "self.name()" in txt)
                    or (m == "__str__" and ("{self}" in txt or "str(self)" in txt or "% self" in txt or "%s" in txt and "self" in txt))
                    or (m == "__repr__" and "{self!r}" in txt)]
            seen = set()
            while used:
                m = used.pop()
                if m in seen or m not in meths:
                    continue
                seen.add(m)
                body = ast.unparse(meths[m])
                if ".name()" in body and "self.name()" not in body.replace("t.name()", ""):
                    msg_names = True
                if "t.name()" in body or ".name() for" in body:
                    msg_names = True
                if "str(self)" in body:
                    used.append("__str__")
                if "self.name()" in body:
                    used.append("name")
    ecls = next(c for c in tree.body if isinstance(c, ast.ClassDef) and c.name == "EnumType")
    emeths = {f.name: f for f in ecls.body if isinstance(f, ast.FunctionDef)}
    enum_has_name = "name" in emeths or ("__init__" in emeths and ("super().__init__" in ast.unparse(emeths["__init__"])
                                                                     or "self.identifier" in ast.unparse(emeths["__init__"])))
    return catch, tail, msg_names, enum_has_name


# ---------------------------------------------------------------------------
# Argument.validate, Argument.__init__, ArgumentOptions.create


def arg_validate(tree, errs):
    fn = find(tree, "Argument", "validate")
    vname = fn.args.args[1].arg
    out = {}
    for has in (False, True):
        for ok in (False, True):
            it = Interp(errs, "int", {"self.checker": has, "checker.check": ok}, vname)
            try:
                it.run(fn.body)
                out[(has, ok)] = "retNone"
            except _Return as r:
                v = r.val
                out[(has, ok)] = "same" if (v[0] == "validated" and v[1] == ("self", "type") and v[2] == ("V",)) else ("unknown" if v != ("V",) else "toBool")
            except _Raise as r:
                out[(has, ok)] = f"raise {r.err}"
    return out


def arg_required(tree, errs):
    """the value of `required` after the first statements of Argument.__init__, and whether `self.required = required`"""
    fn = find(tree, "Argument", "__init__")
    out = {}
    for req in (None, False, True):
        for dnone in (False, True):
            it = Interp(errs, None, {"default": not dnone}, None)
            it.env["required"] = ("const", req)
            it.env["default"] = ("atom", "default")
            val = None
            for s in fn.body:
                if isinstance(s, ast.Expr) and isinstance(s.value, ast.Constant):
                    continue
                if isinstance(s, ast.Assign) and ast.unparse(s.targets[0]) == "required":
                    it.stmt(s)
                    continue
                if isinstance(s, ast.Assign) and ast.unparse(s.targets[0]) == "self.required":
                    val = it.ev(s.value)
                    break
                if isinstance(s, (ast.If, ast.AnnAssign)) and any(
                        isinstance(n, (ast.Assign, ast.AnnAssign, ast.AugAssign, ast.NamedExpr)) and "required" in
                        [ast.unparse(t) for t in (n.targets if isinstance(n, ast.Assign) else [n.target])] for n in ast.walk(s)):
                    # `if required is None: required = default is None` (statement form of the conditional expression)
                    if isinstance(s, ast.AnnAssign) and s.value is None:
                        continue
                    it.stmt(s)
                    continue
            if val is None or val[0] != "const":
                raise Unt("Argument.__init__: self.required is not assigned from `required`")
            out[(req, dnone)] = bool(val[1])
    return out


def create_required(tree, errs):
    fn = find(tree, "ArgumentOptions", "create")
    for s in ast.walk(fn):
        if isinstance(s, ast.Assign) and ast.unparse(s.targets[0]) in ("self.kwargs['required']", 'self.kwargs["required"]'):
            out = {}
            value = s.value
            if isinstance(value, ast.Name):   # explaining variable: `is_required = …; self.kwargs["required"] = is_required`
                defs = [n for n in ast.walk(fn) if isinstance(n, ast.Assign) and len(n.targets) == 1 and ast.unparse(n.targets[0]) == value.id]
                if len(defs) == 1 and defs[0].lineno < s.lineno:
                    value = defs[0].value
            for opt in (False, True):
                for dflt in (False, True):
                    it = Interp(errs, None, {"optionaltype": opt, "self.kwargs['default']": dflt}, None)
                    it.env["optionaltype"] = ("atom", "optionaltype")
                    out[(opt, dflt)] = it.truth(it.ev(value))
            return out
    raise Unt("ArgumentOptions.create: no assignment to self.kwargs['required']")


# ---------------------------------------------------------------------------
# ConfigInformation.set / _validate_value / _validate / validate / submit


class SetInterp(Interp):
    def __init__(self, errs, atoms, argname):
        super().__init__(errs, None, atoms, None)
        self.argname = argname
        self.stored = None

    def assign(self, target, v):
        if ast.unparse(target) in ("self.values[k]",):
            if v[0] == "validated" and v[2] == ("atom", "v"):
                self.stored = "storeValidated"
            elif v == ("atom", "v"):
                self.stored = "storeRaw"
            elif v == ("const", None):
                self.stored = "storeNone"
            else:
                self.stored = "other"
            return
        raise Unt(f"set: assignment to {ast.unparse(target)}")

    def ev(self, n):
        if isinstance(n, ast.Call) and isinstance(n.func, ast.Attribute) and n.func.attr == "validate" and len(n.args) == 1 \
                and isinstance(n.func.value, ast.Name) and n.func.value.id == self.argname:
            return ("validated", ("arg",), self.ev(n.args[0]))
        if isinstance(n, ast.Attribute) and isinstance(n.value, ast.Name) and n.value.id == self.argname:
            key = "arg." + n.attr
            if key in self.atoms:
                return ("atom", key)
        if isinstance(n, ast.Name) and n.id == self.argname:
            return ("const", True)   # the argument exists
        if isinstance(n, ast.Compare) and len(n.ops) == 1 and isinstance(n.ops[0], (ast.In, ast.NotIn)) and ast.unparse(n.comparators[0]) == "self.xpmtype.arguments":
            return ("const", isinstance(n.ops[0], ast.In))
        return super().ev(n)


def set_table(tree, errs):
    fn = find(tree, "ConfigInformation", "set")
    out = {}
    sealed_raises = None
    for sealed in (False, True):
        for bypass in (False, True):
            for gc in (False, True):
                for vnone in (False, True):
                    for req in (False, True):
                        atoms = {"self._sealed": sealed, "bypass": bypass, "arg.generator": gc, "arg.constant": False, "v": not vnone, "arg.required": req}
                        argname = "argument"
                        it = SetInterp(errs, atoms, argname)
                        it.env.update(k=("const", "<k>"), v=("atom", "v"), bypass=("atom", "bypass"))
                        body = list(fn.body)
                        try:
                            for s in body:
                                if isinstance(s, ast.Try):   # `try: … except Exception: logger.error(…); raise`
                                    if not all(isinstance(h.body[-1], ast.Raise) and h.body[-1].exc is None for h in s.handlers):
                                        raise Unt("set: a handler that does not re-raise")
                                    for b in s.body:
                                        if isinstance(b, ast.Assign) and isinstance(b.targets[0], ast.Name) and "arguments" in ast.unparse(b.value):
                                            it.argname = b.targets[0].id
                                            it.env[b.targets[0].id] = ("const", True)
                                            continue
                                        it.stmt(b)
                                else:
                                    it.stmt(s)
                            res = it.stored or "other"
                        except _Return:
                            res = it.stored or "other"
                        except _Raise as r:
                            res = "readonly" if r.err == "attribute" else "other"
                        if sealed:
                            if not bypass:
                                sealed_raises = (res == "readonly") if sealed_raises in (None, True) else False
                        else:
                            out[(bypass, gc, vnone, req)] = res
    return out, bool(sealed_raises)


class WalkInterp(Interp):
    """_validate_value: the effects are calls"""

    def __init__(self, errs, kind, vname, fname):
        super().__init__(errs, kind, {}, vname)
        self.fname = fname
        self.acts = []

    def stmt(self, s):
        if isinstance(s, ast.If):
            try:
                t = self.truth(self.ev(s.test))
            except Unt:
                # a test on something else than the kind of the value: whatever is visited below it is visited conditionally
                if any(isinstance(x, (ast.Call, ast.For)) for b in (s.body + s.orelse) for x in ast.walk(b)):
                    self.acts.append("other")
                return
            self.run(s.body if t else s.orelse)
            return
        super().stmt(s)

    def effect(self, call):
        txt = ast.unparse(call)
        if txt.endswith("._validate(validated)") and self.ev(call.func.value.value) == ("V",):
            self.acts.append("visit")
            return
        raise Unt(f"_validate_value: {txt[:60]}")

    def loop(self, s):
        it = ast.unparse(s.iter)
        v = [n for n, x in self.env.items() if x == ("V",)][0]
        if len(s.body) == 1 and isinstance(s.body[0], ast.Expr) and isinstance(s.body[0].value, ast.Call) and isinstance(s.target, ast.Name):
            c = ast.unparse(s.body[0].value)
            if c.endswith(f"{self.fname}({s.target.id}, validated)"):
                if it == v and self.kind == "list":
                    self.acts.append("items")
                    return
                if it == f"{v}.values()" and self.kind in DICTS:
                    self.acts.append("values")
                    return
        raise Unt(f"_validate_value: loop {ast.unparse(s)[:60]}")


def walk_value(tree, errs):
    fn = find(tree, "ConfigInformation", "_validate_value")
    vname = fn.args.args[0].arg
    out = {}
    for k in KINDS:
        it = WalkInterp(errs, k, vname, "_validate_value")
        try:
            it.run(fn.body)
        except _Return:
            pass
        out[k] = it.acts[0] if len(it.acts) == 1 else ("nothing" if not it.acts else "other")
    return out


def walk_node(tree, errs):
    """the shape of ConfigInformation._validate / validate / submit"""
    fn = find(tree, "ConfigInformation", "_validate")
    body = [s for s in fn.body if not (isinstance(s, ast.Expr) and isinstance(s.value, ast.Constant))]
    # memo: `if not self._validated: <all>` or `if self._validated: return` + <all>
    if len(body) == 1 and isinstance(body[0], ast.If) and ast.unparse(body[0].test) == "not self._validated" and not body[0].orelse:
        inner = body[0].body
    elif body and isinstance(body[0], ast.If) and ast.unparse(body[0].test) == "self._validated" and isinstance(body[0].body[0], ast.Return):
        inner = body[1:]
    else:
        raise Unt("_validate: the test of self._validated is not recognised")
    memo = bool(inner) and ast.unparse(inner[0]).replace(" ", "") == "self._validated=True"
    loops = [s for s in inner if isinstance(s, ast.For)]
    argloop = [s for s in loops if "arguments" in ast.unparse(s.iter)]
    if len(argloop) != 1:
        raise Unt("_validate: the loop over the arguments is not recognised")
    al = argloop[0]
    names = [e.id for e in al.target.elts] if isinstance(al.target, ast.Tuple) else [al.target.id]
    argname = names[-1]
    arg = {}
    for hasv in (False, True):
        for req in (False, True):
            for gen in (False, True):
                it = ArgLoopInterp(errs, {"value": hasv, f"{argname}.required": req, f"{argname}.generator": gen}, argname)
                try:
                    it.run(al.body)
                    res = it.acts[0] if len(it.acts) == 1 else ("skip" if not it.acts else "other")
                except _Raise as r:
                    res = "fail" if r.err == "invalid" and not it.acts else "other"
                arg[(hasv, req, gen)] = res

    def visits(attr):
        for s in loops:
            if ast.unparse(s.iter) == f"self.{attr}" and len(s.body) == 1 and ast.unparse(s.body[0]) == f"{s.target.id}.__xpm__._validate(validated)":
                return inner.index(s)
        return None

    pre, init = visits("pre_tasks"), visits("init_tasks")
    hook = [i for i, s in enumerate(inner) if isinstance(s, ast.If) and "__validate__" in ast.unparse(s.test)
            and "self.pyobject.__validate__()" in ast.unparse(s)]
    hook_last = bool(hook) and hook[0] > max(x for x in (inner.index(al), pre or 0, init or 0))
    # validate(): try: self._validate(validated) except Exception: for info in validated: info._validated = False; raise
    fv = find(tree, "ConfigInformation", "validate")
    reset = False
    for s in ast.walk(fv):
        if isinstance(s, ast.Try):
            for h in s.handlers:
                txt = ast.unparse(ast.Module(h.body, []))
                if "._validated = False" in txt and isinstance(h.body[-1], ast.Raise) and (h.type is None or ast.unparse(h.type) in ("Exception", "BaseException")):
                    reset = True
    fs = find(tree, "ConfigInformation", "submit")
    order = [ast.unparse(s) for s in ast.walk(fs) if isinstance(s, ast.Call)]
    lines = {}
    for s in ast.walk(fs):
        if isinstance(s, ast.Call):
            t = ast.unparse(s.func)
            if t.endswith("validate_and_seal") and "init_task" not in t:
                lines.setdefault("validate", s.lineno)
            if t.endswith(".submit") and "self.job" in ast.unparse(s):
                lines.setdefault("register", s.lineno)
    first = "validate" in lines and "register" in lines and lines["validate"] < lines["register"]
    return {"arg": arg, "memo": memo, "pre": pre is not None, "init": init is not None, "hookLast": hook_last, "reset": reset, "submitFirst": first}


class ArgLoopInterp(Interp):
    def __init__(self, errs, atoms, argname):
        super().__init__(errs, None, atoms, None)
        self.acts = []
        self.argname = argname

    def ev(self, n):
        if isinstance(n, ast.Call) and ast.unparse(n).startswith("self.values.get("):
            return ("atom", "value")
        if isinstance(n, ast.Attribute) and isinstance(n.value, ast.Name) and n.value.id == self.argname and ast.unparse(n) in self.atoms:
            return ("atom", ast.unparse(n))
        return super().ev(n)

    def effect(self, call):
        txt = ast.unparse(call)
        if "_validate_value(" in txt and self.ev(call.args[0]) == ("atom", "value"):
            self.acts.append("visit")
            return
        raise Unt(f"_validate: {txt[:60]}")


# ---------------------------------------------------------------------------
# ObjectType.__initialize__: how the argument table of a class is assembled from its bases


def arg_lin(tree):
    # the assignment sits in __initialize__ or in a helper it calls (`__gather__`): look at every method of ObjectType
    cls = next(c for c in tree.body if isinstance(c, ast.ClassDef) and c.name == "ObjectType")
    bodies = [f.body for f in cls.body if isinstance(f, ast.FunctionDef)
              and any(isinstance(x, (ast.Assign, ast.AnnAssign)) and ast.unparse(x).replace(" ", "").startswith(("self._arguments=", "self._arguments:")) for x in f.body)
              and f.name != "__init__"]
    if len(bodies) != 1:
        raise Unt("ObjectType: expected one method (other than __init__) that assigns self._arguments")
    txt = [ast.unparse(s).replace(" ", "") for s in bodies[0]]
    for i, t in enumerate(txt):
        if t.startswith("self._arguments=") or t.startswith("self._arguments:"):
            rhs = t.split("=", 1)[1]
            if rhs.startswith("ChainMap({},*(") and ".argumentsfor" in rhs and "inself.parents())" in rhs:
                return "dfs"      # the parents' own ChainMaps, first base first: depth-first
            if rhs.startswith("ChainMap({},*(") and ".arguments.maps[0]for" in rhs and ("__mro__" in rhs or "ancestors()" in rhs):
                return "mro"
            if rhs in ("{}", "dict()") and i + 1 < len(txt) and txt[i + 1].startswith("for") and "inself.parents():" in txt[i + 1] \
                    and "self._arguments.update(" in txt[i + 1]:
                return "lastWins"  # successive dict.update: the LAST base wins
            raise Unt(f"__initialize__: self._arguments = {rhs[:60]}")
    raise Unt("__initialize__: no assignment to self._arguments")


# ---------------------------------------------------------------------------
# Type.fromType


def from_type(tree):
    fn = find(tree, "Type", "fromType")
    out = []
    probes = set()   # locals holding the result of typingutils.get_list / get_dict / get_union (whatever their names)
    for s in fn.body:
        if not isinstance(s, ast.If):
            if isinstance(s, ast.Assign) and len(s.targets) == 1 and isinstance(s.targets[0], ast.Name):
                for fname, tag in (("get_list", "list"), ("get_dict", "dict"), ("get_union", "union")):
                    if fname in ast.unparse(s.value):
                        out.append(tag)
                        probes.add(s.targets[0].id)
                        break
            continue
        t = ast.unparse(s.test)
        if t in probes or any(t == f"{p} is not None" for p in probes):
            continue
        if t == "key is None":
            out.append("none")
        elif t in ("defined", "defined is not None") or "DEFINED" in t:
            out.append("defined")
        elif t == "isinstance(key, Type)":
            out.append("typeInst")
        elif t == "isinstance(key, TypeProxy)":
            out.append("proxy")
        elif t == "isinstance(key, Config)":
            out.append("cfgInst")
        elif t == "inspect.isclass(key)":
            for q in s.body:
                if isinstance(q, ast.If) and "issubclass(key, Enum)" in ast.unparse(q.test):
                    out.append("enumCls")
                elif isinstance(q, ast.If) and "issubclass(key, Config)" in ast.unparse(q.test):
                    out.append("cfgCls")
        elif "get_union" in t:
            out.append("union")
        elif "get_list" in t:
            out.append("list")
        elif "get_dict" in t:
            out.append("dict")
        elif "get_origin" in t:
            out.append("generic")
        elif t in ("t",):
            pass
        else:
            out.append("other")
    return out


# ---------------------------------------------------------------------------
# rendering

HEADER = """/- GENERATED by harness/xv/translate/typesrc.py from src/experimaestro/core/{types,arguments,objects}.py
   -- do not edit; rewritten on every run. -/
import XpmVerif.Model.ValidateSrc
namespace XpmVerif.Gen.ValidateSrc
open XpmVerif.Validate
"""


def ref_tables():
    inv = "raise invalid"
    t = lambda d: {k: d.get(k, inv) for k in KINDS}
    return {
        "int": t({"bool": "same", "int": "same", "floatNan": inv, "floatInf": "raise overflow", "floatInt": "toInt"}),
        "float": t({"bool": "toFloat", "int": "toFloat", **{k: "same" for k in FLOATS}}),
        "str": t({"str": "same"}),
        "bool": {k: ("same" if k == "bool" else "toBool") for k in KINDS},
        "path": t({"str": "toPath", "path": "same", "dictPath": "pathOfValue"}),
        "any": {k: "same" for k in KINDS},
        "enum": t({"enumSame": "same"}),
        "cfg": t({"cfgSub": "same"}),
        "list": t({"list": "mapElems"}),
        "dict": t({"dictPath": "mapItems true", "dictOther": "mapItems true"}),
        "unionTail": t({}),
        "walkValue": {k: ("visit" if k in CFGS else "items" if k == "list" else "values" if k in DICTS else "nothing") for k in KINDS},
    }


def lean_act(a):
    if a.startswith("raise "):
        return f".raise .{a[6:]}"
    if a.startswith("mapItems "):
        return f".mapItems {a[9:]}"
    return "." + a


def lean_table(name, tab, ty="Act", conv=lean_act):
    return f"def {name} : Kind → {ty}\n" + "".join(f"  | .{k} => {conv(tab[k])}\n" for k in KINDS)


def b(x):
    return "true" if x else "false"


def extract(repo: Path, probe=None):
    """(dict of everything read, [(part, why)] for the parts that fell back)"""
    ttree = ast.parse((repo / "src/experimaestro/core/types.py").read_text())
    atree = ast.parse((repo / "src/experimaestro/core/arguments.py").read_text())
    otree = ast.parse((repo / "src/experimaestro/core/objects.py").read_text())
    errs = class_errs(ttree)
    ref = ref_tables()
    R, fallback = {}, []

    def part(name, fn, default):
        try:
            R[name] = fn()
        except (Unt, StopIteration, AttributeError, IndexError, KeyError, TypeError) as e:
            R[name] = default() if callable(default) else default
            fallback.append((name, f"{type(e).__name__}: {e}"[:160]))

    for nm, cls, atoms in (("int", "IntType", False), ("float", "FloatType", False), ("str", "StrType", False), ("bool", "BoolType", False),
                           ("path", "PathType", False), ("any", "AnyType", False), ("enum", "EnumType", False), ("cfg", "ObjectType", True),
                           ("list", "ArrayType", False), ("dict", "DictType", False)):
        part(nm, lambda cls=cls, atoms=atoms: table(find(ttree, cls, "validate"), errs, atoms), lambda nm=nm: _probed_table(nm, ref, probe))

    def _union_default():
        p = probe() if probe else {}
        tail = dict(ref["unionTail"])
        if p.get("unionDictNone"):
            tail["dictPath"] = tail["dictOther"] = "retNone"
        return ({"invalid": True, "assertion": False, "overflow": False, "attribute": False}, tail, bool(p.get("enumNameFails", True)), False)
    part("union", lambda: union(ttree, errs), _union_default)
    part("argValidate", lambda: arg_validate(atree, errs),
         {(False, False): "same", (False, True): "same", (True, False): "raise invalid", (True, True): "same"})
    part("argRequired", lambda: arg_required(atree, errs), {(r, d): (d if r is None else r) for r in (None, False, True) for d in (False, True)})
    part("createRequired", lambda: create_required(atree, errs), {(o, d): (not o and not d) for o in (False, True) for d in (False, True)})
    part("set", lambda: set_table(otree, errs),
         ({(bp, gc, vn, rq): ("readonly" if (gc and not bp) else "storeValidated" if not vn else "readonly" if rq else "storeNone")
           for bp in (False, True) for gc in (False, True) for vn in (False, True) for rq in (False, True)}, True))

    def _walkvalue_default():
        p = probe() if probe else {}
        w = dict(ref["walkValue"])
        if p and not p.get("deepValidate", True):
            w["list"] = w["dictPath"] = w["dictOther"] = "nothing"
        return w
    part("walkValue", lambda: walk_value(otree, errs), _walkvalue_default)

    def _walknode_default():
        p = probe() if probe else {}
        return {"arg": {(h, r, g): ("visit" if h else "fail" if (r and not g) else "skip") for h in (False, True) for r in (False, True) for g in (False, True)},
                "memo": True, "pre": True, "init": True, "hookLast": True, "reset": bool(p.get("resetOnFail", True)), "submitFirst": True}
    part("walk", lambda: walk_node(otree, errs), _walknode_default)
    part("argLin", lambda: arg_lin(ttree), lambda: (probe() or {}).get("lin", "dfs") if probe else "dfs")
    part("fromType", lambda: from_type(ttree), ["none", "defined", "typeInst", "proxy", "cfgInst", "enumCls", "cfgCls", "list", "dict", "union", "generic"])
    return R, fallback


def _probed_table(nm, ref, probe):
    """a validator whose body is outside the subset: the reference table, with the entries that a probed switch decides"""
    t = dict(ref[nm])
    p = probe() if probe else {}
    if nm == "enum" and p.get("enumAssert"):
        t = {k: (v if v == "same" else "raise assertion") for k, v in t.items()}
    if nm == "cfg" and p.get("cfgNoneOk"):
        t["none"] = "same"
    return t


def render(R, fallback):
    out = [HEADER]
    for name, why in fallback:
        out.append(f"-- {name}: NOT TRANSLATED ({why}); reference / probed entries, the correspondence decides\n")
    for nm in ("int", "float", "str", "bool", "path", "any", "enum", "cfg", "list", "dict"):
        out.append(lean_table(nm + "Table", R[nm]))
    catch, tail, msg_names, enum_has_name = R["union"]
    out.append(lean_table("unionTailTable", tail))
    out.append("def unionCatchTable : Err → Bool\n" + "".join(f"  | .{e} => {b(catch[e])}\n" for e in ("invalid", "assertion", "overflow", "attribute")))
    av = R["argValidate"]
    out.append("def argValidateTable : Bool → Bool → Act\n" + "".join(f"  | {b(h)}, {b(o)} => {lean_act(av[(h, o)])}\n" for h in (False, True) for o in (False, True)))
    ar = R["argRequired"]
    opt = {None: "none", False: "some false", True: "some true"}
    out.append("def argRequiredTable : Option Bool → Bool → Bool\n" + "".join(f"  | {opt[r]}, {b(d)} => {b(ar[(r, d)])}\n" for r in (None, False, True) for d in (False, True)))
    cr = R["createRequired"]
    out.append("def createRequiredTable : Bool → Bool → Bool\n" + "".join(f"  | {b(o)}, {b(d)} => {b(cr[(o, d)])}\n" for o in (False, True) for d in (False, True)))
    st, sealed = R["set"]
    out.append("def setTable : Bool → Bool → Bool → Bool → SetAct\n" + "".join(
        f"  | {b(bp)}, {b(gc)}, {b(vn)}, {b(rq)} => .{st[(bp, gc, vn, rq)]}\n" for bp in (False, True) for gc in (False, True) for vn in (False, True) for rq in (False, True)))
    out.append(lean_table("walkValueTable", R["walkValue"], "WAct", lambda a: "." + a))
    w = R["walk"]
    out.append("def walkArgTable : Bool → Bool → Bool → ArgAct\n" + "".join(
        f"  | {b(h)}, {b(r)}, {b(g)} => .{w['arg'][(h, r, g)]}\n" for h in (False, True) for r in (False, True) for g in (False, True)))
    out.append(f"""def src : Src :=
  {{ int := intTable, float := floatTable, str := strTable, bool := boolTable, path := pathTable, any := anyTable,
    enum := enumTable, cfg := cfgTable, list := listTable, dict := dictTable,
    unionCatch := unionCatchTable, unionTail := unionTailTable, unionMsgNames := {b(msg_names)}, enumHasName := {b(enum_has_name)},
    argValidate := argValidateTable, argRequired := argRequiredTable, createRequired := createRequiredTable,
    set := setTable, setSealedRaises := {b(sealed)},
    walkValue := walkValueTable, walkArg := walkArgTable, walkMemo := {b(w['memo'])}, walkPre := {b(w['pre'])}, walkInit := {b(w['init'])},
    walkHookLast := {b(w['hookLast'])}, walkReset := {b(w['reset'])}, submitValidatesFirst := {b(w['submitFirst'])},
    argLin := .{R['argLin']},
    fromType := [{', '.join('.' + d for d in R['fromType'])}] }}

end XpmVerif.Gen.ValidateSrc
""")
    return "\n".join(out)


def switches(R):
    """the six switches of Model/Validate.lean `Impl` implied by what was read (mirror of `Src.impl`)"""
    catch, tail, msg_names, enum_has_name = R["union"]
    return {"unionDictNone": tail["dictOther"] == "retNone", "enumAssert": R["enum"]["other"] == "raise assertion",
            "cfgNoneOk": R["cfg"]["none"] in ("same", "retNone"),
            "deepValidate": R["walkValue"]["list"] == "items" and R["walkValue"]["dictOther"] == "values",
            "enumNameFails": msg_names and not enum_has_name, "resetOnFail": R["walk"]["reset"]}


def generate(repo: Path, lean_dir: Path, probe=None):
    """probe: optional function -> dict of the six switches probed on the real code, asked only for the parts whose source shape
    is outside the subset"""
    out = lean_dir / "XpmVerif/Generated/ValidateSrc.lean"
    try:
        R, fallback = extract(repo, probe)
        text = render(R, fallback)
        generate.last = (R, fallback)
        ok = True
        msg = "translated" if not fallback else ("untranslated: " + "; ".join(f"{n} ({w})" for n, w in fallback) + "; falls back on the correspondence")
    except SyntaxError as e:
        text = HEADER + f"\n#eval (TRANSLATION_FAILED : Nat) -- {str(e)[:200]}\n\nend XpmVerif.Gen.ValidateSrc\n"
        ok, msg = False, f"untranslatable: {e}"
    if not out.exists() or out.read_text() != text:
        out.write_text(text)
    return ok, msg


if __name__ == "__main__":
    import sys
    R, fb = extract(Path(sys.argv[1]))
    print(render(R, fb))
    print("-- switches:", switches(R), file=sys.stderr)
    print("-- fallback:", fb, file=sys.stderr)
