import XpmVerif.Model.Sched
import XpmVerif.Generated.SchedFlags
namespace XpmVerif.C08
open XpmVerif.Sched
/-- obligation on the current source: the three scheduler repairs are present. -/
theorem scheduler_flags : Gen.schedFlags = { readyGuarded := true, resubmitRegisters := true, abortRechecks := true } := by decide
end XpmVerif.C08
