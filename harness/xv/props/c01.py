"""C01 — a configuration's identifier is a pure function of its content.

Correspondence: class libraries generated as real packages, graphs built with the real
constructors; every identifier the real code returns along a history of seal / raw / full
requests is compared with the Lean model (Drive/Ident.lean: implementation model with caches)
and with the cache-free specification.  Monitors (implementation only): the same configuration
built with another keyword / dict-insertion order, sealed or not, with identifiers requested in
any order, in processes with different PYTHONHASHSEED, yields one identifier; golden identifiers
pinned from the reference commit."""
import json
import random

from .. import common, identlib
from ..gen import cfggen
from ..translate import argflags, hashflags, hashsrc

def cfgbuild_refs(v):
    if isinstance(v, dict):
        if "r" in v:
            return [v["r"]]
        if "l" in v:
            return [r for x in v["l"] for r in cfgbuild_refs(x)]
        if "d" in v:
            return [r for _, x in v["d"] for r in cfgbuild_refs(x)]
    return []


PROP = "C01"
MODULES = ["XpmVerif.Properties.C01", "XpmVerif.Properties.C01Cache", "XpmVerif.Properties.HashSrc", "XpmVerif.Properties.C01CacheSrc"]
GOLDEN = common.VERIF / "corpus" / "golden_identifiers.json"


def prove(ctx):
    msgs = [hashflags.generate(common.REPO, common.LEAN, probe=identlib.loop_flag_probe(ctx)), hashsrc.generate(common.REPO, common.LEAN)]
    ctx.notes.append(f"translator(hashsrc): {msgs[1][1]}")
    ctx.count("translator", "hashsrc:" + ("translated" if msgs[1][1].startswith("translated") else "fallback"))
    msgs.append(argflags.generate(common.REPO, common.LEAN, probe=identlib.inherit_rule_probe(ctx)))   # Generated/ArgFlags.lean: the driver derives the argument flags with it
    ctx.notes.append(f"translator(argflags): {msgs[-1][1]}")
    ctx.notes.append(f"translator(hashflags): {msgs[0][1]}")
    from ..translate import computesrc   # HashComputer.compute + ConfigPath -> Generated/ComputeSrc.lean (obligations: Properties/C01CacheSrc.lean)
    msgs.append(computesrc.generate(common.REPO, common.LEAN, probe=identlib.loop_flag_probe(ctx)))
    ctx.notes.append(f"translator(computesrc): {msgs[-1][1]}")
    ctx.count("translator", "computesrc:" + ("translated" if msgs[-1][1].startswith("translated") else "fallback"))
    common.check_proofs(ctx, MODULES, translate_msgs=msgs)


def make_case(rng, lib_index, lib, g):
    """reference build A (canonical order, unsealed, every identifier) + variant build B
    (other keyword/dict order, random seal/request history, then every identifier)"""
    n = len(g["nodes"])
    steps = [{"do": "build", "graph": g, "as": "A"}, {"do": "graph", "of": "A"}]
    steps += [{"do": "op", "on": "A", "op": {"op": "full", "n": k}} for k in range(n)]
    steps += [{"do": "op", "on": "A", "op": {"op": "raw", "n": k}} for k in range(n)]
    gb = identlib.permute_graph(rng, g)
    hist = cfggen.gen_history(rng, g)
    order = list(range(n))
    rng.shuffle(order)
    steps += [{"do": "build", "graph": gb, "as": "B"}, {"do": "graph", "of": "B"}]
    steps += [{"do": "op", "on": "B", "op": o} for o in hist]
    steps += [{"do": "op", "on": "B", "op": {"op": "full", "n": k}} for k in order]
    steps += [{"do": "op", "on": "B", "op": {"op": "raw", "n": k}} for k in order]
    # variant L: some self-contained nodes (no reference, no flag, no task link) are replaced by what save -> load /
    # state_dict -> from_state_dict / .copy() / copyconfig() returns for them before their parents are built
    leaves = [k for k, nd in enumerate(g["nodes"]) if not nd["pre"] and not nd["init"] and nd["task"] is None
              and not any(cfgbuild_refs(v) for _, v in nd["values"]) and not nd.get("tags") and not nd.get("deps")
              and any(k in [r for _, v in other["values"] for r in cfgbuild_refs(v)] for other in g["nodes"])]
    loaded = {}
    if leaves and rng.random() < 0.6:
        for k in rng.sample(leaves, min(len(leaves), rng.choice([1, 1, 2]))):
            # a node that carries a meta flag goes through the two serialised routes (the flag is part of what is written)
            loaded[k] = rng.choice(["state", "save", "copy", "copyconfig"] if g["nodes"][k]["meta"] is None else ["state", "save"])
        gl = dict(g, loaded={str(k): v for k, v in loaded.items()})
        steps += [{"do": "build", "graph": gl, "as": "L"}, {"do": "graph", "of": "L"}]
        steps += [{"do": "op", "on": "L", "op": {"op": "full", "n": k}} for k in order]
        steps += [{"do": "op", "on": "L", "op": {"op": "raw", "n": k}} for k in order]
    return {"lib": lib_index, "steps": steps, "graph": g, "n": n, "hist": hist, "order": order, "loaded": loaded}


def monitor_case(ctx, case, rec, label):
    """implementation only: every identifier of node k, whenever and however requested, is the same"""
    n = case["n"]
    ops = [s["op"] for s in case["steps"] if s["do"] == "op"]
    outs = [o for l, o in zip(rec["lines"], rec["impl"]) if l["op"] != "graph"]
    ref_full, ref_raw = {}, {}
    for op, out in zip(ops, outs):
        if op["op"] not in ("full", "raw") or "id" not in out:
            continue
        ref = ref_full if op["op"] == "full" else ref_raw
        k = op["n"]
        if k in ref and ref[k] != out["id"]:
            sealed_cycle = identlib.has_cycle(case["graph"]) and any(o["op"] == "seal" for o in case["hist"])
            key = "request-order:sealed-cycle" if sealed_cycle else "identifier-not-a-function-of-content"
            ctx.monitor_fail(key, f"{label}: node {k} received identifiers {ref[k][:16]}… and {out['id'][:16]}… for the same content "
                                  f"(history {case['hist']}, final request order {case['order']})",
                             {"lib": case["lib"], "graph": case["graph"], "hist": case["hist"], "order": case["order"]})
            return
        ref.setdefault(k, out["id"])


def correspond(ctx):
    rng = ctx.rng
    ctx.rule = ("a case = class library (generated source, real package) + configuration graph (<= ~12 nodes, nested/shared/cyclic, lists, dicts, "
                "enums, meta flags, pre/init tasks, task outputs) built twice (canonical; permuted keyword and dict order) + history of seal/raw/full "
                "requests; non-trivial = graph with >= 1 nested configuration and >= 2 identifier requests in the history; distinct = case hash")
    ctx.assumptions += ["SHA-256 itself is not verified (the driver's Lean SHA-256 is validated against hashlib by this very comparison)",
                        "ints within int64, no Path values inside containers (the real code raises), text is valid UTF-8"]
    nlibs = ctx.scale(6, 40)
    per = ctx.scale(40, 250)
    libs, cases = [], []
    for li in range(nlibs):
        lib = cfggen.gen_library(rng, f"c01_{ctx.seed}_{li}", cfg_defaults=common.CFG_DEFAULTS)
        libs.append(lib)
        for _ in range(per):
            g = cfggen.gen_graph(rng, lib, max_nodes=rng.choice([3, 6, 10, 12]))
            cases.append(make_case(rng, li, lib, g))
    # golden identifiers (pinned from the reference commit), run as ordinary cases
    golden = json.loads(GOLDEN.read_text()) if GOLDEN.exists() else None
    gold_cases = []
    if golden:
        gl = len(libs)
        libs += golden["libs"]
        for gc in golden["cases"]:
            n = len(gc["graph"]["nodes"])
            steps = [{"do": "build", "graph": gc["graph"], "as": "A"}, {"do": "graph", "of": "A"}]
            steps += [{"do": "op", "on": "A", "op": {"op": "full", "n": k}} for k in range(n)]
            gold_cases.append({"lib": gl + gc["lib"], "steps": steps, "expected": gc["ids"], "graph": gc["graph"]})
    hashseeds = (0, 1, rng.randrange(2, 2**31)) if ctx.quick() else (0, 1, 7, rng.randrange(2, 2**31))
    res = identlib.run_cases(ctx, libs, [{"lib": c["lib"], "steps": c["steps"]} for c in cases + gold_cases], hashseeds=hashseeds,
                             shards=5 if ctx.quick() else 4)
    base = res[hashseeds[0]]
    # monitors
    for ci, case in enumerate(cases):
        rec = base[ci]
        st = identlib.graph_stats(case["graph"])
        for k in ("cyclic",):
            ctx.count(k, st[k])
        ctx.count("nodes", min(st["nodes"], 15))
        ctx.count("shared", min(st["shared"], 3))
        ctx.count("features", "+".join(k for k in ("meta", "pre", "init", "taskout") if st[k]) or "plain")
        ctx.count("history_has_seal", any(o["op"] == "seal" for o in case["hist"]))
        ctx.count("loaded_subconfigurations", len(case["loaded"]))
        if rec["error"]:
            ctx.count("case_errors", rec["error"][:60])
            continue
        ctx.case({"lib": libs[case["lib"]]["pkg"], "graph": case["graph"], "hist": case["hist"], "order": case["order"]},
                 st["refs"] >= 1 and sum(1 for o in case["hist"] if o["op"] in ("raw", "full")) >= 2)
        monitor_case(ctx, case, rec, "one process")
        for hs in hashseeds[1:]:
            other = res[hs][ci]
            if other["impl"] != rec["impl"]:
                ctx.monitor_fail("hash-seed-dependent", f"identifiers differ between PYTHONHASHSEED={hashseeds[0]} and {hs}",
                                 {"lib": case["lib"], "graph": case["graph"], "hist": case["hist"]})
                break
    for gi, gc in enumerate(gold_cases):
        rec = base[len(cases) + gi]
        got = [o.get("id") for o in rec["impl"][1:]] if not rec["error"] else rec["error"]
        ctx.count("golden", "match" if got == gc["expected"] else "MISMATCH")
        if got != gc["expected"]:
            ctx.monitor_fail("golden-identifier-changed", f"identifiers pinned from the reference commit changed: expected {gc['expected'][:2]}…, got {str(got)[:140]}",
                             {"golden_case": gi, "graph": gc["graph"]})
    # job directory: jobs/<type id>/<identifier> of a really submitted task (dry run / generate-only)
    slibs, scases = identlib.submit_cases(ctx, rng, "c01sub", ctx.scale(2, 8), ctx.scale(8, 40))
    for case, rec in zip(scases, identlib.run_submit(ctx, slibs, scases)):
        if rec["error"]:
            ctx.count("submit_case_errors", rec["error"][:60])
            continue
        ctx.case({"submit": case["graph"]}, True)
        ctx.count("submit_cases", "ok")
        for v in rec["variants"]:
            want = f"{v['typeid']}/{rec['unsubmitted']}"
            if v["relpath"] != want or v["jobdir"] != "jobs/" + want or v["identifier"] != rec["unsubmitted"] or (v["params_identifier"] not in (None, rec["unsubmitted"])):
                ctx.monitor_fail("job-directory-not-derived-from-identifier",
                                 f"submitted task ({v['env']}): job directory {v['jobdir']} / identifier {v['identifier'][:16]}… / params.json {str(v['params_identifier'])[:16]}…, "
                                 f"expected jobs/{want[:40]}… (identifier before submission)", {"graph": case["graph"], "variant": v})
                break
        # the same task with the same initialisation tasks, submitted at once or after it was used in-process / written first
        hs = [h for h in rec.get("histories", []) if "identifier" in h]
        for h in rec.get("histories", []):
            ctx.count("pre_submission_history", h["env"] + (":skipped" if "skipped" in h else ""))
        if len({(h["identifier"], h["relpath"]) for h in hs}) > 1:
            ctx.monitor_fail("identifier-depends-on-history-before-submission",
                             "the same task submitted with the same initialisation tasks received different identifiers / job directories: "
                             + "; ".join(f"{h['env']} -> {h['relpath'][-20:]}" for h in hs), {"graph": case["graph"], "histories": hs})
    errs = sum(1 for r in base if r["error"])
    if errs > len(base) // 10:
        raise RuntimeError(f"{errs}/{len(base)} generated cases could not be built: {next(r['error'] for r in base if r['error'])}")
    # correspondence with the Lean model
    good = [(c, r) for c, r in zip(cases + gold_cases, base) if not r["error"]]
    try:
        mouts = identlib.model_outputs(ctx, [r for _, r in good])
    except Exception as e:
        ctx.disagree({"driver": "Ident"}, None, None, f"model driver failed: {e}")
        return
    for (c, r), mo in zip(good, mouts):
        ctx.traces_validated += 1
        for i, (line, m, im) in enumerate(zip(r["lines"], mo, r["impl"])):
            if m != im:
                ctx.disagree({"graph": c["graph"], "hist": c.get("hist"), "at_line": i, "line": line if line["op"] != "graph" else "graph"}, m, im,
                             "identifier computed by the model differs from the implementation")
                break


def search(ctx):
    """more monitor-only cases (cycles + seals emphasised) when something broke"""
    rng = random.Random(f"search-{ctx.seed}")
    libs, cases = [], []
    for li in range(ctx.scale(6, 30)):
        lib = cfggen.gen_library(rng, f"c01s_{ctx.seed}_{li}", cfg_defaults=common.CFG_DEFAULTS)
        libs.append(lib)
        for _ in range(60):
            cases.append(make_case(rng, li, lib, cfggen.gen_graph(rng, lib, max_nodes=rng.choice([3, 5, 8]))))
    res = identlib.run_cases(ctx, libs, [{"lib": c["lib"], "steps": c["steps"]} for c in cases])[None]
    for case, rec in zip(cases, res):
        if not rec["error"]:
            monitor_case(ctx, case, rec, "search")


WITNESS_LIB = {"pkg": "xvlib_c01w", "enums": [], "classes": [
    {"name": "N", "xpmid": "xvlib_c01w.n", "parent": None, "kind": "config", "deprecated": False,
     "args": [{"name": "nxt", "decl": "param", "ty": {"cfg": "N", "fwd": True}, "optional": True},
              {"name": "v", "decl": "param", "ty": "int", "optional": False}]}]}


WITNESS_LIB_SUBMIT = {"pkg": "xvlib_c01ws", "enums": [], "classes": [
    {"name": "LW", "xpmid": "xvlib_c01ws.lw", "parent": None, "kind": "light", "deprecated": False,
     "args": [{"name": "v", "decl": "param", "ty": "int", "optional": False}]},
    {"name": "T", "xpmid": "xvlib_c01ws.t", "parent": None, "kind": "task", "deprecated": False,
     "args": [{"name": "v", "decl": "param", "ty": "int", "optional": False}]}]}


def run_witness(ctx, finding):
    w = finding.get("witness")
    if w and w.get("kind") == "presubmit-history":
        g = {"nodes": [{"cls": "T", "values": [["v", 1]], "meta": None, "pre": [], "init": [], "task": None}]}
        rec = identlib.run_submit(ctx, [WITNESS_LIB_SUBMIT], [{"lib": 0, "graph": g}], shards=1)[0]
        if rec["error"]:
            raise RuntimeError(f"witness F38 cannot run: {rec['error']}")
        hs = [h for h in rec.get("histories", []) if "identifier" in h]
        if len(hs) < 3:
            raise RuntimeError(f"witness F38 cannot run: {rec.get('histories')}")
        if len({(h["identifier"], h["relpath"]) for h in hs}) > 1:
            ctx.monitor_fail("identifier-depends-on-history-before-submission",
                             "T(v=1) submitted with one initialisation task: " + "; ".join(f"{h['env']} -> {h['relpath'][-20:]}" for h in hs),
                             {"witness": "presubmit-history", "histories": hs})
        return
    if not w or w.get("kind") != "sealed-cycle":
        return
    g = {"nodes": [{"cls": "N", "values": [["v", i], ["nxt", {"r": (i + 1) % 3}]], "meta": None, "pre": [], "init": [], "task": None} for i in range(3)]}
    ids = {}
    cases = []
    for order in ([0, 1, 2], [1, 2, 0], [2, 0, 1]):
        steps = [{"do": "build", "graph": g, "as": "A"}, {"do": "op", "on": "A", "op": {"op": "seal", "n": 0}}]
        steps += [{"do": "op", "on": "A", "op": {"op": "full", "n": k}} for k in order]
        cases.append({"lib": 0, "steps": steps, "order": order})
    res = identlib.run_cases(ctx, [WITNESS_LIB], [{"lib": 0, "steps": c["steps"]} for c in cases], shards=1)[None]
    per_node = {}
    for c, r in zip(cases, res):
        for k, o in zip(c["order"], r["impl"][1:]):
            per_node.setdefault(k, set()).add(o.get("id"))
    if any(len(v) > 1 for v in per_node.values()):
        ctx.monitor_fail("request-order:sealed-cycle", "sealed cycle a->b->c->a: identifiers depend on the order in which they are requested",
                         {"witness": "sealed-cycle", "ids": {k: sorted(v) for k, v in per_node.items()}})


def replay(ctx, obj):
    prove(ctx)
    correspond(ctx)
    return common.verdict(ctx, search)
