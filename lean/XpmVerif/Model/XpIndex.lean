/-! M7 — the job index of one experiment (`xp/<name>/jobs`, `xp/<name>/jobs.bak`, `xp/<name>/lock`).

Source: `scheduler/base.py`
* `experiment.__enter__`  (l.966-1014): take `xp/<name>/lock` (`connector.lock(path, 0).__enter__()`, an
  `fcntl` lock polled until it is free), `jobs.bak.mkdir(exist_ok=True)`, then for every symlink `jobs/*/*`:
  unlink it if `jobs.bak` has a link of that name, else rename it into `jobs.bak`.
* `Scheduler.aio_submit`  (l.565-570): `jobs/<task>/<id>`: unlink if it is a symlink, `symlink_to(job.path)`.
* `experiment.__exit__`   (l.1015-1056): `rmtree(jobs.bak)` iff `exc_type is None` (before `wait()`), lock
  released in the `finally`.
* death of the process: nothing runs; the operating system drops the `fcntl` lock; files stay.

A link is `(name, target)`: `name` is the relative path `task/identifier` (a number here), `target` names
the job whose directory the link points to.  The fields `cur`, `plan`, `aborted`, `junk` are *ghost* history
(never read by a transition that computes `jobs`, `bak`, `lock`, `inside`). -/
namespace XpmVerif.XpIndex

abbrev Link := Nat
abbrev Proc := Nat

/-- one symbolic link of an index folder -/
structure Entry where
  name : Link
  target : Link
deriving DecidableEq, Repr

structure St where
  /-- links under `xp/<name>/jobs` -/
  jobs : List Entry
  /-- links under `xp/<name>/jobs.bak`; `none` = the directory does not exist -/
  bak : Option (List Entry)
  /-- holder of the `fcntl` lock on `xp/<name>/lock` -/
  lock : Option Proc
  /-- processes that are inside the `with experiment(...)` block -/
  inside : List Proc
  /-- ghost: jobs submitted so far by the run that is inside the block -/
  cur : List Link
  /-- ghost: jobs submitted by the last run whose block ended without an exception -/
  plan : List Link
  /-- ghost: jobs submitted by the runs that were aborted (exception or death) since then -/
  aborted : List Link
  /-- ghost: what an interrupted `rmtree(jobs.bak)` left behind (death inside `__exit__`) -/
  junk : List Link
deriving Repr

def init : St :=
  { jobs := [], bak := none, lock := none, inside := [], cur := [], plan := [], aborted := [], junk := [] }

def names (es : List Entry) : List Link := es.map (·.name)

def hasName (es : List Entry) (n : Link) : Bool := es.any (fun e => e.name == n)

def bakList (s : St) : List Entry := s.bak.getD []

/-- one iteration of the loop of `__enter__`: `if target.is_symlink(): p.unlink() else: p.rename(target)` -/
def moveOne (bak : List Entry) (e : Entry) : List Entry :=
  if hasName bak e.name then bak else bak ++ [e]

/-- the whole loop over `jobs/*/*` -/
def moveAll (bak jobs : List Entry) : List Entry := jobs.foldl moveOne bak

/-- `aio_submit`: replace the link named after the job by a link to the job directory -/
def link (jobs : List Entry) (l : Link) : List Entry :=
  { name := l, target := l } :: jobs.filter (fun e => e.name != l)

/-- release of the `fcntl` lock by `p` (its `__exit__`, or the operating system when `p` dies) -/
def unlock (lock : Option Proc) (p : Proc) : Option Proc := if lock = some p then none else lock

inductive Op where
  /-- `p` executes `__enter__`: blocks (no effect) while another process holds the lock -/
  | enter (p : Proc)
  /-- `p`, inside the block, submits job `l` (first segment of `aio_submit`) -/
  | submit (p : Proc) (l : Link)
  /-- the block of `p` ends without an exception: `__exit__(None, None, None)` -/
  | exitOk (p : Proc)
  /-- an exception escapes the block of `p`: `__exit__(exc_type, …)` -/
  | exitExc (p : Proc)
  /-- `p` dies inside the block -/
  | killed (p : Proc)
  /-- `p` dies inside `__enter__`, after taking the lock and creating `jobs.bak`, having handled the
      links whose names are in `moved` (any subset: the order of `glob` is not specified) -/
  | killedEntering (p : Proc) (moved : List Link)
  /-- the block of `p` ended without an exception and `p` dies inside `rmtree(jobs.bak)` having removed
      the links whose names are in `removed` (the directory itself is still there) -/
  | killedExiting (p : Proc) (removed : List Link)
deriving Repr

def step (s : St) : Op → St
  | .enter p =>
    if s.lock.isSome then s else
    { s with lock := some p, inside := p :: s.inside,
             bak := some (moveAll (bakList s) s.jobs), jobs := [], cur := [] }
  | .submit p l =>
    if s.inside.contains p then { s with jobs := link s.jobs l, cur := l :: s.cur } else s
  | .exitOk p =>
    if s.inside.contains p then
      { s with bak := none, inside := s.inside.erase p, lock := unlock s.lock p,
               plan := s.cur, aborted := [], junk := [], cur := [] }
    else s
  | .exitExc p =>
    if s.inside.contains p then
      { s with inside := s.inside.erase p, lock := unlock s.lock p, aborted := s.aborted ++ s.cur, cur := [] }
    else s
  | .killed p =>
    if s.inside.contains p then
      { s with inside := s.inside.erase p, lock := unlock s.lock p, aborted := s.aborted ++ s.cur, cur := [] }
    else s
  | .killedEntering _ moved =>
    if s.lock.isSome then s else
    { s with bak := some (moveAll (bakList s) (s.jobs.filter (fun e => moved.contains e.name))),
             jobs := s.jobs.filter (fun e => !moved.contains e.name) }
  | .killedExiting p removed =>
    if s.inside.contains p then
      let rest := (bakList s).filter (fun e => !removed.contains e.name)
      { s with bak := s.bak.map (fun _ => rest), inside := s.inside.erase p, lock := unlock s.lock p,
               plan := s.cur, aborted := [], junk := names rest, cur := [] }
    else s

def run (ops : List Op) (s : St) : St := ops.foldl step s

/-- every link of `jobs` and `jobs.bak` -/
def indexed (s : St) : List Entry := s.jobs ++ bakList s

/-- `orphans` (cli/__init__.py l.186-234): the jobs of an experiment are the entries of `jobs` and
    `jobs.bak` that *are directories* (the link is followed) -/
def referenced (s : St) (dirs : List Link) : List Link :=
  ((indexed s).filter (fun e => dirs.contains e.target)).map (·.name)

/-- job directories of the workspace (`dirs`) that no index entry stands for -/
def orphans (s : St) (dirs : List Link) : List Link :=
  dirs.filter (fun d => !(referenced s dirs).contains d)

/-- the jobs submitted by `p` in a sequence of operations -/
def submitted (p : Proc) : List Op → List Link
  | [] => []
  | .submit q l :: ops => if q = p then l :: submitted p ops else submitted p ops
  | _ :: ops => submitted p ops

/-- `op` does not end the block of `p` -/
def Op.keeps (p : Proc) : Op → Bool
  | .exitOk q => q != p
  | .exitExc q => q != p
  | .killed q => q != p
  | .killedExiting q _ => q != p
  | _ => true

end XpmVerif.XpIndex
