import XpmVerif.Model.RunnerEff
/-! M3, refinement of the run lock: **inode identity**.

    In `Model/Runner.lean` the run lock is an abstract holder (`Shared.lock : Option Holder`).  The real lock is a POSIX lock on the
    *inode* that the lock path names at the moment a process opens it: the path is a name ↦ inode map, every process that waits for or
    holds the lock has one inode open, and the kernel admits one holder **per inode**.  Removing (or renaming) the name does not touch the
    inode that holders and queued processes have open; the next open of the path creates a fresh inode that nobody holds.

    `FS` = the name, the inode counter, the holder of every inode, the inode every process has open.  `Op` = what a process does to the lock
    (`openL`: open the path, creating the file when the name points to nothing — the beginning of `lock.acquire`; `acquire`: the kernel
    grants the lock when the inode is free — a queued process retries this; `releaseL`: release / close / death) plus `unlink`.
    `abs` = the abstract lock of `Model/Runner.lean`: the holder of the inode the name points to. -/
namespace XpmVerif.RunnerLockIds
open XpmVerif.Runner (Holder Eff)

structure FS where
  name : Option Nat := none               -- inode the lock path points to (none: no such file)
  next : Nat := 0                         -- next fresh inode
  holder : Nat → Option Holder := fun _ => none
  fd : Holder → Option Nat := fun _ => none   -- the inode a process has open (queued or holding)

inductive Op
  | openL (h : Holder) | acquire (h : Holder) | releaseL (h : Holder) | unlink
  deriving DecidableEq, Repr

def updH (f : Holder → Option Nat) (h : Holder) (v : Option Nat) : Holder → Option Nat := fun x => if x = h then v else f x
def updI (f : Nat → Option Holder) (i : Nat) (v : Option Holder) : Nat → Option Holder := fun x => if x = i then v else f x

def step (fs : FS) : Op → FS
  | .openL h =>
      match fs.fd h with
      | some _ => fs
      | none =>
        match fs.name with
        | some i => { fs with fd := updH fs.fd h (some i) }
        | none => { fs with name := some fs.next, next := fs.next + 1, fd := updH fs.fd h (some fs.next) }
  | .acquire h =>
      match fs.fd h with
      | some i => if fs.holder i = none then { fs with holder := updI fs.holder i (some h) } else fs
      | none => fs
  | .releaseL h =>
      match fs.fd h with
      | some i => { fs with holder := if fs.holder i = some h then updI fs.holder i none else fs.holder, fd := updH fs.fd h none }
      | none => fs
  | .unlink => { fs with name := none }

def run (fs : FS) : List Op → FS
  | [] => fs
  | o :: os => run (step fs o) os

/-- process `h` holds the run lock (on whatever inode it has open) -/
def holds (fs : FS) (h : Holder) : Prop := ∃ i, fs.fd h = some i ∧ fs.holder i = some h

/-- the abstract lock of `Model/Runner.lean`: the holder of the inode the name points to -/
def abs (fs : FS) : Option Holder :=
  match fs.name with
  | some i => fs.holder i
  | none => none

/-- every open descriptor is on the inode the name points to, and every holder has its inode open -/
structure Inv (fs : FS) : Prop where
  fdName : ∀ h i, fs.fd h = some i → fs.name = some i
  holderFd : ∀ i h, fs.holder i = some h → fs.fd h = some i

/-- the lock operations behind the effects of a job process `h` (`Generated/RunnerSrc.lean`) -/
def opsOfEff (h : Holder) : Eff → List Op
  | .lockAcquire => [.openL h, .acquire h]
  | .lockRelease => [.releaseL h]
  | .exitProcess => [.releaseL h]
  | .unlinkLock => [.unlink]
  | _ => []

def opsOf (h : Holder) : List Eff → List Op
  | [] => []
  | e :: es => opsOfEff h e ++ opsOf h es

end XpmVerif.RunnerLockIds
