import XpmVerif.Model.Restart
import XpmVerif.Generated.RestartStatus
/-! M (restart) with the operating system's view of the job processes: the model `Model/Restart.lean` only knows whether a
    process is gone (`Disk.alive`); here every live process additionally has a status chosen by the environment
    (`os : Nat → PStat`: running, sleeping, *stopped*, traced …), and adoption / waiting are decided as `PsutilProcess`
    decides them from the status (`treatedAlive genActiveStatuses`, the list read from the source). -/
namespace XpmVerif.Restart

/-- what `psutil` reports for process `p`: `gone` when the process is gone, else what the environment says. -/
def statusOf (d : Disk) (os : Nat → PStat) (p : Nat) : PStat := if d.alive p then os p else .gone

/-- `aio_submit` → `aio_process` → `PsutilProcess.aio_state() == RUNNING`: the job named by the pid file is adopted. -/
def adoptS (l : Option (List PStat)) (d : Disk) (os : Nat → PStat) (ident : Nat) : Bool :=
  match (d.dir ident).pid with
  | some p => treatedAlive l (statusOf d os p)
  | none => false

/-- `PsutilProcess.wait()` returns (the scheduler then reads the markers: no `.done` yet = ERROR). -/
def waitOverS (l : Option (List PStat)) (d : Disk) (os : Nat → PStat) (p : Nat) : Bool :=
  !treatedAlive l (statusOf d os p)

end XpmVerif.Restart
