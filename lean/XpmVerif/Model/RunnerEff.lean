import XpmVerif.Model.Runner
/-! M3 — effect view of the job-side protocol.

    `Eff` names what a statement of `run.py` (`TaskRunner.run`, `handle_error`, `cleanup`), of the scheduler side of a launch
    (`Scheduler.aio_start`, `CommandLineJob.aio_run`) does to the objects of the protocol: the marker files, the pid file, the run lock,
    the signal handlers, the atexit registration.  `harness/xv/translate/runsrc.py` interprets the source and writes the *ordered effect
    sequence* of every path into `Generated/RunnerSrc.lean`; this file gives the same view of the **model**: `stepEffs` labels every step
    of `Runner.stepProc` with the effects it performs, `applyEffs` is the meaning of an effect on the shared state (theorem
    `Proofs/RunnerEff.step_shared_is_effects`: the label is faithful, the step changes the shared state exactly as its effects say), and
    `traceProc` collects the labels of a process that runs alone.  `Properties/C10Src.lean` proves that these traces *are* the generated
    sequences, and states the order obligations on the generated sequences themselves. -/
namespace XpmVerif.Runner

inductive Eff
  | registerAtexit | unregisterAtexit
  | installTerm | installInt | restoreTerm | restoreInt
  | atFork                       -- `os.register_at_fork(...)`
  | lockAcquire | lockRelease    -- the run lock (`fasteners.InterProcessLock` on the job lock file)
  | lockFileIO                   -- open/read/write of the lock file through another descriptor (drops a POSIX record lock)
  | unlinkLock                   -- the lock *name* is removed / renamed: it no longer points to the inode that holders and queued
                                 -- processes have open; the next open creates a fresh inode (Model/RunnerLockIds.lean)
  | testDone | touchDone | rmDone
  | rmFailed | writeFailed (code : Nat)
  | markStarted | body
  | signalDelivered              -- a SIGTERM/SIGINT arrives (environment), the Python handler starts
  | testCleaned | setCleaned | rmPid | writePid | reportEoj
  | sysExit (code : Nat)         -- `sys.exit(code)`
  | catchExit                    -- an `except SystemExit` clause is entered
  | reraise
  | atexitRun                    -- interpreter exit: the registered atexit callback starts
  | exitProcess                  -- the process is gone (the OS drops its locks)
  | jobLockAcquire | jobLockRelease | spawn | waitProcess   -- scheduler side
  | otherLock | otherIO
  deriving DecidableEq, Repr

/-- effects the model distinguishes (the others are bookkeeping of the source that the model does not represent:
    fork hook, end-of-job notification, entering an except clause, start of the atexit phase, unrelated I/O, waiting) -/
def Eff.modelled : Eff → Bool
  | .atFork | .reportEoj | .catchExit | .atexitRun | .otherIO | .otherLock | .waitProcess => false
  | _ => true

/-- effects of the three actions of `cleanup` -/
def csEffs (p : Proc) : CS → List Eff
  | .test => if p.cleaned then [.testCleaned] else [.testCleaned, .setCleaned]
  | .rmPid => [.rmPid]
  | .relLock => [.lockRelease]

/-- effects of one action of `handle_error(code)` -/
def hsEffs (p : Proc) (code : Nat) : HS → List Eff
  | .write => [.writeFailed code]
  | .test => csEffs p .test
  | .rmPid => [.rmPid]
  | .relLock => [.lockRelease]
  | .exit => [.sysExit 1]

/-- effects of one step of the main flow -/
def mainEffs (cfg : Cfg) (sh : Shared) (p : Proc) : List Eff :=
  match p.loc with
  | .init => [.registerAtexit]
  | .reg => [.installTerm]
  | .term => [.installInt]
  | .pre => []
  | .tryLock => if sh.lock = none then [.lockAcquire] else []
  | .locked => [.testDone]
  | .rmFailed => [.rmFailed]
  | .setStarted => [.markStarted]
  | .callBody => [.body]
  | .body _ => []
  | .raised1 => []
  | .raised0 => []
  | .bodyDone => [.restoreTerm]
  | .restTerm => [.restoreInt]
  | .restInt => if cfg.unregOnSuccess then [.unregisterAtexit] else []
  | .sysExit => [.sysExit 0]
  | .touch => [.touchDone]
  | .reraise => [.reraise]
  | .skipped => []
  | .herr h code => hsEffs p code h
  | .fin (some c) _ => csEffs p c
  | .fin none _ => [.exitProcess]

/-- effects of one step of a process -/
def stepEffs (cfg : Cfg) (sh : Shared) (p : Proc) : List Eff :=
  match p.dead, p.hnd with
  | some _, _ => []
  | none, some (h, code) => hsEffs p code h
  | none, none => mainEffs cfg sh p

/-- meaning of an effect of process `me` on the shared state (files, lock, ghost counters) -/
def applyEff (me : Nat) (sh : Shared) : Eff → Shared
  | .lockAcquire => { sh with lock := some (.run me), epoch := sh.epoch + 1 }
  | .lockRelease => release sh (.run me)
  | .exitProcess => release sh (.run me)
  | .touchDone => { sh with done := true }
  | .rmFailed => { sh with failed := none }
  | .writeFailed code => { sh with failed := some code }
  | .rmPid => { sh with pid := none }
  | .body => { sh with starts := sh.starts + 1 }
  | _ => sh

def applyEffs (me : Nat) (sh : Shared) : List Eff → Shared
  | [] => sh
  | e :: es => applyEffs me (applyEff me sh e) es

/-- process `me` alone: state after `n` steps, effects of these steps -/
def runProc (cfg : Cfg) (me : Nat) : Nat → Shared × Proc → Shared × Proc
  | 0, x => x
  | n + 1, x => runProc cfg me n (stepProc cfg me x.1 x.2)

def traceProc (cfg : Cfg) (me : Nat) : Nat → Shared × Proc → List Eff
  | 0, _ => []
  | n + 1, x => stepEffs cfg x.1 x.2 ++ traceProc cfg me n (stepProc cfg me x.1 x.2)

/-- scheduler side: effect of a launcher action -/
def launchEffs (s : St) : Act → List Eff
  | .lLock l => if s.ls l = .idle ∧ s.sh.lock = none then [.jobLockAcquire] else []
  | .lSpawn l _ _ => if s.ls l = .locked then [.spawn] else []
  | .lWrite l => match s.ls l with | .spawned _ => [.writePid] | _ => []
  | .lRelease l => match s.ls l with | .wrote _ => [.jobLockRelease] | _ => []
  | _ => []

def traceActs (cfg : Cfg) (s : St) : List Act → List Eff
  | [] => []
  | a :: as => launchEffs s a ++ traceActs cfg (act cfg s a) as

/-! ### order checkers on effect sequences (used on the generated constants) -/

/-- is the run lock held after the effect, given whether it was held before: any I/O on the lock file through another
    descriptor gives the record lock back, as does the explicit release and the end of the process -/
def heldNext (h : Bool) : Eff → Bool
  | .lockAcquire => true
  | .lockRelease | .lockFileIO | .unlinkLock | .exitProcess => false
  | _ => h

def heldAfter (h : Bool) : List Eff → Bool
  | [] => h
  | e :: es => heldAfter (heldNext h e) es

/-- every effect selected by `crit` happens while the lock is held -/
def underLock (crit : Eff → Bool) : Bool → List Eff → Bool
  | _, [] => true
  | h, e :: es => (!crit e || h) && underLock crit (heldNext h e) es

/-- nothing gives the lock back between the first `a` and the last `b` (both included) -/
def heldThroughout (a b : Eff) (l : List Eff) : Bool :=
  let tail := l.dropWhile (· != a)
  let seg := (tail.reverse.dropWhile (· != b)).reverse
  !seg.isEmpty && seg.all (fun e => e != .lockRelease && e != .lockFileIO && e != .unlinkLock && e != .exitProcess)

/-- every `b` is preceded by some `a` -/
def precededBy (a b : Eff → Bool) : Bool → List Eff → Bool
  | _, [] => true
  | seen, e :: es => (!b e || seen) && precededBy a b (seen || a e) es

/-- no `b` after the first `a` -/
def noneAfter (a b : Eff → Bool) (l : List Eff) : Bool := !((l.dropWhile (fun e => !a e)).any b)

def isWriteFailed : Eff → Bool | .writeFailed _ => true | _ => false
def isSysExit : Eff → Bool | .sysExit _ => true | _ => false

/-- the scheduler-side lock bracket: everything selected by `crit` is between `jobLockAcquire` and `jobLockRelease` -/
def jobHeldNext (h : Bool) : Eff → Bool
  | .jobLockAcquire => true
  | .jobLockRelease => false
  | _ => h

def jobHeldAfter (h : Bool) : List Eff → Bool
  | [] => h
  | e :: es => jobHeldAfter (jobHeldNext h e) es

def underJobLock (crit : Eff → Bool) : Bool → List Eff → Bool
  | _, [] => true
  | h, e :: es => (!crit e || h) && underJobLock crit (jobHeldNext h e) es

end XpmVerif.Runner
