"""C09 — tokens are always given back and waiting jobs eventually run (one scheduler, in-process token)."""
from .. import common
from . import _sched

PROP = "C09"
MODULES = ["XpmVerif.Properties.C09"]
GEN = dict(max_jobs=7, max_tokens=3, resubmit=False, markers=True, fail_p=0.3)
RULE = ('random workloads with up to 3 tokens, failures and aborted starts x random schedules + exhaustive schedules of 5 small workloads; monitors: at quiescence every token shows its total and no job whose request fits is left waiting; non-trivial = some dependency and >= 2 out-of-FIFO deliveries')


def prove(ctx):
    _sched.prove(ctx, MODULES)


def correspond(ctx):
    _sched.run(ctx, PROP, GEN, RULE, 1500, 25000)


def search(ctx):
    _sched.search(ctx, PROP, GEN)


def run_witness(ctx, finding):
    _sched.run_witness(ctx, PROP, finding)


def replay(ctx, obj):
    return _sched.replay_events(ctx, PROP, obj)
