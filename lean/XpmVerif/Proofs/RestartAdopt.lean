import XpmVerif.Proofs.RestartPerm
import XpmVerif.Proofs.RestartAbs
/-! C11, adoption: the adoption of job `x` by the world scheduler is simulated, on the abstract state, by six moves
    of M2 — the dependencies of `x` are dropped (its first segment has not begun), its first segment runs (no
    dependency: READY, lock-enter thread), the thread completes, the start segment runs (nothing to acquire: launch),
    the lock-exit thread completes, the last start segment runs (`codeWait`, code thread) — with two rotations of the
    ready queue in between.  Every move keeps the invariants of M2, five of them decrease the measure
    (`adopt_good2`). -/
set_option linter.unusedSimpArgs false
set_option linter.unusedVariables false
namespace XpmVerif.RestartAbs
open XpmVerif.Sched hiding Reachable flOK submitPre submitPost sumTo
open XpmVerif.SchedFinal XpmVerif.Restart XpmVerif.RestartTerm

theorem put_put' (s : St) (x : Nat) (a b : Job) (c1 c2 : List Cb) (t1 t2 : List (TK × Nat)) :
    (s.put x a c1 t1).put x b c2 t2 = s.put x b (c1 ++ c2) (t1 ++ t2) := by
  unfold St.put
  simp only [List.append_assoc]
  congr 1
  funext i; unfold upd; split <;> rfl

/-- first segment of a job without dependencies and without marker: READY at once, the lock-enter thread starts. -/
theorem startJob_nodeps (fl : Flags) (u : St) (x : Nat) (hd : (u.jobs x).deps = []) (hm : (u.jobs x).marker = false) :
    u.startJob fl x =
      u.put x { (u.jobs x) with state := .ready, event := false, sleeping := false, pc := .lockEnter } [] [(.lockEnter, x)] := by
  unfold St.startJob St.loopHead
  simp only [hd, List.isEmpty_nil, if_true, put_jobs, SchedFinal.upd_same, hm, Bool.false_eq_true, if_false, JS.finished]
  simp only [put_put']
  rfl

/-- start segment of a job without dependencies: nothing to acquire, the job is launched. -/
theorem resume_enter_nodeps (fl : Flags) (u : St) (x : Nat) (hp : (u.jobs x).pc = .lockEnter) (hd : (u.jobs x).deps = []) :
    u.resume fl x =
      u.put x { (u.jobs x) with launches := (u.jobs x).launches + 1, state := .running, pc := .lockExitRun } [] [(.lockExit, x)] := by
  rw [resume_lockEnter fl u x hp, hd]
  rfl

theorem apply_step_cons (fl : Flags) (u : St) (cb : Cb) (q : List Cb) (hr : u.ready = cb :: q) :
    u.apply fl .step = ({ u with ready := q } : St).runCb fl cb := by
  simp only [St.apply]; unfold St.step; simp only [hr]

theorem apply_deliver_last (fl : Flags) (u : St) (ths : List (TK × Nat)) (kind : TK) (x : Nat)
    (ht : u.threads = ths ++ [(kind, x)]) :
    u.apply fl (.deliver ths.length) = { u with threads := ths, ready := u.ready ++ [.resume x] } := by
  simp only [St.apply, ht]
  have : (ths ++ [(kind, x)])[ths.length]? = some (kind, x) := by simp
  rw [this]
  simp only []
  congr 1
  rw [List.eraseIdx_append_of_length_le (Nat.le_refl _)]
  simp

/-- the abstract state right after the adoption of `x` (whose `start` callback has been popped). -/
def adoptAbs (t : St) (x : Nat) (rest : List Cb) : St :=
  ({ t with ready := rest } : St).put x (adoptRec (t.jobs x)) [] [(.code, x)]

/-- **the adoption step is a sequence of moves of M2**: it keeps every invariant and decreases the measure. -/
theorem adopt_good2 {fl : Flags} (hg : fl.readyGuarded = true) (hf : fl.resubmitRegisters = true)
    (ha : fl.abortRechecks = true) (hrel : fl.abortReleases = true) {t : St} {x : Nat} {rest : List Cb}
    (hG : Good2 fl t) (hr : t.ready = .start x :: rest) :
    Good2 fl (adoptAbs t x rest) ∧ mu (adoptAbs t x rest) < mu t ∧ (TokFit t → TokFit (adoptAbs t x rest)) := by
  have hpc := head_start_pc (s := t) hG.g.e.c.a.ctl hr
  have hun : (t.jobs x).state = .unscheduled := hG.g.e.c.f x (Or.inr hpc)
  have hprist := (hG.g.e.c.d.recs x).pristine hun
  have hl0 : (t.jobs x).launches = 0 := (hG.g.e.c.a.loc x).2.2.1 (by rw [hpc]; rfl)
  have hheld : (t.jobs x).held = [] := by
    obtain ⟨N, c1, -⟩ := hG.g.cap
    have hk := c1 x
    simp only [PJ, KJ] at hk
    apply Classical.byContradiction
    intro hne
    have := hk.2.2.2.2.1 hne
    rw [hpc] at this; simp [PC.holds] at this
  -- all the intermediate states
  let W : Job → List Cb → List (TK × Nat) → St := fun r q th =>
    { t with jobs := upd t.jobs x r, ready := q, threads := t.threads ++ th }
  have Wput : ∀ r q th r' cbs ths, (W r q th).put x r' cbs ths = W r' (q ++ cbs) (th ++ ths) := by
    intro r q th r' cbs ths
    show St.put _ _ _ _ _ = _
    unfold St.put
    simp only [W, List.append_assoc]
    congr 1
    funext i; unfold upd; split <;> rfl
  have Wjob : ∀ r q th, (W r q th).jobs x = r := fun r q th => by simp [W]
  let r0 : Job := dropRec (t.jobs x)
  let r1 : Job := { r0 with state := .ready, event := false, sleeping := false, pc := .lockEnter }
  let r2 : Job := { r1 with launches := r1.launches + 1, state := .running, pc := .lockExitRun }
  let r3 : Job := { r2 with pc := .codeWait }
  have e0 : dropDeps t x = W r0 (.start x :: rest) [] := by
    show edit t x r0 = _
    unfold edit
    simp only [W, List.append_nil, ← hr]
  have hQ : ∀ r q q' th, reQ (W r q th) q' = W r q' th := fun _ _ _ _ => rfl
  -- move 1: the first segment
  have e1 : (W r0 (.start x :: rest) []).apply fl .step = W r1 rest [(.lockEnter, x)] := by
    rw [apply_step_cons fl _ (.start x) rest rfl]
    show St.startJob fl (W r0 rest []) x = _
    rw [startJob_nodeps fl _ x (by rw [Wjob]; rfl) (by rw [Wjob]; rfl), Wput, Wjob]
    simp only [List.append_nil, List.nil_append] <;> rfl
  -- move 2: the lock-enter thread completes
  have e2 : (W r1 rest [(.lockEnter, x)]).apply fl (.deliver t.threads.length) = W r1 (rest ++ [.resume x]) [] := by
    rw [apply_deliver_last fl _ t.threads .lockEnter x rfl]
    simp only [W, List.append_nil]
  -- move 3: the start segment
  have e3 : (W r1 (.resume x :: rest) []).apply fl .step = W r2 rest [(.lockExit, x)] := by
    rw [apply_step_cons fl _ (.resume x) rest rfl]
    show St.resume fl (W r1 rest []) x = _
    rw [resume_enter_nodeps fl _ x (by rw [Wjob]) (by rw [Wjob]; rfl), Wput, Wjob]
    simp only [List.append_nil, List.nil_append] <;> rfl
  have e4 : (W r2 rest [(.lockExit, x)]).apply fl (.deliver t.threads.length) = W r2 (rest ++ [.resume x]) [] := by
    rw [apply_deliver_last fl _ t.threads .lockExit x rfl]
    simp only [W, List.append_nil]
  have e5 : (W r2 (.resume x :: rest) []).apply fl .step = W r3 rest [(.code, x)] := by
    rw [apply_step_cons fl _ (.resume x) rest rfl]
    show St.resume fl (W r2 rest []) x = _
    rw [resume_lockExitRun fl _ x (by rw [Wjob]), Wput, Wjob]
    simp only [List.append_nil, List.nil_append] <;> rfl
  have efin : adoptAbs t x rest = W r3 rest [(.code, x)] := by
    unfold adoptAbs
    show St.put _ _ _ _ _ = _
    unfold St.put
    simp only [W, List.append_nil]
    congr 1
    have : adoptRec (t.jobs x) = r3 := by
      simp only [r3, r2, r1, r0, dropRec, adoptRec, hprist.1, hprist.2.1, hl0, hheld]
    rw [this]
  -- the invariants along the chain
  have g0 : Good2 fl (W r0 (.start x :: rest) []) := by rw [← e0]; exact good2_dropDeps hG hpc
  have stepG : ∀ (u : St) (ev : Ev), Enabled u ev → Good2 fl u → (TokFit u → TokFit (u.apply fl ev)) ∧
      Good2 fl (u.apply fl ev) ∧ mu (u.apply fl ev) < mu u := by
    intro u ev hen hGu
    exact ⟨fun hT => tokFit_enabled fl u ev hen hT,
      good2_apply hg hf ha ev (evOK_enabled u ev hen) (by cases ev <;> first | trivial | exact absurd hen id) hGu,
      mu_decreases fl hg ha hrel u hGu.g.invT hGu.g.b.noreg ev hen⟩
  obtain ⟨f1, g1, m1⟩ := stepG _ .step (by show _ ≠ []; simp [W]) g0
  rw [e1] at f1 g1 m1
  obtain ⟨f2, g2, m2⟩ := stepG _ (.deliver t.threads.length) (by show _ < _; simp [W]) g1
  rw [e2] at f2 g2 m2
  have p2 : (Cb.resume x :: rest).Perm (W r1 (rest ++ [.resume x]) []).ready := by
    show (Cb.resume x :: rest).Perm (rest ++ [.resume x])
    exact (List.perm_append_singleton _ _).symm
  have g2' := good2_perm g2 p2
  have m2' := mu_perm p2
  rw [hQ] at g2' m2'
  obtain ⟨f3, g3, m3⟩ := stepG _ .step (by show _ ≠ []; simp [W]) g2'
  rw [e3] at f3 g3 m3
  obtain ⟨f4, g4, m4⟩ := stepG _ (.deliver t.threads.length) (by show _ < _; simp [W]) g3
  rw [e4] at f4 g4 m4
  have p4 : (Cb.resume x :: rest).Perm (W r2 (rest ++ [.resume x]) []).ready := by
    show (Cb.resume x :: rest).Perm (rest ++ [.resume x])
    exact (List.perm_append_singleton _ _).symm
  have g4' := good2_perm g4 p4
  have m4' := mu_perm p4
  rw [hQ] at g4' m4'
  obtain ⟨f5, g5, m5⟩ := stepG _ .step (by show _ ≠ []; simp [W]) g4'
  rw [e5] at f5 g5 m5
  have m0 := mu_dropDeps_le (s := t) (j := x) hpc
  rw [e0] at m0
  rw [efin]
  refine ⟨g5, by omega, fun hT => ?_⟩
  have t0 : TokFit (W r0 (.start x :: rest) []) := by rw [← e0]; exact tokFit_dropDeps hT
  exact f5 (f4 (f3 (f2 (f1 t0))))

end XpmVerif.RestartAbs
