import XpmVerif.Proofs.RestartAbsF
/-! C11, adoption, FULL statement: one event of the scheduler of the restart world on the abstract state `absF adopted s`
    (the analogues of `Proofs/RestartSim.lean`; a callback now comes with what it may read, `ReadOK`). -/
set_option linter.unusedSimpArgs false
set_option linter.unusedVariables false
namespace XpmVerif.RestartFull
open XpmVerif.Sched hiding Reachable flOK submitPre submitPost sumTo
open XpmVerif.SchedFinal XpmVerif.Restart XpmVerif.RestartTerm XpmVerif.RestartAbs

/-! ### the queue of the abstract state -/

theorem absF_pop (ad : Nat → Bool) (s : St) (rest : List Cb) :
    absF ad ({ s with ready := rest } : St) = ({ absF ad s with ready := rest.filter (keepCb ad) } : St) := rfl

theorem absF_ready_cons_keep {ad : Nat → Bool} {s : St} {cb : Cb} {rest : List Cb} (hr : s.ready = cb :: rest)
    (hk : keepCb ad cb = true) : (absF ad s).ready = cb :: rest.filter (keepCb ad) := by
  rw [absF_ready, hr, List.filter_cons, if_pos hk]

theorem absF_ready_cons_drop {ad : Nat → Bool} {s : St} {cb : Cb} {rest : List Cb} (hr : s.ready = cb :: rest)
    (hk : keepCb ad cb = false) : (absF ad s).ready = rest.filter (keepCb ad) := by
  rw [absF_ready, hr, List.filter_cons, hk]; rfl

/-- the record of a job that is not adopted, with the marker the job directory shows. -/
def markerRecA (a : StA Disk) (j : Nat) : Job :=
  { (a.s.jobs j) with marker := (world.look a.d j (a.s.jobs j)).marker }

theorem absF_edit_na {ad : Nat → Bool} {x : Nat} (h : ad x = false) (s : St) (jb : Job) :
    absF ad (s.put x jb) = edit (absF ad s) x jb := by
  rw [absF_put_na h]
  simp only [List.filter_nil]
  exact put_nil_eq _ _ _

/-- **a callback that adopts nothing and is not dropped** is the callback of M2 on the abstract state. -/
theorem sim_normal (fl : Flags) (a : StA Disk) (cb : Cb) (rest : List Cb) (hr : a.s.ready = cb :: rest)
    (hk : keepCb a.adopted cb = true)
    (hna : ∀ x, cb = .start x → (world.look a.d x (a.s.jobs x)).adopt = false)
    (hst : ∀ x, cb = .start x → a.adopted x = false)
    (hwk : ∀ x, cb = .wake x → a.adopted x = false)
    (hres : ∀ x, cb = .resume x → a.adopted x = true →
      (a.s.jobs x).held = [] ∧ ((a.s.jobs x).pc = .codeWait ∨ (a.s.jobs x).pc = .doneHandler))
    (hread : ReadOK a.adopted a.s cb) :
    (stepA fl world a).adopted = a.adopted ∧
    absF a.adopted (stepA fl world a).s =
      (match cb with
       | .start x => edit (absF a.adopted a.s) x (markerRecA a x)
       | _ => absF a.adopted a.s).apply fl .step := by
  rw [stepA_cons fl world a cb rest hr]
  have hq := absF_ready_cons_keep hr hk
  cases cb with
  | start x =>
    have h0 : (world.look a.d x (({ a.s with ready := rest } : St).jobs x)).adopt = false := hna x rfl
    have hx := hst x rfl
    simp only [runCbA, h0, Bool.false_eq_true, if_false, startJobA]
    refine ⟨by first | rfl | trivial, ?_⟩
    rw [apply_step_cons fl _ (.start x) (rest.filter (keepCb a.adopted)) (by rw [edit_ready]; exact hq)]
    simp only [St.runCb]
    have hnl : NoLimbo a.adopted ({ a.s with ready := rest } : St) := hread
    rw [absF_startJob hx fl _ (noLimbo_put hx hnl _ _ _), absF_edit_na hx]
    rfl
  | resume x =>
    have e : (runCbA fl world { a with s := { a.s with ready := rest } } (.resume x)).s =
        ({ a.s with ready := rest } : St).resume fl x := by
      simp only [runCbA]; split <;> rfl
    have e2 : (runCbA fl world { a with s := { a.s with ready := rest } } (.resume x)).adopted = a.adopted := by
      simp only [runCbA]; split <;> rfl
    refine ⟨e2, ?_⟩
    rw [e, apply_step_cons fl _ (.resume x) (rest.filter (keepCb a.adopted)) hq]
    simp only [St.runCb]
    cases hx : a.adopted x with
    | false => rw [absF_resume hx fl ({ a.s with ready := rest } : St)]; rfl
    | true =>
      obtain ⟨h1, h2⟩ := hres x rfl hx
      rw [absF_resume_ad hx fl ({ a.s with ready := rest } : St) h1 h2]; rfl
  | register j =>
    refine ⟨rfl, ?_⟩
    rw [apply_step_cons fl _ (.register j) (rest.filter (keepCb a.adopted)) hq]
    show absF a.adopted (St.runCb fl _ _) = _
    rw [absF_runCb fl ({ a.s with ready := rest } : St) _ (by intro x hx; simp [cbJob] at hx) hread]; rfl
  | wake j =>
    refine ⟨rfl, ?_⟩
    rw [apply_step_cons fl _ (.wake j) (rest.filter (keepCb a.adopted)) hq]
    show absF a.adopted (St.runCb fl _ _) = _
    rw [absF_runCb fl ({ a.s with ready := rest } : St) _ (by intro x hx; simp [cbJob] at hx; subst hx; exact hwk _ rfl) hread]; rfl
  | check j d =>
    refine ⟨rfl, ?_⟩
    rw [apply_step_cons fl _ (.check j d) (rest.filter (keepCb a.adopted)) hq]
    show absF a.adopted (St.runCb fl _ _) = _
    rw [absF_runCb fl ({ a.s with ready := rest } : St) _ (by intro x hx; simp [cbJob] at hx; subst hx; simpa [keepCb] using hk) hread]; rfl
  | notifyCheck j d =>
    refine ⟨rfl, ?_⟩
    rw [apply_step_cons fl _ (.notifyCheck j d) (rest.filter (keepCb a.adopted)) hq]
    show absF a.adopted (St.runCb fl _ _) = _
    rw [absF_runCb fl ({ a.s with ready := rest } : St) _ (by intro x hx; simp [cbJob] at hx; subst hx; simpa [keepCb] using hk) hread]; rfl
  | waiterRun =>
    refine ⟨rfl, ?_⟩
    rw [apply_step_cons fl _ .waiterRun (rest.filter (keepCb a.adopted)) hq]
    show absF a.adopted (St.runCb fl _ _) = _
    rw [absF_runCb fl ({ a.s with ready := rest } : St) _ (by intro x hx; simp [cbJob] at hx) hread]; rfl

/-- a dropped callback (a `check` / `notifyCheck` that targets an adopted job): what it needs to be invisible. -/
def StutterOK (s : St) (cb : Cb) : Prop :=
  match cb with
  | .check x d | .notifyCheck x d =>
    (s.jobs x).sleeping = false ∧ ((s.jobs x).pc ≠ .codeWait → (s.jobs x).state.finished = true)
  | _ => True

/-- **a dropped callback is invisible.** -/
theorem sim_stutter (fl : Flags) (hg : fl.readyGuarded = true) (a : StA Disk) (cb : Cb) (rest : List Cb)
    (hr : a.s.ready = cb :: rest) (hk : keepCb a.adopted cb = false) (hok : StutterOK a.s cb) :
    (stepA fl world a).adopted = a.adopted ∧ (stepA fl world a).d = a.d ∧
    absF a.adopted (stepA fl world a).s = absF a.adopted a.s := by
  rw [stepA_cons fl world a cb rest hr]
  have hq := absF_ready_cons_drop hr hk
  have hpop : absF a.adopted ({ a.s with ready := rest } : St) = absF a.adopted a.s := by
    rw [absF_pop]
    unfold absF at hq ⊢
    simp only [] at hq ⊢
    rw [← hq]
  cases cb with
  | check x d =>
    have hx : a.adopted x = true := by simpa [keepCb] using hk
    refine ⟨rfl, rfl, ?_⟩
    show absF a.adopted (St.check fl ({ a.s with ready := rest } : St) x d) = _
    rw [absF_check_ad hx fl hg ({ a.s with ready := rest } : St) d hok.1 hok.2]; exact hpop
  | notifyCheck x d =>
    have hx : a.adopted x = true := by simpa [keepCb] using hk
    refine ⟨rfl, rfl, ?_⟩
    show absF a.adopted (St.runCb fl ({ a.s with ready := rest } : St) (.notifyCheck x d)) = _
    rw [absF_notifyCheck_ad hx fl hg ({ a.s with ready := rest } : St) d hok.1 hok.2]; exact hpop
  | start x => simp [keepCb] at hk
  | wake x => simp [keepCb] at hk
  | resume x => simp [keepCb] at hk
  | register x => simp [keepCb] at hk
  | waiterRun => simp [keepCb] at hk

/-- **the first segment of a job whose process is alive** is the adoption step on the abstract state. -/
theorem sim_adopt (fl : Flags) (a : StA Disk) (x : Nat) (rest : List Cb) (hr : a.s.ready = .start x :: rest)
    (had : (world.look a.d x (a.s.jobs x)).adopt = true) (hx : a.adopted x = false) (hn : NoRef a.s x) :
    (stepA fl world a).adopted = upd a.adopted x true ∧
    (stepA fl world a).d = world.onAdopt a.d x (a.s.jobs x) ∧
    absF (upd a.adopted x true) (stepA fl world a).s = adoptAbs (absF a.adopted a.s) x (rest.filter (keepCb a.adopted)) := by
  rw [stepA_cons fl world a (.start x) rest hr]
  have h0 : (world.look a.d x (({ a.s with ready := rest } : St).jobs x)).adopt = true := had
  simp only [runCbA, h0, if_true]
  refine ⟨by first | rfl | trivial, by first | rfl | trivial, ?_⟩
  have hn' : NoRef ({ a.s with ready := rest } : St) x :=
    ⟨hn.tok, hn.job, fun d => ⟨fun h => (hn.chk d).1 (by rw [hr]; exact List.mem_cons_of_mem _ h),
      fun h => (hn.chk d).2 (by rw [hr]; exact List.mem_cons_of_mem _ h)⟩⟩
  rw [absF_adopt a.adopted fl _ x _ h0 hn']
  unfold adoptAbs
  rw [absF_pop]
  congr 1
  show adoptRec (a.s.jobs x) = adoptRec ((absF a.adopted a.s).jobs x)
  rw [absF_jobs_na hx]

theorem absRec_with_code (ad : Nat → Bool) (x : Nat) (jb : Job) (c : Nat) :
    absRecF ad x { jb with code := c } = { (absRecF ad x jb) with code := c } := by
  unfold absRecF; split <;> rfl

/-- **the completion of a helper thread** is the completion in M2, on the abstract state with the code edited. -/
theorem sim_deliver (fl : Flags) (a : StA Disk) (k j : Nat) (kind : TK) (c : Option Nat) (d' : Disk)
    (hk : a.s.threads[k]? = some (kind, j)) :
    absF a.adopted (deliverA a k j c d').s =
      (match c with
       | some cv => edit (absF a.adopted a.s) j { ((absF a.adopted a.s).jobs j) with code := cv }
       | none => absF a.adopted a.s).apply fl (.deliver k) := by
  cases c with
  | none =>
    simp only [deliverA, setCode, St.apply, absF_threads, hk]
    unfold absF
    simp only [List.filter_append]
    rfl
  | some cv =>
    simp only [deliverA, setCode, St.apply, edit_threads, absF_threads, hk]
    have e : absF a.adopted (a.s.put j { (a.s.jobs j) with code := cv }) =
        edit (absF a.adopted a.s) j { ((absF a.adopted a.s).jobs j) with code := cv } := by
      rw [absF_put, absRec_with_code]
      simp only [List.filter_nil]
      exact put_nil_eq _ _ _
    rw [← e]
    unfold absF
    simp only [List.filter_append, put_ready, put_threads, List.append_nil]
    rfl

end XpmVerif.RestartFull
