import XpmVerif.Proofs.RestartLive
/-! C11, liveness with adoption: the facts `TransF` for each kind of scheduler event (a callback that adopts nothing,
    the adoption step, the completion of a helper thread). -/
set_option linter.unusedSimpArgs false
set_option linter.unusedVariables false
namespace XpmVerif.RestartLive
open XpmVerif.Sched hiding Reachable flOK submitPre submitPost sumTo
open XpmVerif.SchedFinal XpmVerif.Restart XpmVerif.RestartTerm XpmVerif.RestartAbs

/-- the callback is a continuation of job `i`. -/
def Chg (cb : Cb) (i : Nat) : Prop := cb = .start i ∨ cb = .wake i ∨ cb = .resume i

theorem not_chg {cb : Cb} {i : Nat} (h : ¬ Chg cb i) : cb ≠ .start i ∧ cb ≠ .wake i ∧ cb ≠ .resume i :=
  ⟨fun e => h (Or.inl e), fun e => h (Or.inr (Or.inl e)), fun e => h (Or.inr (Or.inr e))⟩

theorem cRes_pop {s : St} {cb : Cb} {rest : List Cb} (hr : s.ready = cb :: rest) (i : Nat) :
    Restart.cRes s i = Restart.cRes ({ s with ready := rest } : St) i + (if cb = .resume i then 1 else 0) := by
  simp only [Restart.cRes, hr, List.count_cons]
  simp only [beq_iff_eq]

/-- a job the callback is no continuation of: its control view is kept. -/
theorem stepA_view {fl : Flags} {a : StA Disk} (h : InvP none a.s a.adopted) {cb : Cb} {rest : List Cb}
    (hr : a.s.ready = cb :: rest) (i : Nat) (hi : ¬ Chg cb i) :
    ((stepA fl world a).s.jobs i).pc = (a.s.jobs i).pc ∧ ((stepA fl world a).s.jobs i).code = (a.s.jobs i).code ∧
    ((stepA fl world a).s.jobs i).marker = (a.s.jobs i).marker ∧
    Restart.cRes (stepA fl world a).s i = Restart.cRes a.s i ∧ (stepA fl world a).adopted i = a.adopted i := by
  rw [stepA_cons fl world a cb rest hr]
  obtain ⟨hv, had⟩ := runCbA_frame fl world { a with s := { a.s with ready := rest } } cb (pop_inv h hr) i (not_chg hi)
  simp only [view, View.mk.injEq] at hv
  obtain ⟨v1, v2, v3, v4, v5, v6, v7, v8, v9⟩ := hv
  refine ⟨v1, v9, v7, ?_, had⟩
  rw [v3, cRes_pop hr i, if_neg (not_chg hi).2.2]; rfl

theorem pk_thr_kind {pc : PC} (h : pk pc = .thr) : pcKind pc = 3 := by
  cases pc <;> simp [pk, pcKind] at h ⊢

/-- a continuation of job `i` leaves it neither blank nor `created`. -/
theorem stepA_chg_pc {fl : Flags} {a : StA Disk} (h : InvP none a.s a.adopted) {cb : Cb} {rest : List Cb}
    (hr : a.s.ready = cb :: rest) (i : Nat) (hi : Chg cb i) :
    (a.s.jobs i).pc ≠ .none ∧ ((stepA fl world a).s.jobs i).pc ≠ .none ∧ ((stepA fl world a).s.jobs i).pc ≠ .created := by
  have hp := pop_inv h hr
  rw [stepA_cons fl world a cb rest hr]
  rcases hi with rfl | rfl | rfl
  · obtain ⟨hpc, -⟩ := pre_start _ _ i (hp.loc i)
    have hpc' : (a.s.jobs i).pc = .created := hpc
    refine ⟨by rw [hpc']; simp, ?_⟩
    simp only [runCbA]
    split
    · rename_i hl
      have := (startJobA_adopt_rec fl ({ a.s with ready := rest } : St) i _ hl).1
      show ((startJobA fl _ i _).jobs i).pc ≠ .none ∧ ((startJobA fl _ i _).jobs i).pc ≠ .created
      rw [this]; simp
    · rename_i hl
      have hl' : (world.look a.d i (({ a.s with ready := rest } : St).jobs i)).adopt = false := by simpa using hl
      show ((startJobA fl _ i _).jobs i).pc ≠ .none ∧ ((startJobA fl _ i _).jobs i).pc ≠ .created
      unfold startJobA
      simp only [hl', Bool.false_eq_true, if_false]
      have := startJob_not_fresh fl (({ a.s with ready := rest } : St).put i
        { (({ a.s with ready := rest } : St).jobs i) with marker := (world.look a.d i (({ a.s with ready := rest } : St).jobs i)).marker }) i
      exact ⟨fun e => this (Or.inl e), fun e => this (Or.inr e)⟩
  · obtain ⟨hpc, -⟩ := pre_wake _ _ i (hp.loc i)
    have hpc' : (a.s.jobs i).pc = .evtWait := hpc
    refine ⟨by rw [hpc']; simp, ?_⟩
    have := wake_not_fresh fl ({ a.s with ready := rest } : St) i
    exact ⟨fun e => this (Or.inl e), fun e => this (Or.inr e)⟩
  · obtain ⟨hk, -⟩ := pre_resume _ _ i (hp.loc i)
    have hk' : pk (a.s.jobs i).pc = .thr := hk
    refine ⟨by intro e; rw [e] at hk'; simp [pk] at hk', ?_⟩
    have := resume_not_fresh fl ({ a.s with ready := rest } : St) i (pk_thr_kind hk)
    have e : (runCbA fl world { a with s := { a.s with ready := rest } } (.resume i)).s =
        ({ a.s with ready := rest } : St).resume fl i := by
      simp only [runCbA]; split <;> rfl
    rw [e]
    exact ⟨fun e => this (Or.inl e), fun e => this (Or.inr e)⟩

/-- program counters through one callback: `created` and blank are not re-entered. -/
theorem stepA_pcs {fl : Flags} {a : StA Disk} (h : InvP none a.s a.adopted) {cb : Cb} {rest : List Cb}
    (hr : a.s.ready = cb :: rest) (i : Nat) :
    (((stepA fl world a).s.jobs i).pc = .created → (a.s.jobs i).pc = .created) ∧
    (((stepA fl world a).s.jobs i).pc = .none → (a.s.jobs i).pc = .none) ∧
    ((a.s.jobs i).pc = .none → ((stepA fl world a).s.jobs i).pc = .none) := by
  by_cases hi : Chg cb i
  · obtain ⟨h1, h2, h3⟩ := stepA_chg_pc (fl := fl) h hr i hi
    exact ⟨fun e => absurd e h3, fun e => absurd e h2, fun e => absurd e h1⟩
  · obtain ⟨v1, -⟩ := stepA_view (fl := fl) h hr i hi
    rw [v1]; exact ⟨id, id, id⟩

/-- the state on which the popped callback runs: the queue without its head, the marker read for a first segment. -/
def preSt (a : StA Disk) (cb : Cb) (rest : List Cb) : St :=
  match cb with
  | .start x => ({ a.s with ready := rest } : St).put x (markerRec a x)
  | _ => ({ a.s with ready := rest } : St)

theorem preSt_jobs (a : StA Disk) (cb : Cb) (rest : List Cb) (i : Nat) :
    ((preSt a cb rest).jobs i).ident = (a.s.jobs i).ident ∧ ((preSt a cb rest).jobs i).deps = (a.s.jobs i).deps ∧
    ((preSt a cb rest).jobs i).pc = (a.s.jobs i).pc ∧ ((preSt a cb rest).jobs i).held = (a.s.jobs i).held ∧
    ((preSt a cb rest).jobs i).code = (a.s.jobs i).code ∧ ((preSt a cb rest).jobs i).state = (a.s.jobs i).state ∧
    ((∀ x, cb = .start x → i ≠ x) → (preSt a cb rest).jobs i = a.s.jobs i) := by
  unfold preSt
  cases cb with
  | start x =>
    simp only [put_jobs]
    by_cases hi : i = x
    · subst hi; rw [SchedFinal.upd_same]; exact ⟨rfl, rfl, rfl, rfl, rfl, rfl, fun h => absurd rfl (h i rfl)⟩
    · rw [upd_ne _ _ hi]; exact ⟨rfl, rfl, rfl, rfl, rfl, rfl, fun _ => rfl⟩
  | _ => exact ⟨rfl, rfl, rfl, rfl, rfl, rfl, fun _ => rfl⟩

theorem preSt_lists (a : StA Disk) (cb : Cb) (rest : List Cb) :
    (preSt a cb rest).ready = rest ∧ (preSt a cb rest).tokDeps = a.s.tokDeps ∧ (preSt a cb rest).jobDeps = a.s.jobDeps ∧
    (preSt a cb rest).n = a.s.n := by
  unfold preSt
  cases cb <;> simp

/-- a callback that adopts nothing is the callback of M2 on `preSt`. -/
theorem stepA_na (fl : Flags) (a : StA Disk) (cb : Cb) (rest : List Cb) (hr : a.s.ready = cb :: rest)
    (hna : ∀ x, cb = .start x → (world.look a.d x (a.s.jobs x)).adopt = false) :
    (stepA fl world a).s = (preSt a cb rest).runCb fl cb ∧ (stepA fl world a).adopted = a.adopted := by
  rw [stepA_cons fl world a cb rest hr]
  cases cb with
  | start x =>
    have h0 : (world.look a.d x (({ a.s with ready := rest } : St).jobs x)).adopt = false := hna x rfl
    simp only [runCbA, h0, Bool.false_eq_true, if_false, startJobA]
    exact ⟨rfl, trivial⟩
  | resume x => simp only [runCbA]; split <;> exact ⟨rfl, rfl⟩
  | _ => exact ⟨rfl, rfl⟩

theorem regP_mono {s s' : St} (hn : s'.n = s.n) (hl : ∀ i, (s'.jobs i).deps.length = (s.jobs i).deps.length)
    (hc : ∀ i, (s'.jobs i).pc = .created → (s.jobs i).pc = .created)
    (hz : ∀ i, (s'.jobs i).pc = .none → (s.jobs i).pc = .none) : regP s ≤ regP s' := by
  unfold regP; rw [hn]
  refine sumTo_mono _ _ _ (fun i _ => ?_)
  by_cases h' : (s'.jobs i).pc = .none ∨ (s'.jobs i).pc = .created
  · have : (s.jobs i).pc = .none ∨ (s.jobs i).pc = .created := by
      rcases h' with e | e
      · exact Or.inl (hz i e)
      · exact Or.inr (hc i e)
    rw [if_pos this]; omega
  · rw [if_neg h', hl]; split <;> omega

/-- the first segment of `x` registers its dependencies: the count grows by their number. -/
theorem regP_start {s s' : St} {x : Nat} (hx : x < s.n) (hn : s'.n = s.n)
    (hl : (s'.jobs x).deps.length = (s.jobs x).deps.length) (hpc : (s.jobs x).pc = .created)
    (hpc' : (s'.jobs x).pc ≠ .none ∧ (s'.jobs x).pc ≠ .created) (ho : ∀ i, i ≠ x → s'.jobs i = s.jobs i) :
    regP s' = regP s + (s.jobs x).deps.length := by
  unfold regP; rw [hn]
  have := SchedFinal.sumTo_upd
    (fun j => if (s'.jobs j).pc = .none ∨ (s'.jobs j).pc = .created then 0 else (s'.jobs j).deps.length)
    (fun j => if (s.jobs j).pc = .none ∨ (s.jobs j).pc = .created then 0 else (s.jobs j).deps.length) s.n x hx
    (fun i hi => by simp only [ho i hi])
  simp only [hpc, or_true, if_true] at this
  have e : ¬ ((s'.jobs x).pc = .none ∨ (s'.jobs x).pc = .created) := fun e => e.elim hpc'.1 hpc'.2
  rw [if_neg e, hl] at this
  omega

section transNa
variable {fl : Flags} {totals : List Nat} {done0 : Nat → Bool} {d0 : Disk} {w : W}

theorem SoundA.lt_of_pc (h : SoundA fl totals done0 d0 w) (i : Nat) (hp : (w.a.s.jobs i).pc ≠ .none) : i < w.a.s.n := by
  apply Classical.byContradiction
  intro hn
  exact hp (h.invP.fresh i (by omega)).1

/-- **a callback that adopts nothing**, on the concrete records. -/
theorem transF_step_na (hg : fl.readyGuarded = true) (h : SoundA fl totals done0 d0 w) (cb : Cb) (rest : List Cb)
    (hr : w.a.s.ready = cb :: rest)
    (hna : ∀ x, cb = .start x → (world.look w.a.d x (w.a.s.jobs x)).adopt = false)
    (hG' : Good2 fl (abs (stepA fl world w.a).adopted (stepA fl world w.a).s))
    (hdone : ∀ o, (w.a.s.jobs o).state = .done → ((stepA fl world w.a).s.jobs o).state = .done) :
    TransF w.a (stepA fl world w.a) := by
  have hP := h.invP
  have hP' : InvP none (stepA fl world w.a).s (stepA fl world w.a).adopted := stepA_inv fl world w.a hP
  obtain ⟨es, ead⟩ := stepA_na fl w.a cb rest hr hna
  obtain ⟨hst, hwk, hres⟩ := h.head_facts hr
  have hpre := preSt_jobs w.a cb rest
  obtain ⟨pr1, pr2, pr3, pr4⟩ := preSt_lists w.a cb rest
  have hF := runCb_frame fl (preSt w.a cb rest) cb
  rw [← es] at hF
  obtain ⟨fn, fe, -, -, fj, fc⟩ := hF
  have hview := fun i (hi : ¬ Chg cb i) => stepA_view (fl := fl) hP hr i hi
  have hpcs := fun i => stepA_pcs (fl := fl) hP hr i
  -- identifiers, lengths and origins are constants
  have hconst : ∀ i, ((stepA fl world w.a).s.jobs i).ident = (w.a.s.jobs i).ident ∧
      ((stepA fl world w.a).s.jobs i).deps.length = (w.a.s.jobs i).deps.length ∧
      ∀ d, (((stepA fl world w.a).s.jobs i).deps.getD d default).origin = ((w.a.s.jobs i).deps.getD d default).origin := by
    intro i
    by_cases hi : i = target cb
    · subst hi
      obtain ⟨o1, o2⟩ := sameConst_origin fc
      refine ⟨by rw [fc.1, (hpre _).1], by rw [o1, (hpre _).2.1], fun d => ?_⟩
      have := o2 d
      unfold depAt at this
      rw [this, (hpre _).2.1]
    · rw [fj i hi]
      exact ⟨(hpre i).1, by rw [(hpre i).2.1], fun d => by rw [(hpre i).2.1]⟩
  -- the disk
  have hdisk := stepA_disk' fl w.a cb rest hr hna
  have hwd := runCbA_world_d fl { w.a with s := { w.a.s with ready := rest } } cb
  rw [← stepA_cons fl world w.a cb rest hr] at hwd
  have hdle : DiskLe w.a.d (stepA fl world w.a).d := hwd.1
  have hprocOf : ∀ i, w.a.adopted i = true → (stepA fl world w.a).d.procOf i = w.a.d.procOf i := by
    intro i hi
    by_cases hc : cb = .resume i
    · subst hc
      obtain ⟨-, hp⟩ := hres i rfl hi
      have hl := resume_launches_late fl ({ w.a.s with ready := rest } : St) i (by
        rcases hp with hp | hp
        · exact Or.inr (Or.inl hp)
        · exact Or.inr (Or.inr hp))
      rw [stepA_cons fl world w.a (.resume i) rest hr]
      simp only [runCbA, hl, Nat.lt_irrefl, if_false]
    · refine hwd.2 i ⟨?_, hc⟩
      intro e; subst e; rw [(hst i rfl).1] at hi; cases hi
  refine ⟨by rw [fn]; exact pr4, fun i => (hconst i).1, fun i => (hconst i).2.1, fun i => (hconst i).2.2, ?_, ?_, ?_, ?_,
    fun i => (hpcs i).1, fun i => (hpcs i).2.2, ?_, hdone, ?_, ?_, hdle, hprocOf, ?_⟩
  · intro i hi; rw [ead]; exact hi
  · intro i h1 h2; rw [ead, h2] at h1; cases h1
  · -- nothing held by an adopted job
    intro i hi hh
    by_cases hc : Chg cb i
    · rcases hc with rfl | rfl | rfl
      · rw [(hst i rfl).1] at hi; cases hi
      · rw [hwk i rfl] at hi; cases hi
      · obtain ⟨-, hp⟩ := hres i rfl hi
        rw [es]
        show ((St.resume fl (preSt w.a (.resume i) rest) i).jobs i).held = []
        have hpc : ((preSt w.a (.resume i) rest).jobs i).pc = (w.a.s.jobs i).pc := (hpre i).2.2.1
        rcases hp with hp | hp
        · exact (resume_codeWait_rec fl _ i (by rw [hpc]; exact hp)).2.1
        · rw [(resume_doneHandler_rec fl _ i (by rw [hpc]; exact hp)).2, (hpre i).2.2.2.1]; exact hh
    · by_cases hi2 : i = target cb
      · subst hi2
        rw [es]
        cases cb with
        | register j => simp only [St.runCb]; rw [(register_jobs fl _ j).1, (hpre _).2.2.2.1]; exact hh
        | waiterRun => simp only [St.runCb]; rw [(waiterRun_jobs _).1, (hpre _).2.2.2.1]; exact hh
        | check j d =>
          simp only [St.runCb, St.check, put_jobs, SchedFinal.upd_same, target]
          rw [depChanged_held, (hpre _).2.2.2.1]; exact hh
        | notifyCheck j d =>
          rcases notifyCheck_cases fl (preSt w.a (.notifyCheck j d) rest) j d with e | e <;> rw [e]
          · simp only [St.check, put_jobs, SchedFinal.upd_same, target]
            rw [depChanged_held, (hpre _).2.2.2.1]; exact hh
          · rw [(hpre _).2.2.2.1]; exact hh
        | start j => exact absurd (Or.inl rfl) hc
        | wake j => exact absurd (Or.inr (Or.inl rfl)) hc
        | resume j => exact absurd (Or.inr (Or.inr rfl)) hc
      · rw [fj i hi2, (hpre i).2.2.2.1]; exact hh
  · -- references to adopted jobs stay in range
    have h0 : RI (fun j d => w.a.adopted j = true → d < (w.a.s.jobs j).deps.length) (preSt w.a cb rest) :=
      (h.ai.rng.pop hr).same pr1 pr2 pr3
    have h1 := runCb_ri h0 fl cb (by
      intro x e d hd hx
      rw [(hst x e).1] at hx; cases hx)
    rw [← es] at h1
    refine h1.mono ?_
    intro j d hp hj
    rw [(hconst j).2.1]
    exact hp (by rw [ead] at hj; exact hj)
  · -- the pid file of a job that has not begun
    intro i hpc hlv
    have hpc0 := (hpcs i).1 hpc
    rcases hdisk with e | ⟨y, e, hlt⟩
    · rw [e] at hlv; exact hlv
    · rw [e] at hlv
      obtain ⟨p, hp1, hp2⟩ := hlv
      have hiy : i ≠ y := by
        intro e'; subst e'
        have := ((hP'.loc i).2.1)
        simp only [view] at this
        rcases this with l0 | ⟨l1, l2⟩
        · omega
        · rw [hpc] at l2; simp [launched] at l2
      have hylt : y < w.a.s.n := by
        apply Classical.byContradiction
        intro hn
        have := (hP.fresh y (by omega)).1
        have := (hpcs y).2.2 this
        have l := (hP'.loc y).2.1
        simp only [view] at l
        rcases l with l0 | ⟨l1, l2⟩
        · omega
        · rw [this] at l2; simp [launched] at l2
      have hilt : i < w.a.s.n := h.lt_of_pc i (by rw [hpc0]; simp)
      have hid : (w.a.s.jobs i).ident ≠ ((stepA fl world w.a).s.jobs y).ident := by
        rw [(hconst y).1]
        intro e'
        exact hiy (h.uniq i y hilt hylt e')
      rw [onLaunch_pid, if_neg hid] at hp1
      have hq := ((wreach_inv h.reach).disk.pid _ p hp1).1
      exact ⟨p, hp1, onLaunch_alive _ _ _ _ hq hp2⟩
  · -- a first segment that finds the marker ends DONE
    intro o hpc hpc' hao hdn
    have hc : Chg cb o := by
      apply Classical.byContradiction
      intro hc
      rw [(hview o hc).1] at hpc'
      exact hpc' hpc
    have hcb : cb = .start o := by
      rcases hc with e | e | e
      · exact e
      · subst e
        obtain ⟨q, -⟩ := pre_wake _ _ o ((pop_inv hP hr).loc o)
        have q' : (w.a.s.jobs o).pc = .evtWait := q
        rw [hpc] at q'; cases q'
      · subst e
        obtain ⟨q, -⟩ := pre_resume _ _ o ((pop_inv hP hr).loc o)
        have q' : pk (w.a.s.jobs o).pc = .thr := q
        rw [hpc] at q'; simp [pk] at q'
    subst hcb
    have hm : ((stepA fl world w.a).s.jobs o).marker = (w.a.d.dir (w.a.s.jobs o).ident).done := by
      have := (start_records fl world { w.a with s := { w.a.s with ready := rest } } o (pop_inv hP hr)).1
      rw [← stepA_cons fl world w.a (.start o) rest hr] at this
      exact this
    have hJ := hG'.g.e.c.a.loc o
    rw [abs_jobs_na hao] at hJ
    have hpn := (stepA_chg_pc (fl := fl) hP hr o (Or.inl rfl)).2
    have := hJ.2.2.2.2.2.2.1 (by rw [hm]; exact hdn)
    rcases this.2 with e | e | ⟨e, -⟩
    · exact absurd e hpn.1
    · exact absurd e hpn.2
    · exact e
  · -- an adopted job that waits for its process
    intro o hao hpc hdn hcode
    by_cases hc : Chg cb o
    · rcases hc with rfl | rfl | rfl
      · rw [(hst o rfl).1] at hao; cases hao
      · rw [hwk o rfl] at hao; cases hao
      · right
        have hc1 : Restart.cRes w.a.s o = 1 := by
          have hl := (hP.loc o).1
          simp only [CtlV, view, hpc, pk] at hl
          have := cRes_pop hr o
          simp only [if_true] at this
          omega
        have hcz := hcode hc1
        rw [es]
        show ((St.resume fl (preSt w.a (.resume o) rest) o).jobs o).state = .done
        rw [(resume_codeWait_rec fl _ o (by rw [(hpre o).2.2.1]; exact hpc)).1, (hpre o).2.2.2.2.1, hcz]
        rfl
    · left
      obtain ⟨v1, v2, -, v4, -⟩ := hview o hc
      rw [v1, v2, v4]
      exact ⟨hpc, hcode⟩
  · -- the dependent lists
    intro lt lj
    have hlen : ∀ i, ((stepA fl world w.a).s.jobs i).deps.length = (w.a.s.jobs i).deps.length := fun i => (hconst i).2.1
    have hn' : (stepA fl world w.a).s.n = w.a.s.n := by rw [fn]; exact pr4
    by_cases hs : ∃ x, cb = .start x
    · obtain ⟨x, rfl⟩ := hs
      obtain ⟨hx, hpc⟩ := hst x rfl
      have hl := startJob_lists fl (preSt w.a (.start x) rest) x
      have e' : (stepA fl world w.a).s = St.startJob fl (preSt w.a (.start x) rest) x := es
      rw [← e', pr2, pr3, (hpre x).2.1] at hl
      have hreg := regP_start (s := w.a.s) (s' := (stepA fl world w.a).s) (h.lt_of_pc x (by rw [hpc]; simp)) hn' (hlen x) hpc
        (stepA_chg_pc (fl := fl) hP hr x (Or.inl rfl)).2
        (fun i hi => by rw [fj i hi]; exact (hpre i).2.2.2.2.2.2 (fun y e => by cases e; exact hi))
      refine ⟨fun t => ?_, fun o => ?_⟩
      · have := hl.1 t; have := lt t; omega
      · have := hl.2 o; have := lj o; omega
    · have hD := runCb_frameD fl (preSt w.a cb rest) cb (fun x e => hs ⟨x, e⟩)
      rw [← es] at hD
      obtain ⟨d1, d2⟩ := hD
      rw [pr2] at d1; rw [pr3] at d2
      have hm := regP_mono hn' hlen (fun i => (hpcs i).1) (fun i => (hpcs i).2.1)
      refine ⟨fun t => ?_, fun o => ?_⟩
      · rw [d1]; have := lt t; omega
      · rw [d2]; have := lj o; omega

end transNa

section transAdopt
variable {fl : Flags} {totals : List Nat} {done0 : Nat → Bool} {d0 : Disk} {w : W}

theorem onAdopt_live (d : Disk) (x : Nat) (jb : Job) (i : Nat) : LivePid (world.onAdopt d x jb) i ↔ LivePid d i := by
  unfold LivePid
  exact Iff.rfl

/-- a job whose first segment has not begun holds nothing. -/
theorem SoundA.created_held (h : SoundA fl totals done0 d0 w) (x : Nat) (hx : w.a.adopted x = false)
    (hpc : (w.a.s.jobs x).pc = .created) : (w.a.s.jobs x).held = [] := by
  obtain ⟨N, c1, -⟩ := h.good.g.cap
  have hk := c1 x
  simp only [PJ, KJ] at hk
  rw [abs_jobs_na hx] at hk
  apply Classical.byContradiction
  intro hne
  have := hk.2.2.2.2.1 hne
  rw [hpc] at this; simp [PC.holds] at this

/-- **the adoption step**, on the concrete records. -/
theorem transF_step_adopt (h : SoundA fl totals done0 d0 w) (x : Nat) (rest : List Cb)
    (hr : w.a.s.ready = .start x :: rest) (had : (world.look w.a.d x (w.a.s.jobs x)).adopt = true)
    (hdone : ∀ o, (w.a.s.jobs o).state = .done → ((stepA fl world w.a).s.jobs o).state = .done) :
    TransF w.a (stepA fl world w.a) := by
  have hP := h.invP
  obtain ⟨hst, -, -⟩ := h.head_facts hr
  obtain ⟨hx, hpc⟩ := hst x rfl
  have h0 : (world.look w.a.d x (({ w.a.s with ready := rest } : St).jobs x)).adopt = true := had
  have es : (stepA fl world w.a).s = startJobA fl ({ w.a.s with ready := rest } : St) x (world.look w.a.d x (w.a.s.jobs x)) := by
    rw [stepA_cons fl world w.a (.start x) rest hr]; simp only [runCbA, h0, if_true]
  have ead : (stepA fl world w.a).adopted = upd w.a.adopted x true := by
    rw [stepA_cons fl world w.a (.start x) rest hr]; simp only [runCbA, h0, if_true]
  have ed : (stepA fl world w.a).d = world.onAdopt w.a.d x (w.a.s.jobs x) := by
    rw [stepA_cons fl world w.a (.start x) rest hr]; simp only [runCbA, h0, if_true]
  obtain ⟨r1, r2, r3, r4, r5, r6, r7⟩ := startJobA_adopt_rec fl ({ w.a.s with ready := rest } : St) x _ had
  rw [← es] at r1 r2 r3 r4 r5 r6 r7
  have hoth : ∀ i, i ≠ x → (stepA fl world w.a).s.jobs i = w.a.s.jobs i := by
    intro i hi; rw [es]; exact startJobA_other fl _ x _ i hi
  have hnr := h.noRef x hpc
  have hcres : ∀ i, Restart.cRes (stepA fl world w.a).s i = Restart.cRes w.a.s i := by
    intro i
    have := cRes_pop hr i
    simp only [reduceCtorEq, if_false, Nat.add_zero] at this
    rw [this]
    unfold Restart.cRes
    rw [r6]
  refine ⟨r7, ?_, ?_, ?_, ?_, ?_, ?_, ?_, ?_, ?_, ?_, hdone, ?_, ?_, ?_, ?_, ?_⟩
  · intro i; by_cases hi : i = x
    · subst hi; exact r3
    · rw [hoth i hi]
  · intro i; by_cases hi : i = x
    · subst hi; exact r4
    · rw [hoth i hi]
  · intro i d; by_cases hi : i = x
    · subst hi; exact r5 d
    · rw [hoth i hi]
  · intro i hi; rw [ead]; unfold upd; split
    · rfl
    · exact hi
  · intro i h1 h2
    have hix : i = x := by
      apply Classical.byContradiction
      intro hne
      rw [ead] at h1; simp only [upd, hne, if_false] at h1
      rw [h2] at h1; cases h1
    subst hix
    have hlive := (look_adopt_iff _ _ _).1 had
    refine ⟨hpc, hlive, r1, ?_, ?_, ?_⟩
    · rw [hcres]
      obtain ⟨-, -, -, q, -⟩ := pre_start _ _ i ((pop_inv hP hr).loc i)
      have := cRes_pop hr i
      simp only [reduceCtorEq, if_false, Nat.add_zero] at this
      rw [this]; exact q
    · rw [r2]; exact h.created_held i hx hpc
    · obtain ⟨p, hp1, hp2⟩ := hlive
      obtain ⟨q1, q2⟩ := (wreach_inv h.reach).disk.pid _ p hp1
      rw [ed]
      simp only [world, SchedFinal.upd_same, hp1, Option.getD_some]
      exact ⟨q1, q2⟩
  · intro i hi hh
    have hix : i ≠ x := by intro e; subst e; rw [hx] at hi; cases hi
    rw [hoth i hix]; exact hh
  · -- references in range
    have q0 : RI (fun j d => upd w.a.adopted x true j = true → d < (w.a.s.jobs j).deps.length) w.a.s := by
      have hrng := h.ai.rng
      refine ⟨?_, ?_, ?_⟩
      · intro j d hm hj
        have hjx : j ≠ x := by
          intro e; subst e
          rcases hm with hm | hm
          · exact (hnr.chk d).1 hm
          · exact (hnr.chk d).2 hm
        exact hrng.cb j d hm (by simpa [upd, hjx] using hj)
      · intro t p hp hj
        have hjx := hnr.tok t p hp
        exact hrng.tok t p hp (by simpa [upd, hjx] using hj)
      · intro o p hp hj
        have hjx := hnr.job o p hp
        exact hrng.job o p hp (by simpa [upd, hjx] using hj)
    have q1 := (q0.pop hr).put x { (w.a.s.jobs x) with marker := (world.look w.a.d x (w.a.s.jobs x)).marker } [] [] (by simp)
    have q2 := q1.startPrefix fl x (by
      intro d hd _
      simpa using hd)
    have q3 : RI (fun j d => upd w.a.adopted x true j = true → d < (w.a.s.jobs j).deps.length) (stepA fl world w.a).s := by
      rw [es]
      unfold startJobA
      simp only [had, if_true]
      exact q2.put x _ [] _ (by simp)
    refine q3.mono ?_
    intro j d hp hj
    rw [ead] at hj
    have := hp hj
    by_cases hjx : j = x
    · subst hjx; rw [r4]; exact this
    · rw [hoth j hjx]; exact this
  · intro i hc; by_cases hi : i = x
    · subst hi; rw [r1] at hc; cases hc
    · rw [hoth i hi] at hc; exact hc
  · intro i hc; by_cases hi : i = x
    · subst hi; rw [hpc] at hc; cases hc
    · rw [hoth i hi]; exact hc
  · intro i _ hlv; rw [ed] at hlv; exact (onAdopt_live _ _ _ _).1 hlv
  · intro o hc hc' hao _
    by_cases hi : o = x
    · subst hi; rw [ead] at hao; simp [upd] at hao
    · rw [hoth o hi] at hc'; exact absurd hc hc'
  · intro o hao hc _ hcode
    have hi : o ≠ x := by intro e; subst e; rw [hx] at hao; cases hao
    left
    rw [hoth o hi, hcres]; exact ⟨hc, hcode⟩
  · rw [ed]; exact ⟨fun _ hi => hi, Nat.le_refl _, fun _ _ => rfl⟩
  · intro i hi
    have hix : i ≠ x := by intro e; subst e; rw [hx] at hi; cases hi
    rw [ed]; simp [world, upd, hix]
  · intro lt lj
    have hl := startPrefix_lists fl (({ w.a.s with ready := rest } : St).put x
      { (w.a.s.jobs x) with marker := (world.look w.a.d x (w.a.s.jobs x)).marker }) x
    have e1 : (stepA fl world w.a).s.tokDeps = (startPrefix fl (({ w.a.s with ready := rest } : St).put x
      { (w.a.s.jobs x) with marker := (world.look w.a.d x (w.a.s.jobs x)).marker }) x).tokDeps := by
      rw [es]; unfold startJobA; simp only [had, if_true]; rfl
    have e2 : (stepA fl world w.a).s.jobDeps = (startPrefix fl (({ w.a.s with ready := rest } : St).put x
      { (w.a.s.jobs x) with marker := (world.look w.a.d x (w.a.s.jobs x)).marker }) x).jobDeps := by
      rw [es]; unfold startJobA; simp only [had, if_true]; rfl
    simp only [put_jobs, SchedFinal.upd_same, put_tokDeps, put_jobDeps] at hl
    have hreg := regP_start (s := w.a.s) (s' := (stepA fl world w.a).s) (h.lt_of_pc x (by rw [hpc]; simp)) r7 r4 hpc
      (by rw [r1]; simp) hoth
    have hl1 : ∀ t, ((stepA fl world w.a).s.tokDeps t).length ≤ (w.a.s.tokDeps t).length + (w.a.s.jobs x).deps.length := by
      intro t; rw [e1]; exact hl.1 t
    have hl2 : ∀ o, ((stepA fl world w.a).s.jobDeps o).length ≤ (w.a.s.jobDeps o).length + (w.a.s.jobs x).deps.length := by
      intro o; rw [e2]; exact hl.2 o
    refine ⟨fun t => ?_, fun o => ?_⟩
    · rw [hreg]; have := hl1 t; have := lt t; omega
    · rw [hreg]; have := hl2 o; have := lj o; omega

end transAdopt

section deliver
variable {fl : Flags} {totals : List Nat} {done0 : Nat → Bool} {d0 : Disk} {w : W}

theorem deliverA_jobs (a : StA Disk) (k j : Nat) (c : Option Nat) (d' : Disk) (i : Nat) :
    ((deliverA a k j c d').s.jobs i).pc = (a.s.jobs i).pc ∧ ((deliverA a k j c d').s.jobs i).state = (a.s.jobs i).state ∧
    ((deliverA a k j c d').s.jobs i).ident = (a.s.jobs i).ident ∧ ((deliverA a k j c d').s.jobs i).deps = (a.s.jobs i).deps ∧
    ((deliverA a k j c d').s.jobs i).held = (a.s.jobs i).held ∧
    ((deliverA a k j c d').s.jobs i).code = (if i = j then (match c with | some cv => cv | none => (a.s.jobs i).code) else (a.s.jobs i).code) := by
  cases c with
  | none => simp [deliverA, setCode]
  | some cv =>
    simp only [deliverA, setCode, put_jobs]
    by_cases hi : i = j
    · subst hi; simp
    · simp [upd_ne _ _ hi, hi]

theorem deliverA_lists (a : StA Disk) (k j : Nat) (c : Option Nat) (d' : Disk) :
    (deliverA a k j c d').s.ready = a.s.ready ++ [.resume j] ∧ (deliverA a k j c d').s.tokDeps = a.s.tokDeps ∧
    (deliverA a k j c d').s.jobDeps = a.s.jobDeps ∧ (deliverA a k j c d').s.n = a.s.n ∧
    (deliverA a k j c d').adopted = a.adopted ∧ (deliverA a k j c d').d = d' := by
  cases c <;> simp [deliverA, setCode]

/-- the completion of a helper thread, on the abstract state. -/
theorem deliver_abs (hg : fl.readyGuarded = true) (hf : fl.resubmitRegisters = true) (ha : fl.abortRechecks = true)
    (hrel : fl.abortReleases = true) (h : SoundA fl totals done0 d0 w) (k j : Nat) (kind : TK) (c : Option Nat) (d' : Disk)
    (hk : w.a.s.threads[k]? = some (kind, j))
    (hgate : world.gate w.a.d kind j (w.a.s.jobs j) (w.a.adopted j) = some (c, d')) :
    Good2 fl (abs w.a.adopted (deliverA w.a k j c d').s) ∧
    (TokFit (abs w.a.adopted w.a.s) → TokFit (abs w.a.adopted (deliverA w.a k j c d').s)) ∧
    mu (abs w.a.adopted (deliverA w.a k j c d').s) < mu (abs w.a.adopted w.a.s) := by
  have hG := h.good
  have hkl : k < w.a.s.threads.length := by
    apply Classical.byContradiction; intro hn
    rw [List.getElem?_eq_none (by omega)] at hk; cases hk
  have e := sim_deliver fl w.a k j kind c d' hk
  have key : ∀ te : St, Good2 fl te → mu te = mu (abs w.a.adopted w.a.s) → te.threads = w.a.s.threads →
      (TokFit (abs w.a.adopted w.a.s) → TokFit te) →
      abs w.a.adopted (deliverA w.a k j c d').s = te.apply fl (.deliver k) →
      Good2 fl (abs w.a.adopted (deliverA w.a k j c d').s) ∧
      (TokFit (abs w.a.adopted w.a.s) → TokFit (abs w.a.adopted (deliverA w.a k j c d').s)) ∧
      mu (abs w.a.adopted (deliverA w.a k j c d').s) < mu (abs w.a.adopted w.a.s) := by
    intro te hGe hmu hth hTe hse
    have hen : Enabled te (.deliver k) := by show k < te.threads.length; rw [hth]; exact hkl
    rw [hse]
    exact ⟨good2_apply hg hf ha _ (evOK_enabled te _ hen) trivial hGe, fun hT => tokFit_enabled fl te _ hen (hTe hT),
      by rw [← hmu]; exact mu_decreases fl hg ha hrel te hGe.g.invT hGe.g.b.noreg _ hen⟩
  cases c with
  | none => exact key _ hG rfl rfl (fun hT => hT) e
  | some cv =>
    have hkind := gate_code_kind _ _ _ _ _ _ _ hgate
    subst hkind
    have hkm : (TK.code, j) ∈ w.a.s.threads := List.mem_of_getElem? hk
    have hpc : (w.a.s.jobs j).pc = .codeWait := by
      have := h.invP.kind _ hkm
      simp only at this
      revert this
      cases (w.a.s.jobs j).pc <;> simp [kindOk]
    have hpc' : ((abs w.a.adopted w.a.s).jobs j).pc = .codeWait := by rw [abs_pc]; exact hpc
    have hrun := (hG.g.e.c.d.recs j).runRunning (by rw [hpc']; rfl)
    have hsb : SameBut ((abs w.a.adopted w.a.s).jobs j) { ((abs w.a.adopted w.a.s).jobs j) with code := cv } :=
      ⟨rfl, rfl, rfl, rfl, rfl, rfl, rfl, rfl, rfl, rfl⟩
    have hL := jlocal_code_edit (hG.g.e.c.a.loc j) hpc' hrun cv
    exact key _ (good2_edit hG hsb hL) (mu_edit hsb) rfl (fun hT => tokFit_edit hT hsb) e

/-- **the completion of a helper thread**, on the concrete records. -/
theorem transF_deliver (h : SoundA fl totals done0 d0 w) (k j : Nat) (kind : TK) (c : Option Nat) (d' : Disk)
    (hk : w.a.s.threads[k]? = some (kind, j))
    (hgate : world.gate w.a.d kind j (w.a.s.jobs j) (w.a.adopted j) = some (c, d')) :
    TransF w.a (deliverA w.a k j c d') := by
  have hJ := deliverA_jobs w.a k j c d'
  obtain ⟨l1, l2, l3, l4, l5, l6⟩ := deliverA_lists w.a k j c d'
  have hgp := gate_procs _ _ _ _ _ _ _ hgate
  have hkm : (kind, j) ∈ w.a.s.threads := List.mem_of_getElem? hk
  have hcres : ∀ i, Restart.cRes (deliverA w.a k j c d').s i = Restart.cRes w.a.s i + (if j = i then 1 else 0) := by
    intro i
    simp only [Restart.cRes, l1, List.count_append, List.count_cons, List.count_nil]
    simp
  refine ⟨l4, fun i => (hJ i).2.2.1, fun i => by rw [(hJ i).2.2.2.1], fun i d => by rw [(hJ i).2.2.2.1], ?_, ?_, ?_, ?_,
    ?_, ?_, ?_, ?_, ?_, ?_, ?_, ?_, ?_⟩
  · intro i hi; rw [l5]; exact hi
  · intro i h1 h2; rw [l5, h2] at h1; cases h1
  · intro i _ hh; rw [(hJ i).2.2.2.2.1]; exact hh
  · have h0 := h.ai.rng
    have h1 : RI (fun j d => w.a.adopted j = true → d < (w.a.s.jobs j).deps.length) (deliverA w.a k j c d').s :=
      h0.grow [.resume j] l1 (by intro x d hm; simp at hm) l2 l3
    refine h1.mono ?_
    intro x d hp hx
    rw [(hJ x).2.2.2.1]; exact hp (by rw [l5] at hx; exact hx)
  · intro i hc; rw [(hJ i).1] at hc; exact hc
  · intro i hc; rw [(hJ i).1]; exact hc
  · intro i _ hlv
    rw [l6] at hlv
    obtain ⟨p, hp1, hp2⟩ := hlv
    rw [gate_pid _ _ _ _ _ _ _ hgate] at hp1
    rw [alive_congr hgp.2 hgp.1] at hp2
    exact ⟨p, hp1, hp2⟩
  · intro o ho; rw [(hJ o).2.1]; exact ho
  · intro o hc hc' _ _; rw [(hJ o).1] at hc'; exact absurd hc hc'
  · intro o hao hpc hdn hcode
    left
    rw [(hJ o).1, hcres]
    refine ⟨hpc, ?_⟩
    by_cases hjo : j = o
    · subst hjo
      have hkind : kind = .code := by
        have := h.invP.kind _ hkm
        simp only at this
        rw [hpc] at this
        cases kind <;> simp [kindOk] at this ⊢
      subst hkind
      intro _
      rw [(hJ j).2.2.2.2.2]
      simp only [if_true]
      simp only [world, hao] at hgate
      split at hgate
      · cases hgate
      · simp only [if_true] at hgate
        have hd : (w.a.d.dir (w.a.s.jobs j).ident).done = true := hdn
        simp only [hd, if_true, Option.some.injEq, Prod.mk.injEq] at hgate
        obtain ⟨hc', -⟩ := hgate
        subst hc'
        rfl
    · simp only [hjo, if_false, Nat.add_zero]
      intro hc1
      rw [(hJ o).2.2.2.2.2, if_neg (fun e => hjo e.symm)]
      exact hcode hc1
  · rw [l6]
    exact world_gate_le _ _ _ _ _ _ _ hgate
  · intro i _
    rw [l6, gate_procOf _ _ _ _ _ _ _ hgate]
  · intro lt lj
    have hreg : regP (deliverA w.a k j c d').s = regP w.a.s := by
      unfold regP; rw [l4]
      exact SchedFinal.sumTo_congr _ _ _ (fun i _ => by rw [(hJ i).1, (hJ i).2.2.2.1])
    rw [hreg, l2, l3]; exact ⟨lt, lj⟩

end deliver

end XpmVerif.RestartLive
