import XpmVerif.Generated.GenPathSrc
/-! C17, source obligations for the path arithmetic: the definitions regenerated from `generators.py`, `core/objects.py`
    (`ConfigWalkContext`, `dictkey_component`, `ConfigInformation.submit`) and `scheduler/base.py` (`Job.relpath`, `Job.path`,
    `JobContext.path`) are the hand-written model of `Model/GenPath.lean`, on which the theorems of Properties/C17.lean are
    stated: "inside the job directory", "no two generated parameters share a path" and "the same paths again" therefore speak
    about the paths the source computes. -/
namespace XpmVerif.C17
open XpmVerif.GenPath XpmVerif.Gen.GenPathSrc List

/-- `job.path / q = q` in coordinates relative to the job directory. -/
theorem jobRoot_joinP (q : PPath) : jobRoot.joinP q = q := by
  rcases q with ⟨a, c⟩
  cases a <;> simp [PPath.joinP, jobRoot]

/-- `p / Path(s) = p / s`. -/
theorem joinP_ofStr (p : PPath) (s : Str) : p.joinP (PPath.ofStr s) = p.join s := by
  simp only [PPath.joinP, PPath.ofStr, PPath.join]
  by_cases h : isAbs s = true <;> simp [h]

/-- `p / (q / s) = (p / q) / s`. -/
theorem joinP_join (p q : PPath) (s : Str) : p.joinP (q.join s) = (p.joinP q).join s := by
  rcases q with ⟨a, c⟩
  simp only [PPath.joinP, PPath.join]
  by_cases h : isAbs s = true <;> cases a <;> simp [h]

/-- the stack of `push` calls of the source, from the root context (`_configpath = None`). -/
def stackSrc (keys : List Str) : Option PPath := keys.foldl pushSrc none

theorem foldl_pushSrc_some (keys : List Str) (q : PPath) :
    keys.foldl pushSrc (some q) = some (keys.foldl PPath.join q) := by
  induction keys generalizing q with
  | nil => rfl
  | cons k ks ih => simp only [foldl_cons]; exact ih (q.join k)

/-- **`ConfigWalkContext.push` / `currentpath`** (core/objects.py): after the pushes `keys` (outermost first) the source's
    `currentpath()` is the model's `currentPath keys` — `"out"` is the first component below the job directory, every push
    joins its key with `/`, the root position is the job directory itself — and leaving a `with push(…)` block restores the
    previous position (`pushRestores`), which is what lets the model carry the key stack as an argument of the walk. -/
theorem currentPath_is_source (keys : List Str) :
    currentPathSrc (stackSrc keys) = currentPath keys ∧ pushRestores = true := by
  refine ⟨?_, rfl⟩
  cases keys with
  | nil => rfl
  | cons k ks =>
    have h0 : pushSrc none k = some ((⟨false, [['o', 'u', 't']]⟩ : PPath).join k) := by
      simp only [pushSrc]; rfl
    simp only [stackSrc, foldl_cons, h0, foldl_pushSrc_some, currentPathSrc, jobRoot_joinP, currentPath]

/-- **`PathGenerator.__call__`** (generators.py), file-name generators: `context.currentpath() / Path(file)` is the model's
    `genPath keys file`. -/
theorem genPath_is_source (keys : List Str) (file : Str) :
    genPathSrc (currentPathSrc (stackSrc keys)) file = genPath keys file := by
  rw [(currentPath_is_source keys).1]
  simp only [genPathSrc, joinP_ofStr, genPath]

theorem flatMap_escChar (k : Str) :
    (k.flatMap (fun x => if x = '%' then ['%', '2', '5'] else [x])).flatMap (fun x => if x = '/' then ['%', '2', 'F'] else [x])
      = k.flatMap escChar := by
  induction k with
  | nil => rfl
  | cons c cs ih =>
    simp only [flatMap_cons, flatMap_append, ih, escChar]
    by_cases h1 : c = '%'
    · subst h1; simp
    · by_cases h2 : c = '/'
      · subst h2; simp
      · simp [h1, h2]

/-- **`dictkey_component`** (core/objects.py): the chain of replacements of the source — `%` first, then `/` — followed by
    the `%` prefix for the three strings that are not path components is the model's `escapeKey`; so `escapeKey_plain` and
    `escapeKey_injective` (Properties/C17.lean) hold of the source's encoder. -/
theorem escapeKey_is_source (k : Str) : escapeKeySrc k = escapeKey k := by
  have h : applyChain escapeChain k = k.flatMap escChar := by
    simp only [escapeChain, applyChain, replaceChar]
    exact flatMap_escChar k
  simp only [escapeKeySrc, h, escapeKey, escapeSpecials, escapePrefix]
  by_cases hs : k.flatMap escChar = [] ∨ k.flatMap escChar = ['.'] ∨ k.flatMap escChar = ['.', '.']
  · rw [if_pos hs, if_pos (by rcases hs with h | h | h <;> simp [h])]; rfl
  · rw [if_neg hs, if_neg (by
      intro hm; apply hs
      simp only [mem_cons, not_mem_nil, or_false] at hm
      rcases hm with h | h | h
      · exact .inl (by simpa using h)
      · exact .inr (.inl (by simpa using h))
      · exact .inr (.inr (by simpa using h)))]

/-- **list positions**: the init tasks are sealed by `submit` under `push("__init_tasks__")` and `push(str(ix))` with `ix` their
    rank (`enumerate`), and the model's `idxKey i` is the decimal `str(i)`. -/
theorem idxKey_is_str_of_index (i : Nat) :
    idxKey i = (Nat.repr i).toList ∧ initTasksKeySrc = initKey ∧ initTaskKeyIsStrIndex = true := by
  refine ⟨?_, by decide, rfl⟩
  simp [idxKey, Nat.repr]

/-- **`Job.relpath` / `Job.path`** (scheduler/base.py): the job directory is `<workspace>/jobs/<type identifier>/<hex of the
    full identifier>` (`identifier.all`), one `/` join per component. -/
theorem jobPath_is_source (ws : PPath) (typeId hex : Str) :
    jobPathSrc ws typeId hex = ((ws.join "jobs".toList).join typeId).join hex ∧ relPathUsesAll = true := by
  refine ⟨?_, rfl⟩
  simp only [jobPathSrc, relPathSrc, joinP_join, joinP_ofStr]

/-- **`JobContext.path`** is the path of the job *when asked* (`self.job.path`, computed from the identifier at that moment),
    not a value stored when the context was created. -/
theorem jobContext_path_is_live : jobContextPathLive = true := rfl

/-- **`ConfigInformation.submit`**: the init tasks are set and the job is created before the configuration is validated and
    sealed, and the init tasks are sealed after it — the order `Model/GenPath.lean` `submit` assumes (`g1` has the init tasks
    when `submitSealed` runs). -/
theorem submit_seals_after_init_tasks_from_source :
    stepIndex submitSteps .setInitTasks < stepIndex submitSteps .sealRoot
    ∧ stepIndex submitSteps .createJob < stepIndex submitSteps .sealRoot
    ∧ stepIndex submitSteps .sealRoot < stepIndex submitSteps .sealInitTasks
    ∧ stepIndex submitSteps .sealInitTasks < submitSteps.length := by decide

/-- non-vacuity: the source's functions on concrete inputs. -/
example : escapeKeySrc "a/b%".toList = "a%2Fb%25".toList ∧ escapeKeySrc "..".toList = "%..".toList := by decide
example : genPathSrc (currentPathSrc (stackSrc ["model".toList, "0".toList])) "out.txt".toList
    = ⟨false, ["out".toList, "model".toList, "0".toList, "out.txt".toList]⟩ := by decide

end XpmVerif.C17
