import XpmVerif.Model.Restart
/-! Control invariant of the scheduler with adoption (M2 + adoption path, `Model/Restart.lean`): every job has exactly
    one continuation (a `start`/`wake`/`resume` callback in the ready queue, a helper thread, or a sleeping waiter)
    that matches its program counter; consequences: at most one launch per job, no launch of a job whose success
    marker was seen or whose process was adopted, a duplicate submission is never scheduled.  Helper lemmas for
    C05 and C11. -/
namespace XpmVerif.Restart
open XpmVerif.Sched

def cStart (s : St) (j : Nat) : Nat := s.ready.count (Cb.start j)
def cWake  (s : St) (j : Nat) : Nat := s.ready.count (Cb.wake j)
def cRes   (s : St) (j : Nat) : Nat := s.ready.count (Cb.resume j)
def cThr   (s : St) (j : Nat) : Nat := s.threads.countP (fun t => t.2 == j)
def cSleep (s : St) (j : Nat) : Nat := if (s.jobs j).sleeping then 1 else 0
def cW (s : St) (j : Nat) : Nat := cWake s j + cSleep s j

/-- what the invariants see of one job -/
structure View where
  pc : PC
  st : Nat
  rs : Nat
  th : Nat
  w : Nat
  launches : Nat
  marker : Bool
  ident : Nat
  code : Nat

def view (s : St) (j : Nat) : View :=
  { pc := (s.jobs j).pc, st := cStart s j, rs := cRes s j, th := cThr s j, w := cW s j,
    launches := (s.jobs j).launches, marker := (s.jobs j).marker, ident := (s.jobs j).ident, code := (s.jobs j).code }

/-- dependency bookkeeping: nothing an invariant looks at changes, the queue only grows -/
structure Bg (s s' : St) : Prop where
  view : ∀ i, view s' i = view s i
  n : s'.n = s.n
  eff : s'.eff = s.eff
  registry : s'.registry = s.registry
  regResult : s'.regResult = s.regResult
  threads : s'.threads = s.threads
  ready : ∃ app, s'.ready = s.ready ++ app ∧ ∀ i, app.count (Cb.register i) = 0 ∧ app.count (Cb.resume i) = 0
  done : ∀ i, (s'.jobs i).state = .done → (s.jobs i).state = .done

theorem Bg.refl (s : St) : Bg s s := by
  constructor <;> simp

theorem Bg.trans {s1 s2 s3 : St} (h1 : Bg s1 s2) (h2 : Bg s2 s3) : Bg s1 s3 := by
  obtain ⟨a1, ha1, hc1⟩ := h1.ready
  obtain ⟨a2, ha2, hc2⟩ := h2.ready
  constructor
  · intro i; rw [h2.view, h1.view]
  · rw [h2.n, h1.n]
  · rw [h2.eff, h1.eff]
  · rw [h2.registry, h1.registry]
  · rw [h2.regResult, h1.regResult]
  · rw [h2.threads, h1.threads]
  · exact ⟨a1 ++ a2, by rw [ha2, ha1, List.append_assoc], by intro i; simp [List.count_append, hc1, hc2]⟩
  · intro i h; exact h1.done i (h2.done i h)

theorem eventSet_spec (jb : Job) :
    (eventSet jb).1.pc = jb.pc ∧ (eventSet jb).1.launches = jb.launches ∧ (eventSet jb).1.marker = jb.marker ∧
    (eventSet jb).1.ident = jb.ident ∧ (eventSet jb).1.code = jb.code ∧ (eventSet jb).1.state = jb.state ∧
    ((if (eventSet jb).2 then 1 else 0) + (if (eventSet jb).1.sleeping then 1 else 0) = (if jb.sleeping then 1 else 0)) := by
  unfold eventSet; grind

theorem depChanged_spec (fl : Flags) (jb : Job) (d : Nat) (st : DS) :
    (depChanged fl jb d st).1.pc = jb.pc ∧ (depChanged fl jb d st).1.launches = jb.launches ∧
    (depChanged fl jb d st).1.marker = jb.marker ∧
    (depChanged fl jb d st).1.ident = jb.ident ∧ (depChanged fl jb d st).1.code = jb.code ∧
    ((depChanged fl jb d st).1.state = .done → jb.state = .done) ∧
    ((if (depChanged fl jb d st).2 then 1 else 0) + (if (depChanged fl jb d st).1.sleeping then 1 else 0) = (if jb.sleeping then 1 else 0)) := by
  unfold depChanged eventSet; grind


/-! counts after `put` -/
theorem count_put_ready (s : St) (j : Nat) (jb : Job) (cbs : List Cb) (ths : List (TK × Nat)) (c : Cb) :
    (s.put j jb cbs ths).ready.count c = s.ready.count c + cbs.count c := by
  simp [St.put, List.count_append]

theorem cThr_put (s : St) (j : Nat) (jb : Job) (cbs : List Cb) (ths : List (TK × Nat)) (i : Nat) :
    cThr (s.put j jb cbs ths) i = cThr s i + ths.countP (fun t => t.2 == i) := by
  simp [St.put, cThr, List.countP_append]

theorem jobs_put (s : St) (j : Nat) (jb : Job) (cbs : List Cb) (ths : List (TK × Nat)) (i : Nat) :
    (s.put j jb cbs ths).jobs i = if i = j then jb else s.jobs i := by
  simp [St.put, upd]

theorem check_eq (fl : Flags) (s : St) (j d : Nat) :
    s.check fl j d =
      s.put j (depChanged fl (s.jobs j) d (s.status ((s.jobs j).deps.getD d default).origin)).1
        (if (depChanged fl (s.jobs j) d (s.status ((s.jobs j).deps.getD d default).origin)).2 then [.wake j] else []) := rfl

theorem check_bg (fl : Flags) (s : St) (j d : Nat) : Bg s (s.check fl j d) := by
  rw [check_eq]
  have h := depChanged_spec fl (s.jobs j) d (s.status ((s.jobs j).deps.getD d default).origin)
  revert h
  generalize depChanged fl (s.jobs j) d (s.status ((s.jobs j).deps.getD d default).origin) = r
  obtain ⟨jb', w⟩ := r
  intro h
  simp only at h ⊢
  constructor
  · intro i
    simp only [view, cStart, cRes, cW, cWake, cSleep, cThr_put, count_put_ready, jobs_put]
    by_cases hi : i = j
    · subst hi; cases w <;> simp_all <;> omega
    · cases w <;> simp_all [Ne.symm hi]
  · rfl
  · rfl
  · rfl
  · rfl
  · simp [St.put]
  · exact ⟨_, rfl, by intro i; cases w <;> simp⟩
  · intro i; simp only [jobs_put]; grind


theorem bg_of_jobs_eq (s s' : St) (hj : s'.jobs = s.jobs) (hr : s'.ready = s.ready) (ht : s'.threads = s.threads)
    (hn : s'.n = s.n) (he : s'.eff = s.eff) (hg : s'.registry = s.registry) (hq : s'.regResult = s.regResult) : Bg s s' := by
  constructor
  · intro i; simp [view, cStart, cRes, cW, cWake, cSleep, cThr, hj, hr, ht]
  all_goals first | assumption | skip
  · exact ⟨[], by simp [hr]⟩
  · intro i; simp [hj]

theorem registerDeps_bg (fl : Flags) (j : Nat) : ∀ (k d : Nat) (s : St), Bg s (St.registerDeps fl s j k d) := by
  intro k
  induction k with
  | zero => intro d s; exact Bg.refl s
  | succ k ih =>
    intro d s
    unfold St.registerDeps
    simp only []
    split
    · refine Bg.trans ?_ (ih _ _); refine Bg.trans ?_ (check_bg fl _ j d); exact bg_of_jobs_eq _ _ rfl rfl rfl rfl rfl rfl rfl
    · refine Bg.trans ?_ (ih _ _); refine Bg.trans ?_ (check_bg fl _ j d); exact bg_of_jobs_eq _ _ rfl rfl rfl rfl rfl rfl rfl


theorem put_held_bg (s : St) (j : Nat) (hl : List Nat) : Bg s (s.put j { (s.jobs j) with held := hl }) := by
  constructor
  · intro i
    simp only [view, cStart, cRes, cW, cWake, cSleep, cThr_put, count_put_ready, jobs_put]
    by_cases hi : i = j <;> simp [hi]
  · rfl
  · rfl
  · rfl
  · rfl
  · simp [St.put]
  · exact ⟨[], by simp [St.put]⟩
  · intro i; simp only [jobs_put]; by_cases hi : i = j <;> simp [hi]

theorem releaseAll_bg (j : Nat) : ∀ (ds : List Nat) (s : St), Bg s (St.releaseAll s j ds) := by
  intro ds
  induction ds with
  | nil => intro s; unfold St.releaseAll; exact put_held_bg s j []
  | cons d ds ih =>
    intro s
    unfold St.releaseAll
    simp only []
    refine Bg.trans ?_ (ih _)
    split
    · exact Bg.refl s
    · constructor
      · intro i; simp [view, cStart, cRes, cW, cWake, cSleep, cThr, List.count_append, List.count_eq_zero]
      · rfl
      · rfl
      · rfl
      · rfl
      · rfl
      · exact ⟨_, rfl, by intro i; simp [List.count_eq_zero]⟩
      · intro i h; exact h

theorem bg_avail (s : St) (f : Nat → Int) : Bg s { s with avail := f } :=
  bg_of_jobs_eq _ _ rfl rfl rfl rfl rfl rfl rfl

theorem acquireAll_bg (j : Nat) : ∀ (k d : Nat) (s : St), Bg s (St.acquireAll s j k d).1 := by
  intro k
  induction k with
  | zero => intro d s; exact Bg.refl s
  | succ k ih =>
    intro d s
    unfold St.acquireAll
    simp only []
    split
    · refine Bg.trans ?_ (ih _ _); exact put_held_bg s j _
    · split
      · exact Bg.refl s
      · refine Bg.trans ?_ (ih _ _)
        refine Bg.trans ?_ (put_held_bg _ j _)
        exact bg_avail s _


/-! ### per-job invariant -/

inductive PK where
  | idle | created | evt | thr
  deriving DecidableEq

def pk : PC → PK
  | .none => .idle
  | .finished _ => .idle
  | .created => .created
  | .evtWait => .evt
  | _ => .thr

def launched : PC → Bool
  | .lockExitRun | .codeWait | .doneHandler | .finished _ => true
  | _ => false

def pcMarker : PC → Bool
  | .none | .created | .codeWait | .doneHandler | .finished _ => true
  | _ => false

def pcAdopted : PC → Bool
  | .codeWait | .doneHandler | .finished _ => true
  | _ => false

def CtlV (v : View) : Prop :=
  match pk v.pc with
  | .idle => v.st = 0 ∧ v.rs = 0 ∧ v.th = 0 ∧ v.w = 0
  | .created => v.st = 1 ∧ v.rs = 0 ∧ v.th = 0 ∧ v.w = 0
  | .evt => v.st = 0 ∧ v.rs = 0 ∧ v.th = 0 ∧ v.w = 1
  | .thr => v.st = 0 ∧ v.rs + v.th = 1 ∧ v.w = 0

def LocV (v : View) (ad : Bool) : Prop :=
  CtlV v ∧ (v.launches = 0 ∨ (v.launches = 1 ∧ launched v.pc = true)) ∧
  (v.marker = true → v.launches = 0 ∧ pcMarker v.pc = true) ∧
  (ad = true → v.launches = 0 ∧ pcAdopted v.pc = true)

theorem view_put (s : St) (j : Nat) (jb : Job) (cbs : List Cb) (ths : List (TK × Nat)) (i : Nat) :
    view (s.put j jb cbs ths) i =
      if i = j then
        { pc := jb.pc, st := cStart s j + cbs.count (.start j), rs := cRes s j + cbs.count (.resume j),
          th := cThr s j + ths.countP (fun t => t.2 == j),
          w := cWake s j + cbs.count (.wake j) + (if jb.sleeping then 1 else 0),
          launches := jb.launches, marker := jb.marker, ident := jb.ident, code := jb.code }
      else
        { (view s i) with st := cStart s i + cbs.count (.start i), rs := cRes s i + cbs.count (.resume i),
                          th := cThr s i + ths.countP (fun t => t.2 == i),
                          w := cWake s i + cbs.count (.wake i) + cSleep s i } := by
  by_cases hi : i = j
  · subst hi; simp [view, cStart, cRes, cW, cWake, cSleep, cThr_put, count_put_ready, jobs_put]
  · simp [view, cStart, cRes, cW, cWake, cSleep, cThr_put, count_put_ready, jobs_put, hi]

def setFailed (s : St) (f : List Nat) : St := { s with failed := f }

@[simp] theorem view_failed (s : St) (f : List Nat) (i : Nat) : view (setFailed s f) i = view s i := rfl
@[simp] theorem cStart_failed (s : St) (f : List Nat) (i : Nat) : cStart (setFailed s f) i = cStart s i := rfl
@[simp] theorem cRes_failed (s : St) (f : List Nat) (i : Nat) : cRes (setFailed s f) i = cRes s i := rfl
@[simp] theorem cWake_failed (s : St) (f : List Nat) (i : Nat) : cWake (setFailed s f) i = cWake s i := rfl
@[simp] theorem cThr_failed (s : St) (f : List Nat) (i : Nat) : cThr (setFailed s f) i = cThr s i := rfl
@[simp] theorem cSleep_failed (s : St) (f : List Nat) (i : Nat) : cSleep (setFailed s f) i = cSleep s i := rfl
@[simp] theorem jobs_failed (s : St) (f : List Nat) : (setFailed s f).jobs = s.jobs := rfl
@[simp] theorem threads_failed (s : St) (f : List Nat) : (setFailed s f).threads = s.threads := rfl
@[simp] theorem ready_failed (s : St) (f : List Nat) : (setFailed s f).ready = s.ready := rfl

theorem finish_eq (s : St) (j : Nat) : ∃ f, s.finish j = (setFailed s f).put j { (s.jobs j) with pc := .doneHandler } [] [(.doneH, j)] := by
  unfold St.finish
  simp only []
  split
  · exact ⟨_, rfl⟩
  · exact ⟨s.failed, rfl⟩

theorem view_finish (s : St) (j i : Nat) :
    view (s.finish j) i =
      if i = j then { (view s j) with pc := .doneHandler, th := (view s j).th + 1 } else view s i := by
  obtain ⟨f, hf⟩ := finish_eq s j
  rw [hf, view_put]
  by_cases hi : i = j
  · subst hi; simp [view, cStart, cRes, cW, cWake, cSleep, cThr]
  · simp [hi, view, cStart, cRes, cW, cWake, cSleep, cThr, Ne.symm hi]; rfl


def kindOk : TK → PC → Bool
  | .lockEnter, .lockEnter => true
  | .lockExit, .lockExitAbort => true
  | .lockExit, .lockExitRun => true
  | .code, .codeWait => true
  | .doneH, .doneHandler => true
  | _, _ => false

/-- the view of job `i` with the callback `cb` (just popped from the queue) counted back in -/
def viewP (cb : Cb) (s : St) (i : Nat) : View :=
  { (view s i) with st := (view s i).st + (if cb = .start i then 1 else 0),
                    rs := (view s i).rs + (if cb = .resume i then 1 else 0),
                    w := (view s i).w + (if cb = .wake i then 1 else 0) }

structure InvP (cb : Option Cb) (s : St) (ad : Nat → Bool) : Prop where
  loc : ∀ j, LocV (match cb with | some cb => viewP cb s j | none => view s j) (ad j)
  fresh : ∀ j, s.n ≤ j → (s.jobs j).pc = .none ∧ s.eff j = j
  dup : ∀ j, s.eff j ≠ j → (s.jobs j).pc = .none
  kind : ∀ t ∈ s.threads, kindOk t.1 (s.jobs t.2).pc = true

theorem loopHead_ready (s : St) (j : Nat) : (s.loopHead j).ready = s.ready := by
  unfold St.loopHead St.finish; simp only []; split <;> (try split) <;> (try split) <;> simp [St.put]

theorem loopHead_nf (s : St) (j : Nat) :
    ∃ f jb' ths, s.loopHead j = (setFailed s f).put j jb' [] ths ∧
      jb'.launches = (s.jobs j).launches ∧ jb'.marker = (s.jobs j).marker ∧ jb'.ident = (s.jobs j).ident ∧
      jb'.code = (s.jobs j).code ∧ jb'.state = (s.jobs j).state ∧
      (((s.jobs j).state.finished = true ∧ jb'.pc = .doneHandler ∧ ths = [(.doneH, j)] ∧ jb'.sleeping = (s.jobs j).sleeping) ∨
       ((s.jobs j).state.finished = false ∧ jb'.pc = .lockEnter ∧ ths = [(.lockEnter, j)] ∧ jb'.sleeping = (s.jobs j).sleeping) ∨
       ((s.jobs j).state.finished = false ∧ jb'.pc = .evtWait ∧ ths = [] ∧ jb'.sleeping = true)) := by
  unfold St.loopHead
  simp only []
  split
  · obtain ⟨f, hf⟩ := finish_eq s j
    exact ⟨f, _, _, hf, by simp_all⟩
  · split
    · split
      · exact ⟨s.failed, _, _, rfl, by simp_all⟩
      · exact ⟨s.failed, _, _, rfl, by simp_all⟩
    · exact ⟨s.failed, _, _, rfl, by simp_all⟩

/-- a transition of job `j`: what it leaves untouched -/
structure Tr (j : Nat) (s s' : St) : Prop where
  other : ∀ i, i ≠ j → view s' i = view s i
  otherDone : ∀ i, i ≠ j → (s'.jobs i).state = .done → (s.jobs i).state = .done
  n : s'.n = s.n
  eff : s'.eff = s.eff
  registry : s'.registry = s.registry
  regResult : s'.regResult = s.regResult
  ready : ∃ app, s'.ready = s.ready ++ app ∧ ∀ i, app.count (Cb.register i) = 0 ∧ app.count (Cb.resume i) = 0
  threads : ∃ app, s'.threads = s.threads ++ app ∧ ∀ t ∈ app, t.2 = j
  identJ : (s'.jobs j).ident = (s.jobs j).ident
  codeJ : (s'.jobs j).code = (s.jobs j).code

theorem Tr.refl (j : Nat) (s : St) : Tr j s s := by
  constructor <;> simp

theorem Tr.trans {j : Nat} {s1 s2 s3 : St} (h1 : Tr j s1 s2) (h2 : Tr j s2 s3) : Tr j s1 s3 := by
  obtain ⟨a1, ha1, hc1⟩ := h1.ready
  obtain ⟨a2, ha2, hc2⟩ := h2.ready
  obtain ⟨t1, ht1, hd1⟩ := h1.threads
  obtain ⟨t2, ht2, hd2⟩ := h2.threads
  constructor
  · intro i hi; rw [h2.other i hi, h1.other i hi]
  · intro i hi h; exact h1.otherDone i hi (h2.otherDone i hi h)
  · rw [h2.n, h1.n]
  · rw [h2.eff, h1.eff]
  · rw [h2.registry, h1.registry]
  · rw [h2.regResult, h1.regResult]
  · exact ⟨a1 ++ a2, by rw [ha2, ha1, List.append_assoc], by intro i; simp [List.count_append, hc1, hc2]⟩
  · refine ⟨t1 ++ t2, by rw [ht2, ht1, List.append_assoc], ?_⟩
    intro t ht
    rcases List.mem_append.mp ht with h | h
    · exact hd1 t h
    · exact hd2 t h
  · rw [h2.identJ, h1.identJ]
  · rw [h2.codeJ, h1.codeJ]

theorem Bg.tr {s s' : St} (h : Bg s s') (j : Nat) : Tr j s s' := by
  constructor
  · intro i _; exact h.view i
  · intro i _; exact h.done i
  · exact h.n
  · exact h.eff
  · exact h.registry
  · exact h.regResult
  · exact h.ready
  · exact ⟨[], by simp [h.threads], by simp⟩
  · have := congrArg View.ident (h.view j); simpa [XpmVerif.Restart.view] using this
  · have := congrArg View.code (h.view j); simpa [XpmVerif.Restart.view] using this

/-- callbacks that concern no other job than `j` and are no registrations -/
def cbsOf (j : Nat) (cbs : List Cb) : Prop :=
  ∀ i, (cbs.count (Cb.register i) = 0 ∧ cbs.count (Cb.resume i) = 0) ∧ (i ≠ j → cbs.count (Cb.start i) = 0 ∧ cbs.count (Cb.wake i) = 0)

theorem put_tr (s : St) (j : Nat) (jb : Job) (cbs : List Cb) (ths : List (TK × Nat))
    (hc : cbsOf j cbs) (ht : ∀ t ∈ ths, t.2 = j)
    (hid : jb.ident = (s.jobs j).ident := by first | rfl | simp_all [jobs_put])
    (hcode : jb.code = (s.jobs j).code := by first | rfl | simp_all [jobs_put]) : Tr j s (s.put j jb cbs ths) := by
  constructor
  · intro i hi
    rw [view_put]
    have hcnt : ths.countP (fun t => t.2 == i) = 0 := by
      rw [List.countP_eq_zero]; intro t htm; have := ht t htm; simp; omega
    simp [hi, (hc i).2 hi, (hc i).1.2, hcnt, view, cW]
  · intro i hi; simp [jobs_put, hi]
  · rfl
  · rfl
  · rfl
  · rfl
  · exact ⟨cbs, rfl, fun i => (hc i).1⟩
  · exact ⟨ths, rfl, ht⟩
  · simpa [jobs_put] using hid
  · simpa [jobs_put] using hcode

theorem cbsOf_nil (j : Nat) : cbsOf j [] := by intro i; simp
theorem cbsOf_wake (j : Nat) : cbsOf j [Cb.wake j] := by
  intro i; simp [List.count_cons]; intro h; omega

theorem failed_tr (j : Nat) (s : St) (f : List Nat) : Tr j s (setFailed s f) :=
  (bg_of_jobs_eq _ _ rfl rfl rfl rfl rfl rfl rfl : Bg s (setFailed s f)).tr j

theorem loopHead_tr (s : St) (j : Nat) : Tr j s (s.loopHead j) := by
  obtain ⟨f, jb', ths, he, -, -, h3, h4, -, hc⟩ := loopHead_nf s j
  rw [he]
  refine Tr.trans (failed_tr j s f) (put_tr _ j jb' [] ths (cbsOf_nil j) ?_ (by simpa using h3) (by simpa using h4))
  rcases hc with ⟨-, -, h, -⟩ | ⟨-, -, h, -⟩ | ⟨-, -, h, -⟩ <;> simp [h]

theorem view_pc_eq {s s' : St} {i j : Nat} (h : view s' i = view s j) : (s'.jobs i).pc = (s.jobs j).pc := by
  have := congrArg View.pc h; simpa [view] using this

theorem not_idle_of_pending (cb : Cb) (j : Nat) (hcb : cb = .start j ∨ cb = .wake j ∨ cb = .resume j)
    (s : St) (ad : Bool) (h : LocV (viewP cb s j) ad) : (s.jobs j).pc ≠ .none := by
  intro hp
  have hc := h.1
  simp only [CtlV, viewP, view, hp, pk] at hc
  rcases hcb with rfl | rfl | rfl <;> simp at hc

theorem inv_of_tr (cb : Cb) (j : Nat) (hcb : cb = .start j ∨ cb = .wake j ∨ cb = .resume j)
    (s s' : St) (ad ad' : Nat → Bool) (h : InvP (some cb) s ad) (htr : Tr j s s')
    (had : ∀ i, i ≠ j → ad' i = ad i)
    (hself : LocV (view s' j) (ad' j))
    (hkind : ∀ t ∈ s'.threads, t.2 = j → kindOk t.1 (s'.jobs j).pc = true) : InvP none s' ad' := by
  have hne := not_idle_of_pending cb j hcb s (ad j) (h.loc j)
  constructor
  · intro i
    by_cases hi : i = j
    · subst hi; exact hself
    · simp only
      rw [htr.other i hi, had i hi]
      have := h.loc i
      simp only [viewP] at this
      have e1 : (cb = Cb.start i) = False := by rcases hcb with rfl | rfl | rfl <;> simp <;> omega
      have e2 : (cb = Cb.resume i) = False := by rcases hcb with rfl | rfl | rfl <;> simp <;> omega
      have e3 : (cb = Cb.wake i) = False := by rcases hcb with rfl | rfl | rfl <;> simp <;> omega
      simpa [e1, e2, e3] using this
  · intro i hi
    rw [htr.n] at hi
    have := h.fresh i hi
    by_cases hij : i = j
    · subst hij; exact absurd this.1 hne
    · rw [view_pc_eq (htr.other i hij), htr.eff]; exact this
  · intro i hi
    rw [htr.eff] at hi
    have := h.dup i hi
    by_cases hij : i = j
    · subst hij; exact absurd this hne
    · rw [view_pc_eq (htr.other i hij)]; exact this
  · intro t ht
    by_cases htj : t.2 = j
    · rw [htj]; exact hkind t ht htj
    · obtain ⟨app, happ, hall⟩ := htr.threads
      rw [happ] at ht
      rcases List.mem_append.mp ht with h1 | h1
      · rw [view_pc_eq (htr.other t.2 htj)]; exact h.kind t h1
      · exact absurd (hall t h1) htj

/-- outcome of a transition of job `j` as `inv_of_tr` needs it -/
def Good (j : Nat) (s s' : St) (ad : Bool) : Prop :=
  Tr j s s' ∧ LocV (view s' j) ad ∧ (∀ t ∈ s'.threads, t.2 = j → kindOk t.1 (s'.jobs j).pc = true)

theorem cThr_zero_kind (s : St) (j : Nat) (h : cThr s j = 0) : ∀ t ∈ s.threads, t.2 ≠ j := by
  intro t ht he
  unfold cThr at h
  rw [List.countP_eq_zero] at h
  exact h t ht (by simp [he])

@[simp] theorem threads_put (s : St) (j : Nat) (jb : Job) (cbs : List Cb) (ths : List (TK × Nat)) :
    (s.put j jb cbs ths).threads = s.threads ++ ths := rfl
@[simp] theorem ready_put (s : St) (j : Nat) (jb : Job) (cbs : List Cb) (ths : List (TK × Nat)) :
    (s.put j jb cbs ths).ready = s.ready ++ cbs := rfl
@[simp] theorem cStart_put (s : St) (j : Nat) (jb : Job) (cbs : List Cb) (ths : List (TK × Nat)) (i : Nat) :
    cStart (s.put j jb cbs ths) i = cStart s i + cbs.count (.start i) := by simp [cStart, List.count_append]
@[simp] theorem cRes_put (s : St) (j : Nat) (jb : Job) (cbs : List Cb) (ths : List (TK × Nat)) (i : Nat) :
    cRes (s.put j jb cbs ths) i = cRes s i + cbs.count (.resume i) := by simp [cRes, List.count_append]
@[simp] theorem cWake_put (s : St) (j : Nat) (jb : Job) (cbs : List Cb) (ths : List (TK × Nat)) (i : Nat) :
    cWake (s.put j jb cbs ths) i = cWake s i + cbs.count (.wake i) := by simp [cWake, List.count_append]

attribute [simp] cThr_put

/-- what the popped callback tells about its job -/
theorem pre_wake (s : St) (ad : Bool) (j : Nat) (hj : LocV (viewP (.wake j) s j) ad) :
    (s.jobs j).pc = .evtWait ∧ cThr s j = 0 ∧ cStart s j = 0 ∧ cRes s j = 0 ∧ cWake s j = 0 ∧ (s.jobs j).sleeping = false ∧
    (s.jobs j).launches = 0 ∧ (s.jobs j).marker = false ∧ ad = false := by
  simp only [viewP, LocV, CtlV, view, cW, cSleep] at hj
  generalize (s.jobs j).pc = pc at *
  cases pc <;> simp [pk, launched, pcMarker, pcAdopted] at hj ⊢ <;> grind

theorem wake_good (fl : Flags) (s : St) (ad : Nat → Bool) (j : Nat) (h : InvP (some (.wake j)) s ad) :
    Good j s (s.runCb fl (.wake j)) (ad j) := by
  obtain ⟨hpc, hth, hst, hrs, hwk, hsl, hla, hma, had⟩ := pre_wake s (ad j) j (h.loc j)
  have hnt := cThr_zero_kind s j hth
  refine ⟨?tr, ?self, ?kind⟩
  case tr =>
    simp only [St.runCb]
    split
    · exact put_tr _ j _ _ _ (cbsOf_nil j) (by simp)
    · exact (put_tr _ j _ _ _ (cbsOf_nil j) (by simp)).trans (loopHead_tr _ j)
  case self =>
    simp only [St.runCb]
    split
    · rw [view_put]; simp [LocV, CtlV, pk, launched, pcMarker, pcAdopted, hth, hst, hrs, hwk, hsl, hla, hma, had]
    · obtain ⟨f, jb', ths, he, h1, h2, h3, h4, h5, hc⟩ := loopHead_nf (s.put j { (s.jobs j) with event := false }) j
      rw [he, view_put]
      clear he
      simp [jobs_put] at h1 h2 h3 h4 h5 hc
      rcases hc with ⟨-, hp, ht, hs⟩ | ⟨-, hp, ht, hs⟩ | ⟨-, hp, ht, hs⟩ <;>
        simp [LocV, CtlV, pk, launched, pcMarker, pcAdopted, hth, hst, hrs, hwk, hsl, hp, ht, hs, h1, h2, hla, hma, had]
  case kind =>
    simp only [St.runCb]
    split
    · intro t ht htj
      simp at ht
      rcases ht with ht | ht
      · exact absurd htj (hnt t ht)
      · subst ht; simp [jobs_put, kindOk]
    · obtain ⟨f, jb', ths, he, h1, h2, h3, h4, h5, hc⟩ := loopHead_nf (s.put j { (s.jobs j) with event := false }) j
      rw [he]
      clear he
      intro t ht htj
      simp at ht
      rcases ht with ht | ht
      · exact absurd htj (hnt t ht)
      · rcases hc with ⟨-, hp, hts, hs⟩ | ⟨-, hp, hts, hs⟩ | ⟨-, hp, hts, hs⟩ <;> simp [hts] at ht <;> subst ht <;> simp [jobs_put, hp, kindOk]


theorem wake_inv (fl : Flags) (s : St) (ad : Nat → Bool) (j : Nat) (h : InvP (some (.wake j)) s ad) :
    InvP none (s.runCb fl (.wake j)) ad := by
  obtain ⟨g1, g2, g3⟩ := wake_good fl s ad j h
  exact inv_of_tr (.wake j) j (by simp) s _ ad ad h g1 (fun _ _ => rfl) g2 g3

theorem Bg.fields {s s' : St} (h : Bg s s') (i : Nat) :
    (s'.jobs i).pc = (s.jobs i).pc ∧ cStart s' i = cStart s i ∧ cRes s' i = cRes s i ∧ cThr s' i = cThr s i ∧
    cW s' i = cW s i ∧ (s'.jobs i).launches = (s.jobs i).launches ∧ (s'.jobs i).marker = (s.jobs i).marker ∧
    (s'.jobs i).ident = (s.jobs i).ident ∧ (s'.jobs i).code = (s.jobs i).code := by
  have := h.view i
  simp only [XpmVerif.Restart.view, View.mk.injEq] at this
  exact this

/-- the first segment of `aio_submit` up to the marker test: only job `j` is touched; it ends DONE iff the marker exists -/
theorem startPrefix_spec (fl : Flags) (s : St) (j : Nat) :
    Tr j s (startPrefix fl s j) ∧
    ((startPrefix fl s j).jobs j).pc = (s.jobs j).pc ∧ ((startPrefix fl s j).jobs j).launches = (s.jobs j).launches ∧
    ((startPrefix fl s j).jobs j).marker = (s.jobs j).marker ∧ ((startPrefix fl s j).jobs j).ident = (s.jobs j).ident ∧
    ((startPrefix fl s j).jobs j).code = (s.jobs j).code ∧
    cStart (startPrefix fl s j) j = cStart s j ∧ cRes (startPrefix fl s j) j = cRes s j ∧
    cThr (startPrefix fl s j) j = cThr s j ∧ cW (startPrefix fl s j) j = cWake s j ∧
    (((startPrefix fl s j).jobs j).state = .done ↔ (s.jobs j).marker = true) := by
  unfold startPrefix
  simp only []
  split
  · -- no dependencies
    split
    · refine ⟨((put_tr _ j _ _ _ (cbsOf_nil j) (by simp)).trans (put_tr _ j _ _ _ (cbsOf_nil j) (by simp))).trans
        (put_tr _ j _ _ _ (cbsOf_nil j) (by simp)), ?_⟩
      simp_all [jobs_put, cW, cSleep]
    · refine ⟨(put_tr _ j _ _ _ (cbsOf_nil j) (by simp)).trans (put_tr _ j _ _ _ (cbsOf_nil j) (by simp)), ?_⟩
      simp_all [jobs_put, cW, cSleep]
  · -- dependencies registered and checked one by one
    rename_i hdeps
    generalize hs0 : (s.put j { (s.jobs j) with state := .waiting, event := false, sleeping := false }).put j
      { (s.jobs j) with state := .waiting, event := false, sleeping := false, unsat := ((s.jobs j).deps.length : Int) } = s0
    have hb := registerDeps_bg fl j (s.jobs j).deps.length 0 s0
    have hf := hb.fields j
    have hd := hb.done j
    generalize St.registerDeps fl s0 j (s.jobs j).deps.length 0 = s1 at *
    have htr0 : Tr j s s0 := by
      rw [← hs0]; exact (put_tr _ j _ _ _ (cbsOf_nil j) (by simp)).trans (put_tr _ j _ _ _ (cbsOf_nil j) (by simp))
    have h0 : (s0.jobs j).pc = (s.jobs j).pc ∧ (s0.jobs j).launches = (s.jobs j).launches ∧ (s0.jobs j).marker = (s.jobs j).marker ∧
        (s0.jobs j).ident = (s.jobs j).ident ∧ (s0.jobs j).code = (s.jobs j).code ∧ cStart s0 j = cStart s j ∧
        cRes s0 j = cRes s j ∧ cThr s0 j = cThr s j ∧ cW s0 j = cWake s j ∧ (s0.jobs j).state = .waiting := by
      rw [← hs0]; simp [jobs_put, cW, cSleep]
    split
    · refine ⟨(htr0.trans (hb.tr j)).trans (put_tr _ j _ _ _ (cbsOf_nil j) (by simp)), ?_⟩
      simp [jobs_put, cW, cSleep] at *
      grind
    · refine ⟨htr0.trans (hb.tr j), ?_⟩
      simp [cW, cSleep] at *
      grind


theorem pre_start (s : St) (ad : Bool) (j : Nat) (hj : LocV (viewP (.start j) s j) ad) :
    (s.jobs j).pc = .created ∧ cThr s j = 0 ∧ cStart s j = 0 ∧ cRes s j = 0 ∧ cWake s j = 0 ∧ (s.jobs j).sleeping = false ∧
    (s.jobs j).launches = 0 ∧ ad = false := by
  simp only [viewP, LocV, CtlV, view, cW, cSleep] at hj
  generalize (s.jobs j).pc = pc at *
  cases pc <;> simp [pk, launched, pcMarker, pcAdopted] at hj ⊢ <;> grind

theorem start_good {D : Type} (fl : Flags) (hk : Hooks D) (a : StA D) (j : Nat) (h : InvP (some (.start j)) a.s a.adopted) :
    Good j a.s (runCbA fl hk a (.start j)).s ((runCbA fl hk a (.start j)).adopted j) ∧
    ∀ i, i ≠ j → (runCbA fl hk a (.start j)).adopted i = a.adopted i := by
  obtain ⟨hpc, hth, hst, hrs, hwk, hsl, hla, had⟩ := pre_start a.s (a.adopted j) j (h.loc j)
  have hnt := cThr_zero_kind a.s j hth
  generalize hlk : hk.look a.d j (a.s.jobs j) = lk
  generalize hsm : a.s.put j { (a.s.jobs j) with marker := lk.marker } = sm
  have htm : Tr j a.s sm := by rw [← hsm]; exact put_tr _ j _ _ _ (cbsOf_nil j) (by simp)
  have hm : (sm.jobs j).pc = .created ∧ (sm.jobs j).launches = 0 ∧ (sm.jobs j).marker = lk.marker ∧
      cStart sm j = 0 ∧ cRes sm j = 0 ∧ cThr sm j = 0 ∧ cWake sm j = 0 ∧ sm.threads = a.s.threads := by
    rw [← hsm]; simp [jobs_put, hpc, hla, hst, hrs, hth, hwk]
  obtain ⟨htp, p1, p2, p3, p4, p5, p6, p7, p8, p9, p10⟩ := startPrefix_spec fl sm j
  obtain ⟨tapp, htapp, htall⟩ := htp.threads
  generalize hs1 : startPrefix fl sm j = s1 at *
  have hthr1 : ∀ t ∈ s1.threads, t.2 = j → False := by
    intro t ht htj
    have : cThr s1 j = 0 := by rw [p8]; exact hm.2.2.2.2.2.1
    exact cThr_zero_kind s1 j this t ht htj
  by_cases hadopt : lk.adopt = true
  · -- adoption: RUNNING, wait for the process found through the pid file
    have e : (runCbA fl hk a (.start j)).s = s1.put j { (s1.jobs j) with state := .running, pc := .codeWait } [] [(.code, j)] := by
      simp only [runCbA, hlk, hadopt, if_true, startJobA, hsm, hs1]
    have e2 : (runCbA fl hk a (.start j)).adopted = upd a.adopted j true := by
      simp only [runCbA, hlk, hadopt, if_true]
    rw [e, e2]
    refine ⟨⟨?_, ?_, ?_⟩, ?_⟩
    rotate_left 3
    · intro i hi; simp [upd, hi]
    · exact (htm.trans htp).trans (put_tr _ j _ _ _ (cbsOf_nil j) (by simp))
    · rw [view_put]
      simp only [if_true]
      simp [LocV, CtlV, pk, launched, pcMarker, pcAdopted, upd, cW, cSleep] at *
      grind
    · intro t ht htj
      simp at ht
      rcases ht with ht | ht
      · exact absurd htj (fun hh => hthr1 t ht hh)
      · subst ht; simp [jobs_put, kindOk]
  · have e : (runCbA fl hk a (.start j)).s = s1.loopHead j := by
      simp only [runCbA, hlk, hadopt, startJobA, hsm, startJob_eq, hs1]; simp
    have e2 : (runCbA fl hk a (.start j)).adopted = a.adopted := by
      simp only [runCbA, hlk, hadopt]; simp
    rw [e, e2]
    obtain ⟨f, jb', ths, he, h1, h2, h3, h4, h5, hc⟩ := loopHead_nf s1 j
    refine ⟨⟨?_, ?_, ?_⟩, fun _ _ => rfl⟩
    · exact (htm.trans htp).trans (loopHead_tr s1 j)
    · rw [he, view_put]
      clear he
      simp only [if_true]
      simp [LocV, CtlV, pk, launched, pcMarker, pcAdopted, cW, cSleep] at *
      rcases hc with ⟨hfin, hp, ht, hs⟩ | ⟨hfin, hp, ht, hs⟩ | ⟨hfin, hp, ht, hs⟩ <;> simp [hp, ht, hs] <;> grind [JS.finished]
    · rw [he]
      clear he
      intro t ht htj
      simp at ht
      rcases ht with ht | ht
      · exact absurd htj (fun hh => hthr1 t ht hh)
      · rcases hc with ⟨-, hp, hts, hs⟩ | ⟨-, hp, hts, hs⟩ | ⟨-, hp, hts, hs⟩ <;> simp [hts] at ht <;> subst ht <;> simp [jobs_put, hp, kindOk]


theorem start_inv {D : Type} (fl : Flags) (hk : Hooks D) (a : StA D) (j : Nat) (h : InvP (some (.start j)) a.s a.adopted) :
    InvP none (runCbA fl hk a (.start j)).s (runCbA fl hk a (.start j)).adopted := by
  obtain ⟨⟨g1, g2, g3⟩, g4⟩ := start_good fl hk a j h
  exact inv_of_tr (.start j) j (by simp) a.s _ a.adopted _ h g1 g4 g2 g3

def nonControl : Cb → Bool
  | .check _ _ => true
  | .notifyCheck _ _ => true
  | .waiterRun => true
  | _ => false

theorem count_nonControl (app : List Cb) (h : ∀ cb ∈ app, nonControl cb = true) (i : Nat) :
    app.count (Cb.start i) = 0 ∧ app.count (Cb.wake i) = 0 ∧ app.count (Cb.resume i) = 0 ∧ app.count (Cb.register i) = 0 := by
  refine ⟨?_, ?_, ?_, ?_⟩ <;> (rw [List.count_eq_zero]; intro hm; have := h _ hm; simp [nonControl] at this)

theorem bg_misc (s s' : St) (app : List Cb) (hj : s'.jobs = s.jobs) (hr : s'.ready = s.ready ++ app)
    (happ : ∀ cb ∈ app, nonControl cb = true) (ht : s'.threads = s.threads)
    (hn : s'.n = s.n) (he : s'.eff = s.eff) (hg : s'.registry = s.registry) (hq : s'.regResult = s.regResult) : Bg s s' := by
  constructor
  · intro i
    obtain ⟨c1, c2, c3, -⟩ := count_nonControl app happ i
    simp [view, cStart, cRes, cW, cWake, cSleep, cThr, hj, hr, ht, List.count_append, c1, c2, c3]
  all_goals first | assumption | skip
  · exact ⟨app, hr, fun i => ⟨(count_nonControl app happ i).2.2.2, (count_nonControl app happ i).2.2.1⟩⟩
  · intro i; simp [hj]

theorem pre_resume (s : St) (ad : Bool) (j : Nat) (hj : LocV (viewP (.resume j) s j) ad) :
    pk (s.jobs j).pc = .thr ∧ cThr s j = 0 ∧ cStart s j = 0 ∧ cRes s j = 0 ∧ cWake s j = 0 ∧ (s.jobs j).sleeping = false ∧
    ((s.jobs j).launches = 0 ∨ ((s.jobs j).launches = 1 ∧ launched (s.jobs j).pc = true)) ∧
    ((s.jobs j).marker = true → (s.jobs j).launches = 0 ∧ pcMarker (s.jobs j).pc = true) ∧
    (ad = true → (s.jobs j).launches = 0 ∧ pcAdopted (s.jobs j).pc = true) := by
  simp only [viewP, LocV, CtlV, view, cW, cSleep] at hj
  generalize (s.jobs j).pc = pc at *
  cases pc <;> simp [pk, launched, pcMarker, pcAdopted] at hj ⊢ <;> grind

set_option linter.unusedSimpArgs false

structure PreR (s : St) (j : Nat) (ad : Bool) : Prop where
  th : cThr s j = 0
  st : cStart s j = 0
  rs : cRes s j = 0
  wk : cWake s j = 0
  sl : (s.jobs j).sleeping = false
  la : (s.jobs j).launches = 0 ∨ ((s.jobs j).launches = 1 ∧ launched (s.jobs j).pc = true)
  ma : (s.jobs j).marker = true → (s.jobs j).launches = 0 ∧ pcMarker (s.jobs j).pc = true
  ad : ad = true → (s.jobs j).launches = 0 ∧ pcAdopted (s.jobs j).pc = true

/-- `PreR` survives dependency bookkeeping -/
theorem PreR.bg {s s' : St} {j : Nat} {ad : Bool} (h : PreR s j ad) (hb : Bg s s') : PreR s' j ad := by
  obtain ⟨f1, f2, f3, f4, f5, f6, f7, f8, f9⟩ := hb.fields j
  have hw : cW s j = 0 := by simp [cW, cSleep, h.wk, h.sl]
  rw [hw] at f5
  simp [cW, cSleep] at f5
  constructor
  · rw [f4]; exact h.th
  · rw [f2]; exact h.st
  · rw [f3]; exact h.rs
  · exact f5.1
  · exact f5.2
  · rw [f6, f1]; exact h.la
  · rw [f7, f6, f1]; exact h.ma
  · rw [f6, f1]; exact h.ad

theorem kind_new (s : St) (j : Nat) (jb : Job) (cbs : List Cb) (k : TK) (hth : cThr s j = 0) (hk : kindOk k jb.pc = true) :
    ∀ t ∈ (s.put j jb cbs [(k, j)]).threads, t.2 = j → kindOk t.1 ((s.put j jb cbs [(k, j)]).jobs j).pc = true := by
  intro t ht htj
  simp at ht
  rcases ht with ht | ht
  · exact absurd htj (cThr_zero_kind s j hth t ht)
  · subst ht; simpa [jobs_put] using hk

theorem kind_none (s : St) (j : Nat) (jb : Job) (cbs : List Cb) (hth : cThr s j = 0) :
    ∀ t ∈ (s.put j jb cbs []).threads, t.2 = j → kindOk t.1 ((s.put j jb cbs []).jobs j).pc = true := by
  intro t ht htj
  simp at ht
  exact absurd htj (cThr_zero_kind s j hth t ht)

theorem resume_lockExitRun (fl : Flags) (s : St) (j : Nat) (ad : Bool) (hp : (s.jobs j).pc = .lockExitRun) (h : PreR s j ad) :
    Good j s (s.resume fl j) ad := by
  have e : s.resume fl j = s.put j { (s.jobs j) with pc := .codeWait } [] [(.code, j)] := by
    simp only [St.resume, hp]
  rw [e]
  refine ⟨put_tr _ j _ _ _ (cbsOf_nil j) (by simp), ?_, kind_new _ _ _ _ _ h.th (by simp [kindOk])⟩
  obtain ⟨h1, h2, h3, h4, h5, h6, h7, h8⟩ := h
  rw [view_put]
  simp [LocV, CtlV, pk, launched, pcMarker, pcAdopted, hp] at *
  grind

theorem resume_lockEnter (fl : Flags) (s : St) (j : Nat) (ad : Bool) (hp : (s.jobs j).pc = .lockEnter) (h : PreR s j ad) :
    Good j s (s.resume fl j) ad := by
  have hb := acquireAll_bg j (s.jobs j).deps.length 0 s
  have e : s.resume fl j =
      (match (s.acquireAll j (s.jobs j).deps.length 0).2 with
       | some d =>
         let s1 := (s.acquireAll j (s.jobs j).deps.length 0).1
         let s2 := (if fl.abortReleases then s1.releaseAll j (s1.jobs j).held else s1).check fl j d
         s2.put j { (s2.jobs j) with pc := .lockExitAbort } [] [(.lockExit, j)]
       | none =>
         let s1 := (s.acquireAll j (s.jobs j).deps.length 0).1
         s1.put j { (s1.jobs j) with launches := (s1.jobs j).launches + 1, state := .running, pc := .lockExitRun } [] [(.lockExit, j)]) := by
    simp only [St.resume, hp]
    rcases s.acquireAll j (s.jobs j).deps.length 0 with ⟨s1, _ | d⟩ <;> rfl
  rw [e]
  generalize (s.acquireAll j (s.jobs j).deps.length 0) = r at *
  obtain ⟨s1, fa⟩ := r
  simp only at hb ⊢
  have hp1 : (s1.jobs j).pc = .lockEnter := by rw [(hb.fields j).1, hp]
  cases fa with
  | some d =>
    simp only []
    have hbr : Bg s1 (if fl.abortReleases then s1.releaseAll j (s1.jobs j).held else s1) := by
      split
      · exact releaseAll_bg j _ s1
      · exact Bg.refl s1
    have hb := hb.trans hbr
    have hp1 : ((if fl.abortReleases then s1.releaseAll j (s1.jobs j).held else s1).jobs j).pc = .lockEnter := by
      rw [(hbr.fields j).1, hp1]
    generalize (if fl.abortReleases then s1.releaseAll j (s1.jobs j).held else s1) = s1 at *
    have hb2 := check_bg fl s1 j d
    have h2 := (h.bg hb).bg hb2
    have hp2 : ((s1.check fl j d).jobs j).pc = .lockEnter := by rw [(hb2.fields j).1, hp1]
    generalize s1.check fl j d = s2 at *
    refine ⟨((hb.trans hb2).tr j).trans (put_tr _ j _ _ _ (cbsOf_nil j) (by simp)), ?_, kind_new _ _ _ _ _ h2.th (by simp [kindOk])⟩
    obtain ⟨h1, h2, h3, h4, h5, h6, h7, h8⟩ := h2
    rw [view_put]
    simp [LocV, CtlV, pk, launched, pcMarker, pcAdopted, hp2] at *
    grind
  | none =>
    simp only []
    have h2 := h.bg hb
    refine ⟨(hb.tr j).trans (put_tr _ j _ _ _ (cbsOf_nil j) (by simp)), ?_, kind_new _ _ _ _ _ h2.th (by simp [kindOk])⟩
    obtain ⟨h1, h2, h3, h4, h5, h6, h7, h8⟩ := h2
    rw [view_put]
    simp [LocV, CtlV, pk, launched, pcMarker, pcAdopted, hp1] at *
    grind


theorem resume_codeWait (fl : Flags) (s : St) (j : Nat) (ad : Bool) (hp : (s.jobs j).pc = .codeWait) (h : PreR s j ad) :
    Good j s (s.resume fl j) ad := by
  have hb := releaseAll_bg j (s.jobs j).held s
  have e : s.resume fl j =
      (let s1 := s.releaseAll j (s.jobs j).held
       (s1.put j { (s1.jobs j) with state := if (s1.jobs j).code = 0 then .done else .error }).finish j) := by
    simp only [St.resume, hp]
  rw [e]
  simp only []
  have h1 := h.bg hb
  have hp1 : ((s.releaseAll j (s.jobs j).held).jobs j).pc = .codeWait := by rw [(hb.fields j).1, hp]
  generalize s.releaseAll j (s.jobs j).held = s1 at *
  obtain ⟨f, hf⟩ := finish_eq (s1.put j { (s1.jobs j) with state := if (s1.jobs j).code = 0 then .done else .error }) j
  rw [hf]
  clear hf
  refine ⟨(((hb.tr j).trans (put_tr _ j _ _ _ (cbsOf_nil j) (by simp))).trans (failed_tr j _ f)).trans
    (put_tr _ j _ _ _ (cbsOf_nil j) (by simp)), ?_, ?_⟩
  · obtain ⟨h1, h2, h3, h4, h5, h6, h7, h8⟩ := h1
    rw [view_put]
    simp [LocV, CtlV, pk, launched, pcMarker, pcAdopted, hp1, jobs_put] at *
    grind
  · exact kind_new _ _ _ _ _ (by simp [h1.th]) (by simp [kindOk])

theorem eventSet_awake (x : Job) (hx : x.sleeping = false) :
    (eventSet x).2 = false ∧ (eventSet x).1.sleeping = false ∧ (eventSet x).1.pc = x.pc ∧
    (eventSet x).1.launches = x.launches ∧ (eventSet x).1.marker = x.marker ∧
    (eventSet x).1.ident = x.ident ∧ (eventSet x).1.code = x.code := by
  unfold eventSet; grind

theorem resume_lockExitAbort (fl : Flags) (s : St) (j : Nat) (ad : Bool) (hp : (s.jobs j).pc = .lockExitAbort) (h : PreR s j ad) :
    Good j s (s.resume fl j) ad := by
  have hb := releaseAll_bg j (s.jobs j).held s
  have e : s.resume fl j =
      (let s1 := s.releaseAll j (s.jobs j).held
       let r := if fl.abortRechecks ∧ (s1.jobs j).unsat = 0 then eventSet { (s1.jobs j) with state := .ready }
                else ({ (s1.jobs j) with state := .waiting }, false)
       (s1.put j r.1 (if r.2 then [.wake j] else [])).loopHead j) := by
    simp only [St.resume, hp]
  rw [e]
  simp only []
  have h1 := h.bg hb
  have hp1 : ((s.releaseAll j (s.jobs j).held).jobs j).pc = .lockExitAbort := by rw [(hb.fields j).1, hp]
  generalize s.releaseAll j (s.jobs j).held = s1 at *
  generalize hr : (if fl.abortRechecks ∧ (s1.jobs j).unsat = 0 then eventSet { (s1.jobs j) with state := .ready }
                else ({ (s1.jobs j) with state := .waiting }, false)) = r
  have hrs : r.1.pc = .lockExitAbort ∧ r.1.launches = (s1.jobs j).launches ∧ r.1.marker = (s1.jobs j).marker ∧
      r.1.sleeping = false ∧ r.2 = false ∧ r.1.ident = (s1.jobs j).ident ∧ r.1.code = (s1.jobs j).code := by
    rw [← hr]
    split
    · obtain ⟨a1, a2, a3, a4, a5, a6, a7⟩ := eventSet_awake { (s1.jobs j) with state := .ready } h1.sl
      exact ⟨by rw [a3]; exact hp1, a4, a5, a2, a1, a6, a7⟩
    · simp [hp1, h1.sl]
  obtain ⟨r1, r2⟩ := r
  simp only at hrs
  obtain ⟨q1, q2, q3, q4, q5, q6, q7⟩ := hrs
  subst q5
  simp only [Bool.false_eq_true, if_false]
  obtain ⟨f, jb', ths, he, g1, g2, g3, g4, g5, hc⟩ := loopHead_nf (s1.put j r1 []) j
  rw [he]
  clear he
  refine ⟨(((hb.tr j).trans (put_tr _ j _ _ _ (cbsOf_nil j) (by simp))).trans (failed_tr j _ f)).trans
    (put_tr _ j _ _ _ (cbsOf_nil j) ?_), ?_, ?_⟩
  · rcases hc with ⟨-, -, ht, -⟩ | ⟨-, -, ht, -⟩ | ⟨-, -, ht, -⟩ <;> simp [ht]
  · obtain ⟨h1, h2, h3, h4, h5, h6, h7, h8⟩ := h1
    rw [view_put]
    simp [jobs_put] at g1 g2 g3 g4 g5 hc
    simp [LocV, CtlV, pk, launched, pcMarker, pcAdopted, hp1] at *
    rcases hc with ⟨hfin, hpp, ht, hs⟩ | ⟨hfin, hpp, ht, hs⟩ | ⟨hfin, hpp, ht, hs⟩ <;> simp [hpp, ht, hs] <;> grind
  · have hth : cThr (setFailed (s1.put j r1 []) f) j = 0 := by simp [h1.th]
    rcases hc with ⟨-, hpp, ht, -⟩ | ⟨-, hpp, ht, -⟩ | ⟨-, hpp, ht, -⟩
    · rw [ht]; exact kind_new _ _ _ _ _ hth (by simp [kindOk, hpp])
    · rw [ht]; exact kind_new _ _ _ _ _ hth (by simp [kindOk, hpp])
    · rw [ht]; exact kind_none _ _ _ _ hth


theorem resume_doneHandler (fl : Flags) (s : St) (j : Nat) (ad : Bool) (hp : (s.jobs j).pc = .doneHandler) (h : PreR s j ad) :
    Good j s (s.resume fl j) ad := by
  have e : ∃ s3, Bg s s3 ∧ s.resume fl j = s3.put j { (s3.jobs j) with pc := .finished (s3.jobs j).state } := by
    simp only [St.resume, hp]
    refine ⟨_, ?_, rfl⟩
    refine bg_misc _ _ ((if s.waiter = .sleeping then [Cb.waiterRun] else []) ++ (s.jobDeps j).map (fun (p : Nat × Nat) => Cb.check p.1 p.2))
      ?_ ?_ ?_ ?_ ?_ ?_ ?_ ?_
    · split <;> rfl
    · split <;> simp
    · intro cb hcb
      rcases List.mem_append.mp hcb with h1 | h1
      · split at h1 <;> simp at h1; subst h1; rfl
      · obtain ⟨p, -, rfl⟩ := List.mem_map.mp h1; rfl
    all_goals (split <;> rfl)
  obtain ⟨s3, hb, e⟩ := e
  rw [e]
  have h3 := h.bg hb
  have hp3 : (s3.jobs j).pc = .doneHandler := by rw [(hb.fields j).1, hp]
  refine ⟨(hb.tr j).trans (put_tr _ j _ _ _ (cbsOf_nil j) (by simp)), ?_, kind_none _ _ _ _ h3.th⟩
  obtain ⟨h1, h2, h3, h4, h5, h6, h7, h8⟩ := h3
  rw [view_put]
  simp [LocV, CtlV, pk, launched, pcMarker, pcAdopted, hp3] at *
  grind

theorem resume_good (fl : Flags) (s : St) (j : Nat) (ad : Bool) (hk : pk (s.jobs j).pc = .thr) (h : PreR s j ad) :
    Good j s (s.resume fl j) ad := by
  generalize hpc : (s.jobs j).pc = pc at hk
  cases pc <;> simp [pk] at hk
  · exact resume_lockEnter fl s j ad hpc h
  · exact resume_lockExitAbort fl s j ad hpc h
  · exact resume_lockExitRun fl s j ad hpc h
  · exact resume_codeWait fl s j ad hpc h
  · exact resume_doneHandler fl s j ad hpc h

theorem resume_inv (fl : Flags) (s : St) (ad : Nat → Bool) (j : Nat) (h : InvP (some (.resume j)) s ad) :
    InvP none (s.resume fl j) ad := by
  obtain ⟨hk, hth, hst, hrs, hwk, hsl, hla, hma, had⟩ := pre_resume s (ad j) j (h.loc j)
  obtain ⟨g1, g2, g3⟩ := resume_good fl s j (ad j) hk ⟨hth, hst, hrs, hwk, hsl, hla, hma, had⟩
  exact inv_of_tr (.resume j) j (by simp) s _ ad ad h g1 (fun _ _ => rfl) g2 g3


theorem inv_of_bg {s s' : St} {ad : Nat → Bool} (h : InvP none s ad) (hb : Bg s s') : InvP none s' ad := by
  constructor
  · intro i; have := h.loc i; simp only [] at this ⊢; rw [hb.view i]; exact this
  · intro i hi; rw [hb.n] at hi; rw [(hb.fields i).1, hb.eff]; exact h.fresh i hi
  · intro i hi; rw [hb.eff] at hi; rw [(hb.fields i).1]; exact h.dup i hi
  · intro t ht; rw [hb.threads] at ht; rw [(hb.fields t.2).1]; exact h.kind t ht

/-- a callback that is no continuation of a job -/
def plainCb : Cb → Bool
  | .start _ => false
  | .wake _ => false
  | .resume _ => false
  | _ => true

theorem viewP_plain (cb : Cb) (h : plainCb cb = true) (s : St) (i : Nat) : viewP cb s i = view s i := by
  cases cb <;> simp [plainCb] at h <;> simp [viewP]

theorem invP_plain {cb : Cb} (hc : plainCb cb = true) {s : St} {ad : Nat → Bool} (h : InvP (some cb) s ad) : InvP none s ad := by
  refine ⟨?_, h.fresh, h.dup, h.kind⟩
  intro i; have := h.loc i; simp only [viewP_plain cb hc] at this; exact this

theorem inv_register (fl : Flags) {s : St} {ad : Nat → Bool} (j : Nat) (h : InvP none s ad) : InvP none (s.register fl j) ad := by
  have hj : (s.register fl j).jobs = s.jobs ∧ (s.register fl j).ready = s.ready ∧ (s.register fl j).threads = s.threads ∧
      (s.register fl j).n = s.n ∧ (s.register fl j).eff = s.eff := by
    unfold St.register; simp only []; split <;> (try split) <;> (try split) <;> simp
  obtain ⟨h1, h2, h3, h4, h5⟩ := hj
  constructor
  · intro i; have := h.loc i; simp only [view, cStart, cRes, cW, cWake, cSleep, cThr, h1, h2, h3] at this ⊢; exact this
  · intro i hi; rw [h4] at hi; rw [h1, h5]; exact h.fresh i hi
  · intro i hi; rw [h5] at hi; rw [h1]; exact h.dup i hi
  · intro t ht; rw [h3] at ht; rw [h1]; exact h.kind t ht

theorem runCb_plain_inv (fl : Flags) (cb : Cb) (hc : plainCb cb = true) {s : St} {ad : Nat → Bool} (h : InvP none s ad) :
    InvP none (s.runCb fl cb) ad := by
  cases cb <;> simp [plainCb] at hc
  · exact inv_register fl _ h
  · exact inv_of_bg h (check_bg fl s _ _)
  · simp only [St.runCb]
    split
    · split
      · exact inv_of_bg h (check_bg fl s _ _)
      · exact h
    · exact inv_of_bg h (check_bg fl s _ _)
  · simp only [St.runCb, St.waiterRun]
    split <;> exact inv_of_bg h (bg_of_jobs_eq _ _ rfl rfl rfl rfl rfl rfl rfl)

theorem runCbA_plain {D : Type} (fl : Flags) (hk : Hooks D) (a : StA D) (cb : Cb) (hc : plainCb cb = true) :
    runCbA fl hk a cb = { a with s := a.s.runCb fl cb } := by
  cases cb <;> simp [plainCb] at hc <;> rfl

theorem runCbA_inv {D : Type} (fl : Flags) (hk : Hooks D) (a : StA D) (cb : Cb) (h : InvP (some cb) a.s a.adopted) :
    InvP none (runCbA fl hk a cb).s (runCbA fl hk a cb).adopted := by
  by_cases hc : plainCb cb = true
  · rw [runCbA_plain fl hk a cb hc]; exact runCb_plain_inv fl cb hc (invP_plain hc h)
  · cases cb <;> simp [plainCb] at hc
    · exact start_inv fl hk a _ h
    · simpa [runCbA] using wake_inv fl a.s a.adopted _ h
    · have := resume_inv fl a.s a.adopted _ h
      simp only [runCbA]
      split <;> exact this


/-! ### popping the head of the queue, steps, events -/

theorem pop_inv {s : St} {ad : Nat → Bool} {cb : Cb} {rest : List Cb} (h : InvP none s ad) (hr : s.ready = cb :: rest) :
    InvP (some cb) { s with ready := rest } ad := by
  refine ⟨?_, h.fresh, h.dup, h.kind⟩
  intro i
  have := h.loc i
  simp only [viewP, view, cStart, cRes, cW, cWake, cSleep, cThr, hr, List.count_cons] at this ⊢
  simp only [beq_iff_eq] at this
  have e4 : ∀ a b c : Nat, a + b + c = a + c + b := by intros; omega
  rw [e4] at this
  exact this

theorem stepA_inv {D : Type} (fl : Flags) (hk : Hooks D) (a : StA D) (h : InvP none a.s a.adopted) :
    InvP none (stepA fl hk a).s (stepA fl hk a).adopted := by
  unfold stepA
  split
  · exact h
  · rename_i cb rest hr
    exact runCbA_inv fl hk _ cb (pop_inv h hr)

theorem stepsA_inv {D : Type} (fl : Flags) (hk : Hooks D) (k : Nat) : ∀ (a : StA D), InvP none a.s a.adopted →
    InvP none (stepsA fl hk a k).s (stepsA fl hk a k).adopted := by
  induction k with
  | zero => intro a h; exact h
  | succ k ih => intro a h; exact ih _ (stepA_inv fl hk a h)

@[simp] theorem eff_put (s : St) (j : Nat) (jb : Job) (cbs : List Cb) (ths : List (TK × Nat)) : (s.put j jb cbs ths).eff = s.eff := rfl
@[simp] theorem n_put (s : St) (j : Nat) (jb : Job) (cbs : List Cb) (ths : List (TK × Nat)) : (s.put j jb cbs ths).n = s.n := rfl
@[simp] theorem registry_put (s : St) (j : Nat) (jb : Job) (cbs : List Cb) (ths : List (TK × Nat)) : (s.put j jb cbs ths).registry = s.registry := rfl
@[simp] theorem regResult_put (s : St) (j : Nat) (jb : Job) (cbs : List Cb) (ths : List (TK × Nat)) : (s.put j jb cbs ths).regResult = s.regResult := rfl

theorem register_same (fl : Flags) (s : St) (j : Nat) :
    (s.register fl j).jobs = s.jobs ∧ (s.register fl j).ready = s.ready ∧ (s.register fl j).threads = s.threads ∧
    (s.register fl j).n = s.n ∧ (s.register fl j).eff = s.eff := by
  unfold St.register; simp only []; split <;> (try split) <;> (try split) <;> simp

theorem runCb_plain_frame (fl : Flags) (cb : Cb) (hc : plainCb cb = true) (s : St) (i : Nat) :
    view (s.runCb fl cb) i = view s i ∧ (s.runCb fl cb).n = s.n ∧ (s.runCb fl cb).eff = s.eff := by
  cases cb <;> simp [plainCb] at hc
  · obtain ⟨h1, h2, h3, h4, h5⟩ := register_same fl s ‹_›
    simp only [St.runCb, view, cStart, cRes, cW, cWake, cSleep, cThr, h1, h2, h3, h4, h5]; simp
  · rename_i j d; have hb := check_bg fl s j d; exact ⟨hb.view i, hb.n, hb.eff⟩
  · rename_i j d
    simp only [St.runCb]
    split
    · split
      · have hb := check_bg fl s j d; exact ⟨hb.view i, hb.n, hb.eff⟩
      · simp
    · have hb := check_bg fl s j d; exact ⟨hb.view i, hb.n, hb.eff⟩
  · simp only [St.runCb, St.waiterRun]
    split <;> simp [view, cStart, cRes, cW, cWake, cSleep, cThr]

/-- a callback leaves every job alone of which it is no continuation -/
theorem runCbA_frame {D : Type} (fl : Flags) (hk : Hooks D) (a : StA D) (cb : Cb) (h : InvP (some cb) a.s a.adopted) (i : Nat)
    (hi : cb ≠ .start i ∧ cb ≠ .wake i ∧ cb ≠ .resume i) :
    view (runCbA fl hk a cb).s i = view a.s i ∧ (runCbA fl hk a cb).adopted i = a.adopted i := by
  by_cases hc : plainCb cb = true
  · rw [runCbA_plain fl hk a cb hc]; exact ⟨(runCb_plain_frame fl cb hc a.s i).1, rfl⟩
  · cases cb <;> simp [plainCb] at hc
    · rename_i j
      have hij : i ≠ j := by intro e; subst e; simp at hi
      obtain ⟨⟨g1, -, -⟩, g4⟩ := start_good fl hk a j h
      exact ⟨g1.other i hij, g4 i hij⟩
    · rename_i j
      have hij : i ≠ j := by intro e; subst e; simp at hi
      obtain ⟨g1, -, -⟩ := wake_good fl a.s a.adopted j h
      exact ⟨by simpa [runCbA] using g1.other i hij, rfl⟩
    · rename_i j
      have hij : i ≠ j := by intro e; subst e; simp at hi
      obtain ⟨hk', hth, hst, hrs, hwk, hsl, hla, hma, had⟩ := pre_resume a.s (a.adopted j) j (h.loc j)
      obtain ⟨g1, -, -⟩ := resume_good fl a.s j (a.adopted j) hk' ⟨hth, hst, hrs, hwk, hsl, hla, hma, had⟩
      simp only [runCbA]
      split <;> exact ⟨g1.other i hij, rfl⟩

theorem runCbA_n {D : Type} (fl : Flags) (hk : Hooks D) (a : StA D) (cb : Cb) (h : InvP (some cb) a.s a.adopted) :
    (runCbA fl hk a cb).s.n = a.s.n ∧ (runCbA fl hk a cb).s.eff = a.s.eff := by
  by_cases hc : plainCb cb = true
  · rw [runCbA_plain fl hk a cb hc]; exact (runCb_plain_frame fl cb hc a.s 0).2
  · cases cb <;> simp [plainCb] at hc
    · rename_i j
      obtain ⟨⟨g1, -, -⟩, -⟩ := start_good fl hk a j h
      exact ⟨g1.n, g1.eff⟩
    · rename_i j
      obtain ⟨g1, -, -⟩ := wake_good fl a.s a.adopted j h
      exact ⟨by simpa [runCbA] using g1.n, by simpa [runCbA] using g1.eff⟩
    · rename_i j
      obtain ⟨hk', hth, hst, hrs, hwk, hsl, hla, hma, had⟩ := pre_resume a.s (a.adopted j) j (h.loc j)
      obtain ⟨g1, -, -⟩ := resume_good fl a.s j (a.adopted j) hk' ⟨hth, hst, hrs, hwk, hsl, hla, hma, had⟩
      simp only [runCbA]
      split <;> exact ⟨g1.n, g1.eff⟩

/-- a job without coroutine keeps its record's control part (in particular `pc = none`) through any callback -/
theorem runCbA_idle {D : Type} (fl : Flags) (hk : Hooks D) (a : StA D) (cb : Cb) (h : InvP (some cb) a.s a.adopted) (i : Nat)
    (hi : (a.s.jobs i).pc = .none) :
    view (runCbA fl hk a cb).s i = view a.s i ∧ (runCbA fl hk a cb).adopted i = a.adopted i := by
  apply runCbA_frame fl hk a cb h i
  refine ⟨?_, ?_, ?_⟩ <;> intro e <;> subst e
  · exact not_idle_of_pending _ i (by simp) a.s _ (h.loc i) hi
  · exact not_idle_of_pending _ i (by simp) a.s _ (h.loc i) hi
  · exact not_idle_of_pending _ i (by simp) a.s _ (h.loc i) hi

theorem stepA_idle {D : Type} (fl : Flags) (hk : Hooks D) (a : StA D) (h : InvP none a.s a.adopted) (i : Nat)
    (hi : (a.s.jobs i).pc = .none) :
    ((stepA fl hk a).s.jobs i).pc = .none ∧ ((stepA fl hk a).s.jobs i).launches = (a.s.jobs i).launches ∧
    ((stepA fl hk a).s.jobs i).ident = (a.s.jobs i).ident ∧
    (stepA fl hk a).s.n = a.s.n ∧ (stepA fl hk a).s.eff = a.s.eff := by
  unfold stepA
  split
  · exact ⟨hi, rfl, rfl, rfl, rfl⟩
  · rename_i cb rest hr
    have hp := pop_inv h hr
    obtain ⟨hv, -⟩ := runCbA_idle fl hk { a with s := { a.s with ready := rest } } cb hp i hi
    obtain ⟨hn, he⟩ := runCbA_n fl hk { a with s := { a.s with ready := rest } } cb hp
    simp only [view, View.mk.injEq] at hv
    exact ⟨by rw [hv.1]; exact hi, hv.2.2.2.2.2.1, hv.2.2.2.2.2.2.2.1, hn, he⟩

theorem stepsA_idle {D : Type} (fl : Flags) (hk : Hooks D) (k : Nat) : ∀ (a : StA D), InvP none a.s a.adopted → ∀ i,
    (a.s.jobs i).pc = .none →
    ((stepsA fl hk a k).s.jobs i).pc = .none ∧ ((stepsA fl hk a k).s.jobs i).launches = (a.s.jobs i).launches ∧
    ((stepsA fl hk a k).s.jobs i).ident = (a.s.jobs i).ident ∧
    (stepsA fl hk a k).s.n = a.s.n ∧ (stepsA fl hk a k).s.eff = a.s.eff := by
  induction k with
  | zero => intro a _ i hi; exact ⟨hi, rfl, rfl, rfl, rfl⟩
  | succ k ih =>
    intro a h i hi
    obtain ⟨s1, s2, s3, s4, s5⟩ := stepA_idle fl hk a h i hi
    obtain ⟨t1, t2, t3, t4, t5⟩ := ih (stepA fl hk a) (stepA_inv fl hk a h) i s1
    exact ⟨t1, t2.trans s2, t3.trans s3, t4.trans s4, t5.trans s5⟩


/-- the invariant at event boundaries -/
def InvA {D : Type} (a : StA D) : Prop := InvP none a.s a.adopted

theorem countP_eraseIdx {α : Type} (p : α → Bool) : ∀ (l : List α) (k : Nat) (x : α), l[k]? = some x →
    (l.eraseIdx k).countP p + (if p x then 1 else 0) = l.countP p := by
  intro l
  induction l with
  | nil => intro k x h; simp at h
  | cons y ys ih =>
    intro k x h
    cases k with
    | zero => simp at h; subst h; simp [List.countP_cons]
    | succ k =>
      simp at h
      have := ih k x h
      simp [List.eraseIdx_cons_succ, List.countP_cons]
      omega

theorem submitPre_inv {D : Type} (a : StA D) (h : InvA a) (rec : Job)
    (hrec : rec.pc = .none ∧ rec.launches = 0 ∧ rec.sleeping = false) : InvA (submitPre a rec) := by
  obtain ⟨r1, r2, r3⟩ := hrec
  have hf := h.fresh a.s.n (Nat.le_refl _)
  have hl := h.loc a.s.n
  simp only [LocV, CtlV, view, hf.1, pk, pcAdopted, pcMarker, launched, cW, cSleep] at hl
  unfold InvA submitPre
  constructor
  · intro i
    by_cases hi : i = a.s.n
    · subst hi
      simp [LocV, CtlV, view, cStart, cRes, cW, cWake, cSleep, cThr, upd, List.count_append, r1, r2, r3, pk, pcAdopted,
        pcMarker, launched] at hl ⊢
      grind
    · have := h.loc i
      simpa [view, cStart, cRes, cW, cWake, cSleep, cThr, upd, hi, List.count_append] using this
  · intro i hi
    have hi' : a.s.n ≤ i := by simp at hi; omega
    have hne : i ≠ a.s.n := by simp at hi; omega
    simpa [upd, hne] using h.fresh i hi'
  · intro i hi
    by_cases hne : i = a.s.n
    · subst hne; simp [upd, r1]
    · simpa [upd, hne] using h.dup i hi
  · intro t ht
    have := h.kind t ht
    by_cases hne : t.2 = a.s.n
    · rw [hne, hf.1] at this; cases t.1 <;> simp [kindOk] at this
    · simpa [upd, hne] using this

theorem setCode_inv (s : St) (ad : Nat → Bool) (j : Nat) (c : Option Nat) (h : InvP none s ad) :
    InvP none (setCode s j c) ad ∧ (setCode s j c).threads = s.threads := by
  cases c with
  | none => exact ⟨h, rfl⟩
  | some c =>
    refine ⟨?_, by simp [setCode]⟩
    simp only [setCode]
    constructor
    · intro i
      have := h.loc i
      simp only [] at this ⊢
      rw [view_put]
      by_cases hi : i = j
      · subst hi; simpa [LocV, CtlV, view, cW, cSleep] using this
      · simpa [hi, view, cW] using this
    · intro i hi
      have := h.fresh i hi
      by_cases e : i = j
      · subst e; simpa [jobs_put] using this
      · simpa [jobs_put, e] using this
    · intro i hi
      have := h.dup i hi
      by_cases e : i = j
      · subst e; simpa [jobs_put] using this
      · simpa [jobs_put, e] using this
    · intro t ht
      have := h.kind t (by simpa using ht)
      by_cases e : t.2 = j
      · rw [e] at this ⊢; simpa [jobs_put] using this
      · simpa [jobs_put, e] using this

theorem deliverA_inv {D : Type} (a : StA D) (k j : Nat) (kind : TK) (c : Option Nat) (d' : D) (h : InvA a)
    (hkj : a.s.threads[k]? = some (kind, j)) : InvA (deliverA a k j c d') := by
  obtain ⟨hs1, hth⟩ := setCode_inv a.s a.adopted j c h
  unfold InvA deliverA
  simp only []
  generalize setCode a.s j c = s1 at *
  have hkj1 : s1.threads[k]? = some (kind, j) := by rw [hth]; exact hkj
  have hcnt := fun i => countP_eraseIdx (fun t : TK × Nat => t.2 == i) s1.threads k (kind, j) hkj1
  constructor
  · intro i
    have hl := hs1.loc i
    have hc := hcnt i
    simp only [LocV, CtlV, view, cStart, cRes, cW, cWake, cSleep, cThr, List.count_append] at hl ⊢
    by_cases hi : i = j
    · subst hi
      simp at hc
      generalize (s1.jobs i).pc = pc at *
      cases pc <;> simp [pk, launched, pcMarker, pcAdopted, List.count_cons] at hl ⊢ <;> grind
    · have : (j == i) = false := by simp; omega
      simp [this] at hc
      simp [List.count_cons, Ne.symm hi, hc] at hl ⊢
      exact hl
  · exact hs1.fresh
  · exact hs1.dup
  · intro t ht
    exact hs1.kind t (List.mem_of_mem_eraseIdx ht)

theorem submitPost_inv {D : Type} (a : StA D) (j : Nat) (h : InvA a) (hj : j < a.s.n) (hpc : (a.s.jobs j).pc = .none) :
    InvA (submitPost a j) := by
  have hl := h.loc j
  simp only [LocV, CtlV, view, hpc, pk, pcAdopted, pcMarker, launched, cW, cSleep] at hl
  unfold InvA submitPost
  split
  · rename_i o _
    refine ⟨h.loc, ?_, ?_, h.kind⟩
    · intro i hi
      have : i ≠ j := by simp at hi; omega
      simpa [upd, this] using h.fresh i hi
    · intro i hi
      by_cases e : i = j
      · subst e; exact hpc
      · exact h.dup i (by simpa [upd, e] using hi)
  · constructor
    · intro i
      have := h.loc i
      simp only [] at this ⊢
      rw [view_put]
      by_cases hi : i = j
      · subst hi
        simp [LocV, CtlV, view, cStart, cRes, cW, cWake, cSleep, cThr, pk, pcAdopted, pcMarker, launched] at hl ⊢
        grind
      · simpa [hi, view, cW, cStart, cRes, cWake, cSleep, cThr, Ne.symm hi] using this
    · intro i hi
      have hne : i ≠ j := by simp [St.put] at hi; omega
      simpa [St.put, upd, hne] using h.fresh i (by simpa [St.put] using hi)
    · intro i hi
      by_cases e : i = j
      · subst e; simp [St.put, upd] at hi
      · simpa [St.put, upd, e] using h.dup i (by simpa [St.put, upd, e] using hi)
    · intro t ht
      have := h.kind t (by simpa [St.put] using ht)
      by_cases e : t.2 = j
      · rw [e, hpc] at this; cases t.1 <;> simp [kindOk] at this
      · simpa [St.put, upd, e] using this

theorem applyA_inv {D : Type} (fl : Flags) (hk : Hooks D) (a : StA D) (e : Ev) (h : InvA a) : InvA (applyA fl hk a e) := by
  cases e with
  | step => exact stepA_inv fl hk a h
  | wait =>
    exact inv_of_bg h (bg_misc _ _ [.waiterRun] rfl rfl (by simp [nonControl]) rfl rfl rfl rfl rfl)
  | deliver k =>
    simp only [applyA]
    split
    · rename_i kind j hkj
      split
      · exact h
      · exact deliverA_inv a k j kind _ _ h hkj
    · exact h
  | submit ident deps code marker =>
    simp only [applyA]
    have h0 := submitPre_inv a h (newJob a.s ident deps code marker) ⟨rfl, rfl, rfl⟩
    have hpc0 : ((submitPre a (newJob a.s ident deps code marker)).s.jobs a.s.n).pc = .none := by simp [submitPre, upd, newJob]
    obtain ⟨t1, -, -, t4, -⟩ := stepsA_idle fl hk (a.s.ready.length + 1) _ h0 a.s.n hpc0
    exact submitPost_inv _ _ (stepsA_inv fl hk _ _ h0) (by rw [t4]; simp [submitPre]) t1


theorem init_inv {D : Type} (totals : List Nat) (d : D) : InvA ({ s := St.init totals, d := d } : StA D) := by
  unfold InvA
  constructor
  · intro i; simp [St.init, LocV, CtlV, view, cStart, cRes, cW, cWake, cSleep, cThr, pk, launched, pcMarker, pcAdopted]
  · intro i _; simp [St.init]
  · intro i hi; simp [St.init] at hi
  · intro t ht; simp [St.init] at ht

end XpmVerif.Restart
