/-! M2': the file-based counter token shared by several scheduler processes
    (`tokens.py` l.87-411: `TokenFile`, `CounterToken._update/acquire/release`,
    `on_created/on_modified/on_deleted`, `TokenFile.watch`).  Import-free, executable.

    Disk: the `*.token` files of the token directory (`token.info` is the constant `cfg.total`),
    each either *written* (two lines: count, job uri) or *created but still empty* (`open("wt")`
    done, `write` not yet flushed: the window of finding F6).  A file is named after the job
    (`<job identifier>.token`) and the amount is a function of the name (`cfg.req`): a job asks one
    fixed amount of the token.

    Per process (= one `CounterToken` instance and its watchdog observer): `cache` (names of the
    token files known in memory), `avail` (the in-memory `available`, may be stale), `alive` (the
    watchdog dispatcher thread is running), `pending` (file-system events not yet dispatched, FIFO),
    `watch` (one entry per `TokenFile.watch()` thread waiting for the end of a foreign job).

    One token object per (process, directory): `CounterToken.create` (the per-process registry behind
    `connector.createtoken` / `xp.token`) hands the registered object out again whatever total is asked
    the second time (the total and `token.info` are left as they are, a warning is logged).  Asking
    again is the step `recreate`, which changes nothing; the check compares the identity of the object
    returned by the real `create`, its total and the number of live token objects of the process with
    this (a second object in the same process would not be "another process": `fcntl` locks do not
    exclude it, its watcher threads get the job lock its own scheduler is holding).

    `TokenFile.delete()` is modelled as an atomic delete-if-exists.  The real method tests `is_file()` and
    then calls `unlink()`; a watcher of another process deleting in between is linearised as
    `reclaim` followed by a `release` that finds nothing (the check exercises that window on the real
    code with the `racedel` fault; before the repair 4d4f657 the second `unlink` raised: finding F30).

    `active`: a job is active from the moment its token file is created until its process has ended /
    its start has been abandoned (`jobGone`) or its scheduler has given the token back (`release`),
    whichever comes first: an aborted start releases what it had taken in the same loop callback, while
    the job lock is still held (`aio_start`, `locks.release()` in the `LockError` handler), a completed job
    releases after its process has ended.  A watcher thread can only remove the file of a job that is not
    active (it waits for the job lock and the process).

    One step = one critical section of the real code (or one half of `acquire`, which is split at
    the point between `open` and `write` of `TokenFile.create`), or one environment event. -/
namespace XpmVerif.FileTokens

abbrev Name := Nat
abbrev Proc := Nat

inductive FsEv where
  | created (f : Name)
  | modified (f : Name)
  | deleted (f : Name)
  deriving DecidableEq, Repr, Inhabited

/-- constants of a run: `token.info`, the amount each job asks, and whether the watcher callbacks
    tolerate a token file that is created but not yet written (the repair of F6). -/
structure Cfg where
  total : Nat
  req : Name → Nat
  tolerant : Bool
  /-- `release` also calls `aio_notify()` when the token file it wants to delete is already gone
      (reclaimed by a foreign watcher): the repair of the lost-notification finding. -/
  notifyMissing : Bool

structure PSt where
  cache : List Name := []
  avail : Int := 0
  alive : Bool := true
  dropped : Bool := false
  pending : List FsEv := []
  watch : List Name := []
  deriving Repr, Inhabited

structure St where
  disk : List (Name × Bool) := []          -- (name, written)
  procs : Proc → PSt := fun _ => {}
  ipc : Option (Proc × Name) := none       -- holder of `token.lock` in the middle of `acquire`
  active : List Name := []                 -- jobs that hold the token: taken, and neither ended nor given back

inductive Ev where
  | acquireBegin (p : Proc) (f : Name)   -- `acquire` up to `path.open("wt")`
  | acquireEnd (p : Proc)                -- the write, `cache[name] = …`, locks released
  | release (p : Proc) (f : Name)
  | fsEvent (p : Proc)                   -- the observer of `p` dispatches its oldest event
  | reclaim (p : Proc) (f : Name)        -- a `TokenFile.watch` thread of `p` ends: `delete()`
  | jobGone (f : Name)                   -- the job's process ended / its start was abandoned
  | drop (p : Proc)                      -- the scheduler process dies
  | restart (p : Proc)                   -- a new process builds `CounterToken(...)`
  | recreate (p : Proc)                  -- `p` asks again for the same named token (any total): `CounterToken.create`
  deriving DecidableEq, Repr, Inhabited

/-- what the caller of a step sees: `ok` = enough tokens / taken token found / no exception in the
    callback; `notify` = `aio_notify()` was called. -/
structure Out where
  ok : Bool := true
  notify : Bool := false
  deriving DecidableEq, Repr, Inhabited

def upd {α : Type} (f : Nat → α) (j : Nat) (v : α) (i : Nat) : α := if i = j then v else f i

def sumReq (req : Name → Nat) : List Name → Nat
  | [] => 0
  | f :: r => req f + sumReq req r

def names (d : List (Name × Bool)) : List Name := d.map Prod.fst

def diskSum (cfg : Cfg) (s : St) : Nat := sumReq cfg.req (names s.disk)

def lookupW (f : Name) : List (Name × Bool) → Option Bool
  | [] => none
  | (g, w) :: r => if g = f then some w else lookupW f r

def setW (f : Name) (w : Bool) (d : List (Name × Bool)) : List (Name × Bool) :=
  d.map fun x => if x.1 = f then (x.1, w) else x

def rmFile (f : Name) (d : List (Name × Bool)) : List (Name × Bool) := d.filter fun x => x.1 ≠ f

/-- every process whose observer runs gets the event. -/
def broadcast (procs : Proc → PSt) (e : FsEv) : Proc → PSt := fun q =>
  let P := procs q
  if P.alive && !P.dropped then { P with pending := P.pending ++ [e] } else P

/-- `CounterToken._update`: rebuild cache and availability from the directory; files that were not
    in the cache get a watcher. -/
def recount (cfg : Cfg) (disk : List (Name × Bool)) (P : PSt) : PSt :=
  { P with cache := names disk,
           avail := (cfg.total : Int) - (sumReq cfg.req (names disk) : Nat),
           watch := P.watch ++ (names disk).filter fun f => !P.cache.contains f }

def addCache (l : List Name) (f : Name) : List Name := if f ∈ l then l else l ++ [f]

/-- `on_created` / `on_modified` for a `.token` file, `on_deleted`. -/
def dispatch (cfg : Cfg) (disk : List (Name × Bool)) (P : PSt) : FsEv → PSt × Out
  | .deleted f =>
    if f ∈ P.cache then
      let a := P.avail + (cfg.req f : Nat)
      ({ P with cache := P.cache.erase f, avail := a }, { notify := decide (0 < a) })
    else (P, {})
  | .created f | .modified f =>
    if f ∈ P.cache then (P, {}) else
    match lookupW f disk with
    | none => (P, {})                                   -- FileNotFoundError, ignored
    | some false =>                                     -- ValueError while parsing an empty file
      if cfg.tolerant then (P, {})
      else ({ P with alive := false, pending := [] }, { ok := false })
    | some true => ({ P with cache := P.cache ++ [f], watch := P.watch ++ [f] }, {})

def fresh : PSt := {}

def apply (cfg : Cfg) (s : St) : Ev → St × Out
  | .acquireBegin p f =>
    let P := recount cfg s.disk (s.procs p)
    if P.avail < (cfg.req f : Nat) then ({ s with procs := upd s.procs p P }, { ok := false })
    else
      let P := { P with avail := P.avail - (cfg.req f : Nat) }
      let disk := if f ∈ names s.disk then setW f false s.disk else s.disk ++ [(f, false)]
      ({ s with disk := disk, procs := broadcast (upd s.procs p P) (.created f), ipc := some (p, f),
                active := if f ∈ s.active then s.active else f :: s.active }, {})
  | .acquireEnd p =>
    match s.ipc with
    | some (q, f) =>
      if q = p then
        let P := s.procs p
        let P := { P with cache := addCache P.cache f }
        ({ s with disk := setW f true s.disk, procs := broadcast (upd s.procs p P) (.modified f), ipc := none }, {})
      else (s, { ok := false })
    | none => (s, { ok := false })
  | .release p f =>
    let P := recount cfg s.disk (s.procs p)
    if f ∈ P.cache then
      let P := { P with cache := P.cache.erase f, avail := P.avail + (cfg.req f : Nat) }
      ({ s with disk := rmFile f s.disk, procs := broadcast (upd s.procs p P) (.deleted f), active := s.active.erase f }, { notify := true })
    else ({ s with procs := upd s.procs p P }, { ok := false, notify := cfg.notifyMissing })
  | .fsEvent p =>
    let P := s.procs p
    match P.pending with
    | [] => (s, {})
    | e :: rest =>
      let (P, o) := dispatch cfg s.disk { P with pending := rest } e
      ({ s with procs := upd s.procs p P }, o)
  | .reclaim p f =>
    let P := s.procs p
    let procs := upd s.procs p { P with watch := P.watch.erase f }
    if f ∈ names s.disk then ({ s with disk := rmFile f s.disk, procs := broadcast procs (.deleted f) }, {})
    else ({ s with procs := procs }, {})
  | .jobGone f => ({ s with active := s.active.erase f }, {})
  | .drop p =>
    ({ s with procs := upd s.procs p { (s.procs p) with dropped := true, alive := false, pending := [], watch := [] } }, {})
  | .restart p => ({ s with procs := upd s.procs p (recount cfg s.disk fresh) }, {})
  | .recreate _ => (s, {})

def ipcProc (s : St) : Option Proc := s.ipc.map Prod.fst
def ipcName (s : St) : Option Name := s.ipc.map Prod.snd

/-- guards: what the real system can do (IPC lock, thread lock, job lock). -/
def enabled (s : St) : Ev → Bool
  | .acquireBegin p f => s.ipc.isNone && !(s.procs p).dropped && !(names s.disk).contains f && !s.active.contains f
  | .acquireEnd p => ipcProc s == some p
  | .release p f => s.ipc.isNone && !(s.procs p).dropped
  | .fsEvent p => (s.procs p).alive && !(s.procs p).dropped && !(s.procs p).pending.isEmpty && ipcProc s != some p
  | .reclaim p f => !(s.procs p).dropped && (s.procs p).watch.contains f && !s.active.contains f
  | .jobGone f => s.active.contains f && ipcName s != some f
  | .drop p => !(s.procs p).dropped && ipcProc s != some p
  | .restart p => (s.procs p).dropped && s.ipc.isNone
  | .recreate p => !(s.procs p).dropped

/-- every process starts on an empty directory with a fresh recount. -/
def init (cfg : Cfg) : St := { procs := fun _ => { avail := cfg.total } }

inductive Reachable (cfg : Cfg) : St → Prop where
  | init : Reachable cfg (init cfg)
  | step {s : St} (e : Ev) : Reachable cfg s → enabled s e = true → Reachable cfg (apply cfg s e).1

/-- run a list of events (used by the driver and the examples). -/
def run (cfg : Cfg) (s : St) : List Ev → St
  | [] => s
  | e :: r => run cfg (apply cfg s e).1 r

def allEnabled (cfg : Cfg) (s : St) : List Ev → Bool
  | [] => true
  | e :: r => enabled s e && allEnabled cfg (apply cfg s e).1 r

end XpmVerif.FileTokens
