import XpmVerif.Proofs.SchedReenter
import XpmVerif.Generated.XpEnterResets
import XpmVerif.Properties.C07
/-! C07, third sentence ("leaving the experiment reports failure if some job failed and success if none did") when the SAME
    `experiment` object is entered again (`Model/SchedReenter.lean`): the registry, the job records and the tokens are those
    the earlier uses left (any state `s`: no invariant is assumed), `unfinishedJobs`, `failedJobs`, `exitMode` are set anew by
    `__enter__` — which is read off the source (`Generated/XpEnterResets.lean`, source obligation `enter_resets_source`).
    A use = any list of events (`submit` / `step` / `deliver` / `wait`) from `reenter s`. -/
namespace XpmVerif.C07Reenter
open XpmVerif.Sched hiding flOK Reachable
open XpmVerif.SchedDeps XpmVerif.SchedFail XpmVerif.SchedReenter

/-- SOURCE OBLIGATION: `experiment.__enter__` sets `failedJobs = {}`, `unfinishedJobs = 0` and `exitMode = False`
    (translator `harness/xv/translate/xpenter.py`; when the statements are not found in `__enter__` or in a helper it calls,
    the three bits are read off the behaviour of the real class entered twice). -/
theorem enter_resets_source : Gen.xpEnterResets = Resets.all := by decide

/-- the state in which the source's `__enter__` starts a new use is `reenter`. -/
theorem source_enter_is_reenter (s : St) (e : Bool) : (XSt.enter Gen.xpEnterResets { s := s, exitMode := e }).s = reenter s ∧
    (XSt.enter Gen.xpEnterResets { s := s, exitMode := e }).exitMode = false := by
  rw [enter_resets_source]; exact ⟨rfl, rfl⟩

/-- "reports failure if some job failed and success if none did", per use: whatever the earlier uses of the object left
    (`s` arbitrary) and whatever happens in the new use (`evs` arbitrary), when the waiter of `wait()` completes — in the
    callback after `s'` — every job counted by the use has finished (`unfinished = 0`) and it raises IFF some callback OF
    THIS USE (`t` lies on the run from `reenter s`) took a job through `finish` in a state other than `done` and recorded it. -/
theorem reentered_experiment_reports_own_failures (fl : Flags) (s : St) (evs : List Ev)
    (h1 : (run fl (reenter s) evs).waiter ≠ .returned) (h2 : (run fl (reenter s) evs).waiter ≠ .raised)
    (h3 : ((run fl (reenter s) evs).step fl).waiter = .returned ∨ ((run fl (reenter s) evs).step fl).waiter = .raised) :
    (run fl (reenter s) evs).unfinished = 0 ∧
    (((run fl (reenter s) evs).step fl).waiter = .raised ↔
      ∃ t j x, Micro fl (reenter s) t ∧ Micro fl (t.step fl) ((run fl (reenter s) evs).step fl) ∧ Finishes fl t j x) := by
  obtain ⟨hu, hw⟩ := C07.wait_reports_failure fl _ h1 h2 h3
  refine ⟨hu, hw.trans ⟨fun hne => ?_, fun ⟨t, j, x, _, m2, hf⟩ => ?_⟩⟩
  · obtain ⟨x, hx⟩ := List.exists_mem_of_ne_nil _ hne
    have m : Micro fl (reenter s) ((run fl (reenter s) evs).step fl) := .cb (Micro.run fl evs _)
    rcases m.failed_char x hx with h | ⟨t, j, m1, m2, hf⟩
    · exact absurd h (by simp [reenter, XSt.enter, Resets.all])
    · exact ⟨t, j, x, m1, m2, hf⟩
  · exact List.ne_nil_of_mem (m2.mono x (by rw [hf.2.2.2]; simp))

/-- nothing of the record of earlier uses reaches the new use: two objects that differ only in `failedJobs`,
    `unfinishedJobs` and the state of the old waiter behave alike, event for event. -/
theorem reenter_forgets_earlier_uses (fl : Flags) (s : St) (F : List Nat) (u : Int) (w : WS) (evs : List Ev) :
    run fl (reenter { s with failed := F, unfinished := u, waiter := w }) evs = run fl (reenter s) evs := rfl

/-- the seeded change (`failedJobs` only initialised in `__init__`), in general: once a use has recorded a failure, EVERY later
    use of the object whose waiter completes reports failure, whatever its own jobs do. -/
theorem reenterKeepsFailed_reports_old_failures (fl : Flags) (s : St) (hf : s.failed ≠ []) (evs : List Ev)
    (h1 : (run fl (reenterKeepsFailed s) evs).waiter ≠ .returned) (h2 : (run fl (reenterKeepsFailed s) evs).waiter ≠ .raised)
    (h3 : ((run fl (reenterKeepsFailed s) evs).step fl).waiter = .returned ∨
          ((run fl (reenterKeepsFailed s) evs).step fl).waiter = .raised) :
    ((run fl (reenterKeepsFailed s) evs).step fl).waiter = .raised := by
  obtain ⟨-, hw⟩ := C07.wait_reports_failure fl _ h1 h2 h3
  refine hw.mpr ?_
  obtain ⟨x, hx⟩ := List.exists_mem_of_ne_nil _ hf
  have m : Micro fl (reenterKeepsFailed s) ((run fl (reenterKeepsFailed s) evs).step fl) := .cb (Micro.run fl evs _)
  exact List.ne_nil_of_mem (m.mono x hx)

/-- `exitMode`: reset by `__enter__`, `wait()` is the waiter of the scheduler model; kept from a use that was stopped, `wait()`
    completes at once although jobs are unfinished (success reported before the jobs have run). -/
theorem exitMode_reset_or_not (x : XSt) :
    ((x.stop.enter Resets.all).waiterRun.s = (x.stop.enter Resets.all).s.waiterRun) ∧
    (x.s.failed = [] → (x.stop.enter Resets.none).waiterRun.s.waiter = .returned) := by
  refine ⟨by simp [XSt.waiterRun, XSt.enter, Resets.all], fun hfe => ?_⟩
  simp [XSt.waiterRun, XSt.enter, XSt.stop, Resets.none, hfe]

/-! ### the hypotheses are satisfiable; the counter-example (the demo of the seeded change) -/

/-- end of use 1 (`SchedFail.failS` + the waiter's callback): job 0 failed, job 1 (depends on it) cancelled, job 2 done;
    the waiter raised, `failed = [0, 1]`. -/
def end1 : St := failS.step flOK
/-- use 2: the three configurations again (0 now succeeds; 1 takes the new 0; 2 is registered DONE and stands for itself),
    `wait()`, and the complete run up to the waiter's last callback. -/
def use2 : List Ev := [.submit 0 [] 0 false, .submit 1 [.job 3] 0 false, .submit 2 [] 0 false, .wait,
  .step, .deliver 0, .step, .deliver 0, .step, .deliver 0, .step, .deliver 0, .step, .step, .step, .step, .deliver 0, .step,
  .deliver 0, .step, .deliver 0, .step, .deliver 0, .step]

example : end1.waiter = .raised ∧ end1.failed = [0, 1] ∧ end1.unfinished = 0 := by decide
/-- hypotheses of `reentered_experiment_reports_own_failures` on use 2: the next callback completes the waiter. -/
example : (run flOK (reenter end1) use2).waiter = .notified ∧ ((run flOK (reenter end1) use2).step flOK).waiter = .returned := by
  decide +kernel
/-- with the reset: every job of use 2 is done, nothing recorded, success. -/
example : let f := (run flOK (reenter end1) use2).step flOK
    f.waiter = .returned ∧ f.failed = [] ∧ (f.jobs 3).state = .done ∧ (f.jobs 4).state = .done ∧ f.eff 5 = 2 ∧
    (f.jobs 2).state = .done ∧ (f.jobs 3).launches = 1 ∧ (f.jobs 4).launches = 1 := by decide +kernel
/-- COUNTER-EXAMPLE (kernel-checked), the seeded change: same object, same events, `failedJobs` kept: the same jobs end `done`
    and the waiter raises, naming the identifiers 0 and 1 whose current jobs are done. -/
example : let f := (run flOK (reenterKeepsFailed end1) use2).step flOK
    f.waiter = .raised ∧ f.failed = [0, 1] ∧ (f.jobs 3).state = .done ∧ (f.jobs 4).state = .done ∧ f.eff 5 = 2 ∧
    (f.jobs 2).state = .done ∧ (f.jobs 3).ident = 0 ∧ (f.jobs 4).ident = 1 := by decide +kernel
/-- the generated reset list is the one of the unmodified source. -/
example : Gen.xpEnterResets.failed = true ∧ Gen.xpEnterResets.unfinished = true ∧ Gen.xpEnterResets.exitMode = true := by decide

end XpmVerif.C07Reenter
