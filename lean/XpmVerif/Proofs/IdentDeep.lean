import XpmVerif.Proofs.IdentNeutral
import XpmVerif.Proofs.SealedIdent
/-! C01, any depth: identifiers are invariant under *simultaneous* reordering of the arguments of every
    node and of every dict at every depth of every argument value (a dict directly inside a list or
    inside another dict included).

    * `Reord v v'` — `v'` is `v` with the items of its dicts (at any depth) inserted in another order;
    * `DistinctKeys v` — every dict at every depth has pairwise distinct keys and as many keys as values
      (always true of a Python dict);
    * `encVal_reord`, `pyEq_reord`/`isDefault_reord`/`removeMeta_reord` (the default comparison), `included_reord`,
      `argStream_reord`, `nodeStream_reord`;
    * `NodeReord`, `GraphReord`; `GraphReord.rawId_eq`;
    * the walk: `GraphReord.edge_iff`, `mem_reachable_iff`, `GraphReord.collectPreTasks_perm`,
      `GraphReord.fullId_eq`. -/
namespace XpmVerif.Ident
open List

/-- two lists related item by item. -/
inductive Pointwise {α β : Type} (R : α → β → Prop) : List α → List β → Prop
  | nil : Pointwise R [] []
  | cons {a b l l'} : R a b → Pointwise R l l' → Pointwise R (a :: l) (b :: l')

theorem Pointwise.length_eq {α β : Type} {R : α → β → Prop} {l : List α} {l' : List β} (h : Pointwise R l l') :
    l.length = l'.length := by
  induction h with
  | nil => rfl
  | cons _ _ ih => simp [ih]

theorem Pointwise.of_refl {α : Type} {R : α → α → Prop} (hr : ∀ a, R a a) : ∀ l : List α, Pointwise R l l
  | [] => .nil
  | a :: l => .cons (hr a) (Pointwise.of_refl hr l)

inductive Reord : Val → Val → Prop
  | none : Reord .none .none
  | bool (b) : Reord (.bool b) (.bool b)
  | int (i) : Reord (.int i) (.int i)
  | float (b) : Reord (.float b) (.float b)
  | str (s) : Reord (.str s) (.str s)
  | enum (s) : Reord (.enum s) (.enum s)
  | path (s) : Reord (.path s) (.path s)
  | ref (n) : Reord (.ref n) (.ref n)
  | list {l l'} : Pointwise Reord l l' → Reord (.list l) (.list l')
  | dict {ks ks' vs vs' mid} : Pointwise Reord vs mid → (ks.zip mid) ~ (ks'.zip vs') →
      ks.length = vs.length → ks'.length = vs'.length → Reord (.dict ks vs) (.dict ks' vs')

mutual
def DistinctKeys : Val → Prop
  | .list l => DistinctKeysL l
  | .dict ks vs => ks.Nodup ∧ ks.length = vs.length ∧ DistinctKeysL vs
  | _ => True
def DistinctKeysL : List Val → Prop
  | [] => True
  | v :: vs => DistinctKeys v ∧ DistinctKeysL vs
end

theorem distinctKeysL_iff : ∀ {l : List Val}, DistinctKeysL l ↔ ∀ v ∈ l, DistinctKeys v
  | [] => by simp [DistinctKeysL]
  | v :: vs => by simp [DistinctKeysL, distinctKeysL_iff (l := vs)]

/-! ### zip / unzip helpers -/

theorem zip_key_inj {α β : Type} : ∀ (ks : List α) (vs : List β), ks.Nodup →
    ∀ a b, a ∈ ks.zip vs → b ∈ ks.zip vs → a.1 = b.1 → a = b
  | [], _, _, a, _, ha, _, _ => by simp at ha
  | _ :: _, [], _, a, _, ha, _, _ => by simp at ha
  | k :: ks, v :: vs, hn, a, b, ha, hb, hab => by
    obtain ⟨hk, hn'⟩ := nodup_cons.1 hn
    simp only [zip_cons_cons, mem_cons] at ha hb
    rcases ha with rfl | ha <;> rcases hb with rfl | hb
    · rfl
    · exact absurd (of_mem_zip (a := b.1) (b := b.2) hb).1 (by simpa [← hab] using hk)
    · exact absurd (of_mem_zip (a := a.1) (b := a.2) ha).1 (by simpa [hab] using hk)
    · exact zip_key_inj ks vs hn' a b ha hb hab

theorem zip_map_fst_snd {α β : Type} : ∀ l : List (α × β), (l.map (·.1)).zip (l.map (·.2)) = l
  | [] => rfl
  | x :: xs => by simp [zip_map_fst_snd xs]

theorem zip_perm_unzip {α β : Type} {ks ks' : List α} {vs vs' : List β} (h1 : ks.length = vs.length)
    (h2 : ks'.length = vs'.length) (hp : ks.zip vs ~ ks'.zip vs') : ks ~ ks' ∧ vs ~ vs' := by
  have a := hp.map Prod.fst
  have b := hp.map Prod.snd
  rw [map_fst_zip (by omega), map_fst_zip (by omega)] at a
  rw [map_snd_zip (by omega), map_snd_zip (by omega)] at b
  exact ⟨a, b⟩

theorem Reord.dropped {mt} {v v' : Val} (h : Reord v v') : dropped mt v = dropped mt v' := by
  cases h <;> rfl

mutual
theorem encVal_reord_aux (cfg : Nat → List Nat) (mt : Nat → Option Bool) :
    ∀ (v v' : Val), Reord v v' → DistinctKeys v → encVal cfg mt v = encVal cfg mt v'
  | .list l, _, h, hd => by
    cases h with
    | list hl =>
      simp only [encVal]
      rw [encItems_reord cfg mt l _ hl (by simpa only [DistinctKeys] using hd)]
  | .dict ks vs, _, h, hd => by
    cases h with
    | @dict _ ks' _ vs' mid hl hp h1 h2 =>
      simp only [DistinctKeys] at hd
      have e1 : encVal cfg mt (.dict ks vs) = encVal cfg mt (.dict ks mid) := by
        simp only [encVal]
        rw [encPairs_reord cfg mt ks vs mid hl hd.2.2]
      rw [e1]
      exact encVal_dict_perm cfg mt ks ks' mid vs' hp (zip_key_inj ks mid hd.1)
  | .none, _, h, _ => by cases h; rfl
  | .bool _, _, h, _ => by cases h; rfl
  | .int _, _, h, _ => by cases h; rfl
  | .float _, _, h, _ => by cases h; rfl
  | .str _, _, h, _ => by cases h; rfl
  | .enum _, _, h, _ => by cases h; rfl
  | .path _, _, h, _ => by cases h; rfl
  | .ref _, _, h, _ => by cases h; rfl
theorem encItems_reord (cfg : Nat → List Nat) (mt : Nat → Option Bool) :
    ∀ (l l' : List Val), Pointwise Reord l l' → DistinctKeysL l → encItems cfg mt l = encItems cfg mt l'
  | [], _, h, _ => by cases h; rfl
  | v :: vs, _, h, hd => by
    cases h with
    | cons hv hl =>
      simp only [DistinctKeysL] at hd
      simp only [encItems]
      rw [hv.dropped (mt := mt), encVal_reord_aux cfg mt v _ hv hd.1, encItems_reord cfg mt vs _ hl hd.2]
theorem encPairs_reord (cfg : Nat → List Nat) (mt : Nat → Option Bool) :
    ∀ (ks : List (List Nat)) (vs vs' : List Val), Pointwise Reord vs vs' → DistinctKeysL vs →
      encPairs cfg mt ks vs = encPairs cfg mt ks vs'
  | _, [], _, h, _ => by cases h; rfl
  | [], _ :: _, _, h, _ => by cases h; simp [encPairs]
  | k :: ks, v :: vs, _, h, hd => by
    cases h with
    | cons hv hl =>
      simp only [DistinctKeysL] at hd
      simp only [encPairs]
      rw [hv.dropped (mt := mt), encVal_reord_aux cfg mt v _ hv hd.1, encPairs_reord cfg mt ks vs _ hl hd.2]
end

/-! ### `DistinctKeys` is preserved, references are preserved -/

mutual
theorem Reord.distinctKeys_aux : ∀ (v v' : Val), Reord v v' → DistinctKeys v → DistinctKeys v'
  | .list l, _, h, hd => by
    cases h with
    | list hl => simp only [DistinctKeys] at *; exact Reord.distinctKeysL l _ hl hd
  | .dict ks vs, _, h, hd => by
    cases h with
    | @dict _ ks' _ vs' mid hl hp h1 h2 =>
      simp only [DistinctKeys] at *
      have hm := Reord.distinctKeysL vs mid hl hd.2.2
      have hu := zip_perm_unzip (by rw [h1, hl.length_eq]) h2 hp
      refine ⟨hu.1.nodup_iff.1 hd.1, h2, ?_⟩
      rw [distinctKeysL_iff] at *
      exact fun v hv => hm v (hu.2.mem_iff.2 hv)
  | .none, _, h, _ => by cases h; trivial
  | .bool _, _, h, _ => by cases h; trivial
  | .int _, _, h, _ => by cases h; trivial
  | .float _, _, h, _ => by cases h; trivial
  | .str _, _, h, _ => by cases h; trivial
  | .enum _, _, h, _ => by cases h; trivial
  | .path _, _, h, _ => by cases h; trivial
  | .ref _, _, h, _ => by cases h; trivial
theorem Reord.distinctKeysL : ∀ (l l' : List Val), Pointwise Reord l l' → DistinctKeysL l → DistinctKeysL l'
  | [], _, h, _ => by cases h; trivial
  | v :: vs, _, h, hd => by
    cases h with
    | cons hv hl =>
      simp only [DistinctKeysL] at *
      exact ⟨Reord.distinctKeys_aux v _ hv hd.1, Reord.distinctKeysL vs _ hl hd.2⟩
end

open Sealing in
mutual
theorem Reord.mem_valRefs_aux (m : Nat) : ∀ (v v' : Val), Reord v v' → (m ∈ valRefs v ↔ m ∈ valRefs v')
  | .list l, _, h => by
    cases h with
    | list hl => simp only [valRefs]; exact Reord.mem_valsRefs m l _ hl
  | .dict ks vs, _, h => by
    cases h with
    | @dict _ ks' _ vs' mid hl hp h1 h2 =>
      simp only [valRefs]
      rw [Reord.mem_valsRefs m vs mid hl]
      have hu := zip_perm_unzip (by rw [h1, hl.length_eq]) h2 hp
      simp only [Sealing.mem_valsRefs, hu.2.mem_iff]
  | .none, _, h => by cases h; rfl
  | .bool _, _, h => by cases h; rfl
  | .int _, _, h => by cases h; rfl
  | .float _, _, h => by cases h; rfl
  | .str _, _, h => by cases h; rfl
  | .enum _, _, h => by cases h; rfl
  | .path _, _, h => by cases h; rfl
  | .ref _, _, h => by cases h; rfl
theorem Reord.mem_valsRefs (m : Nat) : ∀ (l l' : List Val), Pointwise Reord l l' → (m ∈ valsRefs l ↔ m ∈ valsRefs l')
  | [], _, h => by cases h; rfl
  | v :: vs, _, h => by
    cases h with
    | cons hv hl =>
      simp only [valsRefs, mem_append]
      rw [Reord.mem_valRefs_aux m v _ hv, Reord.mem_valsRefs m vs _ hl]
end

/-! ### Python `==` against a default is insensitive to the reordering -/

theorem mem_zip_of_lookupKV {k : List Nat} {v : Val} : ∀ {ks : List (List Nat)} {vs : List Val},
    lookupKV k ks vs = some v → (k, v) ∈ ks.zip vs
  | [], _, h => by simp [lookupKV] at h
  | _ :: _, [], h => by simp [lookupKV] at h
  | k' :: ks, w :: vs, h => by
    simp only [lookupKV] at h
    split at h
    · rename_i hk; cases h; subst hk; simp
    · simp only [zip_cons_cons, mem_cons]; exact .inr (mem_zip_of_lookupKV h)

theorem lookupKV_of_mem_zip {k : List Nat} {v : Val} : ∀ {ks : List (List Nat)} {vs : List Val}, ks.Nodup →
    (k, v) ∈ ks.zip vs → lookupKV k ks vs = some v
  | [], _, _, h => by simp at h
  | _ :: _, [], _, h => by simp at h
  | k' :: ks, w :: vs, hn, h => by
    obtain ⟨hk, hn'⟩ := nodup_cons.1 hn
    simp only [zip_cons_cons, mem_cons, Prod.mk.injEq] at h
    simp only [lookupKV]
    rcases h with ⟨rfl, rfl⟩ | h
    · simp
    · have : k ≠ k' := fun e => hk (e ▸ (of_mem_zip h).1)
      simp only [this, if_false]
      exact lookupKV_of_mem_zip hn' h

theorem lookupKV_perm {k : List Nat} {ks ks' : List (List Nat)} {vs vs' : List Val} (hn : ks.Nodup) (hn' : ks'.Nodup)
    (hp : ks.zip vs ~ ks'.zip vs') : lookupKV k ks vs = lookupKV k ks' vs' := by
  cases h : lookupKV k ks vs with
  | some v => exact (lookupKV_of_mem_zip hn' (hp.mem_iff.1 (mem_zip_of_lookupKV h))).symm
  | none =>
    cases h' : lookupKV k ks' vs' with
    | none => rfl
    | some v =>
      rw [lookupKV_of_mem_zip hn (hp.mem_iff.2 (mem_zip_of_lookupKV h'))] at h
      cases h

/-- the two look-ups either both fail or return reordered values. -/
def OptReord (o o' : Option Val) : Prop :=
  (o = none ∧ o' = none) ∨ ∃ w w', o = some w ∧ o' = some w' ∧ Reord w w' ∧ DistinctKeys w

theorem lookupKV_pointwise (k : List Nat) {vs vs' : List Val} (h : Pointwise Reord vs vs') :
    ∀ ks, DistinctKeysL vs → OptReord (lookupKV k ks vs) (lookupKV k ks vs') := by
  induction h with
  | nil => intro ks _; cases ks <;> exact .inl ⟨rfl, rfl⟩
  | @cons a b l l' hab _ ih =>
    intro ks hd
    simp only [DistinctKeysL] at hd
    cases ks with
    | nil => exact .inl ⟨rfl, rfl⟩
    | cons k' ks =>
      simp only [lookupKV]
      split
      · exact .inr ⟨a, b, rfl, rfl, hab, hd.1⟩
      · exact ih ks hd.2

theorem lookupKV_reord_dict {kb kb' : List (List Nat)} {vb vb' : List Val}
    (h : Reord (.dict kb vb) (.dict kb' vb')) (hd : DistinctKeys (.dict kb vb)) (k : List Nat) :
    OptReord (lookupKV k kb vb) (lookupKV k kb' vb') := by
  cases h with
  | @dict _ _ _ _ mid hl hp h1 h2 =>
    simp only [DistinctKeys] at hd
    have hu := zip_perm_unzip (by rw [h1, hl.length_eq]) h2 hp
    rw [← lookupKV_perm hd.1 (hu.1.nodup_iff.1 hd.1) hp]
    exact lookupKV_pointwise k hl kb hd.2.2

theorem Reord.dict_keys_length {kb kb' : List (List Nat)} {vb vb' : List Val}
    (h : Reord (.dict kb vb) (.dict kb' vb')) : kb.length = kb'.length := by
  cases h with
  | @dict _ _ _ _ mid hl hp h1 h2 =>
    exact (zip_perm_unzip (by rw [h1, hl.length_eq]) h2 hp).1.length_eq

mutual
theorem pyEq_reord_aux : ∀ (d w w' : Val), Reord w w' → DistinctKeys w → pyEq d w = pyEq d w'
  | .list a, _, _, h, hd => by
    cases h with
    | list hl => simp only [pyEq]; exact pyEqL_reord a _ _ hl (by simpa only [DistinctKeys] using hd)
    | dict _ _ _ _ => simp [pyEq]
    | _ => rfl
  | .dict ka va, _, _, h, hd => by
    cases h with
    | list _ => simp [pyEq]
    | dict hl hp h1 h2 =>
      have hr := Reord.dict hl hp h1 h2
      simp only [pyEq]
      rw [hr.dict_keys_length, pyEqKV_reord ka va _ _ _ _ (lookupKV_reord_dict hr hd)]
    | _ => rfl
  | .none, _, _, h, _ => by cases h <;> first | rfl | simp [pyEq]
  | .bool _, _, _, h, _ => by cases h <;> first | rfl | simp [pyEq]
  | .int _, _, _, h, _ => by cases h <;> first | rfl | simp [pyEq]
  | .float _, _, _, h, _ => by cases h <;> first | rfl | simp [pyEq]
  | .str _, _, _, h, _ => by cases h <;> first | rfl | simp [pyEq]
  | .enum _, _, _, h, _ => by cases h <;> first | rfl | simp [pyEq]
  | .path _, _, _, h, _ => by cases h <;> first | rfl | simp [pyEq]
  | .ref _, _, _, h, _ => by cases h <;> first | rfl | simp [pyEq]
theorem pyEqL_reord : ∀ (a b b' : List Val), Pointwise Reord b b' → DistinctKeysL b → pyEqL a b = pyEqL a b'
  | [], _, _, h, _ => by cases h <;> rfl
  | x :: xs, _, _, h, hd => by
    cases h with
    | nil => rfl
    | cons hv hl =>
      simp only [DistinctKeysL] at hd
      simp only [pyEqL]
      rw [pyEq_reord_aux x _ _ hv hd.1, pyEqL_reord xs _ _ hl hd.2]
theorem pyEqKV_reord : ∀ (ka : List (List Nat)) (va : List Val) (kb : List (List Nat)) (vb : List Val)
    (kb' : List (List Nat)) (vb' : List Val),
    (∀ k, OptReord (lookupKV k kb vb) (lookupKV k kb' vb')) → pyEqKV ka va kb vb = pyEqKV ka va kb' vb'
  | _, [], _, _, _, _, _ => by simp [pyEqKV]
  | [], _ :: _, _, _, _, _, _ => by simp [pyEqKV]
  | k :: ks, v :: vs, kb, vb, kb', vb', H => by
    simp only [pyEqKV]
    rw [pyEqKV_reord ks vs kb vb kb' vb' H]
    congr 1
    rcases H k with ⟨h1, h2⟩ | ⟨w, w', h1, h2, hr, hdk⟩
    · rw [h1, h2]
    · rw [h1, h2]; exact pyEq_reord_aux v w w' hr hdk
end

/-! ### `remove_meta` commutes with the reordering -/

theorem Pointwise.filter_reord (mt : Nat → Option Bool) {l l' : List Val} (h : Pointwise Reord l l') :
    Pointwise Reord (l.filter (fun v => !dropped mt v)) (l'.filter (fun v => !dropped mt v)) := by
  induction h with
  | nil => exact .nil
  | cons hv _ ih =>
    simp only [filter_cons, ← hv.dropped (mt := mt)]
    split
    · exact .cons hv ih
    · exact ih

theorem Pointwise.zip_filter_reord (mt : Nat → Option Bool) {vs vs' : List Val} (h : Pointwise Reord vs vs') :
    ∀ ks : List (List Nat),
      Pointwise Reord (((ks.zip vs).filter (fun kv => !dropped mt kv.2)).map (·.2))
        (((ks.zip vs').filter (fun kv => !dropped mt kv.2)).map (·.2)) ∧
      ((ks.zip vs).filter (fun kv => !dropped mt kv.2)).map (·.1)
        = ((ks.zip vs').filter (fun kv => !dropped mt kv.2)).map (·.1) := by
  induction h with
  | nil => intro ks; simp; exact .nil
  | cons hv _ ih =>
    intro ks
    cases ks with
    | nil => simp; exact .nil
    | cons k ks =>
      simp only [zip_cons_cons, filter_cons, ← hv.dropped (mt := mt)]
      split
      · simp only [map_cons]
        exact ⟨.cons hv (ih ks).1, by rw [(ih ks).2]⟩
      · exact ih ks

theorem removeMeta_reord (mt : Nat → Option Bool) {v v' : Val} (h : Reord v v') :
    Reord (removeMeta mt v) (removeMeta mt v') := by
  cases h with
  | list hl => exact .list (hl.filter_reord mt)
  | @dict ks ks' vs vs' mid hl hp h1 h2 =>
    simp only [removeMeta]
    have hz := hl.zip_filter_reord mt ks
    refine .dict hz.1 ?_ (by simp) (by simp)
    rw [hz.2, zip_map_fst_snd, zip_map_fst_snd]
    exact hp.filter _
  | _ => constructor

theorem removeMeta_distinctKeys (mt : Nat → Option Bool) {v : Val} (hd : DistinctKeys v) :
    DistinctKeys (removeMeta mt v) := by
  cases v with
  | list l =>
    simp only [removeMeta, DistinctKeys, distinctKeysL_iff] at *
    exact fun v hv => hd v (mem_filter.1 hv).1
  | dict ks vs =>
    simp only [removeMeta, DistinctKeys, distinctKeysL_iff] at *
    refine ⟨?_, by simp, ?_⟩
    · have : (filter (fun kv => !dropped mt kv.2) (ks.zip vs)).map (·.1) <+ ks := by
        have h := (filter_sublist (p := fun kv : List Nat × Val => !dropped mt kv.2) (l := ks.zip vs)).map Prod.fst
        rwa [map_fst_zip (by omega)] at h
      exact hd.1.sublist this
    · intro v hv
      obtain ⟨kv, hkv, rfl⟩ := mem_map.1 hv
      exact hd.2.2 _ (of_mem_zip (a := kv.1) (b := kv.2) (mem_filter.1 hkv).1).2
  | _ => exact hd

/-! ### `_is_default` is insensitive to the reordering of the value -/

theorem sameKeys_perm (ka : List (List Nat)) {kb kb' : List (List Nat)} (h : kb ~ kb') :
    sameKeys ka kb = sameKeys ka kb' := by
  have hc : ∀ k, kb.contains k = kb'.contains k := fun k => by
    rw [Bool.eq_iff_iff]; simp [h.mem_iff]
  have ha : kb.all (fun k => ka.contains k) = kb'.all (fun k => ka.contains k) := by
    rw [Bool.eq_iff_iff]; simp only [all_eq_true]
    exact ⟨fun H x hx => H x (h.mem_iff.2 hx), fun H x hx => H x (h.mem_iff.1 hx)⟩
  have hn : decide kb.Nodup = decide kb'.Nodup := by
    rw [Bool.eq_iff_iff]; simp [h.nodup_iff]
  unfold sameKeys
  simp only [hc, ha, hn, h.length_eq]

mutual
theorem isDefault_reord_aux (ceq : Nat → Nat → Bool) (mt : Nat → Option Bool) :
    ∀ (d w w' : Val), Reord w w' → DistinctKeys w → isDefault ceq mt d w = isDefault ceq mt d w'
  | .ref _, _, _, h, _ => by cases h <;> rfl
  | .list a, _, _, h, hd => by
    cases h with
    | list hl =>
      simp only [isDefault]
      refine isDefaultL_reord ceq mt a _ _ (hl.filter_reord mt) ?_
      have := removeMeta_distinctKeys mt hd
      simpa only [removeMeta, DistinctKeys] using this
    | dict _ _ _ _ => simp [isDefault]
    | _ => rfl
  | .dict ka va, _, _, h, hd => by
    cases h with
    | list _ => simp [isDefault]
    | @dict kb kb' vb vb' mid hl hp h1 h2 =>
      have hr : Reord (removeMeta mt (.dict kb vb)) (removeMeta mt (.dict kb' vb')) :=
        removeMeta_reord mt (.dict hl hp h1 h2)
      have hdk : DistinctKeys (removeMeta mt (.dict kb vb)) := removeMeta_distinctKeys mt hd
      simp only [removeMeta] at hr hdk
      simp only [isDefault]
      have hperm : ((kb.zip vb).filter (fun kv => !dropped mt kv.2)).map (·.1)
          ~ ((kb'.zip vb').filter (fun kv => !dropped mt kv.2)).map (·.1) := by
        cases hr with
        | @dict _ _ _ _ mid' hl' hp' h1' h2' =>
          exact (zip_perm_unzip (by rw [h1', hl'.length_eq]) h2' hp').1
      rw [sameKeys_perm ka hperm, isDefaultKV_reord ceq mt ka va _ _ _ _ (lookupKV_reord_dict hr hdk)]
    | _ => rfl
  | .none, w, w', h, hd => by simp only [isDefault]; exact pyEq_reord_aux _ w w' h hd
  | .bool _, w, w', h, hd => by simp only [isDefault]; exact pyEq_reord_aux _ w w' h hd
  | .int _, w, w', h, hd => by simp only [isDefault]; exact pyEq_reord_aux _ w w' h hd
  | .float _, w, w', h, hd => by simp only [isDefault]; exact pyEq_reord_aux _ w w' h hd
  | .str _, w, w', h, hd => by simp only [isDefault]; exact pyEq_reord_aux _ w w' h hd
  | .enum _, w, w', h, hd => by simp only [isDefault]; exact pyEq_reord_aux _ w w' h hd
  | .path _, w, w', h, hd => by simp only [isDefault]; exact pyEq_reord_aux _ w w' h hd
theorem isDefaultL_reord (ceq : Nat → Nat → Bool) (mt : Nat → Option Bool) :
    ∀ (a b b' : List Val), Pointwise Reord b b' → DistinctKeysL b → isDefaultL ceq mt a b = isDefaultL ceq mt a b'
  | [], _, _, h, _ => by cases h <;> rfl
  | x :: xs, _, _, h, hd => by
    cases h with
    | nil => rfl
    | cons hv hl =>
      simp only [DistinctKeysL] at hd
      simp only [isDefaultL]
      rw [isDefault_reord_aux ceq mt x _ _ hv hd.1, isDefaultL_reord ceq mt xs _ _ hl hd.2]
theorem isDefaultKV_reord (ceq : Nat → Nat → Bool) (mt : Nat → Option Bool) :
    ∀ (ka : List (List Nat)) (va : List Val) (kb : List (List Nat)) (vb : List Val)
    (kb' : List (List Nat)) (vb' : List Val),
    (∀ k, OptReord (lookupKV k kb vb) (lookupKV k kb' vb')) →
      isDefaultKV ceq mt ka va kb vb = isDefaultKV ceq mt ka va kb' vb'
  | [], [], _, _, _, _, _ => by simp [isDefaultKV]
  | [], _ :: _, _, _, _, _, _ => by simp [isDefaultKV]
  | _ :: _, [], _, _, _, _, _ => by simp [isDefaultKV]
  | k :: ks, v :: vs, kb, vb, kb', vb', H => by
    simp only [isDefaultKV]
    rw [isDefaultKV_reord ceq mt ks vs kb vb kb' vb' H]
    congr 1
    rcases H k with ⟨h1, h2⟩ | ⟨w, w', h1, h2, hr, hdk⟩
    · rw [h1, h2]
    · rw [h1, h2]; exact isDefault_reord_aux ceq mt v w w' hr hdk
end

/-! ### public forms -/

/-- **any depth**: reordering dicts at every depth of a value does not change its encoding. -/
theorem encVal_reord (cfg : Nat → List Nat) (mt : Nat → Option Bool) {v v' : Val} (h : Reord v v')
    (hd : DistinctKeys v) : encVal cfg mt v = encVal cfg mt v' := encVal_reord_aux cfg mt v v' h hd

theorem Reord.distinctKeys {v v' : Val} (h : Reord v v') (hd : DistinctKeys v) : DistinctKeys v' :=
  Reord.distinctKeys_aux v v' h hd

theorem Reord.mem_valRefs {m : Nat} {v v' : Val} (h : Reord v v') : m ∈ Sealing.valRefs v ↔ m ∈ Sealing.valRefs v' :=
  Reord.mem_valRefs_aux m v v' h

theorem pyEq_reord (d : Val) {w w' : Val} (h : Reord w w') (hd : DistinctKeys w) : pyEq d w = pyEq d w' :=
  pyEq_reord_aux d w w' h hd

theorem isDefault_reord (ceq : Nat → Nat → Bool) (mt : Nat → Option Bool) (d : Val) {w w' : Val} (h : Reord w w')
    (hd : DistinctKeys w) : isDefault ceq mt d w = isDefault ceq mt d w' :=
  isDefault_reord_aux ceq mt d w w' h hd

theorem Reord.refl : ∀ v : Val, DistinctKeys v → Reord v v := by
  intro v
  induction v using Val.rec (motive_2 := fun l => DistinctKeysL l → Pointwise Reord l l) with
  | none => exact fun _ => .none
  | bool b => exact fun _ => .bool b
  | int i => exact fun _ => .int i
  | float b => exact fun _ => .float b
  | str s => exact fun _ => .str s
  | enum s => exact fun _ => .enum s
  | path s => exact fun _ => .path s
  | ref n => exact fun _ => .ref n
  | list l ih => exact fun hd => .list (ih (by simpa only [DistinctKeys] using hd))
  | dict ks vs ih =>
    intro hd
    simp only [DistinctKeys] at hd
    exact .dict (ih hd.2.2) (Perm.refl _) hd.2.1 hd.2.1
  | nil => exact .nil
  | cons v vs ih1 ih2 =>
    rename_i hd
    simp only [DistinctKeysL] at hd
    exact .cons (ih1 hd.1) (ih2 hd.2)

/-! ### arguments, nodes, graphs -/

/-- same declaration (name, flags, default), values equal up to dict reordering at any depth. -/
structure ArgReord (a a' : Arg) : Prop where
  name : a.name = a'.name
  ignored : a.ignored = a'.ignored
  generator : a.generator = a'.generator
  constant : a.constant = a'.constant
  required : a.required = a'.required
  default : a.default = a'.default
  value : Reord a.value a'.value

theorem included_reord (ceq : Nat → Nat → Bool) (mt : Nat → Option Bool) {a a' : Arg} (h : ArgReord a a')
    (hd : DistinctKeys a.value) : included ceq mt a = included ceq mt a' := by
  have hpy : ∀ d, isDefault ceq mt d (removeMeta mt a.value) = isDefault ceq mt d (removeMeta mt a'.value) :=
    fun d => isDefault_reord ceq mt d (removeMeta_reord mt h.value) (removeMeta_distinctKeys mt hd)
  cases a with
  | mk n i g c r d v =>
  cases a' with
  | mk n' i' g' c' r' d' v' =>
  obtain ⟨h1, h2, h3, h4, h5, h6, hv⟩ := h
  simp only at h1 h2 h3 h4 h5 h6 hv hpy
  subst h1 h2 h3 h4 h5 h6
  unfold included ignoredOut defaultOut metaOut
  simp only []
  cases d with
  | none => cases hv <;> rfl
  | some d =>
    have := hpy d
    cases hv <;> first | rfl | (simp only []; rw [this])

theorem argStream_reord (cfg : Nat → List Nat) (ceq : Nat → Nat → Bool) (mt : Nat → Option Bool) {a a' : Arg}
    (h : ArgReord a a') (hd : DistinctKeys a.value) : argStream cfg ceq mt a = argStream cfg ceq mt a' := by
  unfold argStream
  rw [included_reord ceq mt h hd, encVal_reord cfg mt h.value hd, h.name]

/-- `nd'` is `nd` with its arguments stored in another order and the dicts inside the argument values
    (at any depth) built in another insertion order; everything else is equal (`sealed` is irrelevant). -/
structure NodeReord (nd nd' : Node) : Prop where
  typeId : nd.typeId = nd'.typeId
  task : nd.task = nd'.task
  mflag : nd.mflag = nd'.mflag
  preTasks : nd.preTasks = nd'.preTasks
  initTasks : nd.initTasks = nd'.initTasks
  args : ∃ mid, Pointwise ArgReord nd.args mid ∧ mid ~ nd'.args
  names : (nd.args.map (·.name)).Nodup

/-- every dict occurring in an argument value of the node has distinct keys. -/
def NodeDistinctKeys (nd : Node) : Prop := ∀ a ∈ nd.args, DistinctKeys a.value

theorem Pointwise.argsRel (cfg : Nat → List Nat) (ceq : Nat → Nat → Bool) (mt : Nat → Option Bool) {l l' : List Arg}
    (h : Pointwise ArgReord l l') (hd : ∀ a ∈ l, DistinctKeys a.value) : ArgsRel cfg ceq mt mt l l' := by
  induction h with
  | nil => exact .nil
  | cons hab _ ih =>
    exact .cons hab.name (argStream_reord cfg ceq mt hab (hd _ mem_cons_self)) (ih (fun a ha => hd a (mem_cons_of_mem _ ha)))

theorem Pointwise.map_name {l l' : List Arg} (h : Pointwise ArgReord l l') : l.map (·.name) = l'.map (·.name) := by
  induction h with
  | nil => rfl
  | cons hab _ ih => simp [hab.name, ih]

theorem name_inj_of_nodup : ∀ {l : List Arg}, (l.map (·.name)).Nodup →
    ∀ a b, a ∈ l → b ∈ l → a.name = b.name → a = b
  | [], _, a, _, ha, _, _ => by simp at ha
  | x :: xs, hn, a, b, ha, hb, hab => by
    simp only [map_cons, nodup_cons, mem_map, not_exists, not_and] at hn
    rcases mem_cons.1 ha with ha1 | ha1 <;> rcases mem_cons.1 hb with hb1 | hb1
    · rw [ha1, hb1]
    · exact absurd (ha1 ▸ hab).symm (hn.1 b hb1)
    · exact absurd (hb1 ▸ hab) (hn.1 a ha1)
    · exact name_inj_of_nodup hn.2 a b ha1 hb1 hab

/-- **node level**: arguments permuted and dicts reordered at every depth ⇒ same hashed stream. -/
theorem nodeStream_reord (cfg : Nat → List Nat) (ceq : Nat → Nat → Bool) (mt : Nat → Option Bool) (self : Nat)
    {nd nd' : Node} (h : NodeReord nd nd') (hd : NodeDistinctKeys nd) :
    nodeStream cfg ceq mt self nd = nodeStream cfg ceq mt self nd' := by
  obtain ⟨mid, hpw, hperm⟩ := h.args
  have e1 : nodeStream cfg ceq mt self nd = nodeStream cfg ceq mt self { nd with args := mid } :=
    nodeStream_congr_args cfg ceq mt mt self nd { nd with args := mid } rfl rfl (hpw.argsRel cfg ceq mt hd)
  rw [e1]
  refine nodeStream_args_perm cfg ceq mt self { nd with args := mid } nd' h.typeId h.task hperm ?_
  have hn : (mid.map (·.name)).Nodup := by rw [← hpw.map_name]; exact h.names
  exact name_inj_of_nodup hn

/-- two graphs with the same nodes up to argument order and dict insertion order at any depth. -/
structure GraphReord (g g' : Graph) : Prop where
  size : g.size = g'.size
  node : ∀ n, n < g.size → NodeReord (g.node n) (g'.node n)

/-- well-formedness of the values of a graph (always true of Python dicts). -/
def GraphDistinctKeys (g : Graph) : Prop := ∀ n, n < g.size → NodeDistinctKeys (g.node n)

theorem GraphReord.node_eq_of_le {g g' : Graph} (h : GraphReord g g') {n : Nat} (hn : g.size ≤ n) :
    g.node n = g'.node n := by
  rw [Sealing.node_of_size_le hn, Sealing.node_of_size_le (h.size ▸ hn)]

theorem GraphReord.mt_eq {g g' : Graph} (h : GraphReord g g') : g.mt = g'.mt := by
  funext n
  unfold Graph.mt
  by_cases hn : n < g.size
  · exact (h.node n hn).mflag
  · rw [h.node_eq_of_le (Nat.le_of_not_lt hn)]

theorem GraphReord.nodeStream_eq {g g' : Graph} (h : GraphReord g g') (hd : GraphDistinctKeys g)
    (n : Nat) (cfg : Nat → List Nat) (ceq : Nat → Nat → Bool) :
    nodeStream cfg ceq g.mt n (g.node n) = nodeStream cfg ceq g'.mt n (g'.node n) := by
  rw [← h.mt_eq]
  by_cases hn : n < g.size
  · exact nodeStream_reord cfg ceq g.mt n (h.node n hn) (hd n hn)
  · rw [h.node_eq_of_le (Nat.le_of_not_lt hn)]

theorem GraphReord.rawAt_eq {D : Type} (hc : HC D) {g g' : Graph} (h : GraphReord g g') (hd : GraphDistinctKeys g)
    (fuel : Nat) (stack : List Nat) (n : Nat) : rawAt hc g fuel stack n = rawAt hc g' fuel stack n :=
  rawAt_congr hc g g' (fun n cfg ceq => h.nodeStream_eq hd n cfg ceq) fuel stack n

theorem GraphReord.rawId_eq {D : Type} (hc : HC D) {g g' : Graph} (h : GraphReord g g') (hd : GraphDistinctKeys g)
    (n : Nat) : rawId hc g n = rawId hc g' n := by
  unfold rawId; rw [h.size]; exact h.rawAt_eq hc hd _ _ _

/-! ### the walk: same edges, same reachable set, same collected pre-tasks up to order -/

theorem Pointwise.exists_right {α β : Type} {R : α → β → Prop} {l : List α} {l' : List β} (h : Pointwise R l l')
    {a : α} (ha : a ∈ l) : ∃ b ∈ l', R a b := by
  induction h with
  | nil => simp at ha
  | cons hab _ ih =>
    rcases mem_cons.1 ha with rfl | ha
    · exact ⟨_, mem_cons_self, hab⟩
    · obtain ⟨b, hb, hr⟩ := ih ha
      exact ⟨b, mem_cons_of_mem _ hb, hr⟩

theorem Pointwise.exists_left {α β : Type} {R : α → β → Prop} {l : List α} {l' : List β} (h : Pointwise R l l')
    {b : β} (hb : b ∈ l') : ∃ a ∈ l, R a b := by
  induction h with
  | nil => simp at hb
  | cons hab _ ih =>
    rcases mem_cons.1 hb with rfl | hb
    · exact ⟨_, mem_cons_self, hab⟩
    · obtain ⟨a, ha, hr⟩ := ih hb
      exact ⟨a, mem_cons_of_mem _ ha, hr⟩

open Sealing

theorem NodeReord.edge_iff {g g' : Graph} {n m : Nat} (h : NodeReord (g.node n) (g'.node n)) :
    Edge g n m ↔ Edge g' n m := by
  obtain ⟨mid, hpw, hperm⟩ := h.args
  constructor
  · intro e
    cases e with
    | arg ha hm =>
      obtain ⟨b, hb, hab⟩ := hpw.exists_right ha
      exact .arg (hperm.mem_iff.1 hb) (hab.value.mem_valRefs.1 hm)
    | pre hm => exact .pre (h.preTasks ▸ hm)
    | init hm => exact .init (h.initTasks ▸ hm)
    | task ht hne => exact .task (h.task ▸ ht) hne
  · intro e
    cases e with
    | arg ha hm =>
      obtain ⟨b, hb, hab⟩ := hpw.exists_left (hperm.mem_iff.2 ha)
      exact .arg hb (hab.value.mem_valRefs.2 hm)
    | pre hm => exact .pre (h.preTasks ▸ hm)
    | init hm => exact .init (h.initTasks ▸ hm)
    | task ht hne => exact .task (h.task ▸ ht) hne

theorem GraphReord.edge_iff {g g' : Graph} (h : GraphReord g g') {n m : Nat} : Edge g n m ↔ Edge g' n m := by
  constructor
  · intro e; exact (h.node n e.lt).edge_iff.1 e
  · intro e; exact (h.node n (h.size ▸ e.lt)).edge_iff.2 e

theorem GraphReord.reach_iff {g g' : Graph} (h : GraphReord g g') {n m : Nat} : Reach g n m ↔ Reach g' n m := by
  constructor <;> intro r <;> induction r with
  | refl => exact .refl
  | step _ e ih => first | exact .step ih (h.edge_iff.1 e) | exact .step ih (h.edge_iff.2 e)

theorem GraphReord.preTasks_eq {g g' : Graph} (h : GraphReord g g') (n : Nat) :
    (g.node n).preTasks = (g'.node n).preTasks := by
  by_cases hn : n < g.size
  · exact (h.node n hn).preTasks
  · rw [h.node_eq_of_le (Nat.le_of_not_lt hn)]

theorem GraphReord.initTasks_eq {g g' : Graph} (h : GraphReord g g') (n : Nat) :
    (g.node n).initTasks = (g'.node n).initTasks := by
  by_cases hn : n < g.size
  · exact (h.node n hn).initTasks
  · rw [h.node_eq_of_le (Nat.le_of_not_lt hn)]

/-- `reachable` lists exactly the nodes related to `n` by the reflexive-transitive closure of `Edge`. -/
theorem mem_reachable_iff {g : Graph} {n x : Nat} : x ∈ reachable g n ↔ Reach g n x := by
  constructor
  · exact reachable_sound
  · intro r
    have hv := visit_complete g (fun _ => false) (g.size + 1) n [] (by omega)
    induction r with
    | refl => exact hv.2
    | step _ e ih => exact hv.1.2 _ ih (by simp) rfl _ e

theorem mem_dedup_iff : ∀ {l : List Nat} {x : Nat}, x ∈ dedup l ↔ x ∈ l
  | [], x => by simp [dedup]
  | y :: ys, x => by
    simp only [dedup]
    split
    · rename_i hc
      rw [mem_dedup_iff (l := ys), mem_cons]
      constructor
      · exact .inr
      · rintro (rfl | h)
        · simpa using hc
        · exact h
    · simp only [mem_cons, mem_dedup_iff (l := ys)]

theorem nodup_dedup : ∀ l : List Nat, (dedup l).Nodup
  | [] => by simp [dedup]
  | y :: ys => by
    simp only [dedup]
    split
    · exact nodup_dedup ys
    · rename_i hc
      refine nodup_cons.2 ⟨?_, nodup_dedup ys⟩
      rw [mem_dedup_iff]
      simpa using hc

theorem mem_collectPreTasks_iff {g : Graph} {n p : Nat} :
    p ∈ collectPreTasks g n ↔ ∃ m, Reach g n m ∧ p ∈ (g.node m).preTasks := by
  unfold collectPreTasks
  rw [mem_dedup_iff]
  simp only [mem_flatten, mem_map]
  constructor
  · rintro ⟨l, ⟨m, hm, rfl⟩, hp⟩
    exact ⟨m, mem_reachable_iff.1 hm, hp⟩
  · rintro ⟨m, hm, hp⟩
    exact ⟨_, ⟨m, mem_reachable_iff.2 hm, rfl⟩, hp⟩

/-- the collected pre-tasks are the same *set*; the order depends on the traversal order. -/
theorem GraphReord.collectPreTasks_perm {g g' : Graph} (h : GraphReord g g') (n : Nat) :
    collectPreTasks g n ~ collectPreTasks g' n := by
  have h1 : (collectPreTasks g n).Nodup := nodup_dedup _
  have h2 : (collectPreTasks g' n).Nodup := nodup_dedup _
  rw [perm_ext_iff_of_nodup h1 h2]
  intro p
  simp only [mem_collectPreTasks_iff, h.reach_iff, h.preTasks_eq]

/-- reduction: the full identifier only depends on the collected pre-tasks as a multiset. -/
theorem fullId_of_perm {D : Type} (hc : HC D) {g g' : Graph}
    (hr : ∀ n, rawId hc g n = rawId hc g' n) (n : Nat)
    (hp : collectPreTasks g n ~ collectPreTasks g' n)
    (hi : (g.node n).initTasks = (g'.node n).initTasks)
    (total : ∀ a b, hc.le a b = true ∨ hc.le b a = true)
    (trans : ∀ a b c, hc.le a b = true → hc.le b c = true → hc.le a c = true)
    (antisymm : ∀ p q, p ∈ collectPreTasks g n → q ∈ collectPreTasks g n →
      hc.le (rawId hc g p) (rawId hc g q) = true → hc.le (rawId hc g q) (rawId hc g p) = true →
      rawId hc g p = rawId hc g q) :
    fullId hc g n = fullId hc g' n := by
  have hf : rawId hc g' = rawId hc g := funext (fun n => (hr n).symm)
  have hs : sortBy hc.le ((collectPreTasks g n).map (rawId hc g))
      = sortBy hc.le ((collectPreTasks g' n).map (rawId hc g)) := by
    apply sortBy_eq_of_perm hc.le total trans (hp.map _)
    intro a b ha hb
    obtain ⟨p, hp, rfl⟩ := mem_map.1 ha
    obtain ⟨q, hq, rfl⟩ := mem_map.1 hb
    exact antisymm p q hp hq
  simp only [fullId, hf, ← hi, hs]

theorem GraphReord.fullId_eq {D : Type} (hc : HC D) {g g' : Graph} (h : GraphReord g g') (hd : GraphDistinctKeys g)
    (total : ∀ a b, hc.le a b = true ∨ hc.le b a = true)
    (trans : ∀ a b c, hc.le a b = true → hc.le b c = true → hc.le a c = true)
    (antisymm : ∀ a b, hc.le a b = true → hc.le b a = true → a = b) (n : Nat) :
    fullId hc g n = fullId hc g' n :=
  fullId_of_perm hc (h.rawId_eq hc hd) n (h.collectPreTasks_perm n) (h.initTasks_eq n) total trans
    (fun _ _ _ _ => antisymm _ _)

end XpmVerif.Ident
