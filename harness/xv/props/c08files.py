"""C08 (file-based, multi-scheduler part) — several real `CounterToken` instances + schedulers on one token
directory (xv.impl.tokeng), token-level correspondence with the Lean model M2' (Drive/FileTokens.lean),
capacity monitors on the real files and on the running jobs of all schedulers.

Chained from c08.py:   MODULES += c08files.MODULES ; c08files.correspond(ctx) ; c08files.search(ctx)
The body (generator, pool runner, correspondence) is shared with c09files through `run(ctx, prop, …)`."""
import json
import multiprocessing as mp
import random
import time

from .. import common

PROP = "C08"
MODULES = ["XpmVerif.Properties.C08Files", "XpmVerif.Properties.C08Release", "XpmVerif.Properties.TokSrc"]
DRIVER = "FileTokens"
RULE = ("file-token engine: 1-3 real CounterToken instances + schedulers on one directory, totals 1-4, requests 1-total, "
        "<= 6 jobs (job dependencies, a private process-level token to force aborted starts, failing jobs), random schedules with "
        "delayed/reordered file-system events and watcher reclaims; fault classes none / scheduler dropped (and restarted) while "
        "holding (the model's `drop`: also what a scheduler leaving its experiment block while a holder runs amounts to; real-process scenario exit-with-running-holder) / reader between create and write / watcher deleting between is_file and unlink of a release; non-trivial = >= 2 schedulers, >= 2 jobs on the file token and at least one "
        "stale recount or failed acquisition")
FAULT_CLASSES = [({}, 0.4), ({"drop": True, "restart": True}, 0.2), ({"race": True}, 0.1), ({"racedel": True}, 0.1),
                 ({"drop": True, "restart": True, "race": True, "racedel": True}, 0.2)]


# ------------------------------------------------------------------------------------------------ generator
def gen_spec(rng, max_jobs=6):
    total = rng.randint(1, 4)
    ns = rng.choice([1, 2, 2, 2, 3, 3])
    ptok = [rng.choice([1, 1, 1, 2])] if rng.random() < 0.55 else []
    nj = rng.randint(2, max_jobs)
    jobs = []
    abort_heavy = rng.random() < 0.2  # several jobs of one scheduler take the file token first and then compete for a private token of 1
    if abort_heavy:
        total, ptok = max(total, 2), [1]
    for j in range(nj):
        s = rng.randrange(ns)
        if abort_heavy and j < 3:
            jobs.append({"sched": 0, "ident": j, "deps": [["f", rng.randint(1, max(1, total // 2))], ["t", 0, 1]],
                         "code": 0 if rng.random() > 0.2 else 1, "marker": False})
            continue
        deps = []
        if rng.random() < 0.9:
            deps.append(["f", rng.randint(1, total)])
        if ptok and rng.random() < 0.75:  # contention on a private token: starts that abort after taking the file token
            deps.append(["t", 0, rng.randint(1, ptok[0])])
        deps += [["j", d] for d in range(j) if jobs[d]["sched"] == s and rng.random() < 0.25]
        rng.shuffle(deps)
        jobs.append({"sched": s, "ident": j, "deps": deps, "code": 0 if rng.random() > 0.2 else rng.choice([1, 2, 137]), "marker": False})
    return {"total": total, "nsched": ns, "ptokens": ptok, "jobs": jobs, "lag": rng.choice([0.2, 0.5, 0.8])}


def pick_faults(rng):
    x = rng.random()
    again = rng.random() < 0.5  # the same named token is asked again (other total) through CounterToken.create
    for f, p in FAULT_CLASSES:
        if x < p:
            return dict(f, recreate=True) if again else f
        x -= p
    return {}


# ------------------------------------------------------------------------------------------------ workers
def _probe(_=None):
    """behaviour of the two decision points the model is parameterised with, read off the real code"""
    import types
    from pathlib import Path
    from ..impl import tokeng
    from watchdog.events import FileCreatedEvent
    w = tokeng.MultiWorld({"total": 1, "nsched": 2, "ptokens": [], "jobs": []})
    try:
        p = Path(str(w.dir)) / "id0.token"
        p.touch()
        tolerant = True
        try:
            w.T[1].on_created(FileCreatedEvent(str(p)))
            w.T[1].on_modified(tokeng.FileModifiedEvent(str(p)))
        except Exception:
            tolerant = False
        p.unlink()
        dep = w.T[0].dependency(1)
        dep.target = types.SimpleNamespace(identifier="id5", basepath=Path("/nowhere/id5"))
        dep.loop = w.loops[0]
        w.notified = False
        w.T[0].release(dep)
        return {"tolerant": tolerant, "notifyMissing": bool(w.notified)}
    finally:
        w.close()


def _run_one(args):
    seed, flags = args
    from ..impl import tokeng
    rng = random.Random(seed)
    spec = gen_spec(rng)
    faults = pick_faults(rng)
    r = tokeng.run_random(spec, rng, faults=faults, fault_p=0.06)
    return seed, spec, faults, r


def small_specs():
    J = lambda s, i, deps, code=0: {"sched": s, "ident": i, "deps": deps, "code": code, "marker": False}
    return [
        {"total": 1, "nsched": 2, "ptokens": [], "jobs": [J(0, 0, [["f", 1]]), J(1, 1, [["f", 1]])]},
        {"total": 2, "nsched": 2, "ptokens": [1], "jobs": [J(0, 0, [["f", 2], ["t", 0, 1]]), J(0, 1, [["t", 0, 1], ["f", 1]]), J(1, 2, [["f", 1]], 1)]},
    ]


def _explore(args):
    """depth-first enumeration of the schedules of a small workload (stateless replay), no faults"""
    spec, limit = args
    from ..impl import tokeng
    stack, count, fails, complete = [[]], 0, [], True
    while stack:
        if count >= limit:
            complete = False
            break
        prefix = stack.pop()
        done = []

        def chooser(w, ch, fch):
            if len(done) < len(prefix):
                ev = prefix[len(done)]
            else:
                for alt in ch[1:]:
                    stack.append(done + [alt])
                ev = ch[0]
            done.append(ev)
            return ev
        r = tokeng.run_schedule(spec, chooser, None, max_events=400)
        count += 1
        for v in r["viol"]:
            fails.append((v, r["events"]))
    return spec, count, complete, fails[:20], len(fails)


def _replay_one(args):
    spec, events = args
    from ..impl import tokeng
    return tokeng.run_replay(spec, events)


def model_lines(spec, flags, oplog):
    req = sorted({(js["ident"], d[1]) for js in spec["jobs"] for d in js["deps"] if d[0] == "f"})
    lines = [{"op": "init", "total": spec["total"], "nproc": spec["nsched"], "req": [list(x) for x in req],
              "tolerant": flags["tolerant"], "notifyMissing": flags["notifyMissing"]}]
    lines += [{"op": "ev", "e": op} for op, _, _ in oplog]
    return lines


def compare(oplog, outs):
    """first difference between the real token-level trace and the model's, or None"""
    for k, ((op, out, obs), m) in enumerate(zip(oplog, outs[1:])):
        if "error" in m:
            return k, op, {"model-error": m}
        diff = {}
        if not m.get("enabled"):
            diff["enabled"] = {"impl": "performed", "model": "forbidden by the guards"}
        for key in ("ok", "notify"):
            if m.get(key) != out[key]:
                diff[key] = {"impl": out[key], "model": m.get(key)}
        for key in ("disk", "ipc", "active"):
            if m.get(key) != obs[key]:
                diff[key] = {"impl": obs[key], "model": m.get(key)}
        for p, (pi, pm) in enumerate(zip(obs["procs"], m.get("procs", []))):
            if pi != pm and p != out.get("skip_proc"):
                diff[f"proc{p}"] = {k2: {"impl": pi[k2], "model": pm.get(k2)} for k2 in pi if pi[k2] != pm.get(k2)}
        if diff:
            return k, op, diff
    return None


# ------------------------------------------------------------------------------------------------ the check
def probe_flags(ctx, pool):
    """the two model parameters: read off the AST of tokens.py (translate/tokflags.py; the same reading generates
    Generated/TokFlags.lean, whose value the source obligation TokSrc.token_flags pins); the behavioural probe is the
    fallback for a decision point whose source shape is not recognised, and is compared with the AST reading otherwise"""
    from ..translate import tokflags
    probed = pool.apply(_probe)
    try:
        ast_flags, unknown = tokflags.extract((common.REPO / "src/experimaestro/tokens.py").read_text())
    except Exception as e:
        ast_flags, unknown = {}, {k: f"unreadable: {e}" for k in ("tolerant", "notifyMissing")}
    flags = {}
    for k in ("tolerant", "notifyMissing"):
        if k in ast_flags and k not in unknown:
            flags[k] = ast_flags[k]
            ctx.count("ft_model_parameter_source", f"{k}:ast")
            if ast_flags[k] != probed[k]:
                ctx.disagree({"translator": "tokflags", "flag": k}, {"ast": ast_flags[k]}, {"probe": probed[k]},
                             f"file-token decision point {k}: the source reads {ast_flags[k]} but the real code behaves as {probed[k]}")
        else:
            flags[k] = probed[k]
            ctx.count("ft_model_parameter_source", f"{k}:probe")
    ctx.notes.append(f"file-token model parameters: {flags} (AST reading {ast_flags}, not recognised: {sorted(unknown)}; behavioural probe {probed})")
    return flags


_PROBE_CACHE = {}


def probe_one(flag):
    """probe for translate/tokflags.generate: behaviour of the real code at one decision point (None = no probe for it)"""
    if flag not in ("tolerant", "notifyMissing"):
        return None
    if not _PROBE_CACHE:
        with mp.Pool(1) as pool:
            _PROBE_CACHE.update(pool.apply(_probe))
    return _PROBE_CACHE[flag]


def translate(ctx):
    """regenerate Generated/TokFlags.lean from the tree under test; returns the (ok, msg) for check_proofs"""
    from ..translate import tokflags
    ok, msg, flags, unknown = tokflags.generate(common.REPO, common.LEAN, probe=probe_one)
    ctx.notes.append(f"translator(tokflags): {msg}")
    ctx.extra_cov["tokflags_translator"] = {"flags": flags, "untranslated": unknown}
    return ok, "tokflags: " + msg


def run(ctx, prop, n_quick, n_thorough):
    if RULE not in ctx.rule:
        ctx.rule = (ctx.rule + " || " if ctx.rule else "") + RULE
    ctx.assumptions += [
        "file tokens: token.info is constant during a run (every instance is built with the same total); a token file is named after one job and that job asks one fixed amount",
        "file tokens: file-system events reach each process in the order of the operations (inotify), with arbitrary delay; an exception in a watchdog callback ends the dispatcher thread (watchdog 2.3.1 BaseThread.run; reproduced with the real Observer by the F6 witness)",
        "file tokens: a scheduler process is never killed between open() and write() of its own token file in the engine runs (that window is covered by the separate killed-writer scenario of C09)",
    ]
    n = ctx.scale(n_quick, n_thorough)
    base = ctx.rng.randrange(10**9)
    with mp.Pool(min(16, mp.cpu_count())) as pool:
        flags = probe_flags(ctx, pool)
        results = pool.map(_run_one, [(base + i, flags) for i in range(n)], chunksize=8)
        exh = pool.map(_explore, [(w, ctx.scale(60, 1500)) for w in small_specs()])
    nsched = 0
    for spec, count, complete, fails, nfails in exh:
        nsched += count
        for (p, key, what), events in fails:
            if p == prop:
                ctx.monitor_fail(key, f"{what} [file-token engine, enumerated schedule; spec {json.dumps(spec)}]",
                                 {"engine": "tokeng", "spec": spec, "events": events})
    ctx.evaluations += nsched
    ctx.extra_cov["file_token_enumerated_schedules"] = {"workloads": len(exh), "schedules": nsched, "all_enumerated": all(e[2] for e in exh)}
    lines, slices = [], []
    for seed, spec, faults, r in results:
        oplog = r["oplog"]
        nf = sum(1 for js in spec["jobs"] if any(d[0] == "f" for d in js["deps"]))
        failed_acq = sum(1 for op, out, _ in oplog if op[0] == "acquireBegin" and not out["ok"])
        reqs = {js["ident"]: _req(spec, js["ident"]) for js in spec["jobs"]}
        stale = sum(1 for op, out, o in oplog if op[0] in ("acquireBegin", "release", "relEnd")
                    and any(not P["dropped"] and P["avail"] != spec["total"] - sum(reqs[f] for f, _ in o["disk"]) for P in o["procs"]))
        nontrivial = spec["nsched"] >= 2 and nf >= 2 and (failed_acq > 0 or stale > 0)
        case = {"seed": seed, "spec": spec, "faults": sorted(faults), "events": r["events"][:80]}
        ctx.case(case, nontrivial)
        ctx.count("ft_schedulers", spec["nsched"])
        ctx.count("ft_total", spec["total"])
        ctx.count("ft_jobs", len(spec["jobs"]))
        ctx.count("ft_fault_class", "+".join(sorted(faults)) or "none")
        ctx.count("ft_quiescent", r["quiescent"])
        if r.get("race_injected"):
            ctx.count("ft_release_unlink_raced_by_foreign_watcher", r["race_injected"])
        prev = None
        for op, out, o in oplog:
            if op[0] in ("release", "relBegin") and out["ok"]:
                ctx.count("ft_release_kind", "aborted start (job lock still held)" if prev is not None and op[2] in prev["active"] else "after the job ended")
            prev = o
        for op, out, _ in oplog:
            ctx.count("ft_token_op", op[0] + ("" if out["ok"] else ":fail"))
        for e in r["events"]:
            if e[0] in ("drop", "restart", "race", "racedel", "reclaim", "jobgone", "recreate"):
                ctx.count("ft_fault_event", e[0])
        ctx.count("ft_avail_above_total_at_end(F23)", any(P["avail"] > spec["total"] for P in r["final"]["procs"]))
        for p, key, what in r["viol"]:
            if p == prop:
                ctx.monitor_fail(key, f"{what} [file-token engine; spec {json.dumps(spec)}; schedule seed {seed}]",
                                 {"engine": "tokeng", "spec": spec, "events": r["events"], "seed": seed})
        ml = model_lines(spec, flags, oplog)
        slices.append((len(lines), len(ml), seed, spec, r))
        lines += ml
    try:
        outs = run_driver_sharded(lines, [st for st, *_ in slices])
    except Exception as e:
        ctx.disagree({"driver": DRIVER}, None, None, f"model driver failed: {e}")
        return
    ok = 0
    for start, ln, seed, spec, r in slices:
        d = compare(r["oplog"], outs[start:start + ln])
        if d is None:
            ok += 1
        else:
            k, op, diff = d
            ctx.disagree({"engine": "tokeng", "spec": spec, "events": r["events"], "seed": seed, "op_index": k, "op": op}, diff, None,
                         "file-token model and implementation differ")
    ctx.traces_validated += ok
    ctx.extra_cov["file_token_engine"] = {"runs": len(results), "token_ops_compared": sum(len(r["oplog"]) for *_, r in results),
                                          "traces_equal": ok, "flags": flags}


def run_driver_sharded(lines, starts, shards=12):
    """the runs are independent (each begins with an init line): pipe them through several driver processes"""
    from concurrent.futures import ThreadPoolExecutor
    if len(lines) < 20000 or len(starts) < shards:
        return common.run_driver(DRIVER, lines)
    per = (len(lines) + shards - 1) // shards
    cuts, nxt = [0], per
    for st in starts:
        if st >= nxt:
            cuts.append(st)
            nxt = st + per
    cuts.append(len(lines))
    with ThreadPoolExecutor(max_workers=shards) as ex:
        parts = list(ex.map(lambda ab: common.run_driver(DRIVER, lines[ab[0]:ab[1]]), zip(cuts[:-1], cuts[1:])))
    return [o for part in parts for o in part]


def _req(spec, f):
    for js in spec["jobs"]:
        if js["ident"] == f:
            for d in js["deps"]:
                if d[0] == "f":
                    return d[1]
    return 0


def search_run(ctx, prop):
    t0 = time.time()
    base = 9_000_000 + ctx.seed * 100_000
    with mp.Pool(min(16, mp.cpu_count())) as pool:
        flags = pool.apply(_probe)
        k = 0
        while time.time() - t0 < ctx.scale(30, 240) and not ctx.monitor_failures:
            for seed, spec, faults, r in pool.map(_run_one, [(base + k * 400 + i, flags) for i in range(400)], chunksize=8):
                for p, key, what in r["viol"]:
                    if p == prop:
                        ctx.monitor_fail(key, f"{what} [file-token engine; spec {json.dumps(spec)}; schedule seed {seed}]",
                                         {"engine": "tokeng", "spec": spec, "events": r["events"], "seed": seed})
            k += 1


def witness_run(ctx, prop, finding):
    w = finding.get("witness") or {}
    if w.get("engine") != "tokeng" or "events" not in w:
        return False
    with mp.Pool(1) as pool:
        r = pool.apply(_replay_one, ((w["spec"], w["events"]),))
    for p, key, what in r["viol"]:
        if p == prop:
            ctx.monitor_fail(key, f"{what} [witness of {finding['id']}]", {"engine": "tokeng", "spec": w["spec"], "events": w["events"]})
    return True


def replay_run(ctx, prop, obj):
    rc = 0
    for f in obj.get("failures", []):
        c = f["case"]
        if c.get("scenario") == "exit-with-running-holder":
            sub = common.Ctx(prop, ctx.tier, ctx.seed)
            try:
                exit_holder_scenario(sub, prop, [(c["total"], c["holders"], c["mode"], c["dur"])])
            finally:
                sub.cleanup()
            print("replay:", [m["what"][:300] for m in sub.monitor_failures] or "no failure on this tree")
            if sub.monitor_failures:
                rc = 1
                print(f"VIOLATION property={prop} replay=(replayed)")
            continue
        if c.get("scenario") == "recreate-total":
            sub = common.Ctx(prop, ctx.tier, ctx.seed)
            try:
                recreate_scenario(sub, prop, [(c["a"], c["b"], c["jobs"], c["dur"])])
            finally:
                sub.cleanup()
            print("replay:", [m["what"][:300] for m in sub.monitor_failures] or "no failure on this tree")
            if sub.monitor_failures:
                rc = 1
                print(f"VIOLATION property={prop} replay=(replayed)")
            continue
        if c.get("engine") != "tokeng":
            continue
        with mp.Pool(1) as pool:
            r = pool.apply(_replay_one, ((c["spec"], c["events"]),))
        fails = [v for v in r["viol"] if v[0] == prop]
        print("replay:", fails[:3] if fails else "no failure on this tree")
        if fails:
            rc = 1
            print(f"VIOLATION property={prop} replay=(replayed)")
    return rc


# ------------------------------------------------------------------------------------------------ real processes
_TASKS_SRC = '''import os, time
from pathlib import Path
from experimaestro import Task, Param


class Hold(Task):
    x: Param[int]
    count: Param[int]
    log: Param[Path]
    dur: Param[float]

    def execute(self):
        fd = os.open(str(self.log), os.O_WRONLY | os.O_APPEND | os.O_CREAT)
        os.write(fd, f"S {self.x} {self.count} {time.time()}\\n".encode())
        time.sleep(self.dur)
        os.write(fd, f"E {self.x} {self.count} {time.time()}\\n".encode())
        os.close(fd)
'''

_SCHED_SRC = '''import sys, os, logging, json
from pathlib import Path
args = json.loads(sys.argv[1])
sys.path.insert(0, args["pkg"])
logging.basicConfig(level=logging.WARNING)
from experimaestro import experiment
from experimaestro.tokens import CounterToken
from xvtokpkg.tasks import Hold
with experiment(Path(args["ws"]), "tok", port=-1) as xp:
    xp.setenv("PYTHONPATH", os.pathsep.join([args["pkg"]] + ([os.environ["PYTHONPATH"]] if os.environ.get("PYTHONPATH") else [])))
    token = CounterToken("shared", Path(args["tokdir"]), args["total"])
    for i, c in enumerate(args["reqs"]):
        t = Hold(x=100 * args["s"] + i, count=c, log=Path(args["log"]), dur=args["dur"])
        t.add_dependencies(token.dependency(c))
        t.submit()
    xp.wait()
print("FINAL", flush=True)
'''


def real_runs(ctx, prop, rounds=2, timeout=75):
    """thorough tier: three real scheduler processes (real watchdog observers, real IPC lock, real task processes)
    share one token directory; the task-side interval log must respect the capacity (C08); a scheduler that hangs
    is attributed to a finding through the signature in its stderr (C09)"""
    import os
    import signal
    import subprocess
    import sys
    from pathlib import Path
    root = Path(ctx.tmpdir()) / f"real-{prop}"
    pkg = root / "pkg" / "xvtokpkg"
    pkg.mkdir(parents=True, exist_ok=True)
    (pkg / "__init__.py").write_text("")
    (pkg / "tasks.py").write_text(_TASKS_SRC)
    (root / "sched_main.py").write_text(_SCHED_SRC)
    stats = {"rounds": 0, "tasks_logged": 0, "hung_schedulers": 0, "max_held": 0, "signatures": {}}
    for rd in range(rounds):
        total = ctx.rng.randint(1, 3)
        rdir = root / f"r{rd}"
        procs = []
        for s in range(3):
            a = {"pkg": str(root / "pkg"), "ws": str(rdir / f"ws{s}"), "tokdir": str(rdir / "tok"), "total": total, "s": s,
                 "reqs": [ctx.rng.randint(1, total) for _ in range(3)], "log": str(rdir / "log.txt"), "dur": 0.25}
            (rdir / f"ws{s}").mkdir(parents=True, exist_ok=True)
            env = dict(os.environ, XPM_WORKDIR=str(rdir / f"xpm{s}"), PYTHONWARNINGS="ignore")
            procs.append(subprocess.Popen([sys.executable, str(root / "sched_main.py"), json.dumps(a)], stdout=subprocess.PIPE,
                                          stderr=subprocess.PIPE, text=True, env=env, start_new_session=True))
        t_end = time.time() + timeout
        for s, p in enumerate(procs):
            try:
                out, err = p.communicate(timeout=max(1, t_end - time.time()))
                hung = False
            except subprocess.TimeoutExpired:
                try:
                    os.killpg(p.pid, signal.SIGKILL)
                except Exception:
                    p.kill()
                out, err = p.communicate()
                hung = True
            sig = ("F6" if "not enough values to unpack" in err else
                   "F30" if "FileNotFoundError" in err and "in release" in err else
                   "F24" if "Could not find the taken token" in err else None)
            if sig:
                stats["signatures"][sig] = stats["signatures"].get(sig, 0) + 1
            if hung:
                stats["hung_schedulers"] += 1
                key = {"F6": "watcher-dies-on-half-written-token-file", "F30": "release-raises-when-watcher-deleted-first",
                       "F24": "release-of-reclaimed-token-does-not-notify"}.get(sig)
                if prop == "C09" and key:
                    ctx.monitor_fail(key, f"real run: scheduler process {s} of 3 sharing a token of {total} did not finish within {timeout} s; "
                                          f"its stderr carries the signature of {sig}: ...{err[-300:]}", {"scenario": "real-processes", "round": rd})
                elif prop == "C09":
                    ctx.notes.append(f"real run {rd}: scheduler {s} hung without a known signature (not counted): ...{err[-200:]}")
            elif p.returncode != 0:
                ctx.notes.append(f"real run {rd}: scheduler {s} exited with {p.returncode}: ...{err[-200:]}")
        stats["rounds"] += 1
        ctx.evaluations += 1
        logf = rdir / "log.txt"
        evs = []
        if logf.exists():
            for line in logf.read_text().splitlines():
                k, x, c, t = line.split()
                evs.append((float(t), 0 if k == "E" else 1, int(x), int(c)))
        evs.sort()
        held, who = 0, set()
        for t, k, x, c in evs:
            if k == 1:
                held += c
                who.add(x)
                stats["tasks_logged"] += 1
                stats["max_held"] = max(stats["max_held"], held)
                if held > total and prop == "C08":
                    ctx.monitor_fail("real-runs-capacity-exceeded", f"real run: tasks {sorted(who)} of three scheduler processes execute at the same time "
                                                                    f"and hold {held} > total {total}", {"scenario": "real-processes", "log": logf.read_text()})
            else:
                held -= c
                who.discard(x)
    ctx.extra_cov["file_token_real_process_runs"] = stats
    return stats


_RECREATE_SRC = '''import sys, os, logging, json, gc
from pathlib import Path
args = json.loads(sys.argv[1])
sys.path.insert(0, args["pkg"])
logging.basicConfig(level=logging.ERROR)
from experimaestro import experiment
from experimaestro.tokens import CounterToken
from xvtokpkg.tasks import Hold
with experiment(Path(args["ws"]), "tok", port=-1) as xp:
    xp.setenv("PYTHONPATH", os.pathsep.join([args["pkg"]] + ([os.environ["PYTHONPATH"]] if os.environ.get("PYTHONPATH") else [])))
    first = xp.token("slots", args["a"])       # the token is defined ...
    token = xp.token("slots", args["b"])       # ... and asked again with another total
    # odd-numbered jobs are placed under the token by a submit listener of the launcher ("this allows the launcher to add
    # token dependencies", launchers/__init__.py), the others by the user
    def attach(job):
        if job.config.x % 2 == 1:
            job.dependencies.add(token.dependency(1))
    xp.workspace.launcher.addListener(attach)
    for i in range(args["jobs"]):
        h = Hold(x=i, count=1, log=Path(args["log"]), dur=args["dur"])
        (h if i % 2 == 1 else token(1, h)).submit()
    xp.wait()
info = Path(os.environ["XPM_WORKDIR"]) / "tokens" / "slots.counter" / "token.info"
print(json.dumps({"same_object": first is token, "token_total": token.total, "token_info": int(info.read_text()),
                  "token_objects": sum(1 for o in gc.get_objects() if isinstance(o, CounterToken))}), flush=True)
'''


def _recreate_attempt(root, k, a, b, jobs, dur, timeout):
    import os
    import signal
    import subprocess
    import sys
    adir = root / f"a{k}"
    adir.mkdir(parents=True, exist_ok=True)
    args = {"pkg": str(root / "pkg"), "ws": str(adir / "ws"), "a": a, "b": b, "jobs": jobs, "dur": dur, "log": str(adir / "log.txt")}
    env = dict(os.environ, XPM_WORKDIR=str(adir / "xpm"), PYTHONWARNINGS="ignore")
    p = subprocess.Popen([sys.executable, str(root / "recreate_main.py"), json.dumps(args)], stdout=subprocess.PIPE,
                         stderr=subprocess.PIPE, text=True, env=env, start_new_session=True)
    try:
        out, err = p.communicate(timeout=timeout)
    except subprocess.TimeoutExpired:
        try:
            os.killpg(p.pid, signal.SIGKILL)
        except Exception:
            p.kill()
        out, err = p.communicate()
        return {"hung": True, "stderr": err[-300:]}
    obs = None
    for line in reversed(out.strip().splitlines()):
        try:
            obs = json.loads(line)
            break
        except json.JSONDecodeError:
            continue
    if obs is None:
        return {"failed": True, "rc": p.returncode, "stderr": err[-300:]}
    evs = []
    logf = adir / "log.txt"
    if logf.exists():
        for line in logf.read_text().splitlines():
            kind, x, c, t = line.split()
            evs.append((float(t), 0 if kind == "E" else 1, int(x), int(c)))
    evs.sort()
    t0 = evs[0][0] if evs else 0.0
    held, who, worst, worst_who, worst_t = 0, set(), 0, [], 0.0
    for t, kind, x, c in evs:
        if kind == 1:
            held += c
            who.add(x)
            if held > worst:
                worst, worst_who, worst_t = held, sorted(who), round(t - t0, 2)
        else:
            held -= c
            who.discard(x)
    obs.update(max_held=worst, together=worst_who, at=worst_t, started=sum(1 for e in evs if e[1] == 1),
               intervals=[[x, round(t - t0, 2), "start" if kind else "end"] for t, kind, x, c in evs])
    return obs


def recreate_scenario(ctx, prop, variants=None, timeout=60):
    """one real process, real watchdog observer, real task processes: `xp.token("slots", a)` then `xp.token("slots", b)`,
    jobs asking 1 each; the task-side interval log must respect the total the surviving token reports.  With one token
    object per process (same object returned) one attempt is conclusive; if a second object was built, up to 3 fresh
    processes are tried (the outcome then depends on thread timing) and only a real overrun is reported."""
    from pathlib import Path
    variants = variants or [(1, 2, 5, 0.5)]
    root = Path(ctx.tmpdir()) / f"recreate-{prop}"
    pkg = root / "pkg" / "xvtokpkg"
    pkg.mkdir(parents=True, exist_ok=True)
    (pkg / "__init__.py").write_text("")
    (pkg / "tasks.py").write_text(_TASKS_SRC)
    (root / "recreate_main.py").write_text(_RECREATE_SRC)
    res = []
    for vi, (a, b, jobs, dur) in enumerate(variants):
        attempts = []
        for k in range(3):
            o = _recreate_attempt(root, f"{vi}-{k}", a, b, jobs, dur, timeout)
            attempts.append({kk: vv for kk, vv in o.items() if kk != "intervals"})
            ctx.evaluations += 1
            if o.get("hung") or o.get("failed"):
                ctx.notes.append(f"recreate scenario {a}->{b}: attempt {k} did not complete: {o}")
                continue
            total = o["token_info"]
            if o["max_held"] > total:
                ctx.monitor_fail("recreate-with-other-total:capacity-exceeded",
                                 f"one process, xp.token('slots', {a}) then xp.token('slots', {b}), {jobs} jobs asking 1 each: at t={o['at']}s jobs "
                                 f"{o['together']} execute together and hold {o['max_held']} > total {total} (token.info; the returned token reports "
                                 f"{o['token_total']}); the second call returned {'the same' if o['same_object'] else 'a different'} token object and the "
                                 f"process has {o['token_objects']} CounterToken objects on the directory; task-side intervals {o['intervals']}",
                                 {"scenario": "recreate-total", "a": a, "b": b, "jobs": jobs, "dur": dur, "observed": o})
                break
            if o["same_object"] and o["token_objects"] == 1:
                break  # one token object per process: nothing timing-dependent to retry
        res.append({"ask": [a, b], "jobs": jobs, "attempts": attempts})
        ctx.count("ft_recreate_same_object", attempts[-1].get("same_object"))
    ctx.extra_cov["file_token_recreate_scenarios"] = res
    return res


_EXIT_P1_SRC = '''import sys, os, logging, json, time
from pathlib import Path
args = json.loads(sys.argv[1])
sys.path.insert(0, args["pkg"])
logging.basicConfig(level=logging.CRITICAL)
from experimaestro import experiment
from xvtokpkg.tasks import Hold


class Boom(Exception):
    pass


def started():
    p = Path(args["log"])
    return sum(1 for l in p.read_text().splitlines() if l.startswith("S ")) if p.exists() else 0


try:
    with experiment(Path(args["ws"]), "first", port=-1) as xp:
        xp.setenv("PYTHONPATH", os.pathsep.join([args["pkg"]] + ([os.environ["PYTHONPATH"]] if os.environ.get("PYTHONPATH") else [])))
        token = xp.token("slots", args["total"])
        for i in range(args["holders"]):
            token(1, Hold(x=i, count=1, log=Path(args["log"]), dur=args["dur"])).submit()
        t0 = time.time()
        while started() < args["holders"] and time.time() - t0 < 40:
            time.sleep(0.05)
        if args["mode"] == "exception":
            raise Boom("the script fails while its jobs run")   # the block is left without waiting
except Boom:
    pass
print("LEFT", flush=True)
time.sleep(args["dur"] + 1.0)     # the script goes on after the experiment
print("END", flush=True)
'''

_EXIT_P2_SRC = '''import sys, os, logging, json
from pathlib import Path
args = json.loads(sys.argv[1])
sys.path.insert(0, args["pkg"])
logging.basicConfig(level=logging.CRITICAL)
from experimaestro import experiment
from xvtokpkg.tasks import Hold
with experiment(Path(args["ws"]), "second", port=-1) as xp:
    xp.setenv("PYTHONPATH", os.pathsep.join([args["pkg"]] + ([os.environ["PYTHONPATH"]] if os.environ.get("PYTHONPATH") else [])))
    token = xp.token("slots", args["total"])
    token(1, Hold(x=100, count=1, log=Path(args["log"]), dur=0.3)).submit()
    xp.wait()
print("FINAL", flush=True)
'''


def _sweep(logf, t0=None):
    evs = []
    if logf.exists():
        for line in logf.read_text().splitlines():
            kind, x, c, t = line.split()
            evs.append((float(t), 0 if kind == "E" else 1, int(x), int(c)))
    evs.sort()
    t0 = evs[0][0] if evs else 0.0
    held, who, worst, worst_who, worst_t = 0, set(), 0, [], 0.0
    for t, kind, x, c in evs:
        if kind == 1:
            held += c
            who.add(x)
            if held > worst:
                worst, worst_who, worst_t = held, sorted(who), round(t - t0, 2)
        else:
            held -= c
            who.discard(x)
    return {"max_held": worst, "together": worst_who, "at": worst_t, "started": sum(1 for e in evs if e[1] == 1),
            "intervals": [[x, round(t - t0, 2), "start" if kind else "end"] for t, kind, x, c in evs]}


def _exit_holder_attempt(root, k, total, holders, mode, dur, timeout):
    import os
    import signal
    import subprocess
    import sys
    adir = root / f"x{k}"
    adir.mkdir(parents=True, exist_ok=True)
    logf = adir / "log.txt"
    base = {"pkg": str(root / "pkg"), "total": total, "holders": holders, "mode": mode, "dur": dur, "log": str(logf)}
    env = dict(os.environ, XPM_WORKDIR=str(adir / "xpm"), PYTHONWARNINGS="ignore")
    tokdir = adir / "xpm" / "tokens" / "slots.counter"

    def spawn(script, ws, outname):
        out = open(adir / outname, "w")
        return subprocess.Popen([sys.executable, str(root / script), json.dumps(dict(base, ws=str(adir / ws)))], stdout=out,
                                stderr=subprocess.DEVNULL, text=True, env=env, start_new_session=True), out

    def lines(name):
        f = adir / name
        return f.read_text().splitlines() if f.exists() else []

    def log_count(kind):
        return sum(1 for l in (logf.read_text().splitlines() if logf.exists() else []) if l.startswith(kind + " "))

    procs = []
    obs = {"total": total, "holders": holders, "mode": mode}
    try:
        p1, o1 = spawn("exit_p1.py", "ws1", "p1.out")
        procs.append(p1)
        t_end = time.time() + timeout
        while log_count("S") < holders and time.time() < t_end and p1.poll() is None:
            time.sleep(0.05)
        if log_count("S") < holders:
            return dict(obs, failed="holders did not start")
        p2, o2 = spawn("exit_p2.py", "ws2", "p2.out")     # another scheduler process asks the same token while the holder runs
        procs.append(p2)
        while "LEFT" not in lines("p1.out") and time.time() < t_end and p1.poll() is None:
            time.sleep(0.05)
        time.sleep(0.4)
        files = sorted(f.name[:8] for f in tokdir.glob("*.token")) if tokdir.exists() else []
        running = holders - sum(1 for l in (logf.read_text().splitlines() if logf.exists() else []) if l.startswith("E ") and int(l.split()[1]) < 100)
        p2_running = log_count("S") > holders and not any(l.startswith("E 100 ") for l in logf.read_text().splitlines())
        obs["sample_after_block_left"] = {"holders_still_running": running, "token_files": len(files), "second_job_running": p2_running}
        for p in (p2, p1):
            try:
                p.wait(timeout=max(1, t_end - time.time()))
            except subprocess.TimeoutExpired:
                obs.setdefault("hung", []).append("p2" if p is p2 else "p1")
    finally:
        for p in procs:
            if p.poll() is None:
                try:
                    os.killpg(p.pid, signal.SIGKILL)
                except Exception:
                    p.kill()
                p.wait()
    obs.update(_sweep(logf))
    return obs


def exit_holder_scenario(ctx, prop, variants=None, timeout=90):
    """`exit-with-running-holder` (= the model's `drop` of a scheduler while its job holds: the token file must stay until the
    job is gone): real process P1 takes the token for a job of `dur` s and leaves its `with experiment` block (by an
    exception, or normally) while the job runs; real process P2 asks the same token meanwhile.  Monitors: the merged task-side
    interval log never exceeds the total; while a holder still runs after the block was left, its token file is on disk."""
    from pathlib import Path
    variants = variants or [(1, 1, "exception", 3.0)]
    root = Path(ctx.tmpdir()) / f"exit-{prop}"
    pkg = root / "pkg" / "xvtokpkg"
    pkg.mkdir(parents=True, exist_ok=True)
    (pkg / "__init__.py").write_text("")
    (pkg / "tasks.py").write_text(_TASKS_SRC)
    (root / "exit_p1.py").write_text(_EXIT_P1_SRC)
    (root / "exit_p2.py").write_text(_EXIT_P2_SRC)
    res = []
    for vi, (total, holders, mode, dur) in enumerate(variants):
        attempts = []
        for k in range(2):
            o = _exit_holder_attempt(root, f"{vi}-{k}", total, holders, mode, dur, timeout)
            attempts.append({kk: vv for kk, vv in o.items() if kk != "intervals"})
            ctx.evaluations += 1
            case = {"scenario": "exit-with-running-holder", "total": total, "holders": holders, "mode": mode, "dur": dur, "observed": o}
            if o.get("failed"):
                ctx.notes.append(f"exit-with-running-holder {total}/{holders}/{mode}: attempt {k} inconclusive: {o['failed']}")
                continue
            how = "by an exception raised in the block" if mode == "exception" else "normally (no explicit wait)"
            smp = o.get("sample_after_block_left", {})
            bad = False
            if o["max_held"] > total:
                bad = True
                ctx.monitor_fail("exit-with-running-holder:capacity-exceeded",
                                 f"process P1 holds the token (total {total}) for {holders} running job(s) and leaves its experiment block {how}; "
                                 f"process P2 then asks the same token: at t={o['at']}s jobs {o['together']} (100 = P2's) execute together and hold "
                                 f"{o['max_held']} > total {total}; token files on disk while {smp.get('holders_still_running')} holder(s) still ran: "
                                 f"{smp.get('token_files')}; task-side intervals {o['intervals']}", case)
            elif smp.get("holders_still_running", 0) > smp.get("token_files", 0) and not smp.get("second_job_running"):
                bad = True
                ctx.monitor_fail("exit-with-running-holder:token-file-gone-while-holder-runs",
                                 f"process P1 left its experiment block {how} while {smp['holders_still_running']} job(s) holding the token (total {total}) "
                                 f"still ran: only {smp['token_files']} token file(s) remain on disk, the capacity looks free to every other scheduler; "
                                 f"task-side intervals {o['intervals']}", case)
            if bad or not o.get("hung"):
                break
            ctx.notes.append(f"exit-with-running-holder {total}/{holders}/{mode}: attempt {k}: {o.get('hung')} did not finish, retried")
        res.append({"total": total, "holders": holders, "mode": mode, "attempts": attempts})
    ctx.extra_cov["file_token_exit_with_running_holder"] = res
    return res


# ------------------------------------------------------------------------------------------------ module API
def prove(ctx):
    """stand-alone use; when chained, add MODULES to the caller's list instead"""
    prev = ctx.proof
    pr = common.check_proofs(ctx, MODULES)
    if prev is not None:
        pr.obligations += prev.obligations
        pr.discharged += prev.discharged
        pr.failures = prev.failures + pr.failures
        pr.axioms = {**prev.axioms, **pr.axioms}


def correspond(ctx):
    run(ctx, PROP, 320, 6000)
    recreate_scenario(ctx, PROP, [(1, 2, 5, 0.5)] if ctx.quick() else [(1, 2, 5, 0.6), (2, 3, 5, 0.6), (1, 3, 5, 0.6)])
    exit_holder_scenario(ctx, PROP, [(1, 1, "exception", 3.0)] if ctx.quick() else
                         [(1, 1, "exception", 3.0), (2, 2, "exception", 3.0), (1, 1, "normal", 2.0), (2, 1, "exception", 2.5)])
    if not ctx.quick():
        real_runs(ctx, PROP)


def search(ctx):
    search_run(ctx, PROP)


def run_witness(ctx, finding):
    return witness_run(ctx, PROP, finding)


def replay(ctx, obj):
    return replay_run(ctx, PROP, obj)
