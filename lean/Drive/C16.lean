import XpmVerif.Basic.JsonUtil
import XpmVerif.Model.XpIndex
/-! Line-protocol driver for M7 (C16).  `lake env lean --run Drive/C16.lean < ops.jsonl`
    The state is one experiment; `{"op":"reset"}` starts a new history.  Every operation line prints the
    observable state (links of `jobs`, of `jobs.bak` or null, lock holder, processes inside the block);
    `{"op":"orphans","dirs":[…]}` prints the model's answer of the `orphans` command. -/
open Lean XpmVerif XpmVerif.J XpmVerif.XpIndex

def entryLe (a b : Entry) : Bool := a.name < b.name || (a.name == b.name && a.target ≤ b.target)

def natJ (n : Nat) : Json := n

def entriesJ (es : List Entry) : Json :=
  Json.arr ((es.mergeSort entryLe).map (fun e => Json.arr #[natJ e.name, natJ e.target])).toArray

def natsJ (ns : List Nat) : Json := Json.arr ((ns.mergeSort (fun a b => decide (a ≤ b))).map natJ).toArray

def stateJ (s : St) : Json :=
  Json.mkObj [("jobs", entriesJ s.jobs),
    ("bak", match s.bak with | none => Json.null | some b => entriesJ b),
    ("lock", match s.lock with | none => Json.null | some p => natJ p),
    ("inside", natsJ s.inside)]

def natsOf (j : Json) (k : String) : List Nat := (arrF j k).map nat

def stepJ (s : St) (j : Json) : St × Json :=
  let p := natF j "p"
  let go (op : Op) : St × Json := let s' := step s op; (s', stateJ s')
  match strF j "op" with
  | "reset" => (init, stateJ init)
  | "enter" => go (.enter p)
  | "submit" => go (.submit p (natF j "l"))
  | "exitOk" => go (.exitOk p)
  | "exitExc" => go (.exitExc p)
  | "killed" => go (.killed p)
  | "killedEntering" => go (.killedEntering p (natsOf j "moved"))
  | "killedExiting" => go (.killedExiting p (natsOf j "removed"))
  | "orphans" => (s, Json.mkObj [("orphans", natsJ (orphans s (natsOf j "dirs")))])
  | op => (s, Json.mkObj [("error", Json.str s!"bad-op {op}")])

def main : IO Unit := J.loop stepJ init
