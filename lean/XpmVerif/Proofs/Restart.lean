import XpmVerif.Proofs.RestartCtl
/-! M2 as an instance of the adoption-extended scheduler (`applyA_plain_eq`), registry discipline and FIFO position of the
    registration coroutine (`dedupA`), reachable states of M2 and of the adoption-extended scheduler.  Helper lemmas for
    C05 and C11. -/
namespace XpmVerif.Restart
open XpmVerif.Sched
set_option linter.unusedSimpArgs false

theorem put_self (s : St) (j : Nat) : s.put j (s.jobs j) = s := by
  have : upd s.jobs j (s.jobs j) = s.jobs := by funext i; simp [upd]; intro h; rw [h]
  simp [St.put, this]

/-! ### M2 is the adoption-extended scheduler with the `plain` hooks -/

theorem runCbA_plain_eq (fl : Flags) (a : StA Unit) (cb : Cb) : runCbA fl plain a cb = { a with s := a.s.runCb fl cb } := by
  cases cb with
  | start j =>
    simp only [runCbA, plain, startJobA, St.runCb]
    have : (a.s.put j { (a.s.jobs j) with marker := (a.s.jobs j).marker }) = a.s := put_self a.s j
    simp [this]
  | resume j => simp only [runCbA, plain, St.runCb]; split <;> rfl
  | _ => rfl

theorem stepA_plain_eq (fl : Flags) (a : StA Unit) : stepA fl plain a = { a with s := a.s.step fl } := by
  unfold stepA St.step
  split
  · rename_i h; simp [h]
  · rename_i cb rest h; simp [h, runCbA_plain_eq]

theorem stepsA_plain_eq (fl : Flags) (k : Nat) : ∀ (a : StA Unit), stepsA fl plain a k = { a with s := St.steps fl a.s k } := by
  induction k with
  | zero => intro a; rfl
  | succ k ih => intro a; simp only [stepsA, St.steps, stepA_plain_eq, ih]

theorem applyA_plain_eq (fl : Flags) (a : StA Unit) (e : Ev) : applyA fl plain a e = { a with s := a.s.apply fl e } := by
  cases e with
  | step => exact stepA_plain_eq fl a
  | wait => rfl
  | deliver k =>
    simp only [applyA, St.apply]
    cases h : a.s.threads[k]? with
    | none => simp
    | some t => obtain ⟨kind, j⟩ := t; simp [plain, deliverA, setCode]
  | submit ident deps code marker =>
    simp only [applyA, St.apply, stepsA_plain_eq, submitPre, submitPost, newJob]
    generalize (St.steps fl _ _) = s1
    cases h : s1.regResult with
    | none => simp
    | some r => cases r <;> simp


/-! ### registry and queue discipline -/

/-- what every callback but a registration leaves alone -/
structure Glob (s s' : St) : Prop where
  ready : ∃ app, s'.ready = s.ready ++ app ∧ ∀ i, app.count (Cb.register i) = 0 ∧ app.count (Cb.resume i) = 0
  registry : s'.registry = s.registry
  regResult : s'.regResult = s.regResult
  n : s'.n = s.n
  ident : ∀ i, (s'.jobs i).ident = (s.jobs i).ident

theorem Tr.glob {j : Nat} {s s' : St} (h : Tr j s s') : Glob s s' := by
  refine ⟨h.ready, h.registry, h.regResult, h.n, ?_⟩
  intro i
  by_cases hi : i = j
  · subst hi; exact h.identJ
  · have := congrArg View.ident (h.other i hi); simpa [view] using this

theorem Bg.glob {s s' : St} (h : Bg s s') : Glob s s' := (h.tr 0).glob

theorem runCbA_glob {D : Type} (fl : Flags) (hk : Hooks D) (a : StA D) (cb : Cb) (h : InvP (some cb) a.s a.adopted)
    (hreg : ∀ j, cb ≠ .register j) : Glob a.s (runCbA fl hk a cb).s := by
  cases cb with
  | register j => exact absurd rfl (hreg j)
  | start j => exact (start_good fl hk a j h).1.1.glob
  | wake j => simpa [runCbA] using (wake_good fl a.s a.adopted j h).1.glob
  | resume j =>
    obtain ⟨hk', hth, hst, hrs, hwk, hsl, hla, hma, had⟩ := pre_resume a.s (a.adopted j) j (h.loc j)
    obtain ⟨g1, -, -⟩ := resume_good fl a.s j (a.adopted j) hk' ⟨hth, hst, hrs, hwk, hsl, hla, hma, had⟩
    simp only [runCbA]
    split <;> exact g1.glob
  | check j d => exact (check_bg fl a.s j d).glob
  | notifyCheck j d =>
    simp only [runCbA, St.runCb]
    split
    · split
      · exact (check_bg fl a.s j d).glob
      · exact (Bg.refl a.s).glob
    · exact (check_bg fl a.s j d).glob
  | waiterRun =>
    simp only [runCbA, St.runCb, St.waiterRun]
    split <;> exact Bg.glob (bg_of_jobs_eq _ _ rfl rfl rfl rfl rfl rfl rfl)


def cReg (s : St) (o : Nat) : Nat := s.ready.count (Cb.register o)

/-- pending registrations (with the popped callback `cb` counted back in) -/
def cRegP (cb : Option Cb) (s : St) (o : Nat) : Nat := cReg s o + (if cb = some (Cb.register o) then 1 else 0)

/-- registry discipline: a registered index is a submitted job with that identifier and no registration of it is pending;
    at most one registration is pending per index, none for indices not yet submitted -/
structure RegP (cb : Option Cb) (s : St) : Prop where
  r1 : ∀ o, s.n ≤ o → cRegP cb s o = 0
  r2 : ∀ o, cRegP cb s o ≤ 1
  r3 : ∀ ident o, lookup ident s.registry = some o → o < s.n ∧ (s.jobs o).ident = ident ∧ cRegP cb s o = 0

theorem regP_glob {cb : Cb} {s s' : St} (h : RegP (some cb) s) (hreg : ∀ j, cb ≠ .register j) (g : Glob s s') : RegP none s' := by
  obtain ⟨app, happ, hc⟩ := g.ready
  have e : ∀ o, cRegP none s' o = cRegP (some cb) s o := by
    intro o
    have : (some cb = some (Cb.register o)) = False := by simp; exact hreg o
    simp [cRegP, cReg, happ, List.count_append, hc, this]
  constructor
  · intro o ho; rw [e]; exact h.r1 o (by rw [← g.n]; exact ho)
  · intro o; rw [e]; exact h.r2 o
  · intro ident o hl
    rw [g.registry] at hl
    obtain ⟨a1, a2, a3⟩ := h.r3 ident o hl
    exact ⟨by rw [g.n]; exact a1, by rw [g.ident]; exact a2, by rw [e]; exact a3⟩

theorem lookup_cons (k a b : Nat) (r : List (Nat × Nat)) : lookup k ((a, b) :: r) = if a = k then some b else lookup k r := rfl

theorem regP_register (fl : Flags) {s : St} (j : Nat) (h : RegP (some (.register j)) s) : RegP none (s.register fl j) := by
  have hj1 : cReg s j = 0 := by have := h.r2 j; simp [cRegP] at this; exact this
  have hjn : j < s.n := by
    rcases Nat.lt_or_ge j s.n with h1 | h1
    · exact h1
    · have := h.r1 j h1; simp [cRegP] at this
  have hsame : (s.register fl j).jobs = s.jobs ∧ (s.register fl j).ready = s.ready ∧ (s.register fl j).n = s.n := by
    obtain ⟨a, b, -, c, -⟩ := register_same fl s j; exact ⟨a, b, c⟩
  obtain ⟨e1, e2, e3⟩ := hsame
  have ec : ∀ o, cRegP none (s.register fl j) o = cReg s o := by intro o; simp [cRegP, cReg, e2]
  have hreg : (s.register fl j).registry = s.registry ∨ (s.register fl j).registry = ((s.jobs j).ident, j) :: s.registry := by
    unfold St.register; simp only []; split <;> (try split) <;> (try split) <;> simp
  constructor
  · intro o ho
    rw [ec]
    have := h.r1 o (by rw [← e3]; exact ho)
    simp [cRegP] at this; exact this.1
  · intro o
    rw [ec]
    have := h.r2 o
    simp [cRegP] at this; omega
  · intro ident o hl
    rw [ec, e1, e3]
    rcases hreg with hr | hr
    · rw [hr] at hl
      obtain ⟨a1, a2, a3⟩ := h.r3 ident o hl
      simp [cRegP] at a3
      exact ⟨a1, a2, a3.1⟩
    · rw [hr, lookup_cons] at hl
      split at hl
      · rename_i hid
        simp at hl; subst hl
        exact ⟨hjn, hid, hj1⟩
      · obtain ⟨a1, a2, a3⟩ := h.r3 ident o hl
        simp [cRegP] at a3
        exact ⟨a1, a2, a3.1⟩

theorem regP_pop {s : St} {cb : Cb} {rest : List Cb} (h : RegP none s) (hr : s.ready = cb :: rest) :
    RegP (some cb) { s with ready := rest } := by
  have e : ∀ o, cRegP (some cb) { s with ready := rest } o = cRegP none s o := by
    intro o
    simp only [cRegP, cReg, hr, List.count_cons]
    simp only [beq_iff_eq, Option.some.injEq]
    simp
  constructor
  · intro o ho; rw [e]; exact h.r1 o ho
  · intro o; rw [e]; exact h.r2 o
  · intro ident o hl; obtain ⟨a1, a2, a3⟩ := h.r3 ident o hl; exact ⟨a1, a2, by rw [e]; exact a3⟩

/-- both invariants at event boundaries -/
def InvB {D : Type} (a : StA D) : Prop := InvA a ∧ RegP none a.s

theorem runCbA_register {D : Type} (fl : Flags) (hk : Hooks D) (a : StA D) (j : Nat) :
    runCbA fl hk a (.register j) = { a with s := a.s.register fl j } := rfl

theorem stepA_invB {D : Type} (fl : Flags) (hk : Hooks D) (a : StA D) (h : InvB a) : InvB (stepA fl hk a) := by
  refine ⟨stepA_inv fl hk a h.1, ?_⟩
  unfold stepA
  split
  · exact h.2
  · rename_i cb rest hr
    have hp := pop_inv h.1 hr
    have hq := regP_pop h.2 hr
    by_cases hreg : ∃ j, cb = .register j
    · obtain ⟨j, rfl⟩ := hreg
      rw [runCbA_register]
      exact regP_register fl j hq
    · have hreg' : ∀ j, cb ≠ .register j := fun j e => hreg ⟨j, e⟩
      exact regP_glob hq hreg' (runCbA_glob fl hk { a with s := { a.s with ready := rest } } cb hp hreg')

theorem stepsA_invB {D : Type} (fl : Flags) (hk : Hooks D) (k : Nat) : ∀ (a : StA D), InvB a → InvB (stepsA fl hk a k) := by
  induction k with
  | zero => intro a h; exact h
  | succ k ih => intro a h; exact ih _ (stepA_invB fl hk a h)


theorem submitPre_invB {D : Type} (a : StA D) (h : InvB a) (rec : Job)
    (hrec : rec.pc = .none ∧ rec.launches = 0 ∧ rec.sleeping = false) : InvB (submitPre a rec) := by
  refine ⟨submitPre_inv a h.1 rec hrec, ?_⟩
  have h2 := h.2
  have hn0 : cReg a.s a.s.n = 0 := by have := h2.r1 a.s.n (Nat.le_refl _); simpa [cRegP] using this
  have e : ∀ o, cRegP none (submitPre a rec).s o = cReg a.s o + (if o = a.s.n then 1 else 0) := by
    intro o
    simp [cRegP, cReg, submitPre, List.count_append, List.count_cons]
    by_cases ho : o = a.s.n <;> simp [ho]
    intro e; exact absurd e.symm ho
  constructor
  · intro o ho
    have ho' : a.s.n ≤ o ∧ o ≠ a.s.n := by simp [submitPre] at ho; omega
    rw [e]; have := h2.r1 o ho'.1; simp [cRegP] at this; simp [this, ho'.2]
  · intro o
    rw [e]
    by_cases ho : o = a.s.n
    · subst ho; simp [hn0]
    · have := h2.r2 o; simp [cRegP] at this; simp [ho]; exact this
  · intro ident o hl
    obtain ⟨a1, a2, a3⟩ := h2.r3 ident o (by simpa [submitPre] using hl)
    have ho : o ≠ a.s.n := by omega
    simp [cRegP] at a3
    refine ⟨by simp [submitPre]; omega, by simpa [submitPre, upd, ho] using a2, by rw [e]; simp [a3, ho]⟩

theorem regP_same {s s' : St} (h : RegP none s) (hn : s'.n = s.n) (hg : s'.registry = s.registry)
    (hid : ∀ i, (s'.jobs i).ident = (s.jobs i).ident) (hc : ∀ o, cReg s' o = cReg s o) : RegP none s' := by
  constructor
  · intro o ho; have := h.r1 o (by rw [← hn]; exact ho); simpa [cRegP, hc] using this
  · intro o; have := h.r2 o; simpa [cRegP, hc] using this
  · intro ident o hl
    obtain ⟨a1, a2, a3⟩ := h.r3 ident o (by rw [← hg]; exact hl)
    exact ⟨by rw [hn]; exact a1, by rw [hid]; exact a2, by simpa [cRegP, hc] using a3⟩

theorem submitPost_invB {D : Type} (a : StA D) (j : Nat) (h : InvB a) (hj : j < a.s.n) (hpc : (a.s.jobs j).pc = .none) :
    InvB (submitPost a j) := by
  refine ⟨submitPost_inv a j h.1 hj hpc, ?_⟩
  unfold submitPost
  split
  · exact regP_same h.2 rfl rfl (fun _ => rfl) (fun _ => rfl)
  · refine regP_same h.2 rfl rfl ?_ ?_
    · intro i; by_cases e : i = j <;> simp [jobs_put, e]
    · intro o; simp [cReg, List.count_append]

theorem deliverA_invB {D : Type} (a : StA D) (k j : Nat) (kind : TK) (c : Option Nat) (d' : D) (h : InvB a)
    (hkj : a.s.threads[k]? = some (kind, j)) : InvB (deliverA a k j c d') := by
  refine ⟨deliverA_inv a k j kind c d' h.1 hkj, ?_⟩
  unfold deliverA
  refine regP_same h.2 ?_ ?_ ?_ ?_
  · cases c <;> rfl
  · cases c <;> rfl
  · intro i; cases c <;> simp [setCode]; by_cases e : i = j <;> simp [jobs_put, e]
  · intro o; cases c <;> simp [setCode, cReg, List.count_append]

theorem applyA_submit_invB_aux {D : Type} (fl : Flags) (hk : Hooks D) (a : StA D) (rec : Job) (h : InvB a)
    (hrec : rec.pc = .none ∧ rec.launches = 0 ∧ rec.sleeping = false) (k : Nat) :
    InvB (submitPost (stepsA fl hk (submitPre a rec) k) a.s.n) := by
  have h0 := submitPre_invB a h rec hrec
  have hpc0 : ((submitPre a rec).s.jobs a.s.n).pc = .none := by simp [submitPre, upd, hrec.1]
  obtain ⟨t1, -, -, t4, -⟩ := stepsA_idle fl hk k _ h0.1 a.s.n hpc0
  exact submitPost_invB _ _ (stepsA_invB fl hk _ _ h0) (by rw [t4]; simp [submitPre]) t1

theorem applyA_invB {D : Type} (fl : Flags) (hk : Hooks D) (a : StA D) (e : Ev) (h : InvB a) : InvB (applyA fl hk a e) := by
  cases e with
  | step => exact stepA_invB fl hk a h
  | wait =>
    refine ⟨applyA_inv fl hk a .wait h.1, ?_⟩
    exact regP_same h.2 rfl rfl (fun _ => rfl) (by intro o; simp [applyA, cReg, List.count_append])
  | deliver k =>
    simp only [applyA]
    split
    · rename_i kind j hkj
      split
      · exact h
      · exact deliverA_invB a k j kind _ _ h hkj
    · exact h
  | submit ident deps code marker =>
    exact applyA_submit_invB_aux fl hk a _ h ⟨rfl, rfl, rfl⟩ _

theorem init_invB {D : Type} (totals : List Nat) (d : D) : InvB ({ s := St.init totals, d := d } : StA D) := by
  refine ⟨init_inv totals d, ?_⟩
  constructor
  · intro o _; simp [cRegP, cReg, St.init]
  · intro o; simp [cRegP, cReg, St.init]
  · intro ident o hl; simp [St.init, lookup] at hl


/-! ### the registration of a submission runs after the callbacks queued before it (FIFO) -/

theorem runCbA_ready {D : Type} (fl : Flags) (hk : Hooks D) (a : StA D) (cb : Cb) (h : InvP (some cb) a.s a.adopted) :
    ∃ app, (runCbA fl hk a cb).s.ready = a.s.ready ++ app := by
  by_cases hreg : ∃ j, cb = .register j
  · obtain ⟨j, rfl⟩ := hreg
    exact ⟨[], by rw [runCbA_register]; simp [(register_same fl a.s j).2.1]⟩
  · obtain ⟨app, happ, -⟩ := (runCbA_glob fl hk a cb h (fun j e => hreg ⟨j, e⟩)).ready
    exact ⟨app, happ⟩

theorem stepA_cons {D : Type} (fl : Flags) (hk : Hooks D) (a : StA D) (cb : Cb) (rest : List Cb) (hr : a.s.ready = cb :: rest) :
    stepA fl hk a = runCbA fl hk { a with s := { a.s with ready := rest } } cb := by
  unfold stepA; split
  · rename_i h; rw [hr] at h; cases h
  · rename_i cb' rest' h; rw [hr] at h; cases h; rfl

theorem stepsA_fifo {D : Type} (fl : Flags) (hk : Hooks D) (k : Nat) : ∀ (a : StA D) (l rest : List Cb), InvA a →
    a.s.ready = l ++ rest → l.length = k → ∃ app, (stepsA fl hk a k).s.ready = rest ++ app := by
  induction k with
  | zero => intro a l rest _ hr hl; have : l = [] := List.eq_nil_of_length_eq_zero hl; subst this; exact ⟨[], by simpa [stepsA] using hr⟩
  | succ k ih =>
    intro a l rest h hr hl
    cases l with
    | nil => simp at hl
    | cons cb l' =>
      have hr' : a.s.ready = cb :: (l' ++ rest) := by simpa using hr
      obtain ⟨app, happ⟩ := runCbA_ready fl hk { a with s := { a.s with ready := l' ++ rest } } cb (pop_inv h hr')
      have hst := stepA_cons fl hk a cb _ hr'
      obtain ⟨app2, happ2⟩ := ih (stepA fl hk a) l' (rest ++ app) (stepA_inv fl hk a h)
        (by rw [hst, happ]; simp) (by simpa using hl)
      exact ⟨app ++ app2, by simp only [stepsA]; rw [happ2]; simp⟩

theorem stepsA_succ {D : Type} (fl : Flags) (hk : Hooks D) (k : Nat) : ∀ (a : StA D),
    stepsA fl hk a (k + 1) = stepA fl hk (stepsA fl hk a k) := by
  induction k with
  | zero => intro a; rfl
  | succ k ih => intro a; simp only [stepsA] at ih ⊢; exact ih (stepA fl hk a)

/-- the state in which the registration coroutine of a new submission runs: the record exists, the callbacks
    that were queued before the submission have run, the registration itself has just been popped -/
def regPoint {D : Type} (fl : Flags) (hk : Hooks D) (a : StA D) (rec : Job) : StA D :=
  let a1 := stepsA fl hk (submitPre a rec) a.s.ready.length
  { a1 with s := { a1.s with ready := a1.s.ready.tail } }

theorem submit_eq {D : Type} (fl : Flags) (hk : Hooks D) (a : StA D) (h : InvB a) (ident : Nat) (deps : List Origin)
    (code : Nat) (marker : Bool) :
    applyA fl hk a (.submit ident deps code marker) =
      submitPost { (regPoint fl hk a (newJob a.s ident deps code marker)) with
                   s := (regPoint fl hk a (newJob a.s ident deps code marker)).s.register fl a.s.n } a.s.n ∧
    InvP (some (.register a.s.n)) (regPoint fl hk a (newJob a.s ident deps code marker)).s
      (regPoint fl hk a (newJob a.s ident deps code marker)).adopted ∧
    RegP (some (.register a.s.n)) (regPoint fl hk a (newJob a.s ident deps code marker)).s := by
  have h0 := submitPre_invB a h (newJob a.s ident deps code marker) ⟨rfl, rfl, rfl⟩
  obtain ⟨app, happ⟩ := stepsA_fifo fl hk a.s.ready.length (submitPre a (newJob a.s ident deps code marker))
    a.s.ready [.register a.s.n] h0.1 (by simp [submitPre]) rfl
  have h1 := stepsA_invB fl hk a.s.ready.length _ h0
  have hr : (stepsA fl hk (submitPre a (newJob a.s ident deps code marker)) a.s.ready.length).s.ready = .register a.s.n :: app := by
    simpa using happ
  refine ⟨?_, ?_, ?_⟩
  · simp only [applyA, stepsA_succ]
    rw [stepA_cons fl hk _ _ _ hr, runCbA_register]
    simp [regPoint, hr]
  · have := pop_inv h1.1 hr
    simpa [regPoint, hr] using this
  · have := regP_pop h1.2 hr
    simpa [regPoint, hr] using this

theorem register_dedup (fl : Flags) (s : St) (j o : Nat) (hl : lookup (s.jobs j).ident s.registry = some o)
    (hs : (s.jobs o).state ≠ .error) :
    (s.register fl j).regResult = some (some o) ∧ (s.register fl j).jobs = s.jobs ∧ (s.register fl j).eff = s.eff ∧
    (s.register fl j).n = s.n := by
  unfold St.register; simp [hl, hs]

theorem submitPost_dup {D : Type} (a : StA D) (j o : Nat) (h : a.s.regResult = some (some o)) :
    submitPost a j = { a with s := { a.s with eff := upd a.s.eff j o } } := by
  unfold submitPost; simp [h]

/-- De-duplication (any hooks): if, when the registration of a new submission runs, its identifier is registered to a
    job `o` that is not in state ERROR, then the registration returns `o`, `o` is an earlier submission with the same
    identifier, `o` stands for the new submission, and the new submission has no coroutine and no launch. -/
theorem dedupA {D : Type} (fl : Flags) (hk : Hooks D) (a : StA D) (h : InvB a) (ident : Nat) (deps : List Origin)
    (code : Nat) (marker : Bool) (o : Nat)
    (hl : lookup ident (regPoint fl hk a (newJob a.s ident deps code marker)).s.registry = some o)
    (hs : ((regPoint fl hk a (newJob a.s ident deps code marker)).s.jobs o).state ≠ .error) :
    let a' := applyA fl hk a (.submit ident deps code marker)
    a'.s.regResult = some (some o) ∧ a'.s.eff a.s.n = o ∧ o < a.s.n ∧ (a'.s.jobs o).ident = ident ∧
    (a'.s.jobs a.s.n).pc = .none ∧ (a'.s.jobs a.s.n).launches = 0 := by
  obtain ⟨he, hp, hq⟩ := submit_eq fl hk a h ident deps code marker
  have h0 := submitPre_invB a h (newJob a.s ident deps code marker) ⟨rfl, rfl, rfl⟩
  have hpc0 : ((submitPre a (newJob a.s ident deps code marker)).s.jobs a.s.n).pc = .none := by simp [submitPre, upd, newJob]
  obtain ⟨t1, t2, t3, t4, -⟩ := stepsA_idle fl hk a.s.ready.length _ h0.1 a.s.n hpc0
  generalize hrp : regPoint fl hk a (newJob a.s ident deps code marker) = rp at *
  have hjobs : rp.s.jobs = (stepsA fl hk (submitPre a (newJob a.s ident deps code marker)) a.s.ready.length).s.jobs := by
    rw [← hrp]; rfl
  have hn : rp.s.n = a.s.n + 1 := by rw [← hrp]; simp only [regPoint]; rw [t4]; rfl
  have hid : (rp.s.jobs a.s.n).ident = ident := by rw [hjobs, t3]; simp [submitPre, upd, newJob]
  obtain ⟨r1, r2, r3⟩ := hq.r3 ident o hl
  have hon : o ≠ a.s.n := by
    intro e; subst e; simp [cRegP] at r3
  obtain ⟨g1, g2, g3, g4⟩ := register_dedup fl rp.s a.s.n o (by rw [hid]; exact hl) hs
  intro a'
  have ea : a' = submitPost { rp with s := rp.s.register fl a.s.n } a.s.n := he
  rw [ea, submitPost_dup _ _ o g1]
  refine ⟨g1, by simp [upd], by omega, by simp [g2, r2], ?_, ?_⟩
  · simp only [g2, hjobs]; exact t1
  · simp only [g2, hjobs]; rw [t2]; simp [submitPre, upd, newJob]


/-! ### reachable states -/

/-- states of the adoption-extended scheduler reachable by any event sequence and any behaviour of the world
    (`env` changes the world arbitrarily between events) -/
inductive ReachA {D : Type} (fl : Flags) (hk : Hooks D) (totals : List Nat) : StA D → Prop where
  | init (d : D) : ReachA fl hk totals { s := St.init totals, d := d }
  | ev {a : StA D} (e : Ev) : ReachA fl hk totals a → ReachA fl hk totals (applyA fl hk a e)
  | env {a : StA D} (d : D) : ReachA fl hk totals a → ReachA fl hk totals { a with d := d }
  | restart {a : StA D} (d : D) : ReachA fl hk totals a → ReachA fl hk totals { s := St.init totals, d := d }

theorem reachA_invB {D : Type} {fl : Flags} {hk : Hooks D} {totals : List Nat} {a : StA D} (h : ReachA fl hk totals a) : InvB a := by
  induction h with
  | init d => exact init_invB totals d
  | ev e _ ih => exact applyA_invB fl hk _ e ih
  | env d _ ih => exact ih
  | restart d _ _ => exact init_invB totals d

/-- states of M2 (`Model/Sched.lean`) reachable from `St.init totals` by any event list -/
def Reachable (fl : Flags) (totals : List Nat) (s : St) : Prop :=
  ∃ evs : List Ev, s = evs.foldl (St.apply fl) (St.init totals)

theorem reachable_reachA {fl : Flags} {totals : List Nat} {s : St} (h : Reachable fl totals s) :
    ReachA fl plain totals { s := s, d := () } := by
  obtain ⟨evs, rfl⟩ := h
  suffices ∀ (evs : List Ev) (s0 : St), ReachA fl plain totals { s := s0, d := () } →
      ReachA fl plain totals { s := evs.foldl (St.apply fl) s0, d := () } from this evs _ (ReachA.init ())
  intro evs
  induction evs with
  | nil => intro s0 h; exact h
  | cons e es ih =>
    intro s0 h
    have := ReachA.ev e h
    rw [applyA_plain_eq] at this
    exact ih _ this

theorem reachable_invB {fl : Flags} {totals : List Nat} {s : St} (h : Reachable fl totals s) :
    InvB ({ s := s, d := () } : StA Unit) := reachA_invB (reachable_reachA h)

theorem Reachable.apply {fl : Flags} {totals : List Nat} {s : St} (h : Reachable fl totals s) (e : Ev) :
    Reachable fl totals (s.apply fl e) := by
  obtain ⟨evs, rfl⟩ := h
  exact ⟨evs ++ [e], by simp [List.foldl_append]⟩

end XpmVerif.Restart
