import XpmVerif.Proofs.CacheCoherent
/-! C01 — "asking for a configuration's identifier before or after it is sealed, or after identifiers of
    related configurations were requested in any order, always yields the same identifier".

    `rawId`/`fullId` (Model/Ident.lean) are the cache-free specification; `step` (Model/IdentImpl.lean) is
    the implementation with the `_raw_identifier`/`_full_identifier` caches, the loop flag and sealing.
    A *query-only history* is a list of `sealOp n | reqRaw n | reqFull n` (`Op.isQuery`); `runOps` folds
    `step` over it and returns the outputs; `specOut hc g` is the specification's answer on graph `g`.
    All theorems hold for every graph (no size bound, sharing, cycles, dangling references — no
    well-formedness is needed), every initial assignment of `sealed` flags, every history, every hash
    structure; `flagStored = true` is the obligation `C01.loop_flag_is_stored` on the source
    (without it the statement is false: `C01.request_order_matters_without_flag`). -/
namespace XpmVerif.C01Cache
open XpmVerif.Ident List

/-- **sealed or not.** The specification identifiers do not read `sealed` flags: sealing (from any node)
    changes neither the raw nor the full identifier of any configuration; more generally two graphs that
    differ only by `sealed` flags (`SameContent`) have the same identifiers. -/
theorem identifier_ignores_sealing {D : Type} (hc : HC D) (g g' : Graph) (k n : Nat) :
    (rawId hc (sealFrom g k) n = rawId hc g n ∧ fullId hc (sealFrom g k) n = fullId hc g n) ∧
    (SameContent g g' → rawId hc g' n = rawId hc g n ∧ fullId hc g' n = fullId hc g n) :=
  ⟨⟨(sameContent_sealFrom g k).rawId hc n, (sameContent_sealFrom g k).fullId hc n⟩,
   fun h => ⟨h.rawId hc n, h.fullId hc n⟩⟩

/-- **stage 1, acyclic graphs.** If the hash-relevant reference structure is acyclic (`Ranked g rank`:
    `rank m < rank n` for every `m ∈ nodeRefs g.mt n (g.node n)`, and `rank n ≤ g.size`), then along every
    query-only history started with empty caches every `reqRaw n` returns `rawId hc g n` and every
    `reqFull n` returns `fullId hc g n`.
    `LeOrder hc`: the digest order used by `sorted(pre_tasks_ids)` is a total order (needed because the
    implementation and the specification enumerate the pre-tasks in different orders before sorting). -/
theorem cache_coherent_acyclic {D : Type} (hc : HC D) (ho : LeOrder hc) (g : Graph) (rank : Nat → Nat)
    (hr : Ranked g rank) (ops : List Op) (hq : ∀ o, o ∈ ops → o.isQuery = true) :
    (runOps hc true { g := g, c := Caches.empty } ops).2 = ops.map (specOut hc g) :=
  runOps_acyclic hc ho g rank hr ops hq

/-- **stage 1, the facts behind it.** In a ranked graph, for the stacks that can occur (`Above rank stack n`:
    every member has a rank `≥ rank n`; the empty stack is one): (a) the specification value is the same under
    every such stack and every fuel above `rank n` — no cycle reference is emitted; (b) the loop flag is never
    set, whatever the caches; (c) `computeAt` with any cache holding specification values returns `rawId`. -/
theorem acyclic_context_independent {D : Type} (hc : HC D) (g : Graph) (rank : Nat → Nat) (hr : Ranked g rank) :
    (∀ f f' stack stack' n, rank n < f → rank n < f' → Above rank stack n → Above rank stack' n →
      rawAt hc g f stack n = rawAt hc g f' stack' n) ∧
    (∀ (c : Caches D) f stack n, Above rank stack n → escAt g c f stack n = 0) ∧
    (∀ (c : Caches D), (∀ n d b, c.raw n = some (d, b) → d = rawId hc g n) →
      ∀ f stack n, rank n < f → Above rank stack n → computeAt hc g c f stack n = rawId hc g n) :=
  ⟨rawAt_acyclic hc g rank hr, fun c => escAt_acyclic g rank hr c, fun c hinv => computeAt_acyclic hc g rank hr c hinv⟩

/-- **the general statement (cycles included).** For every graph `g`, every query-only history
    (`sealOp`/`reqRaw`/`reqFull` on arbitrary nodes in arbitrary order) started with empty caches and the
    loop flag stored: the list of outputs is the list of specification answers on the initial graph —
    every `reqRaw n` returns `rawId hc g n`, every `reqFull n` returns `fullId hc g n`
    (by `identifier_ignores_sealing` these are also the specification values of the graph at that moment). -/
theorem cache_coherent {D : Type} (hc : HC D) (ho : LeOrder hc) (g : Graph)
    (ops : List Op) (hq : ∀ o, o ∈ ops → o.isQuery = true) :
    (runOps hc true { g := g, c := Caches.empty } ops).2 = ops.map (specOut hc g) :=
  runOps_general hc ho g ops hq

/-- **state form.** After any query-only history the graph differs from the initial one by `sealed` flags
    only, and *whatever is requested next* — raw or full identifier of any node — is answered with the
    specification value of the current graph (equivalently of the initial one). -/
theorem cache_coherent_state {D : Type} (hc : HC D) (ho : LeOrder hc) (g : Graph)
    (ops : List Op) (hq : ∀ o, o ∈ ops → o.isQuery = true) (n : Nat) :
    let s := (runOps hc true { g := g, c := Caches.empty } ops).1
    SameContent g s.g ∧ (reqRaw hc true s n).2 = rawId hc s.g n ∧ (reqFull hc true s n).2 = fullId hc s.g n := by
  intro s
  have hs : Good hc g (CycleInv hc g) s :=
    runOps_good hc ho g _ (rawSound_general hc g) ops _ hq (good_empty hc g _ (fun _ _ _ h => by cases h))
  refine ⟨hs.1, ?_, ?_⟩
  · rw [hs.1.rawId]; exact (rawSound_general hc g s n hs.1 hs.2.1).1
  · rw [hs.1.fullId]; exact (reqFull_sound hc ho g _ (rawSound_general hc g) s n hs).1

/-- **raw identifiers need no assumption on the digest order.** Histories of `seal` and raw-identifier
    requests are coherent for every hash structure whatsoever. -/
theorem cache_coherent_raw {D : Type} (hc : HC D) (g : Graph)
    (ops : List Op) (hq : ∀ o, o ∈ ops → o.isRawQuery = true) :
    (runOps hc true { g := g, c := Caches.empty } ops).2 = ops.map (specOut hc g) :=
  runOps_raw_sound hc g _ (rawSound_general hc g) ops _ hq (SameContent.refl g) (fun _ _ _ h => by cases h)

/-- **why it works** (the two facts behind the cache invariant, for every graph and every cache satisfying
    `CycleInv`: cached values are specification values, and an entry whose loop flag is false belongs to a
    node on no cycle of hash-relevant references):
    (a) a node on a cycle gets its loop flag set when its identifier is computed from the empty stack;
    (b) `computeAt` under every stack that is a chain of references equals the specification `rawAt`;
    (c) a node on no cycle has the value `rawId` in every such context. -/
theorem cache_invariant_facts {D : Type} (hc : HC D) (g : Graph) (c : Caches D) (hinv : CycleInv hc g c.raw) :
    (∀ n, OnCycle g n → 1 ≤ escAt g c (g.size + 1) [] n) ∧
    (∀ f stack n, StackOK g stack n → FuelOK g f stack n → computeAt hc g c f stack n = rawAt hc g f stack n) ∧
    (∀ f stack n, ¬ OnCycle g n → StackOK g stack n → FuelOK g f stack n → rawAt hc g f stack n = rawId hc g n) :=
  ⟨escAt_onCycle hc g c hinv, computeAt_eq_rawAt hc g c hinv,
   fun f stack n hn hs hf => rawAt_of_not_onCycle hc g f stack n hn hs hf⟩

/-! ### non-vacuity -/

/-- the order hypothesis is satisfiable (digests ordered as numbers; for the real code: hex strings). -/
example : LeOrder exHC := exHC_order

/-- the rank hypothesis is satisfiable on a graph with a shared sub-configuration, a producing task, a dict
    and a list value. -/
example : Ranked exDag (fun n => 4 - n) := exDag_ranked

/-- stage 1 on a concrete history: request, seal, request again in another order. -/
example : (runOps exHC true { g := exDag, c := Caches.empty }
      [.reqFull 0, .reqRaw 3, .sealOp 0, .reqRaw 2, .reqFull 0, .reqRaw 1, .reqFull 3]).2
    = [.reqFull 0, .reqRaw 3, .sealOp 0, .reqRaw 2, .reqFull 0, .reqRaw 1, .reqFull 3].map (specOut exHC exDag) :=
  cache_coherent_acyclic exHC exHC_order exDag _ exDag_ranked _ (by decide)

/-- the general theorem applies to a graph with a cycle `0 → 1 → 2 → 0` (partly sealed at the start) … -/
example : OnCycle exCyc 0 := exCyc_onCycle

/-- … on a history that requests members of the cycle before and after sealing, in several orders. -/
example : (runOps exHC true { g := exCyc, c := Caches.empty }
      [.reqRaw 1, .reqRaw 0, .sealOp 1, .reqRaw 0, .reqRaw 1, .reqFull 1, .reqRaw 2, .reqFull 1]).2
    = [.reqRaw 1, .reqRaw 0, .sealOp 1, .reqRaw 0, .reqRaw 1, .reqFull 1, .reqRaw 2, .reqFull 1].map (specOut exHC exCyc) :=
  cache_coherent exHC exHC_order exCyc _ (by decide)

/-- the answers are not degenerate: the three members of the cycle and the leaf have distinct identifiers,
    and the full identifier of node 1 (pre-task, init-task) differs from its raw identifier. -/
example : (rawId exHC exCyc 0 ≠ rawId exHC exCyc 1 ∧ rawId exHC exCyc 1 ≠ rawId exHC exCyc 2
    ∧ rawId exHC exCyc 2 ≠ rawId exHC exCyc 3 ∧ fullId exHC exCyc 1 ≠ rawId exHC exCyc 1) := by decide

/-- `flagStored = true` is necessary: on the same graph the history *seal, request 0, request 1* answers
    the specification with the flag stored and something else without it (finding F1). -/
example :
    outIds (runOps exHC true { g := exCyc, c := Caches.empty } [.sealOp 0, .reqRaw 0, .reqRaw 1]).2
      = [none, some (rawId exHC exCyc 0), some (rawId exHC exCyc 1)] ∧
    outIds (runOps exHC false { g := exCyc, c := Caches.empty } [.sealOp 0, .reqRaw 0, .reqRaw 1]).2
      ≠ [none, some (rawId exHC exCyc 0), some (rawId exHC exCyc 1)] := by decide

end XpmVerif.C01Cache
