import XpmVerif.Basic.JsonUtil
import XpmVerif.Model.Sched
import XpmVerif.Generated.SchedFlags
/-! Line-protocol driver for M2 (scheduler): C04 C05 C06 C07 C08 C09. -/
open Lean XpmVerif XpmVerif.J XpmVerif.Sched

def originOf (j : Json) : Origin :=
  let a := arr j
  if J.str (a.getD 0 Json.null) == "j" then .job (nat (a.getD 1 Json.null))
  else .tok (nat (a.getD 1 Json.null)) (nat (a.getD 2 Json.null))

def jsName : JS → String
  | .unscheduled => "UNSCHEDULED" | .waiting => "WAITING" | .ready => "READY" | .running => "RUNNING"
  | .done => "DONE" | .error => "ERROR"

def observe (s : St) (njobs : Nat) : Json :=
  let idx := List.range njobs
  let sub (j : Nat) : Bool := j < s.n
  let fut (j : Nat) : Json :=
    if !sub j then Json.null else
    match (s.jobs j).pc with
    | .none => "none"
    | .finished r => jsName r
    | _ => "pending"
  Json.mkObj [
    ("states", Json.arr (idx.map fun j => if sub j then (jsName (s.jobs j).state : Json) else Json.null).toArray),
    ("unsat", Json.arr (idx.map fun j => if sub j then ((s.jobs j).unsat : Json) else Json.null).toArray),
    ("futures", Json.arr (idx.map fut).toArray),
    ("launches", Json.arr (idx.map fun j => ((s.jobs j).launches : Json)).toArray),
    ("avail", Json.arr ((List.range s.ntok).map fun t => (s.avail t : Json)).toArray),
    ("unfinished", (s.unfinished : Json)),
    ("failed", Json.arr (s.failed.map fun i => (s!"id{i}" : Json)).toArray),
    ("nready", (s.ready.length : Json)),
    ("threads", Json.arr (s.threads.map fun (k, j) => match k with
        | .lockEnter => Json.arr #["lockEnter", Json.null]
        | .lockExit => Json.arr #["lockExit", Json.null]
        | .code => Json.arr #["code", (j : Json)]
        | .doneH => Json.arr #["doneH", (j : Json)]).toArray),
    ("waiter", (match s.waiter with
        | .none => "none" | .returned => "returned" | .raised => "raised" | _ => "pending" : String))]

structure DS' where
  s : St
  njobs : Nat
  specs : List Json

def stepJ (d : DS') (j : Json) : DS' × Json :=
  match strF j "op" with
  | "init" =>
    let specs := arrF j "jobs"
    let d' : DS' := { s := St.init ((arrF j "tokens").map nat), njobs := specs.length, specs := specs }
    (d', observe d'.s d'.njobs)
  | "ev" =>
    let e := arrF j "e"
    let ev : Ev :=
      match J.str (e.getD 0 Json.null) with
      | "submit" =>
        let js := d.specs.getD (nat (e.getD 1 Json.null)) Json.null
        .submit (natF js "ident") ((arrF js "deps").map originOf) (natF js "code") (boolF js "marker")
      | "step" => .step
      | "deliver" => .deliver (nat (e.getD 1 Json.null))
      | _ => .wait
    let s' := d.s.apply Gen.schedFlags ev
    ({ d with s := s' }, observe s' d.njobs)
  | op => (d, Json.mkObj [("error", Json.str s!"bad-op {op}")])

def main : IO Unit := J.loop stepJ { s := {}, njobs := 0, specs := [] }
