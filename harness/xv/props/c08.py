"""C08 — jobs running under a token never hold more than its capacity (one scheduler, in-process token; the file-based multi-scheduler part is xv.props.c08 thorough)."""
from .. import common
from . import _sched

PROP = "C08"
MODULES = ["XpmVerif.Properties.C08"]
GEN = dict(max_jobs=7, max_tokens=3, resubmit=False, markers=False, fail_p=0.15)
RULE = ("random workloads with up to 3 tokens (totals 1-4, requests 1-total) x random schedules + exhaustive schedules of 5 small workloads; monitor: at every event the running jobs' requests sum to <= total and availability >= 0; non-trivial = some dependency and >= 2 out-of-FIFO deliveries")


def prove(ctx):
    _sched.prove(ctx, MODULES)


def correspond(ctx):
    _sched.run(ctx, PROP, GEN, RULE, 1500, 25000)


def search(ctx):
    _sched.search(ctx, PROP, GEN)


def run_witness(ctx, finding):
    _sched.run_witness(ctx, PROP, finding)


def replay(ctx, obj):
    return _sched.replay_events(ctx, PROP, obj)
