/-! M1a (base types): how a *declaration* in a class body becomes the flags of `core/arguments.py::Argument`.
    Import-free.  The decision functions themselves are regenerated from the source
    (`Generated/ArgFlags.lean`, written by `harness/xv/translate/argflags.py`); `Model/ArgDecl.lean` composes them. -/
namespace XpmVerif.ArgDecl

/-- the annotation used in the class body (`harness/xv/gen/cfggen.py` `ArgSpec.decl`):
    `x: Param[T]`, `Meta[T]`, `Option[T]`, `Constant[T]`, `Annotated[Path, pathgenerator(…)]`,
    `x: Param[T] = field(default_factory=…)`. -/
inductive Kind where
  | param | metaParam | option | constant | pathgen | factory
  deriving DecidableEq, Repr, Inhabited

/-- the class of `core/types.py` that `Type.fromType` returns for the annotated type (only the head matters
    for the flags). -/
inductive TyTag where
  | int | float | str | bool | path | enum | cfg | list | dict | any
  deriving DecidableEq, Repr, Inhabited

/-- which of the objects in scope an attribute / keyword ends up holding (the objects themselves are opaque:
    only `is None` is ever asked of them). -/
inductive Sel where
  | none            -- Python `None`
  | dflt            -- `Argument.__init__`'s parameter `default`
  | gen             -- … its parameter `generator`
  | fieldDefault    -- `default.default` (`default` a `field`)
  | fieldFactory    -- `default.default_factory`
  | kwDflt          -- `ArgumentOptions.kwargs["default"]` as left by the annotations
  | classAttr       -- `getattr(originaltype, name, None)`: the class attribute `x: … = v`
  | fresh           -- an object built on the spot (`PathGenerator(…)`): never `None`
  deriving DecidableEq, Repr, Inhabited

/-- everything `Argument.__init__` can observe of its parameters. -/
structure InitEnv where
  dNone : Bool          -- `default is None`
  gNone : Bool          -- `generator is None`
  isField : Bool        -- `isinstance(default, field)`
  fdNone : Bool         -- `default.default is None`
  ffNone : Bool         -- `default.default_factory is None`
  tyIgnore : Bool       -- `type.ignore`
  constant : Bool
  required : Option Bool
  ignored : Option Bool
  deriving DecidableEq, Repr, Inhabited

/-- everything `ArgumentOptions.create` can observe. -/
structure CreateEnv where
  optional : Bool       -- `get_optional(typehint) is not None`
  kwHas : Bool          -- `"default" in self.kwargs`
  kwDNone : Bool        -- `self.kwargs["default"] is None`
  caNone : Bool         -- `getattr(originaltype, name, None) is None`
  deriving DecidableEq, Repr, Inhabited

def Sel.isNoneI (e : InitEnv) : Sel → Bool
  | .none => true
  | .dflt => e.dNone
  | .gen => e.gNone
  | .fieldDefault => e.fdNone
  | .fieldFactory => e.ffNone
  | _ => false

def Sel.isNoneC (e : CreateEnv) : Sel → Bool
  | .none => true
  | .kwDflt => e.kwDNone
  | .classAttr => e.caNone
  | _ => false

/-- keywords an annotation puts into `ArgumentOptions.kwargs` (those that matter for the flags). -/
structure Hint where
  ignored : Option Bool := none
  constant : Bool := false
  generator : Bool := false
  deriving DecidableEq, Repr, Inhabited

/-- how the argument table of a class with several configuration bases is searched (`Model/ClassTable.lean`). -/
inductive Rule where
  | depthFirst      -- `ChainMap({}, *(base.arguments for base in parents()))`: the bases' tables, each searched the same way
  | mro             -- nearest declaration in the MRO
  deriving DecidableEq, Repr, Inhabited

end XpmVerif.ArgDecl
