import XpmVerif.Model.Sched
/-! Proofs for C04 (scheduling part): the dependency counter is sound, `ok` means the origin is
    `done`, `done` is stable, and a launch happens only when every job dependency is `done`.
    One invariant `Inv`, preserved by every callback / event of `Model/Sched.lean`. -/
namespace XpmVerif.SchedDeps
open XpmVerif.Sched

/-! ### `eventSet` and `depChanged` on the five fields that matter -/

@[simp] theorem eventSet_state (jb : Job) : (eventSet jb).1.state = jb.state := by
  unfold eventSet; split
  · rfl
  · split <;> rfl
@[simp] theorem eventSet_pc (jb : Job) : (eventSet jb).1.pc = jb.pc := by
  unfold eventSet; split
  · rfl
  · split <;> rfl
@[simp] theorem eventSet_deps (jb : Job) : (eventSet jb).1.deps = jb.deps := by
  unfold eventSet; split
  · rfl
  · split <;> rfl
@[simp] theorem eventSet_unsat (jb : Job) : (eventSet jb).1.unsat = jb.unsat := by
  unfold eventSet; split
  · rfl
  · split <;> rfl
@[simp] theorem eventSet_launches (jb : Job) : (eventSet jb).1.launches = jb.launches := by
  unfold eventSet; split
  · rfl
  · split <;> rfl

/-- the state component of `depChanged`. -/
def dcState (fl : Flags) (state : JS) (unsat : Int) (st cur : DS) : JS :=
  if st = cur then state else
  let s1 := if st = .fail ∧ !state.finished then JS.error else state
  if unsat - (val st - val cur) = 0 ∧ (!fl.readyGuarded ∨ s1 = .waiting) then .ready else s1

theorem depChanged_fields (fl : Flags) (jb : Job) (d : Nat) (st : DS) (hd : d < jb.deps.length) :
    let r := (depChanged fl jb d st).1
    r.deps = jb.deps.set d { jb.deps[d] with cur := st } ∧ r.pc = jb.pc ∧ r.launches = jb.launches ∧
    r.unsat = jb.unsat - (val st - val jb.deps[d].cur) ∧
    r.state = dcState fl jb.state jb.unsat st jb.deps[d].cur := by
  have hg : jb.deps.getD d default = jb.deps[d] := by simp [List.getD, hd]
  simp only [depChanged, hg, dcState]
  by_cases h1 : st = jb.deps[d].cur
  · subst h1; simp; exact (List.set_getElem_self hd).symm
  · simp only [h1, if_false]
    by_cases h2 : st = DS.fail ∧ (!jb.state.finished) = true
    · simp only [h2, and_self, if_true, eventSet_unsat, eventSet_state]
      split <;> simp [List.getElem?_eq_getElem hd]
    · simp only [h2, if_false]
      split <;> simp [List.getElem?_eq_getElem hd]

/-! ### the counter -/

/-- number of dependencies whose recorded status is not `ok`. -/
def nok (l : List Dep) : Nat := l.countP (fun d => decide (d.cur ≠ .ok))

theorem nok_set (l : List Dep) (d : Nat) (h : d < l.length) (st : DS) :
    (nok (l.set d { l[d] with cur := st }) : Int) = nok l - (val st - val l[d].cur) := by
  unfold nok
  rw [List.countP_set h]
  have : List.countP (fun d => decide (d.cur ≠ .ok)) l ≥ (if (fun d : Dep => decide (d.cur ≠ .ok)) l[d] = true then 1 else 0) := by
    split
    · rename_i hh
      exact List.countP_pos_iff.mpr ⟨l[d], List.getElem_mem h, hh⟩
    · omega
  generalize List.countP (fun d => decide (d.cur ≠ .ok)) l = c at *
  cases st <;> cases hc : l[d].cur <;> simp [val, hc] at * <;> omega

theorem nok_zero {l : List Dep} (h : nok l = 0) : ∀ d ∈ l, d.cur = .ok := by
  intro d hd
  have := (List.countP_eq_zero.mp h) d hd
  simpa using this

theorem nok_all_wait {l : List Dep} (h : ∀ d ∈ l, d.cur = .wait) : nok l = l.length := by
  apply List.countP_eq_length.mpr
  intro d hd; simp [h d hd]

/-! ### the local invariant of one job record and the step relation on one record -/

/-- local (one record) part of the invariant; depends only on five fields. -/
structure JLoc' (state : JS) (pc : PC) (deps : List Dep) (unsat : Int) (launches : Nat) : Prop where
  none_unsched : pc = .none → state = .unscheduled
  unsched : state = .unscheduled → (pc = .none ∨ pc = .created) ∧ (∀ d ∈ deps, d.cur = .wait) ∧ launches = 0 ∧ unsat = 0
  done_pc : state = .done → pc ≠ .lockEnter ∧ pc ≠ .lockExitAbort ∧ pc ≠ .lockExitRun ∧ pc ≠ .codeWait
  counter : state ≠ .unscheduled → unsat = (nok deps : Int)
  ready_ok : (state = .ready ∨ pc = .lockEnter) → ∀ d ∈ deps, ∀ o, d.origin = .job o → d.cur = .ok

def JLoc (jb : Job) : Prop := JLoc' jb.state jb.pc jb.deps jb.unsat jb.launches

/-- the part of the step relation used to transport the global invariant. -/
structure JBase (a b : Job) : Prop where
  done : a.state = .done → b.state = .done
  origins : b.deps.map (·.origin) = a.deps.map (·.origin)
  act : a.state ≠ .unscheduled → b.state ≠ .unscheduled

theorem JBase.refl (a : Job) : JBase a a := by
  constructor <;> simp

theorem JBase.len {a b : Job} (h : JBase a b) : b.deps.length = a.deps.length := by
  have := congrArg List.length h.origins
  simpa using this

/-- what one callback may do to one record. -/
structure JStep (a b : Job) : Prop where
  done : a.state = .done → b.state = .done
  origins : b.deps.map (·.origin) = a.deps.map (·.origin)
  pcnone : a.pc = .none → b.pc = .none
  act : a.state ≠ .unscheduled → b.state ≠ .unscheduled
  launch : b.launches > a.launches → a.pc = .lockEnter

theorem JStep.refl (a : Job) : JStep a a := by
  constructor <;> simp

theorem JStep.base {a b : Job} (h : JStep a b) : JBase a b := ⟨h.done, h.origins, h.act⟩

theorem JStep.len {a b : Job} (h : JStep a b) : b.deps.length = a.deps.length := h.base.len

/-- a record change that keeps `pc` and `launches`. -/
structure JKeep (a b : Job) : Prop where
  done : a.state = .done → b.state = .done
  origins : b.deps.map (·.origin) = a.deps.map (·.origin)
  act : a.state ≠ .unscheduled → b.state ≠ .unscheduled
  pc : b.pc = a.pc
  launches : b.launches = a.launches

theorem JKeep.refl (a : Job) : JKeep a a := by constructor <;> simp
theorem JKeep.trans {a b c : Job} (h1 : JKeep a b) (h2 : JKeep b c) : JKeep a c :=
  ⟨fun h => h2.done (h1.done h), h2.origins.trans h1.origins, fun h => h2.act (h1.act h),
   h2.pc.trans h1.pc, h2.launches.trans h1.launches⟩
theorem JKeep.step {a b : Job} (h : JKeep a b) : JStep a b :=
  ⟨h.done, h.origins, fun e => h.pc.trans e, h.act, fun e => by have := h.launches; omega⟩
theorem JKeep.then {a b c : Job} (h1 : JKeep a b) (h2 : JStep b c) : JStep a c :=
  ⟨fun h => h2.done (h1.done h), h2.origins.trans h1.origins, fun e => h2.pcnone (h1.pc.trans e),
   fun h => h2.act (h1.act h), fun e => by rw [← h1.pc]; apply h2.launch; have := h1.launches; omega⟩

theorem dcState_cases (fl : Flags) (hfl : fl.readyGuarded = true) (state : JS) (unsat : Int) (st cur : DS) :
    let r := dcState fl state unsat st cur
    (state = .done → r = .done) ∧ (r = .done → state = .done) ∧ (state ≠ .unscheduled → r ≠ .unscheduled) ∧
    (r = .ready → (st ≠ cur ∧ unsat - (val st - val cur) = 0) ∨ state = .ready) := by
  simp only [dcState, hfl]
  cases state <;> cases st <;> cases cur <;> simp [JS.finished] <;> (try split) <;> simp_all

theorem depChanged_ok (fl : Flags) (hfl : fl.readyGuarded = true) (jb : Job) (d : Nat) (st : DS)
    (hd : d < jb.deps.length) (hact : jb.state ≠ .unscheduled) (hloc : JLoc jb)
    (hst : ∀ o, jb.deps[d].origin = .job o → jb.deps[d].cur = .ok → st = .ok) :
    JLoc (depChanged fl jb d st).1 ∧ JKeep jb (depChanged fl jb d st).1 := by
  obtain ⟨e1, e2, e3, e4, e5⟩ := depChanged_fields fl jb d st hd
  obtain ⟨c1, c2, c3, c4⟩ := dcState_cases fl hfl jb.state jb.unsat st jb.deps[d].cur
  have hcnt : (depChanged fl jb d st).1.unsat = nok (depChanged fl jb d st).1.deps := by
    rw [e1, e4, nok_set _ _ hd, hloc.counter hact]
  refine ⟨⟨?_, ?_, ?_, ?_, ?_⟩, ⟨?_, ?_, ?_, ?_, ?_⟩⟩
  · rw [e2, e5]; intro h; exact absurd (hloc.none_unsched h) hact
  · rw [e5]; intro h; exact absurd h (c3 hact)
  · rw [e2, e5]; intro h; exact hloc.done_pc (c2 h)
  · intro _; exact hcnt
  · rw [e2, e5]
    intro hp x hx o ho
    have hold : (jb.state = .ready ∨ jb.pc = .lockEnter) → x.cur = .ok := by
      intro hp'
      rw [e1] at hx
      rcases List.mem_or_eq_of_mem_set hx with hx | hx
      · exact hloc.ready_ok hp' x hx o ho
      · subst hx
        have := hloc.ready_ok hp' _ (List.getElem_mem hd) o ho
        exact hst o ho this
    rcases hp with hp | hp
    · rcases c4 hp with ⟨_, h0⟩ | h
      · rw [← e4, hcnt] at h0
        exact nok_zero (by omega) x hx
      · exact hold (Or.inl h)
    · exact hold (Or.inr hp)
  · rw [e5]; exact c1
  · rw [e1, List.map_set]
    apply List.ext_getElem (by simp)
    intro i h1 h2
    simp only [List.getElem_set, List.getElem_map]
    split
    · rename_i h; subst h; rfl
    · rfl
  · rw [e5]; exact c3
  · exact e2
  · exact e3

/-! ### the global invariant -/

def act (jb : Job) : Prop := jb.state ≠ .unscheduled

/-- what a queued callback may assume about its target. -/
def CbOK (jobs : Nat → Job) : Cb → Prop
  | .check j d => act (jobs j) ∧ d < (jobs j).deps.length
  | .notifyCheck j d => act (jobs j) ∧ d < (jobs j).deps.length
  | .wake j => act (jobs j)
  | .start j => (jobs j).state = .unscheduled ∧ (jobs j).pc = .created
  | _ => True

def notStart : Cb → Prop
  | .start _ => False
  | _ => True

def PairOK (jobs : Nat → Job) (p : Nat × Nat) : Prop := act (jobs p.1) ∧ p.2 < (jobs p.1).deps.length

structure Inv' (n : Nat) (jobs : Nat → Job) (ready : List Cb) (jobDeps tokDeps : Nat → List (Nat × Nat)) : Prop where
  loc : ∀ j, JLoc (jobs j)
  fresh : ∀ j, n ≤ j → (jobs j).pc = .none
  okdone : ∀ j, ∀ d ∈ (jobs j).deps, ∀ o, d.origin = .job o → d.cur = .ok → (jobs o).state = .done
  cbs : ∀ cb ∈ ready, CbOK jobs cb
  starts : ∀ j, ready.count (.start j) ≤ 1
  jdeps : ∀ o, ∀ p ∈ jobDeps o, PairOK jobs p
  tdeps : ∀ t, ∀ p ∈ tokDeps t, PairOK jobs p

def Inv (s : St) : Prop := Inv' s.n s.jobs s.ready s.jobDeps s.tokDeps

/-- pointwise step relation on job tables. -/
def JTr (jobs jobs' : Nat → Job) : Prop := ∀ i, JStep (jobs i) (jobs' i)

theorem JTr.refl (jobs : Nat → Job) : JTr jobs jobs := fun _ => JStep.refl _

theorem JTr.updJob {jobs : Nat → Job} {j : Nat} {jb' : Job} (h : JStep (jobs j) jb') : JTr jobs (upd jobs j jb') := by
  intro i; unfold Sched.upd; split
  · rename_i e; subst e; exact h
  · exact JStep.refl _

/-- pointwise base relation on job tables. -/
def JBTr (jobs jobs' : Nat → Job) : Prop := ∀ i, JBase (jobs i) (jobs' i)

theorem JBTr.updJob {jobs : Nat → Job} {j : Nat} {jb' : Job} (h : JBase (jobs j) jb') : JBTr jobs (upd jobs j jb') := by
  intro i; unfold Sched.upd; split
  · rename_i e; subst e; exact h
  · exact JBase.refl _

theorem PairOK.mono {jobs jobs' : Nat → Job} (h : JBTr jobs jobs') {p : Nat × Nat} (hp : PairOK jobs p) : PairOK jobs' p :=
  ⟨(h p.1).act hp.1, by rw [(h p.1).len]; exact hp.2⟩

/-- replacing one record. -/
theorem Inv'.updJob {n jobs ready jd td} (h : Inv' n jobs ready jd td) (j : Nat) (jb' : Job)
    (hloc : JLoc jb') (hst : JBase (jobs j) jb') (hfresh : n ≤ j → jb'.pc = .none)
    (hstart : Cb.start j ∈ ready → jb'.state = .unscheduled ∧ jb'.pc = .created)
    (hK : ∀ d ∈ jb'.deps, ∀ o, d.origin = .job o → d.cur = .ok → (upd jobs j jb' o).state = .done) :
    Inv' n (upd jobs j jb') ready jd td := by
  have htr : JBTr jobs (Sched.upd jobs j jb') := JBTr.updJob hst
  refine ⟨?_, ?_, ?_, ?_, h.starts, ?_, ?_⟩
  · intro i; unfold Sched.upd; split
    · exact hloc
    · exact h.loc i
  · intro i hi; unfold Sched.upd; split
    · rename_i e; subst e; exact hfresh hi
    · exact h.fresh i hi
  · intro i d hd o ho hc
    by_cases e : i = j
    · subst e; simp only [Sched.upd, if_true] at hd; exact hK d hd o ho hc
    · simp only [Sched.upd, e, if_false] at hd
      exact (htr o).done (h.okdone i d hd o ho hc)
  · intro cb hcb
    have := h.cbs cb hcb
    cases cb with
    | check i d => exact PairOK.mono htr (p := (i, d)) this
    | notifyCheck i d => exact PairOK.mono htr (p := (i, d)) this
    | wake i => exact (htr i).act this
    | start i =>
      show (Sched.upd jobs j jb' i).state = _ ∧ (Sched.upd jobs j jb' i).pc = _
      unfold Sched.upd; split
      · rename_i e; subst e; exact hstart hcb
      · exact this
    | _ => trivial
  · intro o p hp; exact PairOK.mono htr (h.jdeps o p hp)
  · intro o p hp; exact PairOK.mono htr (h.tdeps o p hp)

theorem hK_same {n jobs ready jd td} (h : Inv' n jobs ready jd td) (j : Nat) (jb' : Job)
    (hst : JBase (jobs j) jb') (hdeps : jb'.deps = (jobs j).deps) :
    ∀ d ∈ jb'.deps, ∀ o, d.origin = .job o → d.cur = .ok → (upd jobs j jb' o).state = .done := by
  intro d hd o ho hc
  rw [hdeps] at hd
  exact (JBTr.updJob hst o).done (h.okdone j d hd o ho hc)

/-- appending callbacks that are not `start`. -/
theorem Inv'.addReady {n jobs ready jd td} (h : Inv' n jobs ready jd td) (cbs : List Cb)
    (hcbs : ∀ cb ∈ cbs, CbOK jobs cb ∧ notStart cb) : Inv' n jobs (ready ++ cbs) jd td := by
  refine ⟨h.loc, h.fresh, h.okdone, ?_, ?_, h.jdeps, h.tdeps⟩
  · intro cb hcb
    rcases List.mem_append.mp hcb with hcb | hcb
    · exact h.cbs cb hcb
    · exact (hcbs cb hcb).1
  · intro i
    rw [List.count_append]
    have : List.count (Cb.start i) cbs = 0 := by
      apply List.count_eq_zero.mpr
      intro hm; exact (hcbs _ hm).2
    have := h.starts i
    omega

/-- popping the head of the queue. -/
theorem Inv'.tail {n jobs cb rest jd td} (h : Inv' n jobs (cb :: rest) jd td) :
    Inv' n jobs rest jd td ∧ CbOK jobs cb ∧ (∀ j, cb = .start j → Cb.start j ∉ rest) := by
  refine ⟨⟨h.loc, h.fresh, h.okdone, fun c hc => h.cbs c (List.mem_cons_of_mem _ hc), ?_, h.jdeps, h.tdeps⟩,
    h.cbs cb (List.mem_cons_self), ?_⟩
  · intro i
    have := h.starts i
    rw [List.count_cons] at this
    omega
  · intro j e hm
    subst e
    have h1 := h.starts j
    rw [List.count_cons] at h1
    simp only [beq_self_eq_true, if_true] at h1
    have : List.count (Cb.start j) rest ≥ 1 := List.count_pos_iff.mpr hm
    omega

theorem Inv'.addJobDep {n jobs ready jd td} (h : Inv' n jobs ready jd td) (o : Nat) (p : Nat × Nat)
    (hp : PairOK jobs p) : Inv' n jobs ready (Sched.upd jd o (jd o ++ [p])) td := by
  refine ⟨h.loc, h.fresh, h.okdone, h.cbs, h.starts, ?_, h.tdeps⟩
  intro o' q hq
  unfold Sched.upd at hq; split at hq
  · rcases List.mem_append.mp hq with hq | hq
    · exact h.jdeps o q hq
    · simp at hq; subst hq; exact hp
  · exact h.jdeps o' q hq

theorem Inv'.addTokDep {n jobs ready jd td} (h : Inv' n jobs ready jd td) (t : Nat) (p : Nat × Nat)
    (hp : PairOK jobs p) : Inv' n jobs ready jd (Sched.upd td t (td t ++ [p])) := by
  refine ⟨h.loc, h.fresh, h.okdone, h.cbs, h.starts, h.jdeps, ?_⟩
  intro o' q hq
  unfold Sched.upd at hq; split at hq
  · rcases List.mem_append.mp hq with hq | hq
    · exact h.tdeps t q hq
    · simp at hq; subst hq; exact hp
  · exact h.tdeps o' q hq

def JKTr (jobs jobs' : Nat → Job) : Prop := ∀ i, JKeep (jobs i) (jobs' i)
theorem JKTr.refl (jobs : Nat → Job) : JKTr jobs jobs := fun _ => JKeep.refl _
theorem JKTr.trans {a b c : Nat → Job} (h1 : JKTr a b) (h2 : JKTr b c) : JKTr a c := fun i => (h1 i).trans (h2 i)
theorem JKTr.step {a b : Nat → Job} (h : JKTr a b) : JTr a b := fun i => (h i).step
theorem JKTr.then {a b c : Nat → Job} (h1 : JKTr a b) (h2 : JTr b c) : JTr a c := fun i => (h1 i).then (h2 i)
theorem JKTr.updJob {jobs : Nat → Job} {j : Nat} {jb' : Job} (h : JKeep (jobs j) jb') : JKTr jobs (upd jobs j jb') := by
  intro i; unfold Sched.upd; split
  · rename_i e; subst e; exact h
  · exact JKeep.refl _

theorem Inv.start_not_mem {s : St} (h : Inv s) {j : Nat} (hact : act (s.jobs j)) : Cb.start j ∉ s.ready :=
  fun hm => hact (h.cbs _ hm).1

/-- `St.put` of a record that satisfies the local invariant. -/
theorem Inv.put {s : St} (h : Inv s) (j : Nat) (jb' : Job) (cbs : List Cb) (ths : List (TK × Nat))
    (hloc : JLoc jb') (hst : JStep (s.jobs j) jb')
    (hstart : Cb.start j ∈ s.ready → jb'.state = .unscheduled ∧ jb'.pc = .created)
    (hK : ∀ d ∈ jb'.deps, ∀ o, d.origin = .job o → d.cur = .ok → (upd s.jobs j jb' o).state = .done)
    (hcbs : ∀ cb ∈ cbs, CbOK (upd s.jobs j jb') cb ∧ notStart cb) :
    Inv (s.put j jb' cbs ths) :=
  (Inv'.updJob h j jb' hloc hst.base (fun hn => hst.pcnone (h.fresh j hn)) hstart hK).addReady cbs hcbs

/-- `St.put` on an active job whose `deps` are unchanged. -/
theorem Inv.putAct {s : St} (h : Inv s) (j : Nat) (jb' : Job) (cbs : List Cb) (ths : List (TK × Nat))
    (hact : act (s.jobs j)) (hloc : JLoc jb') (hst : JStep (s.jobs j) jb') (hdeps : jb'.deps = (s.jobs j).deps)
    (hcbs : ∀ cb ∈ cbs, CbOK (upd s.jobs j jb') cb ∧ notStart cb) :
    Inv (s.put j jb' cbs ths) :=
  h.put j jb' cbs ths hloc hst (fun hm => absurd hm (h.start_not_mem hact)) (hK_same h j jb' hst.base hdeps) hcbs

theorem upd_same {α : Type} (f : Nat → α) (j : Nat) (v : α) : upd f j v j = v := by simp [Sched.upd]

theorem Inv.check {s : St} (fl : Flags) (hfl : fl.readyGuarded = true) (h : Inv s) (j d : Nat)
    (hact : act (s.jobs j)) (hd : d < (s.jobs j).deps.length) :
    Inv (s.check fl j d) ∧ JKTr s.jobs (s.check fl j d).jobs := by
  have hg : (s.jobs j).deps.getD d default = (s.jobs j).deps[d] := by simp [List.getD, hd]
  have hst : ∀ o, (s.jobs j).deps[d].origin = .job o → (s.jobs j).deps[d].cur = .ok →
      s.status ((s.jobs j).deps.getD d default).origin = .ok := by
    intro o ho hc
    have := h.okdone j _ (List.getElem_mem hd) o ho hc
    rw [hg, ho]; simp [St.status, this]
  obtain ⟨hloc, hkeep⟩ := depChanged_ok fl hfl (s.jobs j) d _ hd hact (h.loc j) hst
  obtain ⟨e1, -⟩ := depChanged_fields fl (s.jobs j) d (s.status ((s.jobs j).deps.getD d default).origin) hd
  rcases hdc : depChanged fl (s.jobs j) d (s.status ((s.jobs j).deps.getD d default).origin) with ⟨jb', w⟩
  rw [hdc] at hloc hkeep e1
  simp only at hloc hkeep e1
  have hjobs : (s.check fl j d).jobs = upd s.jobs j jb' := by simp only [St.check, hdc, St.put]
  refine ⟨?_, ?_⟩
  · simp only [St.check, hdc]
    apply h.put j jb' _ _ hloc hkeep.step (fun hm => absurd hm (h.start_not_mem hact))
    · intro x hx o ho hc
      rw [e1] at hx
      have hdone : (s.jobs o).state = .done := by
        rcases List.mem_or_eq_of_mem_set hx with hx | hx
        · exact h.okdone j x hx o ho hc
        · subst hx
          simp only at ho hc
          rw [hg, ho] at hc
          simp only [St.status] at hc
          split at hc <;> simp_all
      exact (JTr.updJob hkeep.step o).done hdone
    · intro cb hcb
      split at hcb
      · simp at hcb; subst hcb
        refine ⟨?_, trivial⟩
        show act (upd s.jobs j jb' j)
        rw [upd_same]; exact hkeep.act hact
      · simp at hcb
  · rw [hjobs]; exact JKTr.updJob hkeep

/-! ### record updates -/

/-- changing `pc` of an active record. -/
theorem JLoc'.setPc {st pc deps u l} (h : JLoc' st pc deps u l) (pc' : PC) (hact : st ≠ .unscheduled)
    (h0 : pc' ≠ .none)
    (h1 : pc' = .lockEnter → st = .ready)
    (h2 : st = .done → pc' ≠ .lockEnter ∧ pc' ≠ .lockExitAbort ∧ pc' ≠ .lockExitRun ∧ pc' ≠ .codeWait) :
    JLoc' st pc' deps u l := by
  obtain ⟨a, b, c, d, e⟩ := h
  constructor <;> grind

/-- changing `state` of an active record. -/
theorem JLoc'.setState {st pc deps u l} (h : JLoc' st pc deps u l) (st' : JS) (hact : st ≠ .unscheduled)
    (h0 : st' ≠ .unscheduled)
    (h1 : st' = .ready → st = .ready ∨ u = 0)
    (h2 : st' = .done → pc ≠ .lockEnter ∧ pc ≠ .lockExitAbort ∧ pc ≠ .lockExitRun ∧ pc ≠ .codeWait) :
    JLoc' st' pc deps u l := by
  obtain ⟨a, b, c, d, e⟩ := h
  constructor
  · grind
  · grind
  · grind
  · grind
  · intro hp x hx o ho
    rcases hp with hp | hp
    · rcases h1 hp with h1 | h1
      · exact e (Or.inl h1) x hx o ho
      · have := d hact
        exact nok_zero (by omega) x hx
    · exact e (Or.inr hp) x hx o ho

theorem Inv.act_pc {s : St} (h : Inv s) {j : Nat} (hact : act (s.jobs j)) : (s.jobs j).pc ≠ .none :=
  fun e => hact ((h.loc j).none_unsched e)

/-- `St.put` of a record with the same five fields (only `held`, `event`, `sleeping`, … change). -/
theorem Inv.putSame {s : St} (h : Inv s) (j : Nat) (jb' : Job) (ths : List (TK × Nat))
    (hs : jb'.state = (s.jobs j).state) (hp : jb'.pc = (s.jobs j).pc) (hd : jb'.deps = (s.jobs j).deps)
    (hu : jb'.unsat = (s.jobs j).unsat) (hl : jb'.launches = (s.jobs j).launches) :
    Inv (s.put j jb' [] ths) ∧ JKTr s.jobs (s.put j jb' [] ths).jobs := by
  have hk : JKeep (s.jobs j) jb' := ⟨fun e => hs.trans e, by rw [hd], fun e => by rw [hs]; exact e, hp, hl⟩
  refine ⟨?_, JKTr.updJob hk⟩
  apply h.put j jb' [] ths _ hk.step _ (hK_same h j jb' hk.step.base hd) (by simp)
  · show JLoc' _ _ _ _ _
    rw [hs, hp, hd, hu, hl]; exact h.loc j
  · intro hm; rw [hs, hp]; exact h.cbs _ hm

/-- `St.put` of an active record where only `pc` (and fields outside the invariant) changes. -/
theorem Inv.putPc {s : St} (h : Inv s) (j : Nat) (jb' : Job) (ths : List (TK × Nat)) (hact : act (s.jobs j))
    (hs : jb'.state = (s.jobs j).state) (hd : jb'.deps = (s.jobs j).deps)
    (hu : jb'.unsat = (s.jobs j).unsat) (hl : jb'.launches = (s.jobs j).launches)
    (h0 : jb'.pc ≠ .none)
    (h1 : jb'.pc = .lockEnter → (s.jobs j).state = .ready)
    (h2 : (s.jobs j).state = .done → jb'.pc ≠ .lockEnter ∧ jb'.pc ≠ .lockExitAbort ∧ jb'.pc ≠ .lockExitRun ∧ jb'.pc ≠ .codeWait) :
    Inv (s.put j jb' [] ths) ∧ JTr s.jobs (s.put j jb' [] ths).jobs := by
  have hk : JStep (s.jobs j) jb' :=
    ⟨fun e => hs.trans e, by rw [hd], fun e => absurd e (h.act_pc hact), fun e => by rw [hs]; exact e, fun e => by omega⟩
  refine ⟨?_, JTr.updJob hk⟩
  apply h.putAct j jb' [] ths hact _ hk hd (by simp)
  show JLoc' _ _ _ _ _
  rw [hs, hd, hu, hl]; exact (h.loc j).setPc _ hact h0 h1 h2

theorem Inv.finish {s : St} (h : Inv s) (j : Nat) (hact : act (s.jobs j)) :
    Inv (s.finish j) ∧ JTr s.jobs (s.finish j).jobs := by
  unfold St.finish
  simp only
  split
  · exact Inv.putPc (s := { s with failed := s.failed ++ [(s.jobs j).ident] }) h j _ _ hact rfl rfl rfl rfl
      (by simp) (by simp) (by simp)
  · exact h.putPc j _ _ hact rfl rfl rfl rfl (by simp) (by simp) (by simp)

theorem Inv.loopHead {s : St} (h : Inv s) (j : Nat) (hact : act (s.jobs j)) :
    Inv (s.loopHead j) ∧ JTr s.jobs (s.loopHead j).jobs := by
  unfold St.loopHead
  simp only
  split
  · exact h.finish j hact
  · split
    · split
      · rename_i hr
        exact h.putPc j _ _ hact rfl rfl rfl rfl (by simp) (fun _ => hr) (by simp [hr])
      · exact h.putPc j _ _ hact rfl rfl rfl rfl (by simp) (by simp) (by simp)
    · exact h.putPc j _ _ hact rfl rfl rfl rfl (by simp) (by simp) (by simp)

theorem upd_upd {α : Type} (f : Nat → α) (j : Nat) (a b : α) : upd (upd f j a) j b = upd f j b := by
  funext i; simp only [Sched.upd]; split <;> rfl

theorem Inv.registerDeps (fl : Flags) (hfl : fl.readyGuarded = true) (j : Nat) :
    ∀ (k d : Nat) (s : St), Inv s → act (s.jobs j) → d + k = (s.jobs j).deps.length →
      Inv (St.registerDeps fl s j k d) ∧ JKTr s.jobs (St.registerDeps fl s j k d).jobs := by
  intro k
  induction k with
  | zero => intro d s h _ _; exact ⟨h, JKTr.refl _⟩
  | succ k ih =>
    intro d s h hact hlen
    have hd : d < (s.jobs j).deps.length := by omega
    have hp : PairOK s.jobs (j, d) := ⟨hact, hd⟩
    simp only [St.registerDeps]
    have key : ∀ s1 : St, Inv s1 → s1.jobs = s.jobs →
        Inv (St.registerDeps fl (s1.check fl j d) j k (d + 1)) ∧
        JKTr s.jobs (St.registerDeps fl (s1.check fl j d) j k (d + 1)).jobs := by
      intro s1 h1 hj
      have hact1 : act (s1.jobs j) := by rw [hj]; exact hact
      have hd1 : d < (s1.jobs j).deps.length := by rw [hj]; exact hd
      obtain ⟨h2, t2⟩ := h1.check fl hfl j d hact1 hd1
      have hact2 : act ((s1.check fl j d).jobs j) := (t2 j).act hact1
      have hlen2 : d + 1 + k = ((s1.check fl j d).jobs j).deps.length := by
        have := (t2 j).step.len; rw [this, hj]; omega
      obtain ⟨h3, t3⟩ := ih (d + 1) _ h2 hact2 hlen2
      refine ⟨h3, ?_⟩
      rw [← hj]; exact t2.trans t3
    split
    · exact key _ (Inv'.addJobDep h _ (j, d) hp) rfl
    · exact key _ (Inv'.addTokDep h _ (j, d) hp) rfl

theorem Inv.releaseAll (j : Nat) : ∀ (ds : List Nat) (s : St), Inv s →
    Inv (s.releaseAll j ds) ∧ JKTr s.jobs (s.releaseAll j ds).jobs := by
  intro ds
  induction ds with
  | nil => intro s h; exact h.putSame j _ _ rfl rfl rfl rfl rfl
  | cons d ds ih =>
    intro s h
    simp only [St.releaseAll]
    split
    · exact ih s h
    · rename_i t c _
      have h1 : Inv { s with avail := upd s.avail t (s.avail t + c),
                             ready := s.ready ++ (s.tokDeps t).map (fun (p : Nat × Nat) => Cb.notifyCheck p.1 p.2) } := by
        apply Inv'.addReady h
        intro cb hcb
        obtain ⟨p, hp, rfl⟩ := List.mem_map.mp hcb
        exact ⟨h.tdeps t p hp, trivial⟩
      exact ih _ h1

theorem Inv.acquireAll (j : Nat) : ∀ (k d : Nat) (s : St), Inv s →
    Inv (s.acquireAll j k d).1 ∧ JKTr s.jobs (s.acquireAll j k d).1.jobs ∧
    ∀ d', (s.acquireAll j k d).2 = some d' → d' < d + k := by
  intro k
  induction k with
  | zero => intro d s h; exact ⟨h, JKTr.refl _, by simp [St.acquireAll]⟩
  | succ k ih =>
    intro d s h
    simp only [St.acquireAll]
    split
    · obtain ⟨h1, t1⟩ := h.putSame j { (s.jobs j) with held := (s.jobs j).held ++ [d] } [] rfl rfl rfl rfl rfl
      obtain ⟨h2, t2, b2⟩ := ih (d + 1) _ h1
      exact ⟨h2, t1.trans t2, fun d' e => by have := b2 d' e; omega⟩
    · rename_i t c _
      split
      · exact ⟨h, JKTr.refl _, fun d' e => by simp at e; omega⟩
      · obtain ⟨h1, t1⟩ := Inv.putSame (s := { s with avail := upd s.avail t (s.avail t - c) }) h j
          { (s.jobs j) with held := (s.jobs j).held ++ [d] } [] rfl rfl rfl rfl rfl
        obtain ⟨h2, t2, b2⟩ := ih (d + 1) _ h1
        exact ⟨h2, t1.trans t2, fun d' e => by have := b2 d' e; omega⟩

theorem finish_jobs (s : St) (j : Nat) :
    (s.finish j).jobs = upd s.jobs j { (s.jobs j) with pc := .doneHandler } := by
  unfold St.finish; simp only; split <;> rfl
theorem finish_view (s : St) (j : Nat) :
    (s.finish j).n = s.n ∧ (s.finish j).ready = s.ready ++ [] ∧ (s.finish j).jobDeps = s.jobDeps ∧
    (s.finish j).tokDeps = s.tokDeps := by
  unfold St.finish; simp only; split <;> exact ⟨rfl, rfl, rfl, rfl⟩

theorem JLoc.eventSet {jb : Job} (h : JLoc jb) : JLoc (eventSet jb).1 := by
  unfold JLoc; simp only [eventSet_state, eventSet_pc, eventSet_deps, eventSet_unsat, eventSet_launches]; exact h

theorem JKeep.eventSet (jb : Job) : JKeep jb (eventSet jb).1 := by
  constructor <;> simp

theorem Inv.resume (fl : Flags) (hfl : fl.readyGuarded = true) {s : St} (h : Inv s) (j : Nat) :
    Inv (s.resume fl j) ∧ JTr s.jobs (s.resume fl j).jobs := by
  simp only [St.resume]
  split
  · -- lockEnter
    rename_i hpc
    obtain ⟨h1, t1, b1⟩ := h.acquireAll j (s.jobs j).deps.length 0 s
    rcases hacq : s.acquireAll j (s.jobs j).deps.length 0 with ⟨s1, r⟩
    rw [hacq] at h1 t1 b1
    simp only at h1 t1 b1 ⊢
    have hpc1 : (s1.jobs j).pc = .lockEnter := (t1 j).pc.trans hpc
    have hact : act (s.jobs j) := by
      intro e; have := ((h.loc j).unsched e).1; rw [hpc] at this; simp at this
    have hact1 : act (s1.jobs j) := (t1 j).act hact
    cases r with
    | some d =>
      simp only
      -- `abortReleases`: the locks already taken are given back before the check (both flag values)
      have hrel : Inv (if fl.abortReleases = true then s1.releaseAll j (s1.jobs j).held else s1) ∧
          JKTr s1.jobs (if fl.abortReleases = true then s1.releaseAll j (s1.jobs j).held else s1).jobs := by
        split
        · exact h1.releaseAll j _ s1
        · exact ⟨h1, JKTr.refl _⟩
      obtain ⟨h1', t1'⟩ := hrel
      generalize (if fl.abortReleases = true then s1.releaseAll j (s1.jobs j).held else s1) = s1' at h1' t1' ⊢
      have hpc1' : (s1'.jobs j).pc = .lockEnter := (t1' j).pc.trans hpc1
      have hact1' : act (s1'.jobs j) := (t1' j).act hact1
      have hd : d < (s1'.jobs j).deps.length := by
        have := b1 d rfl; rw [(t1' j).step.len, (t1 j).step.len]; omega
      obtain ⟨h2, t2⟩ := h1'.check fl hfl j d hact1' hd
      have hpc2 : ((s1'.check fl j d).jobs j).pc = .lockEnter := (t2 j).pc.trans hpc1'
      have hact2 : act ((s1'.check fl j d).jobs j) := (t2 j).act hact1'
      have hnd : ((s1'.check fl j d).jobs j).state ≠ .done := by
        intro e; have := ((h2.loc j).done_pc e).1; exact this hpc2
      obtain ⟨h3, t3⟩ := h2.putPc j { ((s1'.check fl j d).jobs j) with pc := .lockExitAbort } [(.lockExit, j)] hact2
        rfl rfl rfl rfl (by simp) (by simp) (fun e => absurd e hnd)
      exact ⟨h3, ((t1.trans t1').trans t2).then t3⟩
    | none =>
      simp only
      have hnd : (s1.jobs j).state ≠ .done := by
        intro e; have := ((h1.loc j).done_pc e).1; exact this hpc1
      have hk : JStep (s1.jobs j) { (s1.jobs j) with launches := (s1.jobs j).launches + 1, state := .running, pc := .lockExitRun } :=
        ⟨fun e => absurd e hnd, rfl, fun e => by rw [hpc1] at e; simp at e, fun _ => by simp, fun _ => hpc1⟩
      refine ⟨?_, t1.then (JTr.updJob hk)⟩
      apply h1.putAct j _ [] _ hact1 _ hk rfl (by simp)
      have hc := (h1.loc j).counter hact1
      constructor <;> simp [hc]
  · -- lockExitAbort
    rename_i hpc
    have hact : act (s.jobs j) := by
      intro e; have := ((h.loc j).unsched e).1; rw [hpc] at this; simp at this
    obtain ⟨h1, t1⟩ := h.releaseAll j (s.jobs j).held s
    generalize s.releaseAll j (s.jobs j).held = s1 at h1 t1 ⊢
    have hpc1 : (s1.jobs j).pc = .lockExitAbort := (t1 j).pc.trans hpc
    have hact1 : act (s1.jobs j) := (t1 j).act hact
    have hnd : (s1.jobs j).state ≠ .done := by
      intro e; have := ((h1.loc j).done_pc e).2.1; exact this hpc1
    have key : ∀ (jb' : Job) (w : Bool), JLoc jb' → JKeep (s1.jobs j) jb' → jb'.deps = (s1.jobs j).deps →
        Inv ((s1.put j jb' (if w then [.wake j] else [])).loopHead j) ∧
        JTr s.jobs ((s1.put j jb' (if w then [.wake j] else [])).loopHead j).jobs := by
      intro jb' w hloc hk hdeps
      have h2 : Inv (s1.put j jb' (if w then [.wake j] else [])) := by
        apply h1.putAct j jb' _ _ hact1 hloc hk.step hdeps
        intro cb hcb
        split at hcb
        · simp at hcb; subst hcb
          refine ⟨?_, trivial⟩
          show act (upd s1.jobs j jb' j)
          rw [upd_same]; exact hk.act hact1
        · simp at hcb
      have t2 : JKTr s1.jobs (s1.put j jb' (if w then [.wake j] else [])).jobs := JKTr.updJob hk
      obtain ⟨h3, t3⟩ := h2.loopHead j ((t2 j).act hact1)
      exact ⟨h3, (t1.trans t2).then t3⟩
    split
    · rename_i hc
      have := key (eventSet { (s1.jobs j) with state := .ready }).1 (eventSet { (s1.jobs j) with state := .ready }).2
      apply this
      · apply JLoc.eventSet
        exact (h1.loc j).setState .ready hact1 (by simp) (fun _ => Or.inr hc.2) (by simp)
      · exact JKeep.trans (show JKeep (s1.jobs j) { (s1.jobs j) with state := .ready } from
          ⟨fun e => absurd e hnd, rfl, fun _ => by simp, rfl, rfl⟩) (JKeep.eventSet _)
      · simp
    · apply key { (s1.jobs j) with state := .waiting } false
      · exact (h1.loc j).setState .waiting hact1 (by simp) (by simp) (by simp)
      · exact ⟨fun e => absurd e hnd, rfl, fun _ => by simp, rfl, rfl⟩
      · rfl
  · -- lockExitRun
    rename_i hpc
    have hact : act (s.jobs j) := by
      intro e; have := ((h.loc j).unsched e).1; rw [hpc] at this; simp at this
    have hnd : (s.jobs j).state ≠ .done := by
      intro e; have := ((h.loc j).done_pc e).2.2.1; exact this hpc
    exact h.putPc j _ _ hact rfl rfl rfl rfl (by simp) (by simp) (fun e => absurd e hnd)
  · -- codeWait
    rename_i hpc
    have hact : act (s.jobs j) := by
      intro e; have := ((h.loc j).unsched e).1; rw [hpc] at this; simp at this
    obtain ⟨h1, t1⟩ := h.releaseAll j (s.jobs j).held s
    generalize s.releaseAll j (s.jobs j).held = s1 at h1 t1 ⊢
    have hpc1 : (s1.jobs j).pc = .codeWait := (t1 j).pc.trans hpc
    have hact1 : act (s1.jobs j) := (t1 j).act hact
    have hnd : (s1.jobs j).state ≠ .done := by
      intro e; have := ((h1.loc j).done_pc e).2.2.2; exact this hpc1
    generalize hX : (if (s1.jobs j).code = 0 then JS.done else JS.error) = X
    have hX' : X = .done ∨ X = .error := by rw [← hX]; split <;> simp
    have hk : JStep (s1.jobs j) { (s1.jobs j) with state := X, pc := .doneHandler } :=
      ⟨fun e => absurd e hnd, rfl, fun e => by rw [hpc1] at e; simp at e,
       fun _ => by rcases hX' with e | e <;> simp [e], fun e => by simp at e⟩
    have h2 : Inv (s1.put j { (s1.jobs j) with state := X, pc := .doneHandler } [] []) := by
      apply h1.putAct j _ [] [] hact1 _ hk rfl (by simp)
      apply JLoc'.setState (st := (s1.jobs j).state) _ X hact1
      · rcases hX' with e | e <;> simp [e]
      · rcases hX' with e | e <;> simp [e]
      · intro _; simp
      · exact (h1.loc j).setPc .doneHandler hact1 (by simp) (by simp) (by simp)
    obtain ⟨v1, v2, v3, v4⟩ := finish_view (s1.put j { (s1.jobs j) with state := X }) j
    have v0 := finish_jobs (s1.put j { (s1.jobs j) with state := X }) j
    have e0 : (s1.put j { (s1.jobs j) with state := X }).jobs j = { (s1.jobs j) with state := X } := upd_same _ _ _
    have v0' : ((s1.put j { (s1.jobs j) with state := X }).finish j).jobs =
        upd s1.jobs j { (s1.jobs j) with state := X, pc := .doneHandler } := by
      rw [v0, e0]; exact upd_upd _ _ _ _
    refine ⟨?_, ?_⟩
    · unfold Inv; rw [v0', v1, v2, v3, v4]
      simpa [Inv, St.put] using h2
    · rw [v0']; exact t1.then (JTr.updJob hk)
  · -- doneHandler
    rename_i hpc
    have hact : act (s.jobs j) := by
      intro e; have := ((h.loc j).unsched e).1; rw [hpc] at this; simp at this
    have hchk : ∀ cb ∈ (s.jobDeps j).map (fun (p : Nat × Nat) => Cb.check p.1 p.2), CbOK s.jobs cb ∧ notStart cb := by
      intro cb hcb
      obtain ⟨p, hp, rfl⟩ := List.mem_map.mp hcb
      exact ⟨h.jdeps j p hp, trivial⟩
    have hw : ∀ cb ∈ [Cb.waiterRun], CbOK s.jobs cb ∧ notStart cb := by
      intro cb hcb; simp at hcb; subst hcb; exact ⟨trivial, trivial⟩
    split
    · have hX : Inv { s with unfinished := s.unfinished - 1, waiter := .notified, ready := s.ready ++ [.waiterRun] ++ (s.jobDeps j).map (fun (p : Nat × Nat) => Cb.check p.1 p.2) } :=
        (Inv'.addReady h _ hw).addReady _ hchk
      exact hX.putPc j _ _ hact rfl rfl rfl rfl (by simp) (by simp) (by simp)
    · have hX : Inv { s with unfinished := s.unfinished - 1, ready := s.ready ++ (s.jobDeps j).map (fun (p : Nat × Nat) => Cb.check p.1 p.2) } :=
        Inv'.addReady h _ hchk
      exact hX.putPc j _ _ hact rfl rfl rfl rfl (by simp) (by simp) (by simp)
  · exact ⟨h, JTr.refl _⟩

theorem Inv.startJob (fl : Flags) (hfl : fl.readyGuarded = true) {s : St} (h : Inv s) (j : Nat)
    (hcb : CbOK s.jobs (.start j)) (hns : Cb.start j ∉ s.ready) :
    Inv (s.startJob fl j) ∧ JTr s.jobs (s.startJob fl j).jobs := by
  obtain ⟨hst, hpc⟩ := hcb
  obtain ⟨-, hwait, hl0, hu0⟩ := (h.loc j).unsched hst
  -- the state after the initialisation (both branches), as one `put` over `s`
  have stage : ∀ (jbA : Job), jbA.pc = .created → jbA.deps = (s.jobs j).deps → jbA.launches = (s.jobs j).launches →
      jbA.state ≠ .unscheduled → jbA.state ≠ .done → JLoc jbA →
      Inv ((s.put j { (s.jobs j) with state := .waiting, event := false, sleeping := false }).put j jbA) ∧
      JKTr s.jobs ((s.put j { (s.jobs j) with state := .waiting, event := false, sleeping := false }).put j jbA).jobs := by
    intro jbA e1 e2 e3 e4 e5 hloc
    have hk : JKeep (s.jobs j) jbA :=
      ⟨fun e => by rw [hst] at e; simp at e, by rw [e2], fun _ => e4, e1.trans hpc.symm, e3⟩
    have hI : Inv (s.put j jbA) :=
      h.put j jbA [] [] hloc hk.step (fun hm => absurd hm hns) (hK_same h j jbA hk.step.base e2) (by simp)
    have hj : ((s.put j { (s.jobs j) with state := .waiting, event := false, sleeping := false }).put j jbA).jobs =
        upd s.jobs j jbA := upd_upd _ _ _ _
    refine ⟨?_, ?_⟩
    · unfold Inv; rw [hj]
      simpa [Inv, St.put] using hI
    · rw [hj]; exact JKTr.updJob hk
  -- marker and loop head
  have tail : ∀ s1 : St, Inv s1 → JKTr s.jobs s1.jobs → act (s1.jobs j) →
      Inv ((if (s1.jobs j).marker then s1.put j { (s1.jobs j) with state := .done } else s1).loopHead j) ∧
      JTr s.jobs ((if (s1.jobs j).marker then s1.put j { (s1.jobs j) with state := .done } else s1).loopHead j).jobs := by
    intro s1 h1 t1 hact1
    have hpc1 : (s1.jobs j).pc = .created := (t1 j).pc.trans hpc
    split
    · have hk : JKeep (s1.jobs j) { (s1.jobs j) with state := .done } :=
        ⟨fun _ => rfl, rfl, fun _ => by simp, rfl, rfl⟩
      have h2 : Inv (s1.put j { (s1.jobs j) with state := .done }) := by
        apply h1.putAct j _ [] [] hact1 _ hk.step rfl (by simp)
        exact (h1.loc j).setState .done hact1 (by simp) (by simp) (fun _ => by rw [hpc1]; simp)
      have t2 : JKTr s1.jobs (s1.put j { (s1.jobs j) with state := .done }).jobs := JKTr.updJob hk
      obtain ⟨h3, t3⟩ := h2.loopHead j ((t2 j).act hact1)
      exact ⟨h3, (t1.trans t2).then t3⟩
    · obtain ⟨h3, t3⟩ := h1.loopHead j hact1
      exact ⟨h3, t1.then t3⟩
  unfold St.startJob
  simp only
  split
  · rename_i hemp
    have hnil : (s.jobs j).deps = [] := by simpa using hemp
    obtain ⟨hA, tA⟩ := stage { (s.jobs j) with state := .ready, event := true, sleeping := false } hpc rfl rfl
      (by simp) (by simp) (by
        show JLoc' _ _ _ _ _
        constructor <;> simp [hpc, hnil, hu0, nok])
    exact tail _ hA tA (by simp [act, St.put, Sched.upd])
  · obtain ⟨hA, tA⟩ := stage { (s.jobs j) with state := .waiting, event := false, sleeping := false, unsat := (s.jobs j).deps.length } hpc rfl rfl (by simp) (by simp) (by
        show JLoc' _ _ _ _ _
        constructor <;> simp [hpc, nok_all_wait hwait])
    have hactA : act (((s.put j { (s.jobs j) with state := .waiting, event := false, sleeping := false }).put j
        { (s.jobs j) with state := .waiting, event := false, sleeping := false, unsat := (s.jobs j).deps.length }).jobs j) := by
      simp [act, St.put, Sched.upd]
    obtain ⟨hB, tB⟩ := Inv.registerDeps fl hfl j (s.jobs j).deps.length 0 _ hA hactA (by simp [St.put, Sched.upd])
    exact tail _ hB (tA.trans tB) ((tB j).act hactA)

theorem Inv.of_view {s s' : St} (h : Inv s) (hn : s'.n = s.n) (hj : s'.jobs = s.jobs) (hr : s'.ready = s.ready)
    (hjd : s'.jobDeps = s.jobDeps) (htd : s'.tokDeps = s.tokDeps) : Inv s' := by
  unfold Inv; rw [hn, hj, hr, hjd, htd]; exact h

theorem register_view (fl : Flags) (s : St) (j : Nat) :
    (s.register fl j).n = s.n ∧ (s.register fl j).jobs = s.jobs ∧ (s.register fl j).ready = s.ready ∧
    (s.register fl j).jobDeps = s.jobDeps ∧ (s.register fl j).tokDeps = s.tokDeps := by
  unfold St.register
  simp only
  split
  · split
    · split <;> exact ⟨rfl, rfl, rfl, rfl, rfl⟩
    · exact ⟨rfl, rfl, rfl, rfl, rfl⟩
  · exact ⟨rfl, rfl, rfl, rfl, rfl⟩

theorem Inv.runCb (fl : Flags) (hfl : fl.readyGuarded = true) {s : St} (h : Inv s) (cb : Cb)
    (hcb : CbOK s.jobs cb) (hns : ∀ j, cb = .start j → Cb.start j ∉ s.ready) :
    Inv (s.runCb fl cb) ∧ JTr s.jobs (s.runCb fl cb).jobs := by
  cases cb with
  | register j =>
    obtain ⟨v1, v2, v3, v4, v5⟩ := register_view fl s j
    simp only [St.runCb]
    exact ⟨h.of_view v1 v2 v3 v4 v5, by rw [v2]; exact JTr.refl _⟩
  | start j => exact h.startJob fl hfl j hcb (hns j rfl)
  | wake j =>
    have hact : act (s.jobs j) := hcb
    simp only [St.runCb]
    split
    · rename_i hr
      exact h.putPc j _ _ hact rfl rfl rfl rfl (by simp) (fun _ => hr) (by simp [hr])
    · obtain ⟨h1, t1⟩ := h.putSame j { (s.jobs j) with event := false } [] rfl rfl rfl rfl rfl
      obtain ⟨h2, t2⟩ := h1.loopHead j ((t1 j).act hact)
      exact ⟨h2, t1.then t2⟩
  | resume j => exact h.resume fl hfl j
  | check j d =>
    obtain ⟨h1, t1⟩ := h.check fl hfl j d hcb.1 hcb.2
    exact ⟨h1, t1.step⟩
  | notifyCheck j d =>
    have hc : Inv (s.check fl j d) ∧ JTr s.jobs (s.check fl j d).jobs := by
      obtain ⟨h1, t1⟩ := h.check fl hfl j d hcb.1 hcb.2
      exact ⟨h1, t1.step⟩
    simp only [St.runCb]
    split
    · split
      · exact hc
      · exact ⟨h, JTr.refl _⟩
    · exact hc
  | waiterRun =>
    simp only [St.runCb, St.waiterRun]
    split <;> exact ⟨h, JTr.refl _⟩

theorem Inv.step (fl : Flags) (hfl : fl.readyGuarded = true) {s : St} (h : Inv s) :
    Inv (s.step fl) ∧ JTr s.jobs (s.step fl).jobs := by
  unfold St.step
  split
  · exact ⟨h, JTr.refl _⟩
  · rename_i cb rest hr
    have h' : Inv' s.n s.jobs (cb :: rest) s.jobDeps s.tokDeps := by rw [← hr]; exact h
    obtain ⟨h1, hcb, hns⟩ := h'.tail
    exact Inv.runCb fl hfl (s := { s with ready := rest }) h1 cb hcb hns

/-! ### `n` is changed by `submit` only -/

@[simp] theorem put_n (s : St) (j : Nat) (jb : Job) (cbs : List Cb) (ths : List (TK × Nat)) :
    (s.put j jb cbs ths).n = s.n := rfl
@[simp] theorem check_n (fl : Flags) (s : St) (j d : Nat) : (s.check fl j d).n = s.n := rfl
@[simp] theorem finish_n (s : St) (j : Nat) : (s.finish j).n = s.n := (finish_view s j).1
@[simp] theorem loopHead_n (s : St) (j : Nat) : (s.loopHead j).n = s.n := by
  unfold St.loopHead; simp only
  split
  · simp
  · split
    · split <;> rfl
    · rfl
@[simp] theorem registerDeps_n (fl : Flags) (j : Nat) : ∀ (k d : Nat) (s : St), (St.registerDeps fl s j k d).n = s.n := by
  intro k
  induction k with
  | zero => intro d s; rfl
  | succ k ih =>
    intro d s
    simp only [St.registerDeps, ih, check_n]
    split <;> rfl
@[simp] theorem startJob_n (fl : Flags) (s : St) (j : Nat) : (s.startJob fl j).n = s.n := by
  unfold St.startJob; simp only [loopHead_n]
  split <;> split <;> simp
@[simp] theorem releaseAll_n (j : Nat) : ∀ (ds : List Nat) (s : St), (s.releaseAll j ds).n = s.n := by
  intro ds
  induction ds with
  | nil => intro s; rfl
  | cons d ds ih =>
    intro s
    simp only [St.releaseAll, ih]
    split <;> rfl
@[simp] theorem acquireAll_n (j : Nat) : ∀ (k d : Nat) (s : St), (s.acquireAll j k d).1.n = s.n := by
  intro k
  induction k with
  | zero => intro d s; rfl
  | succ k ih =>
    intro d s
    simp only [St.acquireAll]
    split
    · rw [ih]; rfl
    · split
      · rfl
      · rw [ih]; rfl
@[simp] theorem resume_n (fl : Flags) (s : St) (j : Nat) : (s.resume fl j).n = s.n := by
  simp only [St.resume]
  split
  · have := acquireAll_n j (s.jobs j).deps.length 0 s
    rcases hacq : s.acquireAll j (s.jobs j).deps.length 0 with ⟨s1, r⟩
    rw [hacq] at this
    cases r with
    | some d =>
      simp only [put_n, check_n]
      split
      · rw [releaseAll_n]; exact this
      · exact this
    | none => simpa using this
  · simp
  · rfl
  · simp
  · split <;> rfl
  · rfl
@[simp] theorem runCb_n (fl : Flags) (s : St) (cb : Cb) : (s.runCb fl cb).n = s.n := by
  cases cb with
  | register j => exact (register_view fl s j).1
  | start j => simp [St.runCb]
  | wake j => simp only [St.runCb]; split <;> simp
  | resume j => simp [St.runCb]
  | check j d => rfl
  | notifyCheck j d =>
    simp only [St.runCb]
    split
    · split <;> rfl
    · rfl
  | waiterRun => simp only [St.runCb, St.waiterRun]; split <;> rfl
@[simp] theorem step_n (fl : Flags) (s : St) : (s.step fl).n = s.n := by
  unfold St.step; split
  · rfl
  · simp
@[simp] theorem steps_n (fl : Flags) : ∀ (k : Nat) (s : St), (St.steps fl s k).n = s.n := by
  intro k
  induction k with
  | zero => intro s; rfl
  | succ k ih => intro s; simp only [St.steps, ih, step_n]

/-! ### any number of callbacks -/

/-- relation between the job table of a state and that of a later state. -/
structure Tr (jobs jobs' : Nat → Job) : Prop where
  done : ∀ o, (jobs o).state = .done → (jobs' o).state = .done
  origins : ∀ j, (jobs' j).deps.map (·.origin) = (jobs j).deps.map (·.origin)
  pcnone : ∀ j, (jobs j).pc = .none → (jobs' j).pc = .none
  launch : ∀ j, (jobs' j).launches > (jobs j).launches →
    ∀ d ∈ (jobs j).deps, ∀ o, d.origin = .job o → (jobs' o).state = .done

theorem Tr.refl (jobs : Nat → Job) : Tr jobs jobs :=
  ⟨fun _ h => h, fun _ => rfl, fun _ h => h, fun _ h => absurd h (Nat.lt_irrefl _)⟩

/-- a job about to be launched (`pc = lockEnter`) has all its job dependencies `done`. -/
theorem Inv'.lockEnter_done {n jobs ready jd td} (h : Inv' n jobs ready jd td) {j : Nat}
    (hpc : (jobs j).pc = .lockEnter) : ∀ d ∈ (jobs j).deps, ∀ o, d.origin = .job o → (jobs o).state = .done :=
  fun d hd o ho => h.okdone j d hd o ho ((h.loc j).ready_ok (Or.inr hpc) d hd o ho)

theorem Tr.of_step {n jobs ready jd td} (h : Inv' n jobs ready jd td) {jobs' : Nat → Job} (t : JTr jobs jobs') :
    Tr jobs jobs' :=
  ⟨fun o => (t o).done, fun j => (t j).origins, fun j => (t j).pcnone,
   fun j hl d hd o ho => (t o).done (h.lockEnter_done ((t j).launch hl) d hd o ho)⟩

theorem Tr.trans {a b c : Nat → Job} (h1 : Tr a b) (h2 : Tr b c) : Tr a c := by
  refine ⟨fun o h => h2.done o (h1.done o h), fun j => (h2.origins j).trans (h1.origins j),
    fun j h => h2.pcnone j (h1.pcnone j h), ?_⟩
  intro j hl d hd o ho
  by_cases hc : (b j).launches > (a j).launches
  · exact h2.done o (h1.launch j hc d hd o ho)
  · have hl2 : (c j).launches > (b j).launches := by omega
    have hm : Origin.job o ∈ (a j).deps.map (·.origin) := List.mem_map.mpr ⟨d, hd, ho⟩
    rw [← h1.origins j] at hm
    obtain ⟨d', hd', ho'⟩ := List.mem_map.mp hm
    exact h2.launch j hl2 d' hd' o ho'

theorem Inv.steps (fl : Flags) (hfl : fl.readyGuarded = true) : ∀ (k : Nat) {s : St}, Inv s →
    Inv (St.steps fl s k) ∧ Tr s.jobs (St.steps fl s k).jobs := by
  intro k
  induction k with
  | zero => intro s h; exact ⟨h, Tr.refl _⟩
  | succ k ih =>
    intro s h
    obtain ⟨h1, t1⟩ := h.step fl hfl
    obtain ⟨h2, t2⟩ := ih h1
    exact ⟨h2, (Tr.of_step h t1).trans t2⟩

/-! ### events -/

theorem Inv'.submitFresh {n jobs ready jd td} (h : Inv' n jobs ready jd td) (fresh : Job)
    (hpc : fresh.pc = .none) (hst : fresh.state = .unscheduled) (hw : ∀ d ∈ fresh.deps, d.cur = .wait)
    (hl : fresh.launches = 0) (hu : fresh.unsat = 0) :
    Inv' (n + 1) (upd jobs n fresh) ready jd td := by
  have hpn : (jobs n).pc = .none := h.fresh n (Nat.le_refl _)
  have hsn : (jobs n).state = .unscheduled := (h.loc n).none_unsched hpn
  have hna : ¬ act (jobs n) := fun e => e hsn
  have hp : ∀ p, PairOK jobs p → PairOK (upd jobs n fresh) p := by
    intro p hp
    have hne : p.1 ≠ n := fun e => hna (e ▸ hp.1)
    simp only [PairOK, Sched.upd, hne, if_false]; exact hp
  refine ⟨?_, ?_, ?_, ?_, h.starts, fun o p hm => hp p (h.jdeps o p hm), fun o p hm => hp p (h.tdeps o p hm)⟩
  · intro i; unfold Sched.upd; split
    · constructor <;> simp [hpc, hst, hl, hu]; exact hw
    · exact h.loc i
  · intro i hi
    have : i ≠ n := by omega
    simp only [Sched.upd, this, if_false]; exact h.fresh i (by omega)
  · intro i d hd o ho hc
    by_cases e : i = n
    · subst e; simp only [Sched.upd, if_true] at hd; rw [hw d hd] at hc; simp at hc
    · simp only [Sched.upd, e, if_false] at hd
      have := h.okdone i d hd o ho hc
      have hne : o ≠ n := by intro e; subst e; rw [hsn] at this; simp at this
      simp only [Sched.upd, hne, if_false]; exact this
  · intro cb hcb
    have := h.cbs cb hcb
    cases cb with
    | check i d => exact hp (i, d) this
    | notifyCheck i d => exact hp (i, d) this
    | wake i =>
      have hne : i ≠ n := fun e => hna (e ▸ this)
      simp only [CbOK, Sched.upd, hne, if_false]; exact this
    | start i =>
      have hne : i ≠ n := by intro e; subst e; have := this.2; rw [hpn] at this; simp at this
      simp only [CbOK, Sched.upd, hne, if_false]; exact this
    | _ => trivial

theorem Inv'.addStart {n jobs ready jd td} (h : Inv' n jobs ready jd td) (j : Nat)
    (hcb : CbOK jobs (.start j)) (hns : Cb.start j ∉ ready) : Inv' n jobs (ready ++ [.start j]) jd td := by
  refine ⟨h.loc, h.fresh, h.okdone, ?_, ?_, h.jdeps, h.tdeps⟩
  · intro cb hm
    rcases List.mem_append.mp hm with hm | hm
    · exact h.cbs cb hm
    · simp at hm; subst hm; exact hcb
  · intro i
    rw [List.count_append]
    by_cases e : i = j
    · subst e
      have : List.count (Cb.start i) ready = 0 := List.count_eq_zero.mpr hns
      simp [this]
    · have : List.count (Cb.start i) [Cb.start j] = 0 := by
        apply List.count_eq_zero.mpr; simp; exact e
      have := h.starts i
      omega

/-- relation between the states before and after one event. -/
structure ATr (s s' : St) : Prop where
  done : ∀ o, (s.jobs o).state = .done → (s'.jobs o).state = .done
  launch : ∀ j, (s'.jobs j).launches > (s.jobs j).launches →
    ∀ d ∈ (s.jobs j).deps, ∀ o, d.origin = .job o → (s'.jobs o).state = .done

theorem ATr.of_eq {s s' : St} (h : s'.jobs = s.jobs) : ATr s s' :=
  ⟨fun o e => by rw [h]; exact e, fun j e => by rw [h] at e; exact absurd e (Nat.lt_irrefl _)⟩

theorem Inv.apply (fl : Flags) (hfl : fl.readyGuarded = true) {s : St} (h : Inv s) (ev : Ev) :
    Inv (s.apply fl ev) ∧ ATr s (s.apply fl ev) := by
  cases ev with
  | step =>
    obtain ⟨h1, t1⟩ := h.step fl hfl
    have t := Tr.of_step h t1
    exact ⟨h1, ⟨t.done, t.launch⟩⟩
  | wait =>
    refine ⟨?_, ATr.of_eq rfl⟩
    apply Inv'.addReady h
    intro cb hcb; simp at hcb; subst hcb; exact ⟨trivial, trivial⟩
  | deliver k =>
    simp only [St.apply]
    split
    · refine ⟨?_, ATr.of_eq rfl⟩
      apply Inv'.addReady h
      intro cb hcb; simp at hcb; subst hcb; exact ⟨trivial, trivial⟩
    · exact ⟨h, ATr.of_eq rfl⟩
  | submit ident deps code marker =>
    simp only [St.apply]
    generalize hfr : ({ ident := ident, deps := deps.map (fun o => match o with
      | .job d => { origin := .job (s.eff d) : Dep }
      | o => { origin := o }), code := code, marker := marker } : Job) = fresh
    have hfw : ∀ d ∈ fresh.deps, d.cur = .wait := by
      subst hfr; intro d hd
      obtain ⟨o, _, rfl⟩ := List.mem_map.mp hd
      cases o <;> rfl
    have hf1 : fresh.pc = .none := by subst hfr; rfl
    have hf2 : fresh.state = .unscheduled := by subst hfr; rfl
    have hf3 : fresh.launches = 0 := by subst hfr; rfl
    have hf4 : fresh.unsat = 0 := by subst hfr; rfl
    have h0 : Inv' (s.n + 1) (upd s.jobs s.n fresh) s.ready s.jobDeps s.tokDeps :=
      Inv'.submitFresh h fresh hf1 hf2 hfw hf3 hf4
    have h1 : Inv { s with n := s.n + 1, jobs := upd s.jobs s.n fresh, regResult := none,
                           ready := s.ready ++ [.register s.n] } := by
      apply Inv'.addReady h0
      intro cb hcb; simp at hcb; subst hcb; exact ⟨trivial, trivial⟩
    obtain ⟨h2, t2⟩ := Inv.steps fl hfl (s.ready.length + 1) h1
    have hn2 := steps_n fl (s.ready.length + 1) { s with n := s.n + 1, jobs := upd s.jobs s.n fresh, regResult := none, ready := s.ready ++ [.register s.n] }
    generalize St.steps fl { s with n := s.n + 1, jobs := upd s.jobs s.n fresh, regResult := none, ready := s.ready ++ [.register s.n] } (s.ready.length + 1) = s2 at h2 t2 hn2
    simp only at t2 hn2
    have hpn : (s.jobs s.n).pc = .none := h.fresh s.n (Nat.le_refl _)
    have hsn : (s.jobs s.n).state = .unscheduled := (h.loc s.n).none_unsched hpn
    have hp2 : (s2.jobs s.n).pc = .none := t2.pcnone s.n (by rw [upd_same]; exact hf1)
    have hs2 : (s2.jobs s.n).state = .unscheduled := (h2.loc s.n).none_unsched hp2
    have hl2 : (s2.jobs s.n).launches = 0 := ((h2.loc s.n).unsched hs2).2.2.1
    have hne : ∀ i, i ≠ s.n → upd s.jobs s.n fresh i = s.jobs i := by
      intro i hi; simp [Sched.upd, hi]
    -- the event relation, for any final table that agrees with `s2` on `state` and `launches`
    have hat : ∀ s' : St, (∀ i, (s'.jobs i).state = (s2.jobs i).state ∧ (s'.jobs i).launches = (s2.jobs i).launches) →
        ATr s s' := by
      intro s' hag
      refine ⟨?_, ?_⟩
      · intro o ho
        have hno : o ≠ s.n := by intro e; subst e; rw [hsn] at ho; simp at ho
        rw [(hag o).1]; apply t2.done; rw [hne o hno]; exact ho
      · intro i hl d hd o ho
        rw [(hag i).2] at hl
        by_cases e : i = s.n
        · subst e; omega
        · rw [(hag o).1]
          apply t2.launch i (by rw [hne i e]; exact hl) d (by rw [hne i e]; exact hd) o ho
    split
    · exact ⟨h2, hat _ (fun i => ⟨rfl, rfl⟩)⟩
    · refine ⟨?_, hat _ ?_⟩
      · have hns : Cb.start s.n ∉ s2.ready := by
          intro hm; have := (h2.cbs _ hm).2; rw [hp2] at this; simp at this
        have hb : JBase (s2.jobs s.n) { (s2.jobs s.n) with pc := .created } := ⟨fun e => e, rfl, fun e => e⟩
        have h3 := Inv'.updJob h2 s.n { (s2.jobs s.n) with pc := .created }
          (by
            show JLoc' _ _ _ _ _
            obtain ⟨-, a, b, c⟩ := (h2.loc s.n).unsched hs2
            constructor <;> simp [hs2, b, c]; exact a)
          hb (fun hle => by omega) (fun _ => ⟨hs2, rfl⟩) (hK_same h2 s.n _ hb rfl)
        exact h3.addStart s.n ⟨by rw [upd_same]; exact hs2, by rw [upd_same]⟩ hns
      · intro i
        simp only [St.put, Sched.upd]
        split
        · rename_i e; subst e; exact ⟨rfl, rfl⟩
        · exact ⟨rfl, rfl⟩

/-! ### reachable states -/

/-- all three repairs present (the current source, `Properties/C04.scheduler_flags`). -/
def flOK : Flags := { readyGuarded := true, resubmitRegisters := true, abortRechecks := true }

/-- run a list of events. -/
def run (fl : Flags) (s : St) (evs : List Ev) : St := evs.foldl (St.apply fl) s

/-- `s` is the state after some list of events (any workload, any schedule, any length). -/
def Reachable (fl : Flags) (totals : List Nat) (s : St) : Prop :=
  ∃ evs : List Ev, s = run fl (St.init totals) evs

/-- well-formedness of an event as the API produces it: a submission names earlier jobs and existing
    tokens with a positive count.  None of the C04 theorems needs it: they hold for every event list. -/
def EvOK (s : St) : Ev → Prop
  | .submit _ deps _ _ => ∀ o ∈ deps, match o with
      | .job d => d < s.n
      | .tok t c => t < s.ntok ∧ 0 < c
  | _ => True

/-- reachability through well-formed events only. -/
inductive ReachableOK (fl : Flags) (totals : List Nat) : St → Prop
  | init : ReachableOK fl totals (St.init totals)
  | step {s : St} (ev : Ev) : ReachableOK fl totals s → EvOK s ev → ReachableOK fl totals (s.apply fl ev)

theorem Reachable.apply {fl : Flags} {totals : List Nat} {s : St} (h : Reachable fl totals s) (ev : Ev) :
    Reachable fl totals (s.apply fl ev) := by
  obtain ⟨evs, rfl⟩ := h
  exact ⟨evs ++ [ev], by simp [run, List.foldl_append]⟩

theorem Reachable.run {fl : Flags} {totals : List Nat} {s : St} (h : Reachable fl totals s) (evs : List Ev) :
    Reachable fl totals (run fl s evs) := by
  obtain ⟨evs0, rfl⟩ := h
  exact ⟨evs0 ++ evs, by simp [SchedDeps.run, List.foldl_append]⟩

theorem ReachableOK.reachable {fl : Flags} {totals : List Nat} {s : St} (h : ReachableOK fl totals s) :
    Reachable fl totals s := by
  induction h with
  | init => exact ⟨[], rfl⟩
  | step ev _ _ ih => exact ih.apply ev

theorem Inv.init (totals : List Nat) : Inv (St.init totals) := by
  refine ⟨fun j => ?_, fun _ _ => rfl, ?_, ?_, ?_, ?_, ?_⟩
  · show JLoc' _ _ _ _ _
    constructor <;> simp [St.init]
  · intro j d hd; simp [St.init] at hd
  · intro cb hcb; simp [St.init] at hcb
  · intro j; simp [St.init]
  · intro o p hp; simp [St.init] at hp
  · intro o p hp; simp [St.init] at hp

theorem Inv.run (fl : Flags) (hfl : fl.readyGuarded = true) : ∀ (evs : List Ev) {s : St}, Inv s →
    Inv (run fl s evs) ∧ ∀ o, (s.jobs o).state = .done → ((run fl s evs).jobs o).state = .done := by
  intro evs
  induction evs with
  | nil => intro s h; exact ⟨h, fun _ e => e⟩
  | cons ev evs ih =>
    intro s h
    obtain ⟨h1, t1⟩ := h.apply fl hfl ev
    obtain ⟨h2, t2⟩ := ih h1
    exact ⟨h2, fun o e => t2 o (t1.done o e)⟩

theorem Reachable.inv {fl : Flags} (hfl : fl.readyGuarded = true) {totals : List Nat} {s : St}
    (h : Reachable fl totals s) : Inv s := by
  obtain ⟨evs, rfl⟩ := h
  exact (Inv.run fl hfl evs (Inv.init totals)).1

/-! ### inside a `submit` event: the callbacks it runs -/

/-- the state in which `submit` starts running callbacks (`St.apply`, `.submit` case, before `St.steps`). -/
def submitPre (s : St) (ident : Nat) (deps : List Origin) (code : Nat) (marker : Bool) : St :=
  { s with n := s.n + 1,
           jobs := upd s.jobs s.n { ident := ident, deps := deps.map (fun o => match o with
                    | .job d => { origin := .job (s.eff d) : Dep }
                    | o => { origin := o }), code := code, marker := marker },
           regResult := none, ready := s.ready ++ [.register s.n] }

/-- `submit` = `St.steps` from `submitPre` for `ready.length + 1` callbacks, then the creation of the task. -/
theorem apply_submit_eq (fl : Flags) (s : St) (ident : Nat) (deps : List Origin) (code : Nat) (marker : Bool) :
    s.apply fl (.submit ident deps code marker) =
      (let s2 := St.steps fl (submitPre s ident deps code marker) (s.ready.length + 1)
       match s2.regResult with
       | some (some o) => { s2 with eff := upd s2.eff s.n o }
       | _ => ({ s2 with eff := upd s2.eff s.n s.n }).put s.n { (s2.jobs s.n) with pc := .created } [.start s.n]) := rfl

theorem Inv.submitPre {s : St} (h : Inv s) (ident : Nat) (deps : List Origin) (code : Nat) (marker : Bool) :
    Inv (submitPre s ident deps code marker) := by
  have h0 : Inv' (s.n + 1) (upd s.jobs s.n { ident := ident, deps := deps.map (fun o => match o with
                    | .job d => { origin := .job (s.eff d) : Dep }
                    | o => { origin := o }), code := code, marker := marker }) s.ready s.jobDeps s.tokDeps := by
    apply Inv'.submitFresh h _ rfl rfl _ rfl rfl
    intro d hd
    obtain ⟨o, _, rfl⟩ := List.mem_map.mp hd
    cases o <;> rfl
  apply Inv'.addReady h0
  intro cb hcb; simp at hcb; subst hcb; exact ⟨trivial, trivial⟩

/-- one callback: if it launches `j`, then `j` was at `lockEnter` and all its job dependencies are `done`
    before and after the callback. -/
theorem Inv.step_launch (fl : Flags) (hfl : fl.readyGuarded = true) {s : St} (h : Inv s) (j : Nat)
    (hl : ((s.step fl).jobs j).launches > (s.jobs j).launches) :
    (s.jobs j).pc = .lockEnter ∧
    ∀ d ∈ (s.jobs j).deps, ∀ o, d.origin = .job o → (s.jobs o).state = .done ∧ ((s.step fl).jobs o).state = .done := by
  obtain ⟨_, t1⟩ := h.step fl hfl
  have hpc := (t1 j).launch hl
  exact ⟨hpc, fun d hd o ho => ⟨h.lockEnter_done hpc d hd o ho, (t1 o).done (h.lockEnter_done hpc d hd o ho)⟩⟩

/-! ### a concrete run used by the `example`s of `Properties/C04.lean` -/

/-- job 1 depends on job 0 and on a token; after these events job 0 is done and job 1 is at `lockEnter`. -/
def exEvs : List Ev := [.submit 0 [] 0 false, .submit 1 [.job 0, .tok 0 1] 0 false, .step, .step,
  .deliver 0, .step, .deliver 0, .step, .deliver 0, .step, .deliver 0, .step, .step, .step, .deliver 0]
def exS : St := run flOK (St.init [2]) exEvs

end XpmVerif.SchedDeps
