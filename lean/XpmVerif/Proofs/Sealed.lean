import XpmVerif.Model.IdentImpl
/-! C14, part 1: the edge relation walked by the `Sealer`, DFS completeness of `visit`,
    and `seal_reaches_all`. -/
namespace XpmVerif.Ident.Sealing
open List

/-! ### references of a value (any depth), edges, reachability -/

mutual
/-- every configuration occurring in a value, at any depth (nothing is filtered). -/
def valRefs : Val → List Nat
  | .list l => valsRefs l
  | .dict _ vs => valsRefs vs
  | .ref n => [n]
  | _ => []
def valsRefs : List Val → List Nat
  | [] => []
  | v :: vs => valRefs v ++ valsRefs vs
end

theorem mem_valsRefs {m : Nat} : ∀ {vs : List Val}, m ∈ valsRefs vs ↔ ∃ v ∈ vs, m ∈ valRefs v
  | [] => by simp [valsRefs]
  | v :: vs => by simp [valsRefs, mem_valsRefs (vs := vs)]

/-- `Edge g n m`: the Sealer / `ConfigWalk` goes from `n` to `m` — `m` occurs in some argument value of `n`
    (all arguments, at any depth), or is a pre-task, an init-task, or the producing task (≠ `n`). -/
inductive Edge (g : Graph) (n : Nat) : Nat → Prop
  | arg {a : Arg} {m : Nat} : a ∈ (g.node n).args → m ∈ valRefs a.value → Edge g n m
  | pre {m : Nat} : m ∈ (g.node n).preTasks → Edge g n m
  | init {m : Nat} : m ∈ (g.node n).initTasks → Edge g n m
  | task {t : Nat} : (g.node n).task = some t → t ≠ n → Edge g n t

/-- reflexive-transitive closure of `Edge`. -/
inductive Reach (g : Graph) (n : Nat) : Nat → Prop
  | refl : Reach g n n
  | step {m k : Nat} : Reach g n m → Edge g m k → Reach g n k

theorem Reach.trans {g : Graph} {a b c : Nat} (h1 : Reach g a b) (h2 : Reach g b c) : Reach g a c := by
  induction h2 with
  | refl => exact h1
  | step _ e ih => exact .step ih e

theorem Reach.head {g : Graph} {a b c : Nat} (e : Edge g a b) (h : Reach g b c) : Reach g a c :=
  Reach.trans (.step .refl e) h

/-- well-formed: every reference points to an existing node. -/
def WF (g : Graph) : Prop := ∀ n m, Edge g n m → m < g.size

/-- the successors of a sealed node are sealed. -/
def SealedClosed (g : Graph) : Prop := ∀ n m, (g.node n).sealed = true → Edge g n m → (g.node m).sealed = true

/-- computable successor list. -/
def succs (g : Graph) (n : Nat) : List Nat :=
  valsRefs ((g.node n).args.map (·.value)) ++ (g.node n).preTasks ++ (g.node n).initTasks
    ++ (match (g.node n).task with | some t => if t ≠ n then [t] else [] | none => [])

theorem edge_iff_succs {g : Graph} {n m : Nat} : Edge g n m ↔ m ∈ succs g n := by
  constructor
  · intro h
    cases h with
    | arg ha hm => simp only [succs, mem_append, mem_valsRefs, mem_map]; exact .inl (.inl (.inl ⟨_, ⟨_, ha, rfl⟩, hm⟩))
    | pre h => simp only [succs, mem_append]; exact .inl (.inl (.inr h))
    | init h => simp only [succs, mem_append]; exact .inl (.inr h)
    | task h hne => simp only [succs, mem_append, h]; right; simp [hne]
  · intro h
    simp only [succs, mem_append, mem_valsRefs, mem_map] at h
    rcases h with ((⟨v, ⟨a, ha, rfl⟩, hm⟩ | h) | h) | h
    · exact .arg ha hm
    · exact .pre h
    · exact .init h
    · split at h
      · rename_i t ht
        split at h
        · simp at h; subst h; exact .task ht (by assumption)
        · simp at h
      · simp at h

theorem node_of_size_le {g : Graph} {n : Nat} (h : g.size ≤ n) : g.node n = { typeId := [], args := [] } := by
  unfold Graph.node Graph.size at *
  simp [List.getD_eq_getElem?_getD, List.getElem?_eq_none h]

theorem Edge.lt {g : Graph} {n m : Nat} (h : Edge g n m) : n < g.size := by
  apply Nat.lt_of_not_le
  intro hle
  have hd := node_of_size_le hle
  cases h with
  | arg ha _ => rw [hd] at ha; simp at ha
  | pre h => rw [hd] at h; simp at h
  | init h => rw [hd] at h; simp at h
  | task h _ => rw [hd] at h; simp at h

/-- decidable check of `WF` (for concrete graphs). -/
def wfB (g : Graph) : Bool := (List.range g.size).all fun n => (succs g n).all (· < g.size)
def closedB (g : Graph) : Bool :=
  (List.range g.size).all fun n => !(g.node n).sealed || (succs g n).all (fun m => (g.node m).sealed)

theorem WF_of_wfB {g : Graph} (h : wfB g = true) : WF g := by
  intro n m e
  simp only [wfB, all_eq_true, mem_range, decide_eq_true_eq] at h
  exact h n e.lt m (edge_iff_succs.1 e)

theorem SealedClosed_of_closedB {g : Graph} (h : closedB g = true) : SealedClosed g := by
  intro n m hs e
  simp only [closedB, all_eq_true, mem_range, Bool.or_eq_true, Bool.not_eq_true'] at h
  rcases h n e.lt with h | h
  · rw [hs] at h; cases h
  · exact h m (edge_iff_succs.1 e)

/-! ### node access after `setNode` / `setSealed` -/

theorem node_setNode (g : Graph) (n : Nat) (f : Node → Node) (i : Nat) :
    (setNode g n f).node i = if i = n ∧ i < g.size then f (g.node i) else g.node i := by
  unfold Graph.node setNode Graph.size
  simp only [List.getD_eq_getElem?_getD, List.getElem?_map, List.getElem?_zipIdx]
  by_cases h : i < g.nodes.length <;> simp [h]

theorem node_setSealed (g : Graph) (ns : List Nat) (i : Nat) :
    (setSealed g ns).node i = if ns.contains i = true ∧ i < g.size then { g.node i with sealed := true } else g.node i := by
  unfold Graph.node setSealed Graph.size
  simp only [List.getD_eq_getElem?_getD, List.getElem?_map, List.getElem?_zipIdx]
  by_cases h : i < g.nodes.length <;> simp [h]

theorem size_setNode (g : Graph) (n : Nat) (f : Node → Node) : (setNode g n f).size = g.size := by simp [setNode, Graph.size]
theorem size_setSealed (g : Graph) (ns : List Nat) : (setSealed g ns).size = g.size := by simp [setSealed, Graph.size]

/-! ### generic composable specification of the callback walkers -/

/-- hypotheses on a step relation `R` (reflexive, transitive), an invariant `I` preserved along `R`
    and a per-reference post-condition `M` preserved along `R`. -/
structure WalkRel (R : List Nat → List Nat → Prop) (I : List Nat → Prop) (M : Nat → List Nat → Prop) : Prop where
  refl : ∀ a, R a a
  trans : ∀ {a b c}, R a b → R b c → R a c
  inv : ∀ {a b}, I a → R a b → I b
  keep : ∀ {m a b}, M m a → R a b → M m b

mutual
theorem walkVal_spec {R I M} (W : WalkRel R I M) (cb : Nat → List Nat → List Nat) :
    ∀ (v : Val) (vis : List Nat),
      (∀ m ∈ valRefs v, ∀ vis, I vis → R vis (cb m vis) ∧ M m (cb m vis)) → I vis →
      R vis (walkVal cb v vis) ∧ ∀ m ∈ valRefs v, M m (walkVal cb v vis)
  | .list l, vis, h, hI => by simpa only [walkVal, valRefs] using walkVals_spec W cb l vis (by simpa only [valRefs] using h) hI
  | .dict _ vs, vis, h, hI => by simpa only [walkVal, valRefs] using walkVals_spec W cb vs vis (by simpa only [valRefs] using h) hI
  | .ref n, vis, h, hI => by
    simp only [walkVal, valRefs, mem_singleton, forall_eq] at *
    exact h vis hI
  | .none, vis, _, _ => by simp [walkVal, valRefs, W.refl]
  | .bool _, vis, _, _ => by simp [walkVal, valRefs, W.refl]
  | .int _, vis, _, _ => by simp [walkVal, valRefs, W.refl]
  | .float _, vis, _, _ => by simp [walkVal, valRefs, W.refl]
  | .str _, vis, _, _ => by simp [walkVal, valRefs, W.refl]
  | .enum _, vis, _, _ => by simp [walkVal, valRefs, W.refl]
  | .path _, vis, _, _ => by simp [walkVal, valRefs, W.refl]
theorem walkVals_spec {R I M} (W : WalkRel R I M) (cb : Nat → List Nat → List Nat) :
    ∀ (vs : List Val) (vis : List Nat),
      (∀ m ∈ valsRefs vs, ∀ vis, I vis → R vis (cb m vis) ∧ M m (cb m vis)) → I vis →
      R vis (walkVals cb vs vis) ∧ ∀ m ∈ valsRefs vs, M m (walkVals cb vs vis)
  | [], vis, _, _ => by simp [walkVals, valsRefs, W.refl]
  | v :: vs, vis, h, hI => by
    simp only [walkVals, valsRefs, mem_append] at *
    have h1 := walkVal_spec W cb v vis (fun m hm => h m (.inl hm)) hI
    have h2 := walkVals_spec W cb vs (walkVal cb v vis) (fun m hm => h m (.inr hm)) (W.inv hI h1.1)
    refine ⟨W.trans h1.1 h2.1, ?_⟩
    rintro m (hm | hm)
    · exact W.keep (h1.2 m hm) h2.1
    · exact h2.2 m hm
end

theorem walkNodes_spec {R I M} (W : WalkRel R I M) (cb : Nat → List Nat → List Nat) :
    ∀ (ns : List Nat) (vis : List Nat),
      (∀ m ∈ ns, ∀ vis, I vis → R vis (cb m vis) ∧ M m (cb m vis)) → I vis →
      R vis (walkNodes cb ns vis) ∧ ∀ m ∈ ns, M m (walkNodes cb ns vis)
  | [], vis, _, _ => by simp [walkNodes, W.refl]
  | n :: ns, vis, h, hI => by
    simp only [walkNodes, mem_cons] at *
    have h1 := h n (.inl rfl) vis hI
    have h2 := walkNodes_spec W cb ns (cb n vis) (fun m hm => h m (.inr hm)) (W.inv hI h1.1)
    refine ⟨W.trans h1.1 h2.1, ?_⟩
    rintro m (hm | hm)
    · subst hm; exact W.keep h1.2 h2.1
    · exact h2.2 m hm


/-! ### DFS completeness of `visit` -/

/-- number of existing nodes already visited. -/
def cnt (g : Graph) (vis : List Nat) : Nat := (List.range g.size).countP (fun k => vis.contains k)

theorem cnt_le (g : Graph) (vis : List Nat) : cnt g vis ≤ g.size := by
  have := List.countP_le_length (p := fun k => vis.contains k) (l := List.range g.size)
  simpa [cnt] using this

theorem cnt_mono (g : Graph) {vis vis' : List Nat} (h : vis ⊆ vis') : cnt g vis ≤ cnt g vis' := by
  apply List.countP_mono_left
  intro x _ hx
  simp only [contains_iff_mem] at *
  exact h hx

theorem countP_lt_of {p q : Nat → Bool} (hpq : ∀ x, p x = true → q x = true) {n : Nat} (hp : p n = false) (hq : q n = true) :
    ∀ {l : List Nat}, n ∈ l → countP p l < countP q l
  | x :: xs, hn => by
    have hm : countP p xs ≤ countP q xs := List.countP_mono_left (fun x _ => hpq x)
    simp only [countP_cons]
    rcases mem_cons.1 hn with rfl | hn
    · simp [hp, hq]; omega
    · have := countP_lt_of hpq hp hq hn
      by_cases hx : p x = true
      · simp [hx, hpq x hx]; omega
      · simp [hx]; split <;> omega

theorem cnt_cons (g : Graph) {n : Nat} {vis : List Nat} (hn : n < g.size) (hv : n ∉ vis) : cnt g vis < cnt g (n :: vis) := by
  apply countP_lt_of (n := n)
  · intro x hx; simp only [contains_iff_mem, mem_cons] at *; exact .inr hx
  · simpa using hv
  · simp
  · simpa using hn

/-- post-condition of a walk: nothing is forgotten and every newly visited, non-stopping node has all
    its successors visited. -/
def Post (g : Graph) (stop : Nat → Bool) (vis vis' : List Nat) : Prop :=
  vis ⊆ vis' ∧ ∀ x ∈ vis', x ∉ vis → stop x = false → ∀ y, Edge g x y → y ∈ vis'

theorem walkRel_post (g : Graph) (stop : Nat → Bool) (fuel : Nat) :
    WalkRel (Post g stop) (fun vis => fuel + cnt g vis > g.size) (fun m vis => m ∈ vis) where
  refl a := ⟨fun _ h => h, fun x hx hx' => absurd hx hx'⟩
  trans := by
    rintro a b c ⟨h1, h1'⟩ ⟨h2, h2'⟩
    refine ⟨fun _ h => h2 (h1 h), fun x hx hxa hs y e => ?_⟩
    by_cases hb : x ∈ b
    · exact h2 (h1' x hb hxa hs y e)
    · exact h2' x hx hb hs y e
  inv := by
    rintro a b hI ⟨h, _⟩
    have := cnt_mono g h
    omega
  keep := by
    rintro m a b hm ⟨h, _⟩
    exact h hm

/-- **DFS completeness**: with enough fuel (`fuel + #visited existing nodes > size`), `visit` marks `n`
    and leaves every newly visited non-stopping node with all its successors visited. -/
theorem visit_complete (g : Graph) (stop : Nat → Bool) :
    ∀ (fuel n : Nat) (vis : List Nat), fuel + cnt g vis > g.size →
      Post g stop vis (visit g stop fuel n vis) ∧ n ∈ visit g stop fuel n vis := by
  intro fuel
  induction fuel with
  | zero => intro n vis h; have := cnt_le g vis; omega
  | succ fuel ih =>
    intro n vis hI
    have W := walkRel_post g stop fuel
    simp only [visit]
    by_cases hc : vis.contains n = true
    · simp only [hc, if_true]
      exact ⟨(walkRel_post g stop 0).refl vis, by simpa using hc⟩
    simp only [hc, Bool.false_eq_true, if_false]
    have hnv : n ∉ vis := by simpa using hc
    by_cases hs : stop n = true
    · simp only [hs, if_true]
      refine ⟨⟨fun _ h => mem_cons_of_mem _ h, fun x hx hxv hsx => ?_⟩, mem_cons_self⟩
      rcases mem_cons.1 hx with rfl | hx
      · rw [hs] at hsx; cases hsx
      · exact absurd hx hxv
    simp only [hs, Bool.false_eq_true, if_false]
    by_cases hn : n < g.size
    · have hI1 : fuel + cnt g (n :: vis) > g.size := by have := cnt_cons g hn hnv; omega
      have hcb : ∀ m : Nat, ∀ vis, fuel + cnt g vis > g.size →
          Post g stop vis (visit g stop fuel m vis) ∧ m ∈ visit g stop fuel m vis := fun m vis h => ih m vis h
      have h1 := walkVals_spec W (visit g stop fuel) ((g.node n).args.map (·.value)) (n :: vis) (fun m _ => hcb m) hI1
      generalize walkVals (visit g stop fuel) ((g.node n).args.map (·.value)) (n :: vis) = vis2 at *
      have h2 := walkNodes_spec W (visit g stop fuel) (g.node n).preTasks vis2 (fun m _ => hcb m) (W.inv hI1 h1.1)
      generalize walkNodes (visit g stop fuel) (g.node n).preTasks vis2 = vis3 at *
      have h13 := W.trans h1.1 h2.1
      have h3 := walkNodes_spec W (visit g stop fuel) (g.node n).initTasks vis3 (fun m _ => hcb m) (W.inv hI1 h13)
      generalize walkNodes (visit g stop fuel) (g.node n).initTasks vis3 = vis4 at *
      have h14 := W.trans h13 h3.1
      -- closing argument, for any final visited list
      have fin : ∀ vis5, Post g stop vis4 vis5 → (∀ t, (g.node n).task = some t → t ≠ n → t ∈ vis5) →
          Post g stop vis vis5 ∧ n ∈ vis5 := by
        intro vis5 h45 ht
        have h15 := W.trans h14 h45
        have hn5 : n ∈ vis5 := h15.1 mem_cons_self
        refine ⟨⟨fun x hx => h15.1 (mem_cons_of_mem _ hx), fun x hx hxv hsx y e => ?_⟩, hn5⟩
        by_cases hxn : x = n
        · subst hxn
          cases e with
          | arg ha hm =>
            exact h45.1 (h3.1.1 (h2.1.1 (h1.2 _ (mem_valsRefs.2 ⟨_, mem_map.2 ⟨_, ha, rfl⟩, hm⟩))))
          | pre h => exact h45.1 (h3.1.1 (h2.2 _ h))
          | init h => exact h45.1 (h3.2 _ h)
          | task h hne => exact ht _ h hne
        · exact h15.2 x hx (by simp [hxn, hxv]) hsx y e
      cases ht : (g.node n).task with
      | none => exact fin _ (W.refl _) (by simp [ht])
      | some t =>
        by_cases hne : t = n
        · simp only [hne, ne_eq, not_true_eq_false, if_false]
          exact fin _ (W.refl _) (by simp [ht, hne])
        · simp only [ne_eq, hne, not_false_eq_true, if_true]
          have := hcb t vis4 (W.inv hI1 h14)
          refine fin _ this.1 ?_
          intro t' ht' _
          rw [ht] at ht'; cases ht'
          exact this.2
    · have hd := node_of_size_le (Nat.le_of_not_lt hn)
      rw [hd]
      simp only [map_nil, walkVals, walkNodes]
      refine ⟨⟨fun _ h => mem_cons_of_mem _ h, fun x hx hxv _ y e => ?_⟩, mem_cons_self⟩
      rcases mem_cons.1 hx with rfl | hx
      · exact absurd e.lt hn
      · exact absurd hx hxv


/-! ### `sealFrom` -/

theorem succs_congr {g g' : Graph} {n : Nat} (ha : (g'.node n).args = (g.node n).args)
    (hp : (g'.node n).preTasks = (g.node n).preTasks) (hi : (g'.node n).initTasks = (g.node n).initTasks)
    (ht : (g'.node n).task = (g.node n).task) : succs g' n = succs g n := by
  simp only [succs, ha, hp, hi, ht]

theorem succs_setSealed (g : Graph) (ns : List Nat) (n : Nat) : succs (setSealed g ns) n = succs g n := by
  apply succs_congr <;> (rw [node_setSealed]; split <;> rfl)

theorem edge_setSealed {g : Graph} {ns : List Nat} {n m : Nat} : Edge (setSealed g ns) n m ↔ Edge g n m := by
  rw [edge_iff_succs, edge_iff_succs, succs_setSealed]

theorem reach_setSealed {g : Graph} {ns : List Nat} {n m : Nat} : Reach (setSealed g ns) n m ↔ Reach g n m := by
  constructor <;> intro h <;> induction h with
  | refl => exact .refl
  | step _ e ih => first | exact .step ih (edge_setSealed.1 e) | exact .step ih (edge_setSealed.2 e)

theorem sealed_lt {g : Graph} {m : Nat} (h : (g.node m).sealed = true) : m < g.size := by
  apply Nat.lt_of_not_le
  intro hle
  rw [node_of_size_le hle] at h
  cases h

/-- the nodes the Sealer visits from `n`. -/
def sealVisit (g : Graph) (n : Nat) : List Nat := visit g (fun m => (g.node m).sealed) (g.size + 1) n []

theorem sealed_sealFrom (g : Graph) (n m : Nat) :
    ((sealFrom g n).node m).sealed = true ↔ (g.node m).sealed = true ∨ (m ∈ sealVisit g n ∧ m < g.size) := by
  simp only [sealFrom, node_setSealed, sealVisit]
  split
  · rename_i h
    simp only [contains_iff_mem, mem_filter, Bool.not_eq_true'] at h
    simp [h.1.1, h.2]
  · rename_i h
    simp only [contains_iff_mem, mem_filter, Bool.not_eq_true'] at h
    constructor
    · exact .inl
    · rintro (h1 | ⟨h1, h2⟩)
      · exact h1
      · cases hs : (g.node m).sealed
        · exact absurd ⟨⟨h1, hs⟩, h2⟩ h
        · rfl

/-- nodes that were sealed are not modified at all by `sealFrom`. -/
theorem node_sealFrom_of_sealed (g : Graph) (n m : Nat) (h : (g.node m).sealed = true) :
    (sealFrom g n).node m = g.node m := by
  simp only [sealFrom, node_setSealed]
  split
  · rw [← h]
  · rfl

theorem size_sealFrom (g : Graph) (n : Nat) : (sealFrom g n).size = g.size := size_setSealed _ _

theorem edge_sealFrom {g : Graph} {k n m : Nat} : Edge (sealFrom g k) n m ↔ Edge g n m := edge_setSealed

theorem reach_sealFrom {g : Graph} {k n m : Nat} : Reach (sealFrom g k) n m ↔ Reach g n m := reach_setSealed

/-- with `SealedClosed`, "sealed or visited by the Sealer" is closed under edges. -/
theorem sealVisit_closed {g : Graph} (hcl : SealedClosed g) (n : Nat) {x y : Nat}
    (hx : (g.node x).sealed = true ∨ x ∈ sealVisit g n) (e : Edge g x y) :
    (g.node y).sealed = true ∨ y ∈ sealVisit g n := by
  have hv := (visit_complete g (fun m => (g.node m).sealed) (g.size + 1) n [] (by omega)).1
  cases hs : (g.node x).sealed with
  | true => exact .inl (hcl x y hs e)
  | false =>
    rcases hx with hx | hx
    · rw [hs] at hx; cases hx
    · exact .inr (hv.2 x hx (by simp) hs y e)

theorem mem_sealVisit_self (g : Graph) (n : Nat) : n ∈ sealVisit g n :=
  (visit_complete g (fun m => (g.node m).sealed) (g.size + 1) n [] (by omega)).2

theorem WF_sealFrom {g : Graph} (hwf : WF g) (n : Nat) : WF (sealFrom g n) := by
  intro a b e
  rw [size_sealFrom]
  exact hwf a b (edge_sealFrom.1 e)

theorem sealedClosed_sealFrom {g : Graph} (hwf : WF g) (hcl : SealedClosed g) (n : Nat) : SealedClosed (sealFrom g n) := by
  intro x y hx e
  have e' := edge_sealFrom.1 e
  rw [sealed_sealFrom] at *
  have hx' : (g.node x).sealed = true ∨ x ∈ sealVisit g n := hx.imp id And.left
  rcases sealVisit_closed hcl n hx' e' with h | h
  · exact .inl h
  · exact .inr ⟨h, hwf x y e'⟩

theorem reach_sealed_or_visited {g : Graph} (hwf : WF g) (hcl : SealedClosed g) {n : Nat} (hn : n < g.size) {m : Nat}
    (h : Reach g n m) : ((g.node m).sealed = true ∨ m ∈ sealVisit g n) ∧ m < g.size := by
  induction h with
  | refl => exact ⟨.inr (mem_sealVisit_self g n), hn⟩
  | step _ e ih => exact ⟨sealVisit_closed hcl n ih.1 e, hwf _ _ e⟩

/-- **seal reaches everything**: after `sealFrom g n` every node reachable from `n` is sealed. -/
theorem sealFrom_reaches {g : Graph} (hwf : WF g) (hcl : SealedClosed g) {n : Nat} (hn : n < g.size) {m : Nat}
    (h : Reach g n m) : ((sealFrom g n).node m).sealed = true := by
  have := reach_sealed_or_visited hwf hcl hn h
  rw [sealed_sealFrom]
  rcases this with ⟨h1 | h1, h2⟩
  · exact .inl h1
  · exact .inr ⟨h1, h2⟩

theorem sealFrom_keeps {g : Graph} (n : Nat) {m : Nat} (h : (g.node m).sealed = true) :
    ((sealFrom g n).node m).sealed = true := by
  rw [node_sealFrom_of_sealed g n m h]; exact h

end XpmVerif.Ident.Sealing
