"""C08 — jobs running under a token never hold more than its capacity (one scheduler, in-process token; the file-based multi-scheduler part is xv.props.c08 thorough)."""
from .. import common
from . import _sched, c08files, c08x_cwd

PROP = "C08"
MODULES = ["XpmVerif.Properties.C08"] + c08files.MODULES + c08x_cwd.MODULES
GEN = dict(max_jobs=7, max_tokens=3, resubmit=False, markers=False, fail_p=0.15)
RULE = ("random workloads with up to 3 tokens (totals 1-4, requests 1-total) x random schedules + exhaustive schedules of 5 small workloads; monitor: at every event the running jobs' requests sum to <= total and availability >= 0; non-trivial = some dependency and >= 2 out-of-FIFO deliveries")


def prove(ctx):
    _sched.prove(ctx, MODULES, extra_msgs=[c08files.translate(ctx)])


def correspond(ctx):
    cwd = c08x_cwd.begin(ctx, PROP)   # two real scheduler processes with different working directories (run in the background meanwhile)
    try:
        _sched.run(ctx, PROP, GEN, RULE, 1500, 25000)
        c08files.correspond(ctx)   # file-based token shared by several schedulers (model M2')
    finally:
        c08x_cwd.end(ctx, cwd, PROP)   # who a token file names (model M2' + naming, Properties/C08Names.lean)


def search(ctx):
    _sched.search(ctx, PROP, GEN)
    c08files.search(ctx)
    c08x_cwd.search(ctx, PROP)


def run_witness(ctx, finding):
    if common.run_script_witness(ctx, finding, timeout=300):
        return
    c08files.run_witness(ctx, finding) or _sched.run_witness(ctx, PROP, finding)


def replay(ctx, obj):
    mine = {"failures": [x for x in obj.get("failures", []) if x["case"].get("engine") != "tokeng" and "scenario" not in x["case"]]}
    return max(c08files.replay(ctx, obj), c08x_cwd.replay(ctx, PROP, obj), _sched.replay_events(ctx, PROP, mine))
