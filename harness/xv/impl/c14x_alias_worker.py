"""Worker for C14: a sealed / submitted configuration stays what it was while the program goes on working on OTHER
configurations that were obtained from it through the public API (copies, pre-task transfers, next tasks of a chain).

usage: python -m xv.impl.c14x_alias_worker <in.json> <out.json>
in:  {"libs": [lib], "cases": [case]}
  case kind "derived" (generated graphs, xv.gen.cfggen):
     {"kind": "derived", "lib": i, "graph": g, "env": "plain"|"dryrun", "ops": [op]}
     op: {"op": "seal", "n": k, "frozen": [nodes reachable from k]}         seal with a fixed job path (env plain)
         {"op": "submit", "n": 0, "frozen": [...]}                          real submit in a dry-run experiment (env dryrun)
         {"op": "derive", "src": k, "via": "copyconfig"|"copyconfig-kw"|"copy"|"pretasks_from", "as": name, ["pyname", "spec"]}
         {"op": "dmut", "on": name, "mut": "addpre"|"set"|"setmeta", ...}   the three mutators, on the DERIVED object
         {"op": "attempt", "n": k, "p": j|None}                             add_pretasks on the frozen node itself
         {"op": "full"|"raw", "n": k}
  case kind "sweep" (fixed library, the documented idiom `copyconfig(self.model).add_pretasks(dep(Loader(value=model)))`):
     {"kind": "sweep", "mode": "dry"|"generate", "base_pre": int, "stages": [{"idiom": ..., "epochs": int}],
      "sweep": [{"from": stage index, "idiom": ..., "lr": int}], "evals": [stage index]}
out: [{"baseline": {label: snapshot}, "steps": [{"op": ..., "out": ..., "changed": {label: snapshot}}], "error": None|str}]
A snapshot holds public observables of one frozen configuration: parameter values, meta flag, pre-tasks, init tasks,
producing task, raw / full identifier, digest of its serialized form (what params.json receives when the job starts).
`changed` lists the frozen configurations whose snapshot differs from the one taken when they were frozen (the comparison
is made here only to keep the output small; the property sentence is stated by the monitor in xv.props.c14)."""
import contextlib
import hashlib
import importlib
import io
import json
import shutil
import struct
import sys
import tempfile
import time
import traceback
from enum import Enum
from pathlib import Path


class Watch:
    def __init__(self, root):
        self.root = str(root)
        self.labels = {}
        self.keep = []      # strong references: an id() is never reused while we hold the object
        self.base = {}
        self.objs = {}

    def name(self, o, label=None):
        if id(o) not in self.labels:
            self.labels[id(o)] = label or f"x{sum(1 for v in self.labels.values() if v.startswith('x'))}:{o.__xpmtype__.identifier}"
            self.keep.append(o)
        return self.labels[id(o)]

    def canon(self, v):
        from experimaestro import Config
        if v is None or isinstance(v, (bool, int, str)):
            return v
        if isinstance(v, float):
            return {"f": struct.pack("!d", v).hex()}
        if isinstance(v, Enum):
            return {"e": v.name}
        if isinstance(v, Path):
            return {"p": str(v).replace(self.root, "<root>")}
        if isinstance(v, (list, tuple)):
            return [self.canon(x) for x in v]
        if isinstance(v, dict):
            return {"d": sorted(([str(k), self.canon(x)] for k, x in v.items()), key=lambda kv: kv[0])}
        if isinstance(v, Config):
            return {"r": self.name(v)}
        return {"?": type(v).__name__}

    def serialized(self, o):
        from experimaestro.core.serialization import state_dict
        from experimaestro.core.context import SerializationContext
        try:
            sd = state_dict(SerializationContext(), o)
        except Exception as e:
            return f"err:{type(e).__name__}"
        ids = {ob["id"]: n for n, ob in enumerate(sd["objects"])}

        def walk(v):
            if isinstance(v, dict):
                return {k: walk(x) for k, x in v.items() if k != "file"}
            if isinstance(v, list):
                return [walk(x) for x in v]
            if isinstance(v, int) and not isinstance(v, bool) and v in ids:
                return f"@{ids[v]}"
            if isinstance(v, str):
                return v.replace(self.root, "<root>")
            return v
        txt = json.dumps(walk(sd), sort_keys=True, default=str)
        return f"{len(sd['objects'])} objects, sha256 {hashlib.sha256(txt.encode()).hexdigest()[:16]}"

    def snapshot(self, o):
        x = o.__xpm__

        def ident(kind):
            try:
                return getattr(x, kind).all.hex()
            except Exception as e:
                return f"err:{type(e).__name__}"
        return {
            "values": {name: self.canon(x.values[name]) for name in sorted(o.__xpmtype__.arguments) if name in x.values},
            "meta": x.meta,
            "pre_tasks": [self.name(p) for p in o.pre_tasks],
            "init_tasks": [self.name(p) for p in x.init_tasks],
            "task": None if x.task is None else self.name(x.task),
            "raw_identifier": ident("raw_identifier"),
            "full_identifier": ident("full_identifier"),
            "serialized": self.serialized(o),
        }

    def freeze(self, o):
        lb = self.name(o)
        if lb not in self.base:
            self.objs[lb] = o
            self.base[lb] = None
        return lb

    def take_baselines(self):
        for lb, o in self.objs.items():
            if self.base[lb] is None:
                self.base[lb] = self.snapshot(o)

    def changed(self):
        out = {}
        for lb, o in self.objs.items():
            s = self.snapshot(o)
            if s != self.base[lb]:
                out[lb] = s
        return out


def reachable(o):
    """everything a submission identifies together with `o`: parameter values, pre-tasks, init tasks, producing task"""
    from experimaestro import Config
    seen, todo, out = set(), [o], []
    while todo:
        v = todo.pop()
        if isinstance(v, Config):
            if id(v) in seen:
                continue
            seen.add(id(v))
            out.append(v)
            x = v.__xpm__
            todo += list(x.values.values()) + list(x.pre_tasks) + list(x.init_tasks) + ([x.task] if x.task is not None else [])
        elif isinstance(v, (list, tuple)):
            todo += list(v)
        elif isinstance(v, dict):
            todo += list(v.values())
    return out


def outcome(fn):
    from experimaestro.core.objects import SealedError
    try:
        fn()
        return {"ok": True}
    except SealedError:
        return {"err": "sealed"}
    except AttributeError as e:
        return {"err": "sealed" if "read-only" in str(e) else f"AttributeError: {e}"[:80]}
    except AssertionError as e:
        return {"err": "sealed" if "sealed" in str(e) else f"AssertionError: {e}"[:80]}
    except Exception as e:
        return {"err": f"{type(e).__name__}: {e}"[:80]}


def run_derived(mod, case, root, ci):
    from experimaestro import copyconfig, setmeta, experiment, RunMode
    from . import cfgbuild
    w = Watch(root)
    objs = cfgbuild.build_graph(mod, case["graph"])
    for i, o in enumerate(objs):
        w.name(o, f"n{i}")
    derived = {}
    steps = []
    ctx = contextlib.nullcontext()
    if case["env"] == "dryrun":
        ws = root / f"ws{ci}"
        ws.mkdir(parents=True, exist_ok=True)
        ctx = experiment(ws, "c14x", port=-1, run_mode=RunMode.DRY_RUN)
    with contextlib.redirect_stderr(io.StringIO()), ctx:
        for op in case["ops"]:
            k = op["op"]
            if k in ("seal", "submit"):
                if k == "seal":
                    out = cfgbuild.run_op(objs, mod, op)
                else:
                    objs[op["n"]].submit(init_tasks=list(objs[op["n"]].__xpm__.init_tasks))
                    out = {"ok": True}
                for i in op["frozen"]:
                    w.freeze(objs[i])
                w.take_baselines()
            elif k in ("full", "raw"):
                out = cfgbuild.run_op(objs, mod, op)
            elif k == "attempt":
                p = objs[op["p"]] if op.get("p") is not None else mod.LW(v=5)
                out = outcome(lambda: objs[op["n"]].add_pretasks(p))
            elif k == "derive":
                src = objs[op["src"]]
                via = op["via"]
                try:
                    if via == "copyconfig":
                        d = copyconfig(src)
                    elif via == "copyconfig-kw":
                        d = copyconfig(src, **{op["pyname"]: cfgbuild.real_val(mod, op["spec"], dict(enumerate(objs)))})
                    elif via == "copy":
                        d = src.copy()
                    elif via == "pretasks_from":
                        d = cfgbuild._donor_class()()
                        d.add_pretasks_from(src)
                    else:
                        raise ValueError(via)
                    derived[op["as"]] = d
                    w.name(d, f"{op['as']}=" + via + f"(n{op['src']})")
                    out = {"ok": True}
                except Exception as e:
                    out = {"err": f"{type(e).__name__}: {e}"[:80]}
            elif k == "dmut":
                d = derived.get(op["on"])
                if d is None:
                    out = {"skipped": True}
                elif op["mut"] == "addpre":
                    p = objs[op["p"]] if op.get("p") is not None else mod.LW(v=7)
                    if op.get("via") == "from":
                        donor = cfgbuild._donor_class()()
                        donor.add_pretasks(p)
                        out = outcome(lambda: d.add_pretasks_from(donor))
                    else:
                        out = outcome(lambda: d.add_pretasks(p))
                elif op["mut"] == "set":
                    v = cfgbuild.real_val(mod, op["spec"], dict(enumerate(objs)))
                    out = outcome(lambda: setattr(d, op["pyname"], v))
                elif op["mut"] == "setmeta":
                    out = outcome(lambda: setmeta(d, op["b"]))
                else:
                    raise ValueError(op["mut"])
            else:
                raise ValueError(k)
            steps.append({"op": op, "out": out, "changed": w.changed()})
    return {"baseline": w.base, "steps": steps, "error": None}


SWEEP_SRC = '''
from experimaestro import Config, Task, LightweightTask, Param, copyconfig
from experimaestro.core.serializers import SerializationLWTask, PathSerializationLWTask

class Model(Config):
    __xpmid__ = "c14xsweep.model"
    size: Param[int]

class Init(LightweightTask):
    """a pre-task the user attached to the model (e.g. sets the random seed)"""
    __xpmid__ = "c14xsweep.init"
    seed: Param[int]
    def execute(self):
        pass

class Load(SerializationLWTask):
    __xpmid__ = "c14xsweep.load"
    def execute(self):
        pass

class LoadPath(PathSerializationLWTask):
    __xpmid__ = "c14xsweep.loadpath"
    def execute(self):
        pass

def learned(task, idiom, dep):
    """the model a learning task returns: a copy of its parameter that loads the learned weights first"""
    if idiom == "construct":
        return LoadPath.construct(task.model, task.__xpm__.job.path / "weights", dep)
    if idiom == "from":
        # a new configuration; the pre-tasks the parameter already had are transferred explicitly
        model = Model(size=task.model.size).add_pretasks_from(task.model)
    else:
        model = copyconfig(task.model)
    return model.add_pretasks(dep(Load(value=model)))

class Train(Task):
    __xpmid__ = "c14xsweep.train"
    model: Param[Model]
    epochs: Param[int]
    idiom: Param[str]
    def task_outputs(self, dep):
        return learned(self, self.idiom, dep)
    def execute(self):
        pass

class Finetune(Task):
    __xpmid__ = "c14xsweep.finetune"
    model: Param[Model]
    lr: Param[int]
    idiom: Param[str]
    def task_outputs(self, dep):
        return learned(self, self.idiom, dep)
    def execute(self):
        pass

class Evaluate(Task):
    __xpmid__ = "c14xsweep.evaluate"
    model: Param[Model]
    k: Param[int]
    def execute(self):
        pass
'''


def run_sweep(mod, case, root, ci):
    from experimaestro import experiment, RunMode
    w = Watch(root)
    steps = []
    ws = root / f"sw{ci}"
    ws.mkdir(parents=True, exist_ok=True)
    mode = RunMode.DRY_RUN if case["mode"] == "dry" else RunMode.GENERATE_ONLY

    def submitted(task, what):
        # the task and everything reachable from it is frozen from now on; everything frozen before must be what it was
        for o in reachable(task):
            w.freeze(o)
        w.take_baselines()
        steps.append({"op": what, "out": {"ok": True, "identifier": task.__xpm__.identifier.all.hex(), "relpath": str(task.__xpm__.job.relpath)},
                      "changed": w.changed()})

    with contextlib.redirect_stderr(io.StringIO()):
        with experiment(ws, "c14xsweep", port=-1, run_mode=mode):
            m = mod.Model(size=case["size"])
            for s in range(case["base_pre"]):
                m.add_pretasks(mod.Init(seed=s))
            outputs = []
            for si, st in enumerate(case["stages"]):
                t = mod.Train(model=m, epochs=st["epochs"], idiom=st["idiom"])
                m = t.submit()
                outputs.append(m)
                submitted(t, {"op": "submit", "task": f"Train(stage {si}, idiom {st['idiom']})"})
            for sw in case["sweep"]:
                t = mod.Finetune(model=outputs[sw["from"]], lr=sw["lr"], idiom=sw["idiom"])
                t.submit()
                submitted(t, {"op": "submit", "task": f"Finetune(model=output of stage {sw['from']}, lr={sw['lr']}, idiom {sw['idiom']})"})
            for ei, frm in enumerate(case["evals"]):
                t = mod.Evaluate(model=outputs[frm], k=ei)
                t.submit()
                submitted(t, {"op": "submit", "task": f"Evaluate(model=output of stage {frm})"})
    return {"baseline": w.base, "steps": steps, "error": None}


def main():
    from . import cfgbuild
    data = json.loads(Path(sys.argv[1]).read_text())
    root = Path(tempfile.mkdtemp(prefix="xvc14x-"))
    out = []
    try:
        mods = [cfgbuild.load_library(lib, root) for lib in data["libs"]]
        sweep_mod = None
        for ci, case in enumerate(data["cases"]):
            t0 = time.time()
            try:
                if case["kind"] == "derived":
                    rec = run_derived(mods[case["lib"]], case, root, ci)
                else:
                    if sweep_mod is None:
                        (root / "c14xsweep").mkdir()
                        (root / "c14xsweep" / "__init__.py").write_text(SWEEP_SRC)
                        if str(root) not in sys.path:
                            sys.path.insert(0, str(root))
                        importlib.invalidate_caches()
                        sweep_mod = importlib.import_module("c14xsweep")
                    rec = run_sweep(sweep_mod, case, root, ci)
            except Exception as e:
                rec = {"error": f"{type(e).__name__}: {e}"[:200], "trace": traceback.format_exc()[-1500:]}
            rec["secs"] = round(time.time() - t0, 2)
            out.append(rec)
    finally:
        shutil.rmtree(root, ignore_errors=True)
    Path(sys.argv[2]).write_text(json.dumps(out))


if __name__ == "__main__":
    main()
