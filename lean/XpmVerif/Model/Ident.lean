/-! M0/M1: configuration graphs and identifiers (`core/objects.py` `HashComputer`,
    `ConfigInformation.identifiers`, `collect_pre_tasks`, `Sealer`).  Import-free, executable.

    The model is generic in the hash: `HC D` gives the hash function, how a digest is embedded
    in an enclosing stream and the order used by `sorted(pre_tasks_ids)`.  The driver instantiates it
    with SHA-256 on bytes; the theorems use an arbitrary injective hash whose digests are atomic
    tokens (`≥ 256`, never a byte) — the ideal-hash model. -/
namespace XpmVerif.Ident

/-- A parameter value as stored in a configuration (`__xpm__.values`).  Text is a list of UTF-8
    bytes, a float its 64 IEEE-754 bits, an enum the bytes of `module.qualname:name`,
    a dict two parallel lists (insertion order), `ref n` a configuration object (node `n`). -/
inductive Val where
  | none
  | bool (b : Bool)
  | int (i : Int)
  | float (bits : Nat)
  | str (s : List Nat)
  | enum (s : List Nat)
  | path (s : List Nat)
  | list (l : List Val)
  | dict (ks : List (List Nat)) (vs : List Val)
  | ref (n : Nat)
  deriving Repr, Inhabited

/-- one declared argument of the node's class together with the node's value for it
    (`getattr(config, name, None)`). Flags are those of `core/arguments.py::Argument`. -/
structure Arg where
  name : List Nat
  ignored : Bool := false
  generator : Bool := false
  constant : Bool := false
  required : Bool := true
  default : Option Val := none      -- `none` = Python `None`
  value : Val := .none
  deriving Repr, Inhabited

structure Node where
  typeId : List Nat                 -- `xpmtype.identifier.name` (already the parent's for a deprecated class)
  args : List Arg                   -- declaration order
  task : Option Nat := none         -- `__xpm__.task`
  mflag : Option Bool := none       -- `__xpm__._meta`
  sealed : Bool := false
  preTasks : List Nat := []
  initTasks : List Nat := []
  deriving Repr, Inhabited

structure HC (D : Type) where
  H : List Nat → D
  emb : D → List Nat
  le : D → D → Bool

/-! ### bytes -/

def pack8 (n : Nat) : List Nat :=
  [n / 2^56 % 256, n / 2^48 % 256, n / 2^40 % 256, n / 2^32 % 256,
   n / 2^24 % 256, n / 2^16 % 256, n / 2^8 % 256, n % 256]

/-- `struct.pack("!q", i)` for an int64 (two's complement). -/
def packq (i : Int) : List Nat := pack8 (i % 2^64).toNat

/-- IEEE-754 bits of `float(n)` for `0 ≤ n < 2^53` (`struct.pack("!d", len(values))`). -/
def f64OfNat (n : Nat) : Nat :=
  if n = 0 then 0 else
  let e := Nat.log2 n
  (1023 + e) * 2^52 + (n - 2^e) * 2^(52 - e)

/-- lexicographic `≤` on byte strings (Python `str` order = code point order = UTF-8 byte order). -/
def bytesLe : List Nat → List Nat → Bool
  | [], _ => true
  | _ :: _, [] => false
  | a :: as, b :: bs => if a < b then true else if b < a then false else bytesLe as bs

/-- stable insertion sort by a key (`list.sort(key=…)` / `sorted`; stable like Python's). -/
def insertBy {α : Type} (le : α → α → Bool) (x : α) : List α → List α
  | [] => [x]
  | y :: ys => if le y x then y :: insertBy le x ys else x :: y :: ys

def sortBy {α : Type} (le : α → α → Bool) (l : List α) : List α :=
  l.foldr (fun x acc => insertBy le x acc) []

/-! ### Python `==` between two values that are not configuration objects -/

def floatEq (a b : Nat) : Bool :=
  let isNaN (x : Nat) := (x / 2^52 % 2^11 = 2^11 - 1) ∧ (x % 2^52 ≠ 0)
  let isZero (x : Nat) := x % 2^63 = 0
  if isNaN a ∨ isNaN b then false else if isZero a ∧ isZero b then true else a = b

/-- the integer a finite IEEE-754 double denotes, if it denotes one (`1.0 == 1` in Python). -/
def f64ToInt? (bits : Nat) : Option Int :=
  let sign : Int := if bits / 2^63 % 2 = 1 then -1 else 1
  let e := bits / 2^52 % 2^11
  let m := bits % 2^52
  if e = 2^11 - 1 then none
  else if e = 0 then (if m = 0 then some 0 else none)
  else
    let mant := 2^52 + m
    if e ≥ 1075 then some (sign * (mant * 2^(e - 1075) : Nat))
    else if mant % 2^(1075 - e) = 0 then some (sign * (mant / 2^(1075 - e) : Nat)) else none

def lookupKV (k : List Nat) : List (List Nat) → List Val → Option Val
  | k' :: ks, v :: vs => if k = k' then some v else lookupKV k ks vs
  | _, _ => none

mutual
def pyEq : Val → Val → Bool
  | .none, .none => true
  | .bool a, .bool b => a = b
  | .bool a, .int b => (if a then 1 else 0) = b
  | .int a, .bool b => a = (if b then 1 else 0)
  | .int a, .int b => a = b
  | .float a, .float b => floatEq a b
  | .int a, .float b => f64ToInt? b = some a
  | .float a, .int b => f64ToInt? a = some b
  | .bool a, .float b => f64ToInt? b = some (if a then 1 else 0)
  | .float a, .bool b => f64ToInt? a = some (if b then 1 else 0)
  | .str a, .str b => a = b
  | .enum a, .enum b => a = b
  | .path a, .path b => a = b
  | .list a, .list b => pyEqL a b
  | .dict ka va, .dict kb vb => ka.length = kb.length && pyEqKV ka va kb vb
  | _, _ => false
def pyEqL : List Val → List Val → Bool
  | [], [] => true
  | a :: as, b :: bs => pyEq a b && pyEqL as bs
  | _, _ => false
/-- every item of the first dict is in the second with an equal value (keys distinct, same size). -/
def pyEqKV : List (List Nat) → List Val → List (List Nat) → List Val → Bool
  | k :: ks, v :: vs, kb, vb =>
    (match lookupKV k kb vb with
     | some w => pyEq v w
     | none => false) && pyEqKV ks vs kb vb
  | _, _, _, _ => true
end

/-! ### `HashComputer.update` on a value that is not `myself` -/

/-- `is_ignored(value)` for list elements / dict values. -/
def dropped (mt : Nat → Option Bool) : Val → Bool
  | .ref n => mt n == some true
  | _ => false

mutual
/-- `cfg n` = what follows the OBJECT tag for configuration `n` (cycle reference or digest). -/
def encVal (cfg : Nat → List Nat) (mt : Nat → Option Bool) : Val → List Nat
  | .none => [6]
  | .bool b => 1 :: pack8 (if b then 1 else 0)
  | .int i => 1 :: packq i
  | .float b => 2 :: pack8 b
  | .str s => 3 :: s
  | .enum s => 10 :: s
  | .path _ => [255]                       -- NotImplementedError in the real code (never generated)
  | .list l =>
    let items := encItems cfg mt l
    7 :: pack8 (f64OfNat items.length) ++ items.flatten
  | .dict ks vs =>
    let items := encPairs cfg mt ks vs
    9 :: ((sortBy (fun a b => bytesLe a.1 b.1) items).map (fun kv => 3 :: kv.1 ++ kv.2)).flatten
  | .ref n => 0 :: cfg n
/-- encodings of the kept list elements, in order. -/
def encItems (cfg : Nat → List Nat) (mt : Nat → Option Bool) : List Val → List (List Nat)
  | [] => []
  | v :: vs => if dropped mt v then encItems cfg mt vs else encVal cfg mt v :: encItems cfg mt vs
/-- (key, encoding of the value) for the kept items, in insertion order. -/
def encPairs (cfg : Nat → List Nat) (mt : Nat → Option Bool) : List (List Nat) → List Val → List (List Nat × List Nat)
  | k :: ks, v :: vs =>
    if dropped mt v then encPairs cfg mt ks vs else (k, encVal cfg mt v) :: encPairs cfg mt ks vs
  | _, _ => []
end

/-- `remove_meta(value)`: top level only. -/
def removeMeta (mt : Nat → Option Bool) : Val → Val
  | .list l => .list (l.filter (fun v => !dropped mt v))
  | .dict ks vs =>
    let kept := (ks.zip vs).filter (fun kv => !dropped mt kv.2)
    .dict (kept.map (·.1)) (kept.map (·.2))
  | v => v

/-! ### `HashComputer._is_default(default, value)`

    A declared default may be — or contain, inside lists and dicts — a configuration object
    (`class A(Config): x: Param[B] = B(k=1)`).  `Config.__init__` stores `clone(default)`, so the default
    object itself is an ordinary *extra* node of the graph that only `Arg.default` refers to (`Val.ref d`).
    `ceq d v` decides the `Config`/`Config` case ("`value` is not being hashed and has the identifier of
    `default`, both computed under the current `ConfigPath`"); everything else is Python `==`, except that
    the members flagged `meta = True` are removed from the value at *every* list / dict level. -/

/-- `default.keys() == value.keys()` for two Python dicts (the keys of a Python dict are pairwise
    distinct: a `Val.dict` with a repeated key is not a Python value and is never "the default"). -/
def sameKeys (ka kb : List (List Nat)) : Bool :=
  ka.length = kb.length && ka.all (fun k => kb.contains k) && kb.all (fun k => ka.contains k) && decide kb.Nodup

mutual
def isDefault (ceq : Nat → Nat → Bool) (mt : Nat → Option Bool) : Val → Val → Bool
  | .ref d, v => (match v with
      | .ref v => ceq d v
      | _ => false)
  | .list a, v => (match v with
      | .list b => isDefaultL ceq mt a (b.filter (fun x => !dropped mt x))
      | _ => false)
  | .dict ka va, v => (match v with
      | .dict kb vb =>
        let kept := (kb.zip vb).filter (fun kv => !dropped mt kv.2)
        sameKeys ka (kept.map (·.1)) && isDefaultKV ceq mt ka va (kept.map (·.1)) (kept.map (·.2))
      | _ => false)
  | d, v => pyEq d v
/-- `len(default) == len(value) and all(_is_default(d, v) for d, v in zip(default, value))`. -/
def isDefaultL (ceq : Nat → Nat → Bool) (mt : Nat → Option Bool) : List Val → List Val → Bool
  | [], [] => true
  | a :: as, b :: bs => isDefault ceq mt a b && isDefaultL ceq mt as bs
  | _, _ => false
/-- `all(_is_default(d, value[k]) for k, d in default.items())` (the key sets are equal). -/
def isDefaultKV (ceq : Nat → Nat → Bool) (mt : Nat → Option Bool) :
    List (List Nat) → List Val → List (List Nat) → List Val → Bool
  | [], [], _, _ => true
  | k :: ks, v :: vs, kb, vb =>
    (match lookupKV k kb vb with
     | some w => isDefault ceq mt v w
     | none => false) && isDefaultKV ceq mt ks vs kb vb
  | _, _, _, _ => false
end

/-! ### the skip rules of the argument loop, in the order of the code -/

/-- `argument.ignored` … unless the value is a configuration whose meta flag is set to `False`. -/
def ignoredOut (mt : Nat → Option Bool) (a : Arg) : Bool :=
  a.ignored && (match a.value with
    | .ref n => mt n != some false
    | _ => true)

/-- not a constant, and (optional, no default, unset) or (`_is_default(default, remove_meta(value))`). -/
def defaultOut (ceq : Nat → Nat → Bool) (mt : Nat → Option Bool) (a : Arg) : Bool :=
  !a.constant &&
    ((!a.required && a.default.isNone && (match a.value with | .none => true | _ => false))
     || (match a.default with
         | some d => isDefault ceq mt d (removeMeta mt a.value)
         | none => false))

/-- the value is a configuration flagged `meta = True`. -/
def metaOut (mt : Nat → Option Bool) (a : Arg) : Bool :=
  match a.value with | .ref n => mt n == some true | _ => false

/-- the four skip rules of the argument loop, in the order of the code. -/
def included (ceq : Nat → Nat → Bool) (mt : Nat → Option Bool) (a : Arg) : Bool :=
  !ignoredOut mt a && !a.generator && !defaultOut ceq mt a && !metaOut mt a

def argStream (cfg : Nat → List Nat) (ceq : Nat → Nat → Bool) (mt : Nat → Option Bool) (a : Arg) : List Nat :=
  if included ceq mt a then 3 :: a.name ++ 5 :: encVal cfg mt a.value else []

/-- the stream hashed for `myself`.  `cfg n` = what follows the OBJECT tag for configuration `n`;
    `ceq d v` = "`v` has the identifier of the default object `d`" (`_is_default`). -/
def nodeStream (cfg : Nat → List Nat) (ceq : Nat → Nat → Bool) (mt : Nat → Option Bool) (self : Nat) (nd : Node) : List Nat :=
  0 :: (match nd.task with
        | some t => if t ≠ self then 8 :: 0 :: cfg t else []
        | none => [])
    ++ nd.typeId
    ++ ((sortBy (fun a b => bytesLe a.name b.name) nd.args).map (argStream cfg ceq mt)).flatten

/-! ### graphs -/

structure Graph where
  nodes : List Node
  deriving Repr, Inhabited

def Graph.node (g : Graph) (n : Nat) : Node := g.nodes.getD n { typeId := [], args := [] }
def Graph.mt (g : Graph) (n : Nat) : Option Bool := (g.node n).mflag
def Graph.size (g : Graph) : Nat := g.nodes.length

/-- position of `m` on the stack (innermost first): `depth − index` of `ConfigPath.detect_loop`. -/
def relIndex (stack : List Nat) (m : Nat) : Option Nat :=
  match stack with
  | [] => none
  | x :: xs => if x = m then some 1 else (relIndex xs m).map (· + 1)

/-- what follows the OBJECT tag for `m` when the configurations of `stack` are being hashed: a cycle
    reference for a member of the stack, else its digest (`dig m`). -/
def ctxCfg (stack : List Nat) (dig : Nat → List Nat) : Nat → List Nat :=
  fun m => match relIndex stack m with
    | some k => 11 :: pack8 k
    | none => dig m

/-- the `Config`/`Config` case of `_is_default` under `stack`: `False` if the value is being hashed
    (`id(value) in config_path.config2index`), else the two identifiers computed under the current path
    are compared — here as embedded in a stream, which is the same thing whenever `hc.emb` is injective
    (real code: `emb = id` on the 32 digest bytes).  (The default object itself is never on the stack in the
    real code — `ConfigPath.push` asserts it; here it would be encoded as a cycle reference.) -/
def ctxEq (stack : List Nat) (cfg : Nat → List Nat) : Nat → Nat → Bool :=
  fun d v => (relIndex stack v).isNone && cfg d == cfg v

/-- **specification**: the raw identifier of `n` computed under `stack` (the configurations being
    hashed, innermost first, not containing `n`), without any cache. -/
def rawAt {D : Type} (hc : HC D) (g : Graph) : Nat → List Nat → Nat → D
  | 0, _, _ => hc.H []
  | fuel + 1, stack, n =>
    hc.H (nodeStream
      (ctxCfg (n :: stack) (fun m => hc.emb (rawAt hc g fuel (n :: stack) m)))
      (ctxEq (n :: stack) (ctxCfg (n :: stack) (fun m => hc.emb (rawAt hc g fuel (n :: stack) m))))
      g.mt n (g.node n))

def rawId {D : Type} (hc : HC D) (g : Graph) (n : Nat) : D := rawAt hc g (g.size + 1) [] n

/-! ### `ConfigWalk`: reachability with a visited list (pre-task collection, sealing) -/

mutual
def walkVal (cfg : Nat → List Nat → List Nat) : Val → List Nat → List Nat
  | .list l, vis => walkVals cfg l vis
  | .dict _ vs, vis => walkVals cfg vs vis
  | .ref n, vis => cfg n vis
  | _, vis => vis
def walkVals (cfg : Nat → List Nat → List Nat) : List Val → List Nat → List Nat
  | [], vis => vis
  | v :: vs, vis => walkVals cfg vs (walkVal cfg v vis)
end

def walkNodes (cfg : Nat → List Nat → List Nat) : List Nat → List Nat → List Nat
  | [], vis => vis
  | n :: ns, vis => walkNodes cfg ns (cfg n vis)

/-- nodes visited by a `ConfigWalk(recurse_task=True)` from `n`; `stop m` = `preprocess` refuses `m`
    (the node is still marked visited). Arguments without a value (`None`) are not descended. -/
def visit (g : Graph) (stop : Nat → Bool) : Nat → Nat → List Nat → List Nat
  | 0, _, vis => vis
  | fuel + 1, n, vis =>
    if vis.contains n then vis else
    let vis := n :: vis
    if stop n then vis else
    let nd := g.node n
    let rec_ := visit g stop fuel
    let vis := walkVals rec_ (nd.args.map (·.value)) vis
    let vis := walkNodes rec_ nd.preTasks vis
    let vis := walkNodes rec_ nd.initTasks vis
    match nd.task with
    | some t => if t ≠ n then rec_ t vis else vis
    | none => vis

def reachable (g : Graph) (n : Nat) : List Nat := visit g (fun _ => false) (g.size + 1) n []

def dedup : List Nat → List Nat
  | [] => []
  | x :: xs => if xs.contains x then dedup xs else x :: dedup xs

/-- `collect_pre_tasks`: the pre-tasks of every visited configuration, de-duplicated by object. -/
def collectPreTasks (g : Graph) (n : Nat) : List Nat :=
  dedup (((reachable g n).map (fun m => (g.node m).preTasks)).flatten)

/-- **specification** of the full identifier (`identifiers(False)` without caches). -/
def fullId {D : Type} (hc : HC D) (g : Graph) (n : Nat) : D :=
  let raw := rawId hc g n
  let pre := sortBy hc.le ((collectPreTasks g n).map (rawId hc g))
  let init := (g.node n).initTasks
  hc.H (hc.emb raw ++ (pre.map hc.emb).flatten
        ++ (if init.isEmpty then [] else 12 :: (init.map (fun i => hc.emb (rawId hc g i))).flatten))

end XpmVerif.Ident
