import XpmVerif.Proofs.RestartRefsF
/-! C11, liveness of the restarted scheduler WITH adoption, FULL statement (no hypothesis on the dependencies of the
    adopted jobs).  `SoundF`: the abstract state `absF adopted s` satisfies every invariant of M2, and the concrete state
    satisfies `AdInvF`: an adopted job holds nothing and nobody sleeps on its event; a queued `check` concerns an origin
    that has returned, a queued `notifyCheck` a token; a job whose first segment has not begun is at the head of the queue,
    and no job is in state ERROR while such a job exists.  The last four facts say that nobody reads the state of an adopted
    job while a failing dependency may have set it to ERROR. -/
set_option linter.unusedSimpArgs false
set_option linter.unusedVariables false
namespace XpmVerif.RestartFull
open XpmVerif.Sched hiding Reachable flOK submitPre submitPost sumTo
open XpmVerif.SchedFinal XpmVerif.Restart XpmVerif.RestartTerm XpmVerif.RestartAbs XpmVerif.RestartLive

/-- the origin of the `d`-th dependency of job `j`. -/
def orig (s : St) (j d : Nat) : Origin := ((s.jobs j).deps.getD d default).origin

/-- what the concrete state of the restart world satisfies beyond the abstract state. -/
structure AdInvF (a : StA Disk) : Prop where
  held : ∀ j, a.adopted j = true → (a.s.jobs j).held = []
  sleep : ∀ j, a.adopted j = true → (a.s.jobs j).sleeping = false
  cwst : ∀ j, a.adopted j = true → (a.s.jobs j).pc = .codeWait → (a.s.jobs j).state = .running ∨ (a.s.jobs j).state = .error
  lists : (∀ t, (a.s.tokDeps t).length ≤ regP a.s) ∧ (∀ o, (a.s.jobDeps o).length ≤ regP a.s)
  proc : ∀ j, a.adopted j = true → a.d.procOf j < a.d.np ∧ (a.d.procs (a.d.procOf j)).ident = (a.s.jobs j).ident
  refs : RI2 (fun j d => ∀ k, orig a.s j d = .job k → ∃ r, (a.s.jobs k).pc = .finished r)
             (fun j d => ∀ k, orig a.s j d ≠ .job k)
             (fun t j d => ∃ c, orig a.s j d = .tok t c)
             (fun o j d => orig a.s j d = .job o) a.s
  hs : ∀ x, (a.s.jobs x).pc = .created → ∃ rest, a.s.ready = .start x :: rest
  nec : (∃ x, (a.s.jobs x).pc = .created) → ∀ k, (a.s.jobs k).state ≠ .error

/-- the invariant of the second run. -/
structure SoundF (fl : Flags) (totals : List Nat) (done0 : Nat → Bool) (w : W) : Prop where
  reach : WReach fl totals done0 w
  good : Good2 fl (absF w.a.adopted w.a.s)
  uniq : UniqId w.a.s
  lock : LockLink w.a.s w.a.d
  ai : AdInvF w.a

/-- the variant of the second run with adoption. -/
def wmuF (w : W) : Nat :=
  (cK w.a.s + 1) * (4 * mu (absF w.a.adopted w.a.s) + procRank w.a.d) + gCount w.a.s.ready

section facts
variable {fl : Flags} {totals : List Nat} {done0 : Nat → Bool} {w : W}

theorem SoundF.invP (h : SoundF fl totals done0 w) : InvP none w.a.s w.a.adopted := (wreach_inv h.reach).sched.1

theorem absF_pc (ad : Nat → Bool) (s : St) (i : Nat) : ((absF ad s).jobs i).pc = (s.jobs i).pc := by
  rw [absF_jobs, absRecF_pc]

theorem absF_state (ad : Nat → Bool) (s : St) (i : Nat) (h : (s.jobs i).pc ≠ .codeWait) :
    ((absF ad s).jobs i).state = (s.jobs i).state := by
  rw [absF_jobs, absRecF_state' ad i _ h]

/-- an adopted job is past its first segment, and final once its process has ended. -/
theorem SoundF.ad_pc (h : SoundF fl totals done0 w) (j : Nat) (ha : w.a.adopted j = true) :
    (w.a.s.jobs j).pc = .codeWait ∨
    (((w.a.s.jobs j).pc = .doneHandler ∨ ∃ r, (w.a.s.jobs j).pc = .finished r) ∧ (w.a.s.jobs j).state.finished = true) := by
  have hl := (h.invP.loc j).2.2.2 ha
  simp only [view] at hl
  have hp := hl.2
  have hL := (h.good.g.e.c.a.loc j).1
  rw [absF_pc] at hL
  by_cases hc : (w.a.s.jobs j).pc = .codeWait
  · exact Or.inl hc
  · right
    rw [absF_state _ _ _ hc] at hL
    revert hp hL hc
    cases (w.a.s.jobs j).pc <;> simp [pcAdopted, pcEnd]

theorem SoundF.ad_lt (h : SoundF fl totals done0 w) (j : Nat) (ha : w.a.adopted j = true) : j < w.a.s.n := by
  apply Classical.byContradiction
  intro hn
  have := (h.invP.fresh j (by omega)).1
  rcases h.ad_pc j ha with e | ⟨e | ⟨r, e⟩, _⟩ <;> rw [this] at e <;> cases e

theorem SoundF.lt_of_pc (h : SoundF fl totals done0 w) (i : Nat) (hp : (w.a.s.jobs i).pc ≠ .none) : i < w.a.s.n := by
  apply Classical.byContradiction
  intro hn
  exact hp (h.invP.fresh i (by omega)).1

/-- a dropped callback at the head of the queue is invisible. -/
theorem SoundF.stutterOK (h : SoundF fl totals done0 w) (cb : Cb) (hk : keepCb w.a.adopted cb = false) :
    StutterOK w.a.s cb := by
  have key : ∀ x, w.a.adopted x = true →
      (w.a.s.jobs x).sleeping = false ∧ ((w.a.s.jobs x).pc ≠ .codeWait → (w.a.s.jobs x).state.finished = true) := by
    intro x hx
    refine ⟨h.ai.sleep x hx, fun hc => ?_⟩
    rcases h.ad_pc x hx with e | ⟨_, e⟩
    · exact absurd e hc
    · exact e
  cases cb with
  | check x d => exact key x (by simpa [keepCb] using hk)
  | notifyCheck x d => exact key x (by simpa [keepCb] using hk)
  | _ => trivial

theorem SoundF.not_adopted_created (h : SoundF fl totals done0 w) (x : Nat) (hp : (w.a.s.jobs x).pc = .created) :
    w.a.adopted x = false := by
  cases hx : w.a.adopted x with
  | false => rfl
  | true => rcases h.ad_pc x hx with e | ⟨e | ⟨r, e⟩, _⟩ <;> rw [hp] at e <;> cases e

/-- nothing refers to a job whose first segment has not begun. -/
theorem SoundF.noRef (h : SoundF fl totals done0 w) (x : Nat) (hp : (w.a.s.jobs x).pc = .created) : NoRef w.a.s x := by
  have hx := h.not_adopted_created x hp
  have hun : ((absF w.a.adopted w.a.s).jobs x).state = .unscheduled :=
    h.good.g.e.c.f x (Or.inr (by rw [absF_pc]; exact hp))
  have hK := h.good.g.e.c.d.wf
  refine ⟨?_, ?_, ?_⟩
  · intro t p hpm e
    have : p ∈ (absF w.a.adopted w.a.s).tokDeps t := by
      rw [absF_tokDeps]; exact List.mem_filter.mpr ⟨hpm, by simp [keepP, e, hx]⟩
    have := (hK.tokDepsOK t p this).1.1
    rw [e] at this; exact this hun
  · intro o p hpm e
    have : p ∈ (absF w.a.adopted w.a.s).jobDeps o := by
      rw [absF_jobDeps]; exact List.mem_filter.mpr ⟨hpm, by simp [keepP, e, hx]⟩
    have := (hK.jobDepsOK o p this).1.1
    rw [e] at this; exact this hun
  · intro d
    constructor
    · intro hm
      have : Cb.check x d ∈ (absF w.a.adopted w.a.s).ready := by
        rw [absF_ready]; exact List.mem_filter.mpr ⟨hm, by simp [keepCb, hx]⟩
      exact (hK.cbOK x d (Or.inl this)).1 hun
    · intro hm
      have : Cb.notifyCheck x d ∈ (absF w.a.adopted w.a.s).ready := by
        rw [absF_ready]; exact List.mem_filter.mpr ⟨hm, by simp [keepCb, hx]⟩
      exact (hK.cbOK x d (Or.inr this)).1 hun

/-- what the popped callback tells about its job. -/
theorem SoundF.head_facts (h : SoundF fl totals done0 w) {cb : Cb} {rest : List Cb} (hr : w.a.s.ready = cb :: rest) :
    (∀ x, cb = .start x → w.a.adopted x = false ∧ (w.a.s.jobs x).pc = .created) ∧
    (∀ x, cb = .wake x → w.a.adopted x = false) ∧
    (∀ x, cb = .resume x → w.a.adopted x = true →
      (w.a.s.jobs x).held = [] ∧ ((w.a.s.jobs x).pc = .codeWait ∨ (w.a.s.jobs x).pc = .doneHandler)) := by
  have hp := pop_inv h.invP hr
  refine ⟨?_, ?_, ?_⟩
  · intro x e; subst e
    obtain ⟨hpc, -, -, -, -, -, -, had⟩ := pre_start _ _ x (hp.loc x)
    exact ⟨had, hpc⟩
  · intro x e; subst e
    obtain ⟨-, -, -, -, -, -, -, -, had⟩ := pre_wake _ _ x (hp.loc x)
    exact had
  · intro x e hx; subst e
    obtain ⟨hk, -, -, -, -, -, -, -, had⟩ := pre_resume _ _ x (hp.loc x)
    refine ⟨h.ai.held x hx, ?_⟩
    have := (had hx).2
    have hk' : pk (w.a.s.jobs x).pc = .thr := hk
    have hpa : pcAdopted (w.a.s.jobs x).pc = true := this
    revert hk' hpa
    cases (w.a.s.jobs x).pc <;> simp [pk, pcAdopted]

/-- no adopted job is in limbo while some first segment has not begun. -/
theorem SoundF.noLimbo (h : SoundF fl totals done0 w) (x : Nat) (hp : (w.a.s.jobs x).pc = .created) :
    NoLimbo w.a.adopted w.a.s := by
  intro k hk hc
  rcases h.ai.cwst k hk hc with e | e
  · exact e
  · exact absurd e (h.ai.nec ⟨x, hp⟩ k)

/-- what the callback at the head of the queue reads is not in limbo. -/
theorem SoundF.readOK (h : SoundF fl totals done0 w) {cb : Cb} {rest : List Cb} (hr : w.a.s.ready = cb :: rest)
    (hnr : ∀ j, cb ≠ .register j) : ReadOK w.a.adopted w.a.s cb := by
  have hm : cb ∈ w.a.s.ready := by rw [hr]; exact List.mem_cons_self ..
  cases cb with
  | start x => exact h.noLimbo x ((h.head_facts hr).1 x rfl).2
  | register j => exact absurd rfl (hnr j)
  | check x d =>
    intro k ho hk hc
    obtain ⟨r, hr'⟩ := h.ai.refs.cb x d hm k ho
    rw [hc] at hr'; cases hr'
  | notifyCheck x d =>
    intro k ho
    exact absurd ho (h.ai.refs.nf x d hm k)
  | wake x => trivial
  | resume x => trivial
  | waiterRun => trivial

theorem SoundF.created_held (h : SoundF fl totals done0 w) (x : Nat) (hx : w.a.adopted x = false)
    (hpc : (w.a.s.jobs x).pc = .created) : (w.a.s.jobs x).held = [] := by
  obtain ⟨N, c1, -⟩ := h.good.g.cap
  have hk := c1 x
  simp only [PJ, KJ] at hk
  rw [absF_jobs_na hx] at hk
  apply Classical.byContradiction
  intro hne
  have := hk.2.2.2.2.1 hne
  rw [hpc] at this; simp [PC.holds] at this

theorem SoundF.held_le (hrel : fl.abortReleases = true) (h : SoundF fl totals done0 w) (x : Nat) :
    (w.a.s.jobs x).held.length ≤ (w.a.s.jobs x).deps.length := by
  cases hx : w.a.adopted x with
  | true => rw [h.ai.held x hx]; exact Nat.zero_le _
  | false =>
    have hj := absF_jobs_na hx w.a.s
    have hq := (h.good.g.e.q x).2
    obtain ⟨N, c1, -⟩ := h.good.g.cap
    have hk := c1 x
    simp only [PJ, KJ] at hk
    rw [hj] at hq hk
    by_cases hne : (w.a.s.jobs x).held = []
    · rw [hne]; exact Nat.zero_le _
    · have hrun : (w.a.s.jobs x).pc.run = true := by
        rcases hq hne with ⟨q, _⟩ | q | q
        · rw [hrel] at q; cases q
        · rw [q]; rfl
        · rw [q]; rfl
      rw [hk.2.2.2.2.2.1 hrun]; simp

end facts

/-! ### one callback, on the abstract state -/

section stepAbs
variable {fl : Flags} {totals : List Nat} {done0 : Nat → Bool} {w : W}

theorem SoundF.noreg_head (h : SoundF fl totals done0 w) {cb : Cb} {rest : List Cb} (hr : w.a.s.ready = cb :: rest)
    (hk : keepCb w.a.adopted cb = true) : ∀ j, cb ≠ .register j := by
  intro j e
  subst e
  have hn := h.good.g.b.noreg
  rw [absF_ready_cons_keep hr hk] at hn
  simp [nReg, isReg] at hn

theorem step_absF (hg : fl.readyGuarded = true) (hf : fl.resubmitRegisters = true) (ha : fl.abortRechecks = true)
    (hrel : fl.abortReleases = true) (h : SoundF fl totals done0 w) (cb : Cb) (rest : List Cb)
    (hr : w.a.s.ready = cb :: rest) :
    Good2 fl (absF (stepA fl world w.a).adopted (stepA fl world w.a).s) ∧
    (TokFit (absF w.a.adopted w.a.s) → TokFit (absF (stepA fl world w.a).adopted (stepA fl world w.a).s)) ∧
    ((keepCb w.a.adopted cb = false ∧ (stepA fl world w.a).adopted = w.a.adopted ∧ (stepA fl world w.a).d = w.a.d ∧
        absF (stepA fl world w.a).adopted (stepA fl world w.a).s = absF w.a.adopted w.a.s) ∨
     (keepCb w.a.adopted cb = true ∧
        mu (absF (stepA fl world w.a).adopted (stepA fl world w.a).s) < mu (absF w.a.adopted w.a.s))) := by
  obtain ⟨hst, hwk, hres⟩ := h.head_facts hr
  have hG := h.good
  by_cases hk : keepCb w.a.adopted cb = true
  case neg =>
    have hk' : keepCb w.a.adopted cb = false := by simpa using hk
    have hok := h.stutterOK cb hk'
    obtain ⟨e1, e2, e3⟩ := sim_stutter fl hg w.a cb rest hr hk' hok
    have e3' : absF (stepA fl world w.a).adopted (stepA fl world w.a).s = absF w.a.adopted w.a.s := by rw [e1]; exact e3
    rw [e3']
    exact ⟨hG, fun hT => hT, Or.inl ⟨hk', e1, e2, rfl⟩⟩
  case pos =>
    by_cases hadopt : ∃ x, cb = .start x ∧ (world.look w.a.d x (w.a.s.jobs x)).adopt = true
    · obtain ⟨x, rfl, had⟩ := hadopt
      obtain ⟨hx, hpc⟩ := hst x rfl
      obtain ⟨e1, e2, e3⟩ := sim_adopt fl w.a x rest hr had hx (h.noRef x hpc)
      have hq := absF_ready_cons_keep hr hk
      obtain ⟨g1, g2, g3⟩ := adopt_good2 hg hf ha hrel hG hq
      rw [e1, e3]
      exact ⟨g1, g3, Or.inr ⟨hk, g2⟩⟩
    · have hna : ∀ x, cb = .start x → (world.look w.a.d x (w.a.s.jobs x)).adopt = false := by
        intro x e
        cases hl : (world.look w.a.d x (w.a.s.jobs x)).adopt with
        | false => rfl
        | true => exact absurd ⟨x, e, hl⟩ hadopt
      obtain ⟨e1, e2⟩ := sim_normal fl w.a cb rest hr hk hna (fun x e => (hst x e).1) hwk hres
        (h.readOK hr (h.noreg_head hr hk))
      have key : ∀ te : St, Good2 fl te → mu te = mu (absF w.a.adopted w.a.s) →
          te.ready = (absF w.a.adopted w.a.s).ready → (TokFit (absF w.a.adopted w.a.s) → TokFit te) →
          absF w.a.adopted (stepA fl world w.a).s = te.apply fl .step →
          Good2 fl (absF (stepA fl world w.a).adopted (stepA fl world w.a).s) ∧
          (TokFit (absF w.a.adopted w.a.s) → TokFit (absF (stepA fl world w.a).adopted (stepA fl world w.a).s)) ∧
          ((keepCb w.a.adopted cb = false ∧ (stepA fl world w.a).adopted = w.a.adopted ∧ (stepA fl world w.a).d = w.a.d ∧
              absF (stepA fl world w.a).adopted (stepA fl world w.a).s = absF w.a.adopted w.a.s) ∨
           (keepCb w.a.adopted cb = true ∧
              mu (absF (stepA fl world w.a).adopted (stepA fl world w.a).s) < mu (absF w.a.adopted w.a.s))) := by
        intro te hGe hmu hre hTe hse
        have hq := absF_ready_cons_keep hr hk
        have hen : Enabled te .step := by show te.ready ≠ []; rw [hre, hq]; simp
        rw [e1, hse]
        refine ⟨good2_apply hg hf ha .step (evOK_enabled te .step hen) trivial hGe,
          fun hT => tokFit_enabled fl te .step hen (hTe hT), Or.inr ⟨hk, ?_⟩⟩
        rw [← hmu]; exact mu_decreases fl hg ha hrel te hGe.g.invT hGe.g.b.noreg .step hen
      have plain : absF w.a.adopted (stepA fl world w.a).s = (absF w.a.adopted w.a.s).apply fl .step → _ :=
        fun e => key _ hG rfl rfl (fun hT => hT) e
      cases cb with
      | start x =>
        obtain ⟨hx, hpc⟩ := hst x rfl
        have hj : (absF w.a.adopted w.a.s).jobs x = w.a.s.jobs x := absF_jobs_na hx _
        have hpc' : ((absF w.a.adopted w.a.s).jobs x).pc = .created := by rw [hj]; exact hpc
        have hun := hG.g.e.c.f x (Or.inr hpc')
        have hsb : SameBut ((absF w.a.adopted w.a.s).jobs x) (markerRecA w.a x) := by
          rw [hj]; exact ⟨rfl, rfl, rfl, rfl, rfl, rfl, rfl, rfl, rfl, rfl⟩
        have hL : JLocal (markerRecA w.a x) := by
          have := jlocal_marker_edit (hG.g.e.c.a.loc x) hpc' hun (world.look w.a.d x (w.a.s.jobs x)).marker
          rw [hj] at this; exact this
        exact key _ (good2_edit hG hsb hL) (mu_edit hsb) rfl (fun hT => tokFit_edit hT hsb) e2
      | resume x => exact plain e2
      | register x => exact plain e2
      | wake x => exact plain e2
      | check x d => exact plain e2
      | notifyCheck x d => exact plain e2
      | waiterRun => exact plain e2

end stepAbs

end XpmVerif.RestartFull
