"""C03 on /repo: a parameter value produced by a task is ignored when it `==` the configuration-valued default"""
import sys, tempfile
sys._called_from_test = True
from pathlib import Path
from experimaestro import Config, Param, Task, experiment
from experimaestro.scheduler.workspace import RunMode

class Model(Config):
    __xpmid__ = "f.model"
    size: Param[int] = 10

class Pretrain(Task):
    """produces a trained Model (same hyper-parameters as the plain one, but it depends on the task)"""
    __xpmid__ = "f.pretrain"
    epochs: Param[int]
    def task_outputs(self, dep):
        return dep(Model(size=10))
    def execute(self): pass

class Evaluate(Task):
    __xpmid__ = "f.evaluate"
    model: Param[Model] = Model(size=10)
    def execute(self): pass

def ident(c): return c.__xpm__.identifier.all.hex()

with tempfile.TemporaryDirectory() as tmp:
    with experiment(Path(tmp), "x", run_mode=RunMode.DRY_RUN):
        m1 = Pretrain(epochs=1).submit()
        m2 = Pretrain(epochs=100).submit()
        e0, e1, e2 = Evaluate(), Evaluate(model=m1), Evaluate(model=m2)
        print("raw ids of the three models   :", ident(Model(size=10))[:12], ident(m1)[:12], ident(m2)[:12])
        print("ids of the three evaluations  :", ident(e0)[:12], ident(e1)[:12], ident(e2)[:12])
        for e in (e0, e1, e2):
            e.submit()
        print("job dirs:", {str(e.__xpm__.job.path)[-20:] for e in (e0, e1, e2)})
        print("dependencies of e1:", len(e1.__xpm__.job.dependencies), " of e0:", len(e0.__xpm__.job.dependencies))
        bad = len({ident(e0), ident(e1), ident(e2)}) < 3
print("C03 VIOLATED (different signatures share an identifier)" if bad else "ok")
sys.exit(1 if bad else 0)
