import XpmVerif.Proofs.FileTokens
/-! C09, file-based part (model M2', `Model/FileTokens.lean`): whatever way a job ends, the amount it
    held returns to the token shared by several scheduler processes, an idle token shows its full
    capacity in every process, and no release is lost for a process whose observer runs.
    The two defects (F6, F24; repaired in /repo by 27f13be and f2a7fa6) that change the token-level behaviour are parameters of the
    model (`cfg.tolerant`, `cfg.notifyMissing`, read off the real code by the check): the theorems that
    need a repair say so. -/
namespace XpmVerif.C09Files
open XpmVerif.FileTokens

/-- `release_restores` — "the amount it held returns to the token": a release that finds its file
    removes it, the directory total drops by exactly that amount, the releasing process shows
    exactly what is free, it notifies its waiting dependencies, and every process whose observer
    runs has the deletion in its event queue. -/
theorem release_restores (cfg : Cfg) (s : St) (r : Reachable cfg s) (p : Proc) (f : Name)
    (hf : f ∈ names s.disk) :
    let s' := (apply cfg s (.release p f)).1
    f ∉ names s'.disk ∧ diskSum cfg s' + cfg.req f = diskSum cfg s ∧
    (s'.procs p).avail = (cfg.total : Int) - (diskSum cfg s' : Nat) ∧
    (apply cfg s (.release p f)).2.notify = true ∧
    ∀ q, (s.procs q).alive = true → (s.procs q).dropped = false → q ≠ p → FsEv.deleted f ∈ (s'.procs q).pending := by
  have h := reachable_inv cfg s r
  simp only [apply, recount_cache, hf, ↓reduceIte]
  refine ⟨?_, ?_, ?_, trivial, ?_⟩
  · intro hm; exact ((mem_names_rmFile f f s.disk).mp hm).1 rfl
  · exact sumReq_rmFile cfg.req f s.disk h.nodupDisk hf
  · have := sumReq_rmFile cfg.req f s.disk h.nodupDisk hf
    simp only [bc_avail, upd_same, recount_avail, diskSum]; omega
  · intro q ha hd hq
    exact bc_pending_new _ _ _ (by simpa [upd_other _ _ _ _ hq] using ha) (by simpa [upd_other _ _ _ _ hq] using hd)

/-- the other way a holding ends — "death of its scheduler followed by the job's own end": a watcher
    thread of any other process removes the file once the job is gone; the amount returns and every
    live observer is told (`reclaimed_after_job_end`). -/
theorem reclaim_restores (cfg : Cfg) (s : St) (r : Reachable cfg s) (p : Proc) (f : Name)
    (hf : f ∈ names s.disk) :
    let s' := (apply cfg s (.reclaim p f)).1
    f ∉ names s'.disk ∧ diskSum cfg s' + cfg.req f = diskSum cfg s ∧
    ∀ q, (s.procs q).alive = true → (s.procs q).dropped = false → FsEv.deleted f ∈ (s'.procs q).pending := by
  have h := reachable_inv cfg s r
  simp only [apply, hf, ↓reduceIte]
  refine ⟨?_, sumReq_rmFile cfg.req f s.disk h.nodupDisk hf, ?_⟩
  · intro hm; exact ((mem_names_rmFile f f s.disk).mp hm).1 rfl
  · intro q ha hd
    by_cases hq : q = p
    · subst hq; exact bc_pending_new _ _ _ (by simpa using ha) (by simpa using hd)
    · exact bc_pending_new _ _ _ (by simpa [upd_other _ _ _ _ hq] using ha) (by simpa [upd_other _ _ _ _ hq] using hd)

/-- a token file can always be removed: by the release of any live process (its owner: after the job
    has ended, or at once when its start is abandoned), and, once the job is gone, by the reclaim of any
    process that watches it. -/
theorem leftover_file_removable (s : St) (p : Proc) (f : Name) (hi : s.ipc = none)
    (hd : (s.procs p).dropped = false) :
    enabled s (.release p f) = true ∧
    (f ∉ s.active → f ∈ (s.procs p).watch → enabled s (.reclaim p f) = true) := by
  simp [enabled, hi, hd]; intro h1 h2; exact ⟨h2, h1⟩

/-- a release ends the holding: the job is no longer counted among those that hold the token (an aborted
    start gives the token back while its job lock is still held). -/
theorem release_ends_holding (cfg : Cfg) (s : St) (r : Reachable cfg s) (p : Proc) (f : Name) :
    f ∉ (apply cfg s (.release p f)).1.active := by
  have h := reachable_inv cfg s r
  simp only [apply, recount_cache]
  by_cases hf : f ∈ names s.disk
  · simp only [hf, ↓reduceIte]
    intro hm; exact ((h.nodupActive.mem_erase_iff).mp hm).1 rfl
  · simp only [hf, ↓reduceIte]
    intro hm; exact hf (h.activeDisk f hm)

/-- a release whose file was already reclaimed still leaves the releasing process with the exact count;
    whether it notifies is the decision point of the lost-notification finding (F24). -/
theorem release_missing_recounts (cfg : Cfg) (s : St) (p : Proc) (f : Name) (hf : f ∉ names s.disk) :
    let s' := (apply cfg s (.release p f)).1
    (s'.procs p).avail = (cfg.total : Int) - (diskSum cfg s' : Nat) ∧ s'.disk = s.disk ∧
    (apply cfg s (.release p f)).2.notify = cfg.notifyMissing := by
  simp [apply, recount_cache, hf, recount_avail, diskSum]

/-- with the repair (`notifyMissing`), every release notifies the waiting dependencies of its process. -/
theorem release_always_notifies (cfg : Cfg) (s : St) (p : Proc) (f : Name) (hn : cfg.notifyMissing = true) :
    (apply cfg s (.release p f)).2.notify = true := by
  simp only [apply]; split <;> simp [hn]

/-- `no_lost_release`: for a process whose observer runs, every cached token file that is no longer in
    the directory (released or reclaimed by anyone) has its deletion event waiting in the queue … -/
theorem no_lost_release (cfg : Cfg) (s : St) (r : Reachable cfg s) (p : Proc)
    (ha : (s.procs p).alive = true) (hd : (s.procs p).dropped = false) (f : Name)
    (hc : f ∈ (s.procs p).cache) (hf : f ∉ names s.disk) : FsEv.deleted f ∈ (s.procs p).pending := by
  rcases (reachable_inv cfg s r).cacheSound p ha hd f hc with h | h
  · exact absurd h hf
  · exact h

/-- … and dispatching it gives the amount back, forgets the file and notifies the waiting
    dependencies (`on_deleted`). -/
theorem deleted_event_notifies (cfg : Cfg) (s : St) (r : Reachable cfg s) (p : Proc) (f : Name) (rest : List FsEv)
    (hp : (s.procs p).pending = .deleted f :: rest) (hc : f ∈ (s.procs p).cache) :
    let s' := (apply cfg s (.fsEvent p)).1
    (s'.procs p).avail = (s.procs p).avail + (cfg.req f : Nat) ∧ f ∉ (s'.procs p).cache ∧
    (apply cfg s (.fsEvent p)).2.notify = decide (0 < (s.procs p).avail + (cfg.req f : Nat)) := by
  have h := reachable_inv cfg s r
  simp only [apply, hp, dispatch, hc, ↓reduceIte, upd_same]
  exact ⟨trivial, fun hm => ((h.nodupCache p).mem_erase_iff.mp hm).1 rfl, trivial⟩

/-- `idle_full` — "an idle token always shows its full capacity": when no token file remains, a process
    whose observer runs and has dispatched its deletions knows no file and shows at least the total
    (it may show more: observation F23) … -/
theorem idle_full (cfg : Cfg) (s : St) (r : Reachable cfg s) (p : Proc) (hdisk : s.disk = [])
    (ha : (s.procs p).alive = true) (hd : (s.procs p).dropped = false)
    (hn : ∀ f, FsEv.deleted f ∉ (s.procs p).pending) :
    (s.procs p).cache = [] ∧ (s.procs p).avail ≥ (cfg.total : Int) := by
  have h := reachable_inv cfg s r
  have hc : (s.procs p).cache = [] := by
    apply List.eq_nil_iff_forall_not_mem.mpr
    intro f hf
    rcases h.cacheSound p ha hd f hf with h1 | h1
    · simp [hdisk, names] at h1
    · exact hn f h1
  have hi : s.ipc = none := by
    cases e : s.ipc with
    | none => rfl
    | some qf => obtain ⟨q, f⟩ := qf; have := (h.ipcInv q f e).1; simp [hdisk, names] at this
  have := h.over p
  simp only [hc, sumReq, inflight, hi] at this
  exact ⟨hc, by omega⟩

/-- … and exactly the total after its next recount (the first thing `acquire` and `release` do). -/
theorem idle_recount_full (cfg : Cfg) (P : PSt) : (recount cfg [] P).avail = cfg.total ∧ (recount cfg [] P).cache = [] := by
  simp [recount, names, sumReq]

/-- with the tolerant watcher callbacks (the repair of F6) no step other than the death of the process
    itself stops an observer, so `no_lost_release` and `idle_full` apply to every live process. -/
theorem observer_survives (cfg : Cfg) (s : St) (e : Ev) (p : Proc) (ht : cfg.tolerant = true)
    (ha : (s.procs p).alive = true) (he : e ≠ .drop p) : ((apply cfg s e).1.procs p).alive = true := by
  cases e with
  | acquireBegin q f =>
    simp only [apply]; split
    · by_cases hq : p = q
      · subst hq; simpa using ha
      · simpa [upd_other _ _ _ _ hq] using ha
    · simp only [bc_alive]; by_cases hq : p = q
      · subst hq; simpa using ha
      · simpa [upd_other _ _ _ _ hq] using ha
  | acquireEnd q =>
    simp only [apply]; split
    · split
      · simp only [bc_alive]; by_cases hq : p = q
        · subst hq; simpa using ha
        · simpa [upd_other _ _ _ _ hq] using ha
      · exact ha
    · exact ha
  | release q f =>
    simp only [apply]; split
    · simp only [bc_alive]; by_cases hq : p = q
      · subst hq; simpa using ha
      · simpa [upd_other _ _ _ _ hq] using ha
    · by_cases hq : p = q
      · subst hq; simpa using ha
      · simpa [upd_other _ _ _ _ hq] using ha
  | fsEvent q =>
    simp only [apply]
    split
    · exact ha
    · rename_i ev rest hp
      by_cases hq : p = q
      · subst hq
        simp only [upd_same]
        cases ev with
        | deleted f => simp only [dispatch]; split <;> simpa using ha
        | created f | modified f =>
          simp only [dispatch, ht, ↓reduceIte]
          split
          · simpa using ha
          · split <;> simpa using ha
      · simpa [upd_other _ _ _ _ hq] using ha
  | reclaim q f =>
    simp only [apply]; split
    · simp only [bc_alive]; by_cases hq : p = q
      · subst hq; simpa using ha
      · simpa [upd_other _ _ _ _ hq] using ha
    · by_cases hq : p = q
      · subst hq; simpa using ha
      · simpa [upd_other _ _ _ _ hq] using ha
  | jobGone f => simpa [apply] using ha
  | drop q =>
    have hq : p ≠ q := by intro e; subst e; exact he rfl
    simpa [apply, upd_other _ _ _ _ hq] using ha
  | restart q =>
    simp only [apply]; by_cases hq : p = q
    · subst hq; simp [fresh]
    · simpa [upd_other _ _ _ _ hq] using ha
  | recreate q => exact ha

/-! ### witnesses: the hypotheses are satisfiable; what failed before the repairs
    (`cfgNow`, `cfgFixed`, `evsF6`, `evsLost`, `evsOk`, `notifiesOf` are defined in `Proofs/FileTokens.lean`) -/

/-- F6, before the repair (`tolerant = false`): a reachable state in which the directory is empty,
    nothing is pending, the process is not dead, and yet it shows 0 of 1 with a stale cache entry for
    ever — `idle_full` cannot be extended to a process whose observer has died. -/
theorem observer_can_die :
    let s := run cfgNow (init cfgNow) evsF6
    Reachable cfgNow s ∧ s.disk = [] ∧ (s.procs 1).alive = false ∧ (s.procs 1).dropped = false ∧
    (s.procs 1).pending = [] ∧ (s.procs 1).cache = [7] ∧ (s.procs 1).avail = 0 := by
  refine ⟨reachable_run cfgNow evsF6 _ .init (by decide +kernel), ?_⟩
  decide +kernel

/-- the same schedule with the tolerant callbacks: the observer lives, the deletion is queued, and after
    dispatching its three events process 1 shows 1 of 1 again. -/
example : ((run cfgFixed (init cfgFixed) evsF6).procs 1).alive = true ∧
    FsEv.deleted 7 ∈ ((run cfgFixed (init cfgFixed) evsF6).procs 1).pending := by decide +kernel
example : let s := run cfgFixed (init cfgFixed) (evsF6 ++ [.fsEvent 1, .fsEvent 1, .fsEvent 1])
    s.disk = [] ∧ (s.procs 1).cache = [] ∧ (s.procs 1).avail = 1 := by decide +kernel

/-- F24, before the repair (`notifyMissing = false`): an enabled run that ends with an empty directory
    and an empty queue in which no step ever called `aio_notify()` in the releasing process. -/
theorem release_after_reclaim_is_silent :
    allEnabled cfgNow (init cfgNow) evsLost = true ∧ (run cfgNow (init cfgNow) evsLost).disk = [] ∧
    ((run cfgNow (init cfgNow) evsLost).procs 0).pending = [] ∧
    (notifiesOf cfgNow 0 (init cfgNow) evsLost).all (· == false) = true := by decide +kernel

/-- with the repair the release notifies. -/
example : (notifiesOf cfgFixed 0 (init cfgFixed) evsLost).any (· == true) = true := by decide +kernel

/-- non-vacuity of `release_restores` / `no_lost_release` / `idle_full`: a reachable state where process 1 has
    cached a foreign file that is released, then the idle state (which shows 2 of 1: observation F23). -/
example : let s := run cfgFixed (init cfgFixed) evsOk
    Reachable cfgFixed s ∧ 7 ∈ (s.procs 1).cache ∧ 7 ∉ names s.disk ∧ FsEv.deleted 7 ∈ (s.procs 1).pending :=
  ⟨reachable_run cfgFixed evsOk _ .init (by decide +kernel), by decide +kernel⟩
example : let s := run cfgFixed (init cfgFixed) (evsOk ++ [.fsEvent 1])
    s.disk = [] ∧ (s.procs 1).pending = [] ∧ (s.procs 1).cache = [] ∧ (s.procs 1).avail = 2 := by decide +kernel

end XpmVerif.C09Files
