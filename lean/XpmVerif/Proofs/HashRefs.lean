import XpmVerif.Proofs.Sort
import XpmVerif.Proofs.IsDefault
/-! What the stream of a node reads: static reference lists (`valueRefs`, `defaultRefs`, `relRefs`, `metaRefs`,
    `allRefs`), their relation with the context-dependent `nodeRefs` of Model/IdentImpl.lean, and the congruence
    lemmas `nodeStream_congr_refs` / `nodeStream_congr_ctx`. -/
namespace XpmVerif.Ident
open List

/-! ### the encoder reads `cfg` only on the references it descends into -/

mutual
theorem encVal_congr_refs (cfg cfg' : Nat → List Nat) (mt : Nat → Option Bool) :
    ∀ v : Val, (∀ m, m ∈ refsVal mt v → cfg m = cfg' m) → encVal cfg mt v = encVal cfg' mt v
  | .none, _ => by simp [encVal]
  | .bool _, _ => by simp [encVal]
  | .int _, _ => by simp [encVal]
  | .float _, _ => by simp [encVal]
  | .str _, _ => by simp [encVal]
  | .enum _, _ => by simp [encVal]
  | .path _, _ => by simp [encVal]
  | .list l, h => by
    simp only [encVal]
    rw [encItems_congr_refs cfg cfg' mt l (fun m hm => h m (by simpa [refsVal] using hm))]
  | .dict ks vs, h => by
    simp only [encVal]
    rw [encPairs_congr_refs cfg cfg' mt ks vs (fun m hm => h m (by simpa [refsVal] using hm))]
  | .ref n, h => by simp [encVal, h n (by simp [refsVal])]
theorem encItems_congr_refs (cfg cfg' : Nat → List Nat) (mt : Nat → Option Bool) :
    ∀ l : List Val, (∀ m, m ∈ refsVals mt l → cfg m = cfg' m) → encItems cfg mt l = encItems cfg' mt l
  | [], _ => by simp [encItems]
  | v :: vs, h => by
    simp only [encItems]
    by_cases hd : dropped mt v = true
    · simp only [hd, if_true]
      exact encItems_congr_refs cfg cfg' mt vs (fun m hm => h m (by simp [refsVals, hd, hm]))
    · simp only [hd]
      rw [encVal_congr_refs cfg cfg' mt v (fun m hm => h m (by simp [refsVals, hd, hm])),
        encItems_congr_refs cfg cfg' mt vs (fun m hm => h m (by simp [refsVals, hd, hm]))]
theorem encPairs_congr_refs (cfg cfg' : Nat → List Nat) (mt : Nat → Option Bool) :
    ∀ (ks : List (List Nat)) (vs : List Val), (∀ m, m ∈ refsPairs mt ks vs → cfg m = cfg' m) →
      encPairs cfg mt ks vs = encPairs cfg' mt ks vs
  | [], _, _ => by simp [encPairs]
  | _ :: _, [], _ => by simp [encPairs]
  | k :: ks, v :: vs, h => by
    simp only [encPairs]
    by_cases hd : dropped mt v = true
    · simp only [hd, if_true]
      exact encPairs_congr_refs cfg cfg' mt ks vs (fun m hm => h m (by simp [refsPairs, hd, hm]))
    · simp only [hd]
      rw [encVal_congr_refs cfg cfg' mt v (fun m hm => h m (by simp [refsPairs, hd, hm])),
        encPairs_congr_refs cfg cfg' mt ks vs (fun m hm => h m (by simp [refsPairs, hd, hm]))]
end

/-! ### static reference structure of a node

    `nodeRefs` (Model/IdentImpl.lean) — the configurations examined while a node is hashed — depends on the
    context: `_is_default` stops at the first difference and does not compute a value that is being hashed.
    The proofs use static lists:
    * `valueRefs`: the producing task and the kept configurations of the values of the arguments that reach
      the encoder or are compared to their default (`examined`, not a `meta = True` configuration): they are
      examined in **every** context (`valueRefs_sub_nodeRefs`), and they are all the stream reads through `cfg`;
    * `defaultRefs`: the configurations of the declared defaults of these arguments: examined in some
      contexts only; the stream reads them through `ceq`;
    * `relRefs = valueRefs ++ defaultRefs`: everything the **value** of the stream depends on;
    * `metaRefs`: an argument whose value is a `meta = True` configuration is never in the stream, but
      `_is_default` may still compute its value and its default (this only matters for the loop flag);
    * `allRefs = relRefs ++ metaRefs ⊇ nodeRefs` in every context (`nodeRefs_sub_allRefs`). -/

/-- the argument reaches the default rule of the loop (none of the first two `continue`). -/
def examined (mt : Nat → Option Bool) (a : Arg) : Bool := !ignoredOut mt a && !a.generator

/-- the configurations of the declared default, when the default rule applies to the argument. -/
def dfltRefsArg (a : Arg) : List Nat :=
  if a.constant then [] else match a.default with | some d => refsAll d | none => []

def taskRefs (self : Nat) (nd : Node) : List Nat :=
  match nd.task with | some t => if t ≠ self then [t] else [] | none => []

def valueRefs (mt : Nat → Option Bool) (self : Nat) (nd : Node) : List Nat :=
  taskRefs self nd
    ++ ((nd.args.filter (fun a => examined mt a && !metaOut mt a)).map (fun a => refsVal mt a.value)).flatten

def defaultRefs (mt : Nat → Option Bool) (nd : Node) : List Nat :=
  ((nd.args.filter (fun a => examined mt a && !metaOut mt a)).map dfltRefsArg).flatten

/-- configurations the value of the stream of `nd` depends on. -/
def relRefs (mt : Nat → Option Bool) (self : Nat) (nd : Node) : List Nat :=
  valueRefs mt self nd ++ defaultRefs mt nd

def metaRefs (mt : Nat → Option Bool) (nd : Node) : List Nat :=
  ((nd.args.filter (fun a => examined mt a && metaOut mt a)).map (fun a => refsVal mt a.value ++ dfltRefsArg a)).flatten

/-- static over-approximation of `nodeRefs`. -/
def allRefs (mt : Nat → Option Bool) (self : Nat) (nd : Node) : List Nat :=
  relRefs mt self nd ++ metaRefs mt nd

theorem mem_valueRefs {mt self nd m} : m ∈ valueRefs mt self nd ↔
    m ∈ taskRefs self nd ∨ ∃ a ∈ nd.args, examined mt a = true ∧ metaOut mt a = false ∧ m ∈ refsVal mt a.value := by
  simp only [valueRefs, mem_append, mem_flatten, mem_map, mem_filter, Bool.and_eq_true, Bool.not_eq_true']
  constructor
  · rintro (h | ⟨l, ⟨a, ⟨ha, h1, h2⟩, rfl⟩, hm⟩)
    · exact .inl h
    · exact .inr ⟨a, ha, h1, h2, hm⟩
  · rintro (h | ⟨a, ha, h1, h2, hm⟩)
    · exact .inl h
    · exact .inr ⟨_, ⟨a, ⟨ha, h1, h2⟩, rfl⟩, hm⟩

theorem mem_defaultRefs {mt nd m} : m ∈ defaultRefs mt nd ↔
    ∃ a ∈ nd.args, examined mt a = true ∧ metaOut mt a = false ∧ m ∈ dfltRefsArg a := by
  simp only [defaultRefs, mem_flatten, mem_map, mem_filter, Bool.and_eq_true, Bool.not_eq_true']
  constructor
  · rintro ⟨l, ⟨a, ⟨ha, h1, h2⟩, rfl⟩, hm⟩
    exact ⟨a, ha, h1, h2, hm⟩
  · rintro ⟨a, ha, h1, h2, hm⟩
    exact ⟨_, ⟨a, ⟨ha, h1, h2⟩, rfl⟩, hm⟩

theorem mem_metaRefs {mt nd m} : m ∈ metaRefs mt nd ↔
    ∃ a ∈ nd.args, examined mt a = true ∧ metaOut mt a = true ∧ (m ∈ refsVal mt a.value ∨ m ∈ dfltRefsArg a) := by
  simp only [metaRefs, mem_flatten, mem_map, mem_filter, Bool.and_eq_true]
  constructor
  · rintro ⟨l, ⟨a, ⟨ha, h1, h2⟩, rfl⟩, hm⟩
    exact ⟨a, ha, h1, h2, mem_append.1 hm⟩
  · rintro ⟨a, ha, h1, h2, hm⟩
    exact ⟨_, ⟨a, ⟨ha, h1, h2⟩, rfl⟩, mem_append.2 hm⟩

theorem valueRefs_sub_relRefs {mt self nd m} (h : m ∈ valueRefs mt self nd) : m ∈ relRefs mt self nd :=
  mem_append_left _ h
theorem defaultRefs_sub_relRefs {mt self nd m} (h : m ∈ defaultRefs mt nd) : m ∈ relRefs mt self nd :=
  mem_append_right _ h
theorem relRefs_sub_allRefs {mt self nd m} (h : m ∈ relRefs mt self nd) : m ∈ allRefs mt self nd :=
  mem_append_left _ h

theorem included_examined {ceq mt} {a : Arg} (h : included ceq mt a = true) :
    examined mt a = true ∧ metaOut mt a = false := by
  simp only [included, Bool.and_eq_true, Bool.not_eq_true'] at h
  simp [examined, h.1.1.1, h.1.1.2, h.2]

/-- **every configuration examined in some context is in `allRefs`.** -/
theorem nodeRefs_sub_allRefs {onst ceq mt self nd m} (h : m ∈ nodeRefs onst ceq mt self nd) :
    m ∈ allRefs mt self nd := by
  simp only [nodeRefs, mem_append, mem_flatten, mem_map] at h
  rcases h with h | ⟨l, ⟨a, ha, rfl⟩, hm⟩
  · exact relRefs_sub_allRefs (valueRefs_sub_relRefs (mem_valueRefs.2 (.inl h)))
  · unfold argDynRefs at hm
    split at hm
    · simp at hm
    · rename_i hex
      have hex' : examined mt a = true := by
        simp only [Bool.or_eq_true, not_or, Bool.not_eq_true] at hex
        simp [examined, hex.1, hex.2]
      -- where does `m` come from?
      have hsrc : m ∈ refsVal mt a.value ∨ m ∈ dfltRefsArg a := by
        rcases mem_append.1 hm with hm | hm
        · split at hm
          · simp at hm
          · rename_i hcst
            split at hm
            · rename_i d hd
              rcases defRefs_sub onst ceq mt m d _ hm with h | h
              · exact .inr (by simp [dfltRefsArg, hcst, hd, h])
              · exact .inl (by rwa [refsVal_removeMeta] at h)
            · simp at hm
        · split at hm
          · exact .inl hm
          · simp at hm
      by_cases hmo : metaOut mt a = true
      · exact mem_append_right _ (mem_metaRefs.2 ⟨a, ha, hex', hmo, hsrc⟩)
      · have hmo' : metaOut mt a = false := by simpa using hmo
        rcases hsrc with h | h
        · exact relRefs_sub_allRefs (valueRefs_sub_relRefs (mem_valueRefs.2 (.inr ⟨a, ha, hex', hmo', h⟩)))
        · exact relRefs_sub_allRefs (defaultRefs_sub_relRefs (mem_defaultRefs.2 ⟨a, ha, hex', hmo', h⟩))

/-- **the value references are examined in every context** (`hco`: a configuration that is being hashed is
    never found to have the identifier of a default). -/
theorem valueRefs_sub_nodeRefs {onst ceq mt self nd m} (hco : ∀ d v, ceq d v = true → onst v = false)
    (h : m ∈ valueRefs mt self nd) : m ∈ nodeRefs onst ceq mt self nd := by
  simp only [nodeRefs, mem_append, mem_flatten, mem_map]
  rcases mem_valueRefs.1 h with h | ⟨a, ha, hex, hmo, hm⟩
  · exact .inl h
  · refine .inr ⟨_, ⟨a, ha, rfl⟩, ?_⟩
    simp only [examined, Bool.and_eq_true, Bool.not_eq_true'] at hex
    unfold argDynRefs
    simp only [hex.1, hex.2, Bool.or_self, Bool.false_eq_true, if_false, mem_append]
    by_cases hinc : included ceq mt a = true
    · exact .inr (by simp [hinc, hm])
    · left
      have hdo : defaultOut ceq mt a = true := by
        simp only [included, hex.1, hex.2, hmo, Bool.not_false, Bool.true_and, Bool.and_true,
          Bool.not_eq_true', Bool.not_eq_false] at hinc
        exact hinc
      simp only [defaultOut, Bool.and_eq_true, Bool.not_eq_true', Bool.or_eq_true] at hdo
      obtain ⟨hcst, hdo⟩ := hdo
      rcases hdo with hdo | hdo
      · -- the value is `None`: no reference
        cases hv : a.value <;> simp [hv] at hdo
        simp [hv, refsVal] at hm
      · cases hd : a.default with
        | none => simp [hd] at hdo
        | some d =>
          simp only [hd] at hdo
          simp only [hcst, Bool.false_eq_true, if_false]
          exact defRefs_complete onst ceq mt hco m d _ hdo (by rwa [refsVal_removeMeta])

theorem included_congr_ceq (ceq ceq' : Nat → Nat → Bool) (mt : Nat → Option Bool) (a : Arg)
    (h : examined mt a = true → metaOut mt a = false →
      ∀ x ∈ dfltRefsArg a, ∀ y ∈ refsVal mt a.value, ceq x y = ceq' x y) :
    included ceq mt a = included ceq' mt a := by
  by_cases hex : examined mt a = true
  · by_cases hmo : metaOut mt a = true
    · simp [included, hmo]
    · have hmo' : metaOut mt a = false := by simpa using hmo
      have hq := h hex hmo'
      have : defaultOut ceq mt a = defaultOut ceq' mt a := by
        unfold defaultOut
        cases hcst : a.constant with
        | true => simp
        | false =>
          cases hd : a.default with
          | none => rfl
          | some d =>
            simp only [Bool.not_false, Bool.true_and]
            congr 1
            apply isDefault_congr_ceq
            intro x hx y hy
            exact hq x (by simp [dfltRefsArg, hcst, hd, hx]) y (by rwa [refsVal_removeMeta] at hy)
      simp only [included, this]
  · simp only [examined, Bool.and_eq_true, Bool.not_eq_true', not_and, Bool.not_eq_false] at hex
    simp only [included]
    cases hi : ignoredOut mt a with
    | true => simp
    | false => simp [hex hi]

theorem argStream_congr_refs (cfg cfg' : Nat → List Nat) (ceq ceq' : Nat → Nat → Bool) (mt : Nat → Option Bool) (a : Arg)
    (h : examined mt a = true → metaOut mt a = false → ∀ m, m ∈ refsVal mt a.value → cfg m = cfg' m)
    (hq : examined mt a = true → metaOut mt a = false →
      ∀ x ∈ dfltRefsArg a, ∀ y ∈ refsVal mt a.value, ceq x y = ceq' x y) :
    argStream cfg ceq mt a = argStream cfg' ceq' mt a := by
  unfold argStream
  rw [← included_congr_ceq ceq ceq' mt a hq]
  by_cases hi : included ceq mt a = true
  · simp only [hi, if_true]
    rw [encVal_congr_refs cfg cfg' mt a.value (h (included_examined hi).1 (included_examined hi).2)]
  · simp [hi]

/-- **congruence on `relRefs`**: two reference encoders that agree on the value references of the node, and
    two default comparisons that agree on (default reference, value reference), give the same stream. -/
theorem nodeStream_congr_refs (cfg cfg' : Nat → List Nat) (ceq ceq' : Nat → Nat → Bool) (mt : Nat → Option Bool)
    (self : Nat) (nd : Node)
    (h : ∀ m, m ∈ valueRefs mt self nd → cfg m = cfg' m)
    (hq : ∀ x ∈ defaultRefs mt nd, ∀ y ∈ valueRefs mt self nd, ceq x y = ceq' x y) :
    nodeStream cfg ceq mt self nd = nodeStream cfg' ceq' mt self nd := by
  have hargs : ∀ a, a ∈ sortBy (fun a b => bytesLe a.name b.name) nd.args →
      argStream cfg ceq mt a = argStream cfg' ceq' mt a := by
    intro a ha
    have ha' : a ∈ nd.args := (sortBy_perm _ nd.args).subset ha
    apply argStream_congr_refs
    · intro hex hmo m hm
      exact h m (mem_valueRefs.2 (.inr ⟨a, ha', hex, hmo, hm⟩))
    · intro hex hmo x hx y hy
      exact hq x (mem_defaultRefs.2 ⟨a, ha', hex, hmo, hx⟩) y (mem_valueRefs.2 (.inr ⟨a, ha', hex, hmo, hy⟩))
  unfold nodeStream
  rw [map_congr_left hargs]
  cases ht : nd.task with
  | none => rfl
  | some t =>
    by_cases hts : t = self
    · simp [hts]
    · have : cfg t = cfg' t := h t (mem_valueRefs.2 (.inl (by simp [taskRefs, ht, hts])))
      simp [hts, this]

/-- the same in the form used for `rawAt` / `computeAt`: the stream under a stack only depends on the
    position on the stack and — for those that are not on it — on the digest of the members of `relRefs`. -/
theorem nodeStream_congr_ctx (stack stack' : List Nat) (dig dig' : Nat → List Nat) (mt : Nat → Option Bool)
    (self : Nat) (nd : Node)
    (h : ∀ m, m ∈ relRefs mt self nd → relIndex stack m = relIndex stack' m ∧ (relIndex stack m = none → dig m = dig' m)) :
    nodeStream (ctxCfg stack dig) (ctxEq stack (ctxCfg stack dig)) mt self nd
      = nodeStream (ctxCfg stack' dig') (ctxEq stack' (ctxCfg stack' dig')) mt self nd := by
  have hcfg : ∀ m, m ∈ relRefs mt self nd → ctxCfg stack dig m = ctxCfg stack' dig' m := by
    intro m hm
    obtain ⟨h1, h2⟩ := h m hm
    unfold ctxCfg
    rw [← h1]
    cases hk : relIndex stack m with
    | some k => rfl
    | none => exact h2 hk
  apply nodeStream_congr_refs
  · exact fun m hm => hcfg m (valueRefs_sub_relRefs hm)
  · intro x hx y hy
    unfold ctxEq
    rw [hcfg x (defaultRefs_sub_relRefs hx), hcfg y (valueRefs_sub_relRefs hy), (h y (valueRefs_sub_relRefs hy)).1]

end XpmVerif.Ident
