"""C10 — job directory markers stay truthful whenever the job process dies.

Tie to the source: crash-point enumeration on the real code.  A real job script + params.json is
generated with `experiment(..., run_mode=RunMode.GENERATE_ONLY)` (nothing runs); every case copies that
job directory, writes `<name>.pid` under the job lock exactly as `aio_start`/`aio_run` do, starts the
script through `impl/crashwrap.py` which delivers SIGKILL/SIGTERM/SIGINT at the k-th executed line of
`experimaestro/run.py` (or at a point inside the task body), then relaunches the script undisturbed.
Observables (files, exit status, task-side body log, lock availability, relaunch outcome) are compared
with the Lean model M3 (`Drive/C10.lean`); the effect log of the wrapper only serves to locate the model
program location of the kill.  Monitors state the five sentences of the property on the real files."""
import json
import os
import shutil
import signal
import subprocess
import sys
import tempfile
import textwrap
import time
from concurrent.futures import ThreadPoolExecutor
from pathlib import Path

from .. import common

PROP = "C10"
MODULES = ["XpmVerif.Properties.C10", "XpmVerif.Properties.C10Src", "XpmVerif.Properties.C10LockIds"]
PY = sys.executable
WRAP = str(Path(__file__).resolve().parents[1] / "impl" / "crashwrap.py")
SIGS = {"kill": int(signal.SIGKILL), "term": int(signal.SIGTERM), "int": int(signal.SIGINT)}
BODY_POINTS = ["start", "b1", "b2"]  # points inside the body at which a signal can be delivered
BLEN = len(BODY_POINTS)
# (initial directory, body outcome)
SCENARIOS = [("fresh", "ok"), ("failed", "ok"), ("done", "ok"), ("fresh", "exc"), ("fresh", "exit3"), ("fresh", "exit0")]
WORKERS = 16
CASE_KEYS = ("scenario", "k", "j", "sig", "bodykill", "loc", "k2", "j2", "sig2", "loc2", "notify", "shape", "act")

# known findings: the assembled known_findings.json is written by the lead (tools/mkmanifest.py); until then
# (and afterwards, identically) the fragment of this property is read directly  -- local work-around, see report
_orig_load = common.load_findings


def _load_findings(prop):
    frag = common.VERIF / "known_findings.d" / f"{prop}.json"
    if prop == PROP and frag.exists():
        return [f for f in json.loads(frag.read_text()) if f["property"] == prop]
    return _orig_load(prop)


common.load_findings = _load_findings


SRC = {"info": None, "baseline": None}  # what the translator read off the source; the undisturbed real runs (shared with correspond)


def _probe_switches(ctx):
    """fallback of the translator: the two switches of the model read off the *behaviour* of the real code (undisturbed successful
    run keeps / loses its pid file; order of the effects of handle_error on an undisturbed failing run)"""
    def probe():
        if SRC["baseline"] is None:
            SRC["baseline"] = baseline(ctx, get_template(ctx))
        _, bobs = SRC["baseline"]
        return {"unregOnSuccess": bool(bobs[0]["dir"]["pid"]), "markerFirst": bool(MF[0])}
    return probe


def prove(ctx):
    from ..translate import runsrc
    ok, msg, info = runsrc.generate(common.REPO, common.LEAN, probe=_probe_switches(ctx))
    SRC["info"] = info
    ctx.notes.append(f"translator(runsrc): {msg}")
    ctx.extra_cov["runsrc_translated"] = bool(info["translated"])
    ctx.extra_cov["runsrc_fallback"] = len(info.get("failed") or {})
    ctx.extra_cov["runsrc_fallback_parts"] = sorted(info.get("failed") or {})
    common.check_proofs(ctx, MODULES, translate_msgs=[(ok, msg)])


# ---------------------------------------------------------------- real code: job template

LIB = '''
import os, sys
from pathlib import Path
from experimaestro import Task, Param


class Body(Task):
    """test body: logs its progress (task-side execution counter file), can deliver a signal to itself at
    an internal point, ends as told by C10_OUTCOME: ok | exc | exit<n>"""
    __xpmid__ = "%(xpmid)s"
    x: Param[int]

    def execute(self):
        log = Path(os.environ["C10_BODYLOG"])

        def pt(name):
            with log.open("a") as f:
                f.write(name + "\\n")
            gate = os.environ.get("C10_GATE", "")   # "<point>:<path>": wait at that point until the file exists (the harness opens it)
            if gate and gate.split(":", 1)[0] == name:
                import time
                t0 = time.time()
                while not os.path.exists(gate.split(":", 1)[1]) and time.time() - t0 < 90:
                    time.sleep(0.01)
            spec = os.environ.get("C10_BODYKILL", "")
            if spec:
                at, sig = spec.split(":")
                if at == name:
                    os.kill(os.getpid(), int(sig))

        points = %(points)r
        shape = os.environ.get("C10_SHAPE", "plain")   # how the body protects the step at which it may be interrupted
        act = os.environ.get("C10_BODYACT", "")         # something the body does to its own directory first
        pt(points[0])
        if act == "rmnotif":   # the task removes the notification folder of its job directory
            import shutil
            shutil.rmtree(Path.cwd() / ".notifications", ignore_errors=True)
        elif act == "rmpid":   # ... or its pid file (already-removed file at clean-up time)
            for f in Path.cwd().glob("*.pid"):
                f.unlink()
        elif act == "rmlock":  # ... or the lock file it holds
            for f in Path.cwd().glob("*.lock"):
                f.unlink()
        if shape == "catch":       # "log and skip this item": the interrupted step is inside try/except Exception
            try:
                pt(points[1])
            except Exception:
                pt("caught")
            for name in points[2:]:
                pt(name)
        elif shape == "finally":   # try/finally around the interrupted step
            try:
                pt(points[1])
            finally:
                pt("fin")
            for name in points[2:]:
                pt(name)
        else:
            for name in points[1:]:
                pt(name)
        out = os.environ.get("C10_OUTCOME", "ok")
        if out == "exc":
            raise RuntimeError("boom")
        if out.startswith("exit"):
            n = int(out[4:])
            if n == 0:
                pt("end")
            sys.exit(n)
        pt("end")
'''

GEN = '''
import sys, os, logging
from pathlib import Path
logging.disable(logging.CRITICAL)
pkgdir, modname, ws = sys.argv[1], sys.argv[2], Path(sys.argv[3])
sys.path.insert(0, pkgdir)
import importlib
Body = importlib.import_module(modname + ".tasks").Body
from experimaestro import experiment, RunMode
os.environ["XPM_WORKDIR"] = str(ws / "xpmwork")
with experiment(ws, "c10", port=-1, run_mode=RunMode.GENERATE_ONLY) as xp:
    xp.setenv("PYTHONPATH", pkgdir)
    t = Body(x=1).submit()
    job = t.__xpm__.job
    print("JOB", job.path, job.name, job.lockpath, job.pidpath, job.donepath, job.failedpath)
'''


class Template:
    def __init__(self, ctx):
        root = ctx.tmpdir()
        self.root = root
        pkgdir = root / "pkg"
        mod = f"c10lib_{ctx.seed}"
        (pkgdir / mod).mkdir(parents=True)
        (pkgdir / mod / "__init__.py").write_text("")
        (pkgdir / mod / "tasks.py").write_text(LIB % {"xpmid": f"{mod}.body", "points": BODY_POINTS})
        (root / "gen.py").write_text(GEN)
        p = subprocess.run([PY, str(root / "gen.py"), str(pkgdir), mod, str(root / "ws")], capture_output=True, text=True,
                           timeout=120, cwd=str(root))
        line = [l for l in p.stdout.splitlines() if l.startswith("JOB ")]
        if p.returncode != 0 or not line:
            raise RuntimeError(f"job generation failed: rc={p.returncode} {p.stderr[-800:]}")
        _, path, name, lockpath, pidpath, donepath, failedpath = line[0].split(" ")
        self.jobdir = Path(path)
        self.name = name
        # the marker paths as the *scheduler side* computes them (Job.lockpath / pidpath / donepath / failedpath)
        self.rel = {k: os.path.relpath(v, path) for k, v in
                    dict(lock=lockpath, pid=pidpath, done=donepath, failed=failedpath).items()}
        if not (self.jobdir / f"{name}.py").exists() or not (self.jobdir / "params.json").exists():
            raise RuntimeError("GENERATE_ONLY did not produce the job script / params.json")
        self.cases = root / "cases"
        self.cases.mkdir()

    def instantiate(self, init):
        d = Path(tempfile.mkdtemp(prefix="c", dir=self.cases))
        jd = d / "job"
        shutil.copytree(self.jobdir, jd)
        script = jd / f"{self.name}.py"
        script.write_text(script.read_text().replace(str(self.jobdir), str(jd)))
        if init == "failed":
            (jd / self.rel["failed"]).write_text("1")
        elif init == "done":
            (jd / self.rel["done"]).touch()
        return jd


_TPL = {}


def get_template(ctx):
    """one generated job per check run"""
    if id(ctx) not in _TPL:
        _TPL[id(ctx)] = Template(ctx)
    return _TPL[id(ctx)]


# ---------------------------------------------------------------- real code: one launch


def launch(tpl, jd, k, sig, outcome, bodykill="", shape="plain", act="", opj=0):
    """the scheduler side of `aio_start`/`aio_run`: take the job lock, spawn, write the pid file, release"""
    import fasteners

    env = dict(os.environ, C10_BODYLOG=str(jd / "bodylog"), C10_OUTCOME=outcome, C10_BODYKILL=bodykill,
               C10_SHAPE=shape, C10_BODYACT=act, C10_OPJ=str(opj or 0))
    lock = fasteners.InterProcessLock(str(jd / tpl.rel["lock"]))
    with lock:
        with open(jd / "stderr", "a") as err:
            p = subprocess.Popen([PY, WRAP, str(jd / f"{tpl.name}.py"), str(k), str(sig), str(jd / "efflog")], env=env,
                                 stdout=subprocess.DEVNULL, stderr=err, cwd="/")
        with (jd / tpl.rel["pid"]).open("w") as fp:
            json.dump({"type": "local", "pid": p.pid}, fp)
    try:
        return p.wait(timeout=120)
    except subprocess.TimeoutExpired:
        p.kill()
        p.wait()
        return "timeout"


class Endpoints:
    """local notification endpoints: answer (HTTP 200), drop (accepts, closes without answering), refused (nobody
    listens), garbled (the URL file holds no URL)"""

    def __init__(self):
        self.urls = None

    def start(self):
        import http.server
        import socket
        import threading

        class H(http.server.BaseHTTPRequestHandler):
            def do_GET(self):
                self.send_response(200)
                self.send_header("Content-Length", "2")
                self.end_headers()
                self.wfile.write(b"ok")

            def log_message(self, *a):
                pass

        ok = http.server.ThreadingHTTPServer(("127.0.0.1", 0), H)
        ok.daemon_threads = True
        threading.Thread(target=ok.serve_forever, daemon=True).start()
        drop = socket.socket()
        drop.bind(("127.0.0.1", 0))
        drop.listen(64)

        def dropper():
            while True:
                try:
                    c, _ = drop.accept()
                    c.close()
                except OSError:
                    return

        threading.Thread(target=dropper, daemon=True).start()
        free = socket.socket()
        free.bind(("127.0.0.1", 0))
        refused_port = free.getsockname()[1]
        free.close()
        self._keep = (ok, drop)
        self.urls = {"answer": f"http://127.0.0.1:{ok.server_address[1]}/notifications/c10",
                     "drop": f"http://127.0.0.1:{drop.getsockname()[1]}/notifications/c10",
                     "refused": f"http://127.0.0.1:{refused_port}/notifications/c10",
                     "garbled": ""}

    def url(self, kind):
        if self.urls is None:
            self.start()
        return self.urls[kind]


ENDPOINTS = Endpoints()
NOTIFY = ["answer", "drop", "refused", "garbled"]
SHAPES = ["plain", "catch", "finally"]
ACTS = ["rmnotif", "rmpid", "rmlock"]


def dirstate(tpl, jd):
    import fasteners

    failed = jd / tpl.rel["failed"]
    lk = fasteners.InterProcessLock(str(jd / tpl.rel["lock"]))
    free = lk.acquire(blocking=False)
    if free:
        lk.release()
    return {"done": (jd / tpl.rel["done"]).exists(), "failed": failed.read_text() if failed.exists() else None,
            "pid": (jd / tpl.rel["pid"]).exists(), "lockfree": bool(free)}


def bodylog(jd):
    p = jd / "bodylog"
    return p.read_text().split() if p.exists() else []


def _read_log(path):
    out = []
    if path.exists():
        for l in path.read_text().splitlines():
            try:
                out.append(json.loads(l))
            except json.JSONDecodeError:  # a line cut by SIGKILL
                pass
    return out


def run_case(tpl, case):
    """case = {scenario: [init, outcome], k, sig, bodykill}; returns the observation"""
    init, outcome = case["scenario"]
    jd = tpl.instantiate(init)
    try:
        sig = SIGS.get(case["sig"], 0)
        bk = f"{case['bodykill']}:{sig}" if case.get("bodykill") else ""
        shape, act = case.get("shape", "plain"), case.get("act", "")
        if case.get("notify"):  # a notification listener registered for the job, as Job.add_notification_server does
            nd = jd / ".notifications"
            nd.mkdir(exist_ok=True)
            (nd / "c10").write_text(ENDPOINTS.url(case["notify"]))
        if bk and case.get("sig2"):  # fault sequence: signal inside the body, then a second one at the k2-th line of run.py
            rc = launch(tpl, jd, case["k2"], SIGS[case["sig2"]], outcome, bk, shape, act, opj=case.get("j2", 0))
        else:
            rc = launch(tpl, jd, case.get("k", 0) if not bk else 0, sig, outcome, bk, shape, act, opj=case.get("j", 0) if not bk else 0)
        st = dirstate(tpl, jd)
        bl = bodylog(jd)
        eff = _read_log(jd / "efflog")
        stderr1 = (jd / "stderr").read_text()[-600:] if (jd / "stderr").exists() else ""
        n0 = len(bl)
        rc2 = launch(tpl, jd, 0, 0, "ok")
        bl2 = bodylog(jd)[n0:]
        st2 = dirstate(tpl, jd)
        stderr_tail = (jd / "stderr").read_text()[-400:] if (jd / "stderr").exists() else ""
    finally:
        shutil.rmtree(jd.parent, ignore_errors=True)
    kill = next((e for e in eff if e["ev"] == "kill"), None)
    pre = eff[:eff.index(kill)] if kill else eff
    nlines = max([e["n"] for e in eff if e["ev"] in ("lines", "lines-final") and e.get("n") is not None] or [0])
    return {"rc": rc, "dir": st, "starts": bl.count("start"), "completed": "end" in bl, "bodylog": bl,
            "relaunch": {"rc": rc2, "ran": bl2.count("start"), "dir": st2, "completed": "end" in bl2},
            "kill": kill, "pre": pre, "nlines": nlines, "stderr": stderr_tail, "stderr1": stderr1,
            "nops": max([e.get("ops") or 0 for e in eff if e["ev"] == "lines-final"] or [0])}


# ---------------------------------------------------------------- locating the model program location


def _has(pre, ev, **kw):
    return any(e["ev"] == ev and all(e.get(a) == b for a, b in kw.items()) for e in pre)


def _cleanup_stage(pre, kill, after):
    """stage of `cleanup` (test-and-set `cleaned`, rmfile(pid), release the lock) at the kill"""
    if kill.get("cleaned") is False:
        return "test"
    if not _has(pre, "is_file", name=".pid") or (_has(pre, "is_file", name=".pid", res=True) and not _has(pre, "unlink", name=".pid")):
        return "rmPid"
    if _has(pre, "lock-acquired", ok=True) and not _has(pre, "lock-released"):
        return "relLock"
    return after


MF = [True]  # probed order of handle_error: failure marker first (True, the source) or clean-up first


def probe_marker_first(obs_failing):
    """order of the effects of handle_error on an undisturbed failing run (effect log)"""
    ev = obs_failing["pre"]
    w = next((j for j, e in enumerate(ev) if e["ev"] == "write" and e.get("name") == ".failed"), None)
    c = next((j for j, e in enumerate(ev) if e["ev"] in ("is_file", "unlink") and e.get("name") == ".pid"), None)
    return True if w is None or c is None else w < c


def _herr_stage(pre, kill, nth):
    """next action of the `nth` invocation of handle_error in this process (write | test | rmPid | relLock | exit)"""
    wrote = sum(1 for e in pre if e["ev"] == "write" and e.get("name") == ".failed") >= nth
    if MF[0]:
        return _cleanup_stage(pre, kill, "exit") if wrote else "write"
    cs = _cleanup_stage(pre, kill, "after")
    if cs != "after":
        return cs
    return "exit" if wrote else "write"


def _herr_first():
    return "write" if MF[0] else "test"


def model_loc2(case, obs):
    """position of the *second* fault of a sequence (signal inside the body, then the k2-th line of run.py)"""
    kill, pre = obs["kill"], obs["pre"]
    stack = kill.get("stack") or []
    if _has(pre, "lines"):
        return model_loc(dict(case, bodykill=None), obs)  # atexit: as for a single fault
    if "handle_error" in stack or "cleanup" in stack:
        if kill.get("in_handler"):  # called from `except SystemExit`: second invocation
            return "herr:" + _herr_stage(pre, kill, 2)
        return "hnd:" + _herr_stage(pre, kill, 1)  # running as the signal handler, on top of the body frame
    if kill.get("in_try") and not kill.get("in_handler"):
        return "raised1"  # the handler is over, its SystemExit(1) is in flight inside the try body
    return "herr:" + _herr_first()  # in the except clause, handle_error not called yet


def model_loc(case, obs):
    """the location of the model that corresponds to the point at which the signal was delivered"""
    outcome = case["scenario"][1]
    if case.get("bodykill"):
        return f"body:{BODY_POINTS.index(case['bodykill']) + 1}"
    kill, pre = obs["kill"], obs["pre"]
    if kill is None:
        return None
    stack = kill.get("stack") or []
    acquired = _has(pre, "lock-acquired", ok=True)
    n_inst = sum(1 for e in pre if e["ev"] == "sig-install")
    n_rest = sum(1 for e in pre if e["ev"] == "sig-restore")
    if _has(pre, "lines"):  # the script is over: atexit callbacks
        st = _cleanup_stage(pre, kill, "none")
        if st == "test" or (kill.get("func") == "cleanup" and kill.get("cleaned") is True and _has(pre, "is_file", name=".pid")
                            and not _in_this_cleanup(pre)):
            return "fin:test"
        return f"fin:{st}"
    if "handle_error" in stack:  # handle_error called from an except clause (signal handlers run inside the tracer, untraced)
        return "herr:" + _herr_stage(pre, kill, 1)
    body_ok = "end" in obs["bodylog"]
    if kill.get("in_handler"):
        if body_ok:
            return "reraise" if _has(pre, "touch", name=".done") else "touch"
        return "herr:" + _herr_first()
    if kill.get("in_try"):
        if not acquired:
            return "tryLock"
        if n_rest == 1:
            return "restTerm"
        if n_rest >= 2:
            # back in the main frame of TaskRunner.run (or the clean-up already unregistered): about to sys.exit(0)
            return "sysExit" if _has(pre, "atexit-unreg") or len(stack) <= 1 else "restInt"
        if body_ok:
            return "raised0" if outcome == "exit0" else "bodyDone"
        if kill.get("started"):
            return "callBody" if "start" not in obs["bodylog"] else f"body:{len(obs['bodylog'])}"
        if not _has(pre, "is_file", name=".done"):
            return "locked"
        if _has(pre, "is_file", name=".done", res=True):
            return "skipped"
        if _has(pre, "unlink", name=".failed") or _has(pre, "is_file", name=".failed", res=False):
            return "setStarted"
        return "rmFailed"
    if not _has(pre, "atexit-reg"):
        return "init"
    return {0: "reg", 1: "term"}.get(n_inst, "pre")


def _in_this_cleanup(pre):
    """did the clean-up that is running at the kill (the atexit one) already look at the pid file?"""
    i = max((j for j, e in enumerate(pre) if e["ev"] == "lines"), default=-1)
    return any(e["ev"] == "is_file" and e.get("name") == ".pid" for e in pre[i + 1:])


# ---------------------------------------------------------------- canonical forms


def canon_impl(obs):
    def d(x):
        return {"done": x["done"], "failed": x["failed"], "pid": x["pid"], "lockfree": x["lockfree"]}

    return {"rc": obs["rc"], "dir": d(obs["dir"]), "starts": obs["starts"], "completed": obs["completed"],
            "relaunch": {"rc": obs["relaunch"]["rc"], "ran": obs["relaunch"]["ran"], "dir": d(obs["relaunch"]["dir"])}}


def canon_model(m):
    def d(x):
        return {"done": x["done"], "failed": None if x["failed"] is None else str(x["failed"]), "pid": x["pid"],
                "lockfree": x["lockfree"]}

    if "error" in m:
        return m
    return {"rc": m["rc"], "dir": d(m["dir"]), "starts": m["starts"], "completed": m["completed"],
            "relaunch": {"rc": m["relaunch"]["rc"], "ran": m["relaunch"]["ran"], "dir": d(m["relaunch"]["dir"])}}


def model_line(case, loc, unreg):
    init, outcome = case["scenario"]
    o, n = ("exit", int(outcome[4:])) if outcome.startswith("exit") else (outcome, 0)
    line = {"op": "crash", "unreg": unreg, "markerfirst": MF[0],
            "init": {"done": init == "done", "failed": 1 if init == "failed" else None},
            "outcome": o, "n": n, "blen": BLEN, "at": loc or "", "sig": case["sig"] if loc else "none"}
    if case.get("sig2") and case.get("loc2"):
        line.update(at2=case["loc2"], sig2=case["sig2"])
    return line


# ---------------------------------------------------------------- monitors (implementation only)


def monitors(ctx, case, obs):
    init, outcome = case["scenario"]
    sig = case["sig"]
    d, r = obs["dir"], obs["relaunch"]
    tag = f"{init}/{outcome} k={case.get('k', 0)} body={case.get('bodykill', '')} sig={sig}"
    if case.get("sig2"):
        tag += f" then line {case['k2']} sig={case['sig2']}"
    if case.get("notify") or case.get("shape") or case.get("act"):
        tag += f" notify={case.get('notify')} body-shape={case.get('shape', 'plain')} act={case.get('act', '')}"
    rcase = {k: case[k] for k in ("scenario", "k", "sig", "bodykill", "k2", "sig2", "notify", "shape", "act") if k in case}
    # 4c. the process does not keep running its body after it handled a termination signal.
    # With a helper fault (notification endpoint / something removed from the job directory) the three symptoms of an
    # exception that escapes `handle_error` before `sys.exit(1)` (body goes on, both markers, exit status 0) are one
    # finding, keyed by the helper fault class -- this is the real-code counterpart of the model rule "the handler always
    # ends with exit".
    helper = case.get("act") or case.get("notify")
    if sig in ("term", "int") and case.get("bodykill") and not case.get("sig2") and case["bodykill"] in obs["bodylog"]:
        after = [m for m in obs["bodylog"][obs["bodylog"].index(case["bodykill"]) + 1:] if m != "fin"]
        if helper and (after or d["failed"] is None or d["done"] or obs["rc"] in (0, None)):
            ctx.monitor_fail(f"handler-exception-escapes:{helper}",
                             f"[{tag}] termination signal inside the body: marks after the signal {after}, exit status {obs['rc']}, "
                             f"directory {d} (expected: no further mark, non-zero status, failure marker, no success marker); stderr: "
                             f"{obs.get('stderr1', '')[-300:]!r}", rcase)
            return True
        if after:
            ctx.monitor_fail("body-continues-after-termination-signal",
                             f"[{tag}] the body went on after the termination signal was handled: marks {after} after {case['bodykill']!r}; "
                             f"exit status {obs['rc']}, directory {d}", rcase)
    # 1. a success marker only if the task body ran to completion
    if d["done"] and init != "done" and not obs["completed"]:
        ctx.monitor_fail("done-without-completion", f"[{tag}] success marker present although the body never completed (body log {obs['bodylog']})", rcase)
    # 2. the run lock dies with the process
    if not d["lockfree"]:
        ctx.monitor_fail("lock-survives-process", f"[{tag}] the run lock is still held after the job process is gone (exit {obs['rc']})", rcase)
    # 3. a later launch executes the body exactly when no success marker exists
    want = 0 if d["done"] else 1
    if r["ran"] != want:
        ctx.monitor_fail("relaunch-body-count", f"[{tag}] directory after death {d}: the relaunch ran the body {r['ran']} time(s), expected {want}", rcase)
    if not r["dir"]["done"] or (r["ran"] == 1 and not r["completed"]):
        ctx.monitor_fail("relaunch-not-done", f"[{tag}] the undisturbed relaunch did not end with a success marker: {r}", rcase)
    # 4. SIGTERM/SIGINT received while the body runs leaves a failure marker and no success marker
    if sig in ("term", "int") and case.get("bodykill") and case.get("sig2") == "kill":
        # ... followed by a hard kill: there is an unavoidable window before the handler has done anything, but once
        # the process has begun its clean-up (its pid file is gone) the failure marker must be there
        if not d["pid"] and (d["failed"] is None or d["done"]):
            ctx.monitor_fail("signal-in-body-then-kill:no-marker-after-cleanup",
                             f"[{tag}] termination signal while the body ran, the process removed its pid file and was then killed: "
                             f"the directory shows no failure marker: {d}", rcase)
    elif sig in ("term", "int") and case.get("bodykill"):
        if d["failed"] is None or d["done"]:
            ctx.monitor_fail("signal-in-body-markers", f"[{tag}] termination signal while the body ran left {d}", rcase)
        if obs["rc"] in (0, None):
            ctx.monitor_fail("signal-in-body-status", f"[{tag}] termination signal while the body ran but exit status {obs['rc']}", rcase)
    # 4b. the task failed on its own and the process was killed hard while it was cleaning up: same requirement
    if sig == "kill" and not case.get("bodykill") and outcome in ("exc", "exit3") and obs["rc"] == -9 \
            and BODY_POINTS[-1] in obs["bodylog"] and not d["pid"] and d["failed"] is None:
        ctx.monitor_fail("failure-then-kill:no-marker-after-cleanup",
                         f"[{tag}] the task failed, the process removed its pid file and was then killed: no failure marker: {d}", rcase)
    # 5. a job that ended on its own, successfully or not, leaves no pid file behind
    if sig == "none" and d["pid"]:
        key = "own-exit-pid-left:success" if obs["rc"] == 0 and d["done"] and obs["starts"] == 1 and outcome == "ok" else f"own-exit-pid-left:{outcome}:{init}"
        ctx.monitor_fail(key, f"[{tag}] the job ended on its own with status {obs['rc']} and left its pid file", rcase)
    if r["dir"]["pid"]:  # the relaunch always ends on its own
        key = "own-exit-pid-left:success" if r["ran"] == 1 and r["rc"] == 0 else "own-exit-pid-left:relaunch-skip"
        ctx.monitor_fail(key, f"[{tag}] the relaunched job ended on its own with status {r['rc']} (body ran {r['ran']}x) and left its pid file", rcase)
    # markers stay truthful: an undisturbed run that completed the body leaves no (stale) failure marker
    if sig == "none" and obs["rc"] == 0 and obs["completed"] and d["failed"] is not None:
        ctx.monitor_fail("stale-failure-marker-after-success", f"[{tag}] undisturbed successful run but the directory still shows a failure marker: {d}", rcase)
    if r["ran"] == 1 and r["rc"] == 0 and r["completed"] and r["dir"]["failed"] is not None:
        ctx.monitor_fail("stale-failure-marker-after-success", f"[{tag}] the relaunch ran the body successfully but the directory still shows a failure marker: {r['dir']}", rcase)
    # exit status sanity: a success marker written by this process <=> exit 0 when undisturbed
    if sig == "none" and init != "done" and (obs["rc"] == 0) != d["done"]:
        ctx.monitor_fail("status-vs-marker", f"[{tag}] undisturbed run: exit status {obs['rc']} but directory {d}", rcase)
    return False


# ---------------------------------------------------------------- the enumeration


# A real case that ends with a signal exit which neither the scenario sent (SIGKILL/SIGTERM/SIGINT) nor the code under test raises is a
# crash of the *tracing interpreter* (seen: SIGSEGV at interpreter exit under sys.settrace + the notification thread), not behaviour of
# the code under test: it never becomes a verdict and is never mapped to an expected status either.  The case is re-run (3 attempts);
# an attempt that ends normally is used; a case whose attempts all crash is excluded, counted (`interpreter-crash`) and noted; a run with
# more than 5 % excluded cases ends as a harness error (exit 2).
CRASH_RC = {-int(signal.SIGSEGV): "SIGSEGV", -int(signal.SIGABRT): "SIGABRT", -int(signal.SIGBUS): "SIGBUS", -int(signal.SIGILL): "SIGILL"}
CRASH_ATTEMPTS = 3
CRASH = {"cases": 0, "excluded": [], "retried": 0}


def _crashed(rcs):
    return [CRASH_RC[r] for r in rcs if isinstance(r, int) and r in CRASH_RC]


def _crash_desc(case):
    return json.dumps({k: v for k, v in case.items() if k in CASE_KEYS + ("l1", "point", "id", "n") and v is not None}, sort_keys=True)


def run_case_retry(tpl, case):
    o = None
    for attempt in range(CRASH_ATTEMPTS):
        o = run_case(tpl, case)
        sigs = _crashed([o["rc"], o["relaunch"]["rc"]])
        if not sigs:
            o["crash_attempts"] = attempt
            return o
    o["crash_attempts"] = CRASH_ATTEMPTS
    o["interpreter_crash"] = sigs
    return o


def crash_account(ctx, case, crash_attempts, excluded_sigs=None, family="crash-point"):
    """book-keeping of one real case for the interpreter-crash rule; returns True when the case is excluded"""
    CRASH["cases"] += 1
    if crash_attempts and not excluded_sigs:
        CRASH["retried"] += 1
        ctx.count("interpreter-crash-retried", f"{family} {_crash_desc(case)}: {crash_attempts} crashed attempt(s), then a normal end (used)")
    if excluded_sigs:
        d = f"{family} {_crash_desc(case)}: {CRASH_ATTEMPTS} attempts all ended by {'/'.join(sorted(set(excluded_sigs)))}"
        CRASH["excluded"].append(d)
        ctx.count("interpreter-crash", d)
        ctx.notes.append(f"excluded from the comparison (crash of the tracing interpreter, not behaviour of the code under test): {d}")
        return True
    return False


def crash_verdict(ctx):
    """more than 5 % of the real cases excluded: the run says nothing (harness error, exit 2)"""
    n, x = CRASH["cases"], len(CRASH["excluded"])
    ctx.extra_cov["interpreter_crash_excluded"] = x
    ctx.extra_cov["interpreter_crash_retried_ok"] = CRASH["retried"]
    if n and x * 20 > n:
        raise RuntimeError(f"{x} of {n} real cases excluded because the tracing interpreter crashed in all {CRASH_ATTEMPTS} attempts (> 5 %): "
                           f"not a verdict; first: {CRASH['excluded'][0]}")


def run_all(ctx, tpl, cases):
    with ThreadPoolExecutor(WORKERS) as ex:
        return list(ex.map(lambda c: run_case_retry(tpl, c), cases))


def baseline(ctx, tpl):
    """undisturbed run of every scenario: number of executed lines, F7 probe"""
    cases = [{"scenario": list(sc), "k": 0, "sig": "none"} for sc in SCENARIOS]
    seq = {"scenario": list(SCENARIOS[0]), "bodykill": SEQ_POINT, "sig": "term", "k": 0}  # lines of the handler path
    obs = run_all(ctx, tpl, cases + [seq])
    for c, o in zip(cases + [seq], obs):
        if o.get("interpreter_crash"):
            raise RuntimeError(f"baseline {c}: the tracing interpreter crashed in all {CRASH_ATTEMPTS} attempts ({o['interpreter_crash']})")
        if o["rc"] == "timeout" or o["nlines"] == 0:
            raise RuntimeError(f"baseline {c} did not run: {o['rc']} {o['stderr']}")
    MF[0] = probe_marker_first(obs[3])
    SEQ_RANGE[:] = _handler_range(obs[-1])
    SRC["seqobs"] = obs[-1]
    return cases, obs[:-1]


SEQ_POINT = "b1"     # body point at which the first signal of a fault sequence is delivered
SEQ_RANGE = [0, 0]   # line events of run.py from the start of the handler to the end of the process


def _handler_range(o):
    ev = o["pre"]
    first = next((e.get("n", 0) for e in ev if (e["ev"] == "write" and e.get("name") == ".failed")
                  or (e["ev"] == "is_file" and e.get("name") == ".pid")), 0)
    return [max(1, first - 3), o["nlines"]] if first else [0, 0]


def plan_sequences(ctx, thorough):
    """fault sequences: SIGTERM/SIGINT inside the body, then SIGKILL (or a second signal) at every line that the
    handler, `except SystemExit`, the second handle_error and the atexit clean-up execute afterwards"""
    lo, hi = SEQ_RANGE
    if not hi:
        return []
    cases = []
    for first in (("term", "int") if thorough else ("term",)):
        for k2 in range(lo, hi + 1):
            seconds = list(SIGS) if thorough else (["kill"] + (["term", "int"] if k2 % 5 == 0 else []))
            for s2 in seconds:
                cases.append({"scenario": list(SCENARIOS[0]), "bodykill": SEQ_POINT, "sig": first, "k": 0, "k2": k2, "sig2": s2})
    return cases


def _first_n(o, ev, name):
    return next((e.get("n", 0) for e in o["pre"] if e["ev"] == ev and e.get("name") == name), 0)


def plan_opcodes(ctx, tpl, bobs, thorough):
    """signals at *bytecode* granularity inside the critical windows: from the line that writes the success marker (body returned;
    body ended itself with status 0) or the failure marker (body raised; SIGTERM inside the body: second fault) to the end of the
    process (except clause, handle_error, clean-up, interpreter exit).  A counting run per window gives the number of bytecodes of
    run.py executed from the first line of the window; thorough enumerates every one x (SIGKILL, SIGTERM | SIGINT alternating), quick a
    seeded sample of 5 per window."""
    byscen = {tuple(sc): o for sc, o in zip(SCENARIOS, bobs)}
    wins = []
    for sc, ev, name in ((("fresh", "ok"), "touch", ".done"), (("fresh", "exit0"), "touch", ".done"), (("fresh", "exc"), "write", ".failed")):
        k = _first_n(byscen[sc], ev, name)
        if k:
            wins.append({"scenario": list(sc), "k": k})
    if SRC.get("seqobs") is not None:
        k2 = _first_n(SRC["seqobs"], "write", ".failed")
        if k2:
            wins.append({"scenario": list(SCENARIOS[0]), "bodykill": SEQ_POINT, "sig": "term", "k": 0, "k2": k2})
    count = [dict(w, **({"j2": 10 ** 7, "sig2": "kill"} if "k2" in w else {"j": 10 ** 7, "sig": "kill"})) for w in wins]
    obs = run_all(ctx, tpl, count)
    cases = []
    for w, o in zip(wins, obs):
        if o.get("interpreter_crash"):
            ctx.count("interpreter-crash", f"bytecode-window counting run {_crash_desc(w)}")
            continue
        n = o["nops"]
        ctx.count("opcode_window", f"{'/'.join(w['scenario'])}{':seq' if 'k2' in w else ''} from line event {w.get('k2') or w['k']}: {n} bytecodes")
        js = list(range(1, n + 1))
        if not thorough:
            js = sorted(ctx.rng.sample(js, min(len(js), 5)))
        for j in js:
            for s in (["kill", "term" if j % 2 else "int"] if thorough else [ctx.rng.choice(list(SIGS))]):
                cases.append(dict(w, j2=j, sig2=s) if "k2" in w else dict(w, j=j, sig=s))
    return cases


def plan_helpers(ctx, thorough):
    """the helper modules the runner calls between "marker written" and "process exit" (notifications.Reporter.eoj,
    rmfile(pid), lock release) with their failing variants, under the three body shapes: SIGTERM/SIGINT inside the
    protected region of the body; and undisturbed runs (eoj is also called on the way out of a job that ended on its own)"""
    cases = []
    sc = list(SCENARIOS[0])
    for n in NOTIFY:
        for sh in SHAPES:
            for sg in ("term", "int"):
                cases.append({"scenario": sc, "bodykill": SEQ_POINT, "sig": sg, "k": 0, "notify": n, "shape": sh})
        for o in ("ok", "exc"):
            cases.append({"scenario": ["fresh", o], "k": 0, "sig": "none", "notify": n, "shape": "plain"})
    for a in ACTS:
        for sh in (SHAPES if thorough else ("catch",)):
            for sg in (("term", "int") if thorough else ("term",)):
                cases.append({"scenario": sc, "bodykill": SEQ_POINT, "sig": sg, "k": 0, "notify": "answer", "shape": sh, "act": a})
        cases.append({"scenario": sc, "k": 0, "sig": "none", "notify": "answer", "shape": "plain", "act": a})
    return cases


def evaluate(ctx, tpl, cases, unreg, with_model=True):
    obs = run_all(ctx, tpl, cases)
    lines, idx = [], []
    for i, (c, o) in enumerate(zip(cases, obs)):
        if crash_account(ctx, c, o.get("crash_attempts", 0), o.get("interpreter_crash")):
            continue
        if o["rc"] == "timeout" or o["relaunch"]["rc"] == "timeout":
            raise RuntimeError(f"case {c} timed out: {o['stderr']}")
        if c["sig"] != "none" and not c.get("bodykill") and o["kill"] is None:
            # the k-th line was never reached (shorter path): nothing was delivered
            ctx.count("skipped", "line-not-reached")
            continue
        if c.get("sig2") and (o["kill"] is None or c["bodykill"] not in o["bodylog"]):
            # the second fault came before the first (or its line was never reached): not a sequence
            ctx.count("skipped", "second-fault-not-after-first")
            continue
        if monitors(ctx, c, o):
            # the model rule (no exception escapes handle_error) is violated by the real code on this input: reported by the
            # monitor above with the concrete input; the model run would only repeat it
            ctx.count("skipped", "model-rule-violated")
            ctx.case({k: c.get(k) for k in CASE_KEYS if c.get(k) is not None}, nontrivial=True)
            continue
        loc = model_loc(c, o) if c["sig"] != "none" else None
        c = dict(c, loc=loc)
        if c.get("sig2"):
            c["loc2"] = model_loc2(c, o)
            ctx.count("second_fault", f"{c['loc2']} {c['sig2']}")
        cases[i] = c
        ctx.count("signal", c["sig"])
        ctx.count("scenario", "/".join(c["scenario"]))
        ctx.count("model_location", f"{(loc or 'undisturbed').split(':')[0] if (loc or '').startswith('body') else (loc or 'undisturbed')}")
        ctx.count("exit_status", o["rc"])
        ctx.count("directory_after_death", f"done={int(o['dir']['done'])} failed={o['dir']['failed']} pid={int(o['dir']['pid'])}")
        ctx.case({k: c.get(k) for k in CASE_KEYS if c.get(k) is not None}, nontrivial=loc not in (None, "init"))
        ctx.traces_validated += 1
        lines.append(model_line(c, loc, unreg))
        idx.append(i)
    if not with_model or not lines:
        return cases, obs
    try:
        outs = common.run_driver("C10", lines)
    except Exception as e:
        ctx.disagree({"driver": "C10"}, None, None, f"model driver failed: {e}")
        return cases, obs
    for i, m in zip(idx, outs):
        cm, ci = canon_model(m), canon_impl(obs[i])
        if cm != ci:
            c = cases[i]
            k = obs[i]["kill"] or {}
            ctx.disagree({k_: c.get(k_) for k_ in CASE_KEYS if c.get(k_) is not None}, cm, ci,
                         f"model and implementation differ at {k.get('func')}:{k.get('line')} (model location {c.get('loc')} {c.get('loc2') or ''})")
    return cases, obs


def plan(ctx, nlines, thorough, k0=0):
    """kill points: every executed line x 3 signals (thorough) or a seeded third of them (quick), plus the points
    inside the body"""
    cases = []
    for sc in SCENARIOS:
        n = nlines[tuple(sc)]
        ks = list(range(1, n + 1))
        if sc[0] == "fresh" and sc[1] != "ok":
            # same process behaviour as fresh/ok up to the lock (the body outcome is read at the end of the body):
            # those kill points are enumerated once, under fresh/ok
            ks = [k for k in ks if k > k0]
        if not thorough:
            keep = {1, n} | set(ctx.rng.sample(ks, max(4, len(ks) // (3 if sc == SCENARIOS[0] else 6))))
            ks = sorted(keep)
        for k in ks:
            sigs = list(SIGS) if thorough else ctx.rng.sample(list(SIGS), 2 if sc == SCENARIOS[0] else 1)
            for s in sigs:
                cases.append({"scenario": list(sc), "k": k, "sig": s})
    for sc in (SCENARIOS[0], SCENARIOS[1], SCENARIOS[3]) if thorough else (SCENARIOS[0],):
        for pt in BODY_POINTS:
            for s in SIGS:
                cases.append({"scenario": list(sc), "bodykill": pt, "sig": s, "k": 0})
    return cases


def correspond(ctx):
    ctx.rule = ("cases = (initial directory, body outcome) x (k-th executed line of run.py | point inside the body) x "
                "(SIGKILL, SIGTERM, SIGINT), plus fault sequences (signal inside the body, then a second fault at every line executed "
                "afterwards), plus helper faults: a notification endpoint (answers | drops the connection | refuses | garbled URL file) or a "
                "file the clean-up touches removed by the task (notification folder | pid file | lock file) x body shape (plain | "
                "try/except Exception | try/finally around the interrupted step) x SIGTERM/SIGINT inside the protected region -- the "
                "real-code counterpart of the model rule 'no exception escapes handle_error before sys.exit(1)' (Model/Runner: the "
                "handler always ends with `exit`); each followed by an undisturbed relaunch; thorough enumerates every executed line, "
                "quick a seeded subset; plus signals at every bytecode of run.py from the marker write to the end of the process (4 windows); non-trivial = the signal arrives after TaskRunner.run registered its clean-up "
                "(model location != init); distinct = distinct (scenario, line, signal, model location)")
    ctx.assumptions += [
        "fcntl/fasteners file locks: one holder, released by the OS when the holder dies (model rule, exercised by the lock probe after every death)",
        "POSIX signal delivery, CPython runs Python-level handlers between bytecodes of the main thread, atexit semantics (exercised, not proved)",
        "signals are delivered at line boundaries of run.py and at three points inside the task body; at every bytecode of run.py only inside the critical windows (from the write of the success / failure marker to the end of the process, 4 windows)",
        "at most two faults per real process in the enumeration (the model and the theorems allow any number)",
    ]
    tpl = get_template(ctx)
    bcases, bobs = SRC["baseline"] if SRC["baseline"] is not None else baseline(ctx, tpl)
    nlines = {tuple(c["scenario"]): o["nlines"] for c, o in zip(bcases, bobs)}
    # which source variant is this?  Read off the AST (Generated/RunnerSrc.lean `runnerCfg`, obligations `source_switches`); the behaviour
    # of the undisturbed runs (does a successful run keep its clean-up? which effect of handle_error comes first?) is the fallback when
    # the source is outside the translator's subset, and a cross-check of the translator otherwise
    unreg_probed, mf_probed = bool(bobs[0]["dir"]["pid"]), bool(MF[0])
    info = SRC["info"] or {"translated": False}
    if info.get("translated"):
        unreg, MF[0] = bool(info["flags"]["unregOnSuccess"]), bool(info["flags"]["markerFirst"])
        if (unreg, MF[0]) != (unreg_probed, mf_probed):
            ctx.disagree({"switches": "runsrc"}, {"unregOnSuccess": unreg, "markerFirst": MF[0]}, {"unregOnSuccess": unreg_probed, "markerFirst": mf_probed},
                         "the switches the translator read off run.py differ from the behaviour of the undisturbed real runs")
            unreg, MF[0] = unreg_probed, mf_probed
        ctx.notes.append("model switches (unregOnSuccess, markerFirst) AST-derived by translate/runsrc.py and equal to the probed behaviour")
    else:
        unreg = unreg_probed
        ctx.notes.append(f"model switches probed on the real code (translator fell back: {info.get('why', 'not run')})")
    source_order(ctx, bcases, bobs)
    ctx.notes.append(f"executed run.py lines per scenario: { {'/'.join(k): v for k, v in nlines.items()} }")
    ctx.notes.append(f"source variant probed on the undisturbed success path: atexit clean-up {'unregistered (F7 present)' if unreg else 'kept (repaired)'}; "
                     f"theorem own_exit_leaves_no_pid {'does not apply to this source' if unreg else 'applies'}")
    ctx.extra_cov["source_variant_unregisters_cleanup"] = unreg
    thorough = ctx.tier == "thorough"
    k0 = next((e.get("n", 0) for e in bobs[0]["pre"] if e["ev"] == "lock-acquired"), 0)
    ctx.notes.append(f"lines executed before the run lock is held: {k0} (enumerated once, under fresh/ok)")
    ctx.notes.append(f"order of handle_error probed on the undisturbed failing run: failure marker {'before' if MF[0] else 'AFTER'} the clean-up; "
                     f"theorems signal_in_body_marks_failed / marker_precedes_cleanup {'apply' if MF[0] else 'do not apply to this source'}")
    ctx.extra_cov["source_variant_marker_first"] = MF[0]
    ctx.notes.append(f"fault sequences: second fault at line events {SEQ_RANGE[0]}..{SEQ_RANGE[1]} after a signal at body point {SEQ_POINT}")
    cases = bcases + plan(ctx, nlines, thorough, k0) + plan_sequences(ctx, thorough) + plan_helpers(ctx, thorough) + plan_opcodes(ctx, tpl, bobs, thorough)
    cases, obs = evaluate(ctx, tpl, cases, unreg)
    ctx.exhaustive = thorough
    # coverage of the model's locations by real kill points
    try:
        paths = common.run_driver("C10", [dict(model_line({"scenario": list(sc), "sig": "none"}, None, unreg), op="path") for sc in SCENARIOS])
        want = {l if not l.startswith("body") else "body" for p in paths for l in p["path"]}
        hit = {(c.get("loc") or "") if not (c.get("loc") or "").startswith("body") else "body" for c in cases if isinstance(c, dict)}
        ctx.extra_cov["model_locations_on_undisturbed_paths"] = len(want)
        ctx.extra_cov["model_locations_hit_by_real_kill_points"] = len(want & hit)
        ctx.extra_cov["model_locations_missed"] = sorted(want - hit)
        if thorough and (want - hit):
            ctx.disagree({"coverage": sorted(want - hit)}, sorted(want), sorted(hit), "model locations that no real kill point maps to")
    except Exception as e:
        ctx.notes.append(f"coverage query failed: {e}")
    overlapping_launches(ctx)
    three_launches(ctx)
    scheduler_launches(ctx)
    crash_verdict(ctx)


def source_order(ctx, bcases, bobs):
    """tie of the translator to the running code: on every undisturbed real run (6 scenarios + SIGTERM inside the body) the order of the
    effects seen by the taps on the library entry points (atexit, signal.signal, the lock, the marker files) must be the sequence that
    translate/runsrc.py read off the AST (Generated/RunnerSrc.lean), projected on what the taps can see.  When the translator fell back
    these are the reference sequences of the model: the same comparison then decides whether the model's order is the code's."""
    from ..translate import runsrc
    info = SRC["info"]
    if not info or not info.get("seqs"):
        return
    seqs = info["seqs"]
    which = {("fresh", "ok"): ("pathNormal", {}), ("failed", "ok"): ("pathNormal", {}), ("done", "ok"): ("pathDone", {}),
             ("fresh", "exc"): ("pathFail", {}), ("fresh", "exit3"): ("pathExitS", {"m": 2}), ("fresh", "exit0"): ("pathExit0", {})}
    runs = [(tuple(c["scenario"]), o) for c, o in zip(bcases, bobs)]
    if SRC.get("seqobs") is not None:
        runs.append((("fresh", "signal"), SRC["seqobs"]))
    which[("fresh", "signal")] = ("pathSignal", {"c": SIGS["term"]})
    for sc, o in runs:
        name, kw = which[sc]
        want, got = runsrc.observable(seqs[name], **kw), runsrc.observed(o["pre"])
        ctx.count("source_order", f"{'/'.join(sc)}:{'same' if want == got else 'DIFFERENT'}")
        ctx.case({"source_order": list(sc), "path": name}, True)
        if want != got:
            ctx.disagree({"source_order": list(sc), "path": name}, want, got,
                         f"undisturbed real run {'/'.join(sc)}: the order of the effects on atexit / handlers / lock / marker files differs from the "
                         f"sequence {'read off the AST' if info.get('translated') else 'the model assumes (translator fell back)'} ({name})")


# ---------------------------------------------------------------- three launches with a failure in between

THREE_L1 = ["term", "int", "exc", "exit3", "kill"]   # how the first launch ends without success marker


def _spawn_hand(tpl, jd, tag, outcome, gate=None):
    """the job script started by hand (model action `spawn`: no scheduler-side lock, no pid file), under the effect taps"""
    env = dict(os.environ, C10_BODYLOG=str(jd / f"bodylog-{tag}"), C10_OUTCOME=outcome, C10_BODYKILL="", C10_SHAPE="plain",
               C10_BODYACT="", C10_OPJ="0", C10_GATE=f"{gate[0]}:{gate[1]}" if gate else "")
    with open(jd / f"stderr-{tag}", "a") as err:
        return subprocess.Popen([PY, WRAP, str(jd / f"{tpl.name}.py"), "0", "0", str(jd / f"efflog-{tag}")], env=env,
                                stdout=subprocess.DEVNULL, stderr=err, cwd="/")


def _until(cond, timeout):
    t0 = time.time()
    while time.time() - t0 < timeout:
        if cond():
            return True
        time.sleep(0.02)
    return bool(cond())


def _blog(jd, tag):
    p = jd / f"bodylog-{tag}"
    return p.read_text().split() if p.exists() else []


def _queued(proc, lockpath, efflog):
    """is the process waiting for the run lock?  effect tap: `lock-wait` without `lock-acquired`; /proc: it has the lock file open"""
    ev = [e["ev"] for e in _read_log(efflog)]
    if "lock-wait" not in ev or "lock-acquired" in ev:
        return False
    try:
        for fd in os.listdir(f"/proc/{proc.pid}/fd"):
            try:
                if os.readlink(f"/proc/{proc.pid}/fd/{fd}").split(" (deleted)")[0] == str(lockpath):
                    return True
            except OSError:
                pass
    except OSError:
        pass
    return False


def run_three(tpl, case):
    """L1 runs the body (held at a body point); L2 is started and queues on the run lock; L1 ends WITHOUT success marker (SIGTERM |
    SIGINT | exception | exit 3 | SIGKILL); L2 gets the lock and runs the body (held at a point); L3 is started while L2's body runs
    and must queue; L2 finishes (success marker); L3 gets the lock and must not run the body.  If L3 is inside the body anyway it gets
    a SIGTERM.  Then an undisturbed fourth launch.  Every wait is on an observable (body log, effect tap, /proc), not on time."""
    mode, point = case["l1"], case.get("point", "b1")
    jd = tpl.instantiate("fresh")
    lockpath, T = (jd / tpl.rel["lock"]).resolve(), 90
    ex = lambda k: (jd / tpl.rel[k]).exists()
    o = {"error": None}
    procs = []
    try:
        g = {i: jd / f"gate{i}" for i in (1, 2, 3)}
        p1 = _spawn_hand(tpl, jd, 1, {"exc": "exc", "exit3": "exit3"}.get(mode, "ok"), (point, g[1]))
        procs.append(p1)
        if not _until(lambda: point in _blog(jd, 1), T):
            raise RuntimeError("L1 did not reach its body point")
        p2 = _spawn_hand(tpl, jd, 2, "ok", ("b1", g[2]))
        procs.append(p2)
        if not _until(lambda: _queued(p2, lockpath, jd / "efflog-2"), T):
            raise RuntimeError("L2 did not queue on the run lock")
        time.sleep(0.1)
        o["l2_started_body_while_l1"] = "start" in _blog(jd, 2)
        if mode in SIGS:
            os.kill(p1.pid, SIGS[mode])
        else:
            g[1].touch()
        o["rc1"] = p1.wait(timeout=T)
        o["after_l1"] = {"done": ex("done"), "failed": ex("failed"), "lockfile": lockpath.exists()}
        _until(lambda: "b1" in _blog(jd, 2) or p2.poll() is not None, T)
        o["l2_body"] = "b1" in _blog(jd, 2)
        if not o["l2_body"] and p2.poll() is None:
            raise RuntimeError("L2 neither reached its body point nor ended")   # slow machine: no verdict from this case
        p3 = _spawn_hand(tpl, jd, 3, "ok", ("b1", g[3]))
        procs.append(p3)
        if not _until(lambda: any(e["ev"] == "lock-wait" for e in _read_log(jd / "efflog-3")), T):
            raise RuntimeError("L3 did not reach the run lock")
        # L2 is (still) held inside its body: L3 must now be waiting.  Grace for a wrongly granted lock to show as a body start
        o["l3_body_while_l2"] = bool(o["l2_body"]) and _until(lambda: "start" in _blog(jd, 3), 1.0) and p2.poll() is None
        g[2].touch()
        o["rc2"] = p2.wait(timeout=T)
        o["after_l2"] = {"done": ex("done"), "failed": ex("failed")}
        if "start" in _blog(jd, 3) and p3.poll() is None and _until(lambda: "b1" in _blog(jd, 3) or p3.poll() is not None, 10) and p3.poll() is None:
            o["l3_signalled_in_body"] = True
            os.kill(p3.pid, signal.SIGTERM)
        g[3].touch()
        o["rc3"] = p3.wait(timeout=T)
        o["after_l3"] = {"done": ex("done"), "failed": ex("failed"), "pid": ex("pid")}
        p4 = _spawn_hand(tpl, jd, 4, "ok")
        procs.append(p4)
        o["rc4"] = p4.wait(timeout=T)
        o["final"] = {"done": ex("done"), "failed": ex("failed"), "pid": ex("pid")}
        o["logs"] = {str(i): _blog(jd, i) for i in (1, 2, 3, 4)}
    except (RuntimeError, subprocess.TimeoutExpired) as e:
        o["error"] = f"{type(e).__name__}: {e}"[:200]
    finally:
        for p in procs:
            if p.poll() is None:
                p.kill()
                p.wait()
        shutil.rmtree(jd.parent, ignore_errors=True)
    return o


def three_monitors(case, o):
    """the sentences of the property on three overlapping launches (implementation only)"""
    fails, logs = [], o["logs"]
    what = f"three launches, L1 ends by {case['l1']} at body point {case.get('point', 'b1')} with L2 queued on the run lock, L3 started while L2 runs its body"
    if o["l2_started_body_while_l1"]:
        fails.append(("bodies-overlap", f"{what}: L2 started its body while L1 was inside its own"))
    if not o["after_l1"]["done"] and not o["l2_body"]:
        fails.append(("no-body-without-done", f"{what}: L1 left no success marker but L2 did not run the body (log {logs['2']})"))
    if o["l3_body_while_l2"]:
        fails.append(("bodies-overlap", f"{what}: L3 started its body (log {logs['3']}) while L2 was inside its own -- two processes hold the run lock (lock file after L1: {'exists' if o['after_l1']['lockfile'] else 'GONE'})"))
    succ = [i for i, l in logs.items() if "end" in l]
    if len(succ) > 1:
        fails.append(("body-run-again-after-success", f"{what}: {len(succ)} successful executions of the body (launches {succ})"))
    if o["after_l2"]["done"] and not o["l3_body_while_l2"] and "start" in logs["3"]:
        fails.append(("body-run-again-after-success", f"{what}: L3 ran the body after L2 had written the success marker"))
    if "end" in logs["2"] and not o["after_l2"]["done"]:
        fails.append(("success-without-marker", f"{what}: L2 completed its body but there is no success marker"))
    if o["after_l3"]["done"] and o["after_l3"]["failed"]:
        fails.append(("both-markers", f"{what}: success and failure marker side by side after L3 ended (L3 signalled inside its body: {bool(o.get('l3_signalled_in_body'))})"))
    if o["final"]["done"] and "start" in logs["4"]:
        fails.append(("body-run-again-after-success", f"{what}: the fourth launch ran the body although the success marker existed"))
    if o["final"]["pid"]:
        fails.append(("own-exit-pid-left", f"{what}: pid file left"))
    return fails


def three_launches(ctx, cases=None):
    """mutual exclusion on the lock *inode* (Model/RunnerLockIds): needs a launch queued on the lock while the holder ends without success
    marker and a third launch while the second runs"""
    ctx.rule += ("; plus three launches of one job script started by hand: L1 held inside its body, L2 queued on the run lock (read from the effect "
                 "tap and /proc/<pid>/fd), L1 ends without success marker by SIGTERM | SIGINT | exception | exit 3 | SIGKILL at a body point, L3 "
                 "started while L2 runs its body, then a fourth undisturbed launch; every wait is on an observable")
    tpl = get_template(ctx)
    if cases is None:
        points = BODY_POINTS if ctx.tier == "thorough" else [BODY_POINTS[1]]
        cases = [{"l1": m, "point": p} for p in points for m in THREE_L1]
    def attempts(c):
        o = None
        for a in range(CRASH_ATTEMPTS):
            o = run_three(tpl, c)
            sigs = _crashed([o.get(f"rc{i}") for i in (1, 2, 3, 4)])
            if not sigs:
                o["crash_attempts"] = a
                return o
        o["crash_attempts"], o["interpreter_crash"] = CRASH_ATTEMPTS, sigs
        return o

    with ThreadPoolExecutor(min(len(cases), 8)) as ex:
        outs = list(ex.map(attempts, cases))
    errs = 0
    for case, o in zip(cases, outs):
        if crash_account(ctx, case, o.get("crash_attempts", 0), o.get("interpreter_crash"), family="three-launches"):
            continue
        if o["error"]:
            errs += 1
            ctx.count("three_launch_errors", o["error"][:60])
            continue
        ctx.case({"three": case}, True)
        ctx.count("three_launches", f"L1 {case['l1']}: L3 {'IN BODY' if o['l3_body_while_l2'] else 'queued'} while L2 runs; lock file after L1 {'kept' if o['after_l1']['lockfile'] else 'gone'}")
        for key, what in three_monitors(case, o):
            ctx.monitor_fail(f"overlapping-launch:three:{key}", what, {"three": case})
    if errs == len(cases) and cases:
        # e.g. "L2 did not queue on the run lock": on a tree whose run lock does not exclude (seeded C10d) the family cannot be staged at all.
        # That is not a harness failure of the whole check: the other families and the source obligations decide; the evidence says the family did not run.
        ctx.count("three_launch_family", "unrunnable")
        ctx.notes.append(f"three-launch family: no case could be staged ({outs[0]['error'][:120]}); the other families decide")


def scheduler_launches(ctx):
    """the sentences of the property on directories of jobs that the REAL scheduler launched (experiment -> aio_start ->
    aio_run -> job script), with launchers whose submission call gives the hand back late (at once | fixed delay | only
    once the job process is gone), bodies that end ok / with an exception / exit 3 / exit 0, and a second experiment on
    the same workspace: see c10x_sched.py.  The crash-point cases above re-enact the scheduler side by hand (`launch`),
    so what the scheduler itself does around the start of the process is only exercised here."""
    from . import c10x_sched
    ctx.rule += ("; plus scheduler-launched jobs: (how late the launcher's submission call returns: at once | 0.2-1.5 s | once the "
                 "job process is gone) x (first execution ends ok | exception | exit 3 | exit 0) x body duration, 1-2 jobs per "
                 "experiment, followed by a second experiment on the same workspace; nothing is killed (own exits only)")
    c10x_sched.evaluate(ctx, c10x_sched.gen_cases(ctx, ctx.rng))


def overlapping_launches(ctx):
    """"a later launch of the same job script executes the body exactly when no success marker exists" for launches that
    OVERLAP: 2-3 real processes of one job script started within 0-0.2 s of each other (the machinery of C05's races): a
    launch that queued on the run lock while the first one was in its body must find the marker when it gets the lock."""
    from . import c05
    rng = ctx.rng
    n = ctx.scale(6, 30)
    cases = []
    for i in range(n):
        k = rng.choice([2, 3])
        cases.append({"id": f"c10race{i}", "n": k, "x": 100 + i, "hold": rng.choice([0.3, 0.5]), "fail_first": False,
                      "offsets": [0.0] + [round(rng.choice([0.05, 0.1, 0.2]), 3) for _ in range(k - 1)]})
    outs = c05.run_worker_cases(ctx, "race", cases, parallel=ctx.scale(6, 12))
    tries = {c["id"]: 0 for c in cases}
    for _ in range(CRASH_ATTEMPTS - 1):   # same rule: a launch that ended by SIGSEGV/SIGABRT/SIGBUS/SIGILL -> the case is run again
        again = [i for i, o in enumerate(outs) if _crashed(o.get("rcs") or [])]
        if not again:
            break
        for i, o2 in zip(again, c05.run_worker_cases(ctx, "race", [cases[i] for i in again], parallel=ctx.scale(6, 12))):
            tries[cases[i]["id"]] += 1
            outs[i] = o2
    for case, o in zip(cases, outs):
        sigs = _crashed(o.get("rcs") or [])
        if crash_account(ctx, case, tries[case["id"]], sigs, family="overlapping-launches"):
            continue
        if o.get("error"):
            ctx.count("overlap_errors", o["error"][:60])
            continue
        ctx.case({"overlapping_launches": case}, True)
        ctx.count("overlapping_launches", case["n"])
        for key, what in c05.race_monitor(case, o):
            if key in ("body-run-again-after-success", "bodies-overlap", "success-without-marker"):
                ctx.monitor_fail(f"overlapping-launch:{key}", f"{what} [overlapping launches {json.dumps(case)}]", {"race": case})


def search(ctx):
    """implementation-only monitors over every executed line x every signal (run when a proof or the correspondence broke)"""
    tpl = get_template(ctx)
    bcases, bobs = baseline(ctx, tpl)
    nlines = {tuple(c["scenario"]): o["nlines"] for c, o in zip(bcases, bobs)}
    t0 = time.time()
    k0 = next((e.get("n", 0) for e in bobs[0]["pre"] if e["ev"] == "lock-acquired"), 0)
    cases = bcases + plan_helpers(ctx, True) + plan_sequences(ctx, True) + plan(ctx, nlines, True, k0)
    for i in range(0, len(cases), 96):
        if time.time() - t0 > ctx.scale(60, 600) or [m for m in ctx.monitor_failures if not m["key"].startswith("own-exit-pid-left:success")]:
            break
        evaluate(ctx, tpl, cases[i:i + 96], True, with_model=False)


def run_witness(ctx, finding):
    w = finding.get("witness")
    if not w:
        return
    tpl = get_template(ctx)
    before = len(ctx.monitor_failures)
    evaluate(ctx, tpl, [dict(w)], True, with_model=False)
    failed = [m for m in ctx.monitor_failures[before:] if m["key"] == finding["key"]]
    if finding.get("status") == "fixed" and failed:
        ctx.monitor_fail(f"regression:{finding['id']}", f"finding {finding['id']} marked fixed fails again: {failed[0]['what']}", w)


def replay(ctx, obj):
    """re-run the failing inputs of a replay file with the implementation-only monitors"""
    tpl = get_template(ctx)
    cases = [f["case"] for f in obj.get("failures", []) if isinstance(f.get("case"), dict) and "scenario" in f["case"]]
    sched = [f["case"]["sched"] for f in obj.get("failures", []) if isinstance(f.get("case"), dict) and "sched" in f["case"]]
    if sched:  # histories of scheduler-launched jobs
        from . import c10x_sched
        c10x_sched.evaluate(ctx, sched)
    three = [f["case"]["three"] for f in obj.get("failures", []) if isinstance(f.get("case"), dict) and "three" in f["case"]]
    if three:
        three_launches(ctx, three)
        sched = sched or three
    for d in obj.get("disagreements", []):
        if isinstance(d.get("case"), dict) and "scenario" in d["case"]:
            cases.append({k: v for k, v in d["case"].items() if k != "loc"})
    if not cases and not sched:
        prove(ctx)
        correspond(ctx)
        return common.verdict(ctx, search)
    unreg = True
    if cases:
        evaluate(ctx, tpl, [dict(c) for c in cases], unreg, with_model=False)
    known = {f["key"] for f in common.load_findings(PROP) if f.get("status") == "known"}
    bad = [m for m in ctx.monitor_failures if m["key"] not in known]
    for m in ctx.monitor_failures:
        print(("KNOWN " if m["key"] in known else "FAIL  ") + m["what"])
    if bad:
        print(f"VIOLATION property={PROP} replay=reproduced")
        return 1
    print(f"OK property={PROP} replay: {len(cases) + len(sched)} case(s) no longer fail")
    return 0
