import XpmVerif.Model.Ident
/-! M1 (implementation side): identifiers *with* the `_raw_identifier` / `_full_identifier`
    caches, sealing, and the mutators guarded by `_sealed`.  State machine `step`.
    `flagStored` says whether `HashComputer.compute` really stores the loop flag in the attribute
    that the cache lookup reads (`Generated/HashFlags.lean: loopFlagStored`). -/
namespace XpmVerif.Ident

/-! ### which configurations does the encoder descend into (in order) -/

mutual
def refsVal (mt : Nat → Option Bool) : Val → List Nat
  | .list l => refsVals mt l
  | .dict ks vs => refsPairs mt ks vs
  | .ref n => [n]
  | _ => []
def refsVals (mt : Nat → Option Bool) : List Val → List Nat
  | [] => []
  | v :: vs => if dropped mt v then refsVals mt vs else refsVal mt v ++ refsVals mt vs
/-- like `encPairs`: only the values that have a key are items of the dict. -/
def refsPairs (mt : Nat → Option Bool) : List (List Nat) → List Val → List Nat
  | _ :: ks, v :: vs => if dropped mt v then refsPairs mt ks vs else refsVal mt v ++ refsPairs mt ks vs
  | _, _ => []
end

/-! ### which configurations does `_is_default(default, value)` compute (in order)

    `onst v` = `id(value) in config_path.config2index`.  For a `Config`/`Config` pair whose value is not
    being hashed *both* identifiers are computed; `and` / `all(...)` stop at the first `False`. -/

mutual
def defRefs (onst : Nat → Bool) (ceq : Nat → Nat → Bool) (mt : Nat → Option Bool) : Val → Val → List Nat
  | .ref d, v => (match v with
      | .ref v => if onst v then [] else [d, v]
      | _ => [])
  | .list a, v => (match v with
      | .list b =>
        let b' := b.filter (fun x => !dropped mt x)
        if a.length = b'.length then defRefsL onst ceq mt a b' else []
      | _ => [])
  | .dict ka va, v => (match v with
      | .dict kb vb =>
        let kept := (kb.zip vb).filter (fun kv => !dropped mt kv.2)
        if sameKeys ka (kept.map (·.1)) then defRefsKV onst ceq mt ka va (kept.map (·.1)) (kept.map (·.2)) else []
      | _ => [])
  | _, _ => []
def defRefsL (onst : Nat → Bool) (ceq : Nat → Nat → Bool) (mt : Nat → Option Bool) : List Val → List Val → List Nat
  | a :: as, b :: bs =>
    defRefs onst ceq mt a b ++ (if isDefault ceq mt a b then defRefsL onst ceq mt as bs else [])
  | _, _ => []
def defRefsKV (onst : Nat → Bool) (ceq : Nat → Nat → Bool) (mt : Nat → Option Bool) :
    List (List Nat) → List Val → List (List Nat) → List Val → List Nat
  | k :: ks, v :: vs, kb, vb =>
    (match lookupKV k kb vb with
     | some w => defRefs onst ceq mt v w ++ (if isDefault ceq mt v w then defRefsKV onst ceq mt ks vs kb vb else [])
     | none => [])
  | _, _, _, _ => []
end

/-- configurations examined while the argument loop processes `a`: those computed by `_is_default` when the
    default rule is reached (whether or not the argument is then skipped), then those the encoder descends
    into if the argument is included. -/
def argDynRefs (onst : Nat → Bool) (ceq : Nat → Nat → Bool) (mt : Nat → Option Bool) (a : Arg) : List Nat :=
  if ignoredOut mt a || a.generator then [] else
  (if a.constant then [] else
    match a.default with
    | some d => defRefs onst ceq mt d (removeMeta mt a.value)
    | none => [])
  ++ (if included ceq mt a then refsVal mt a.value else [])

/-- configurations whose identifier is computed (or for which `detect_loop` emits a cycle reference) while
    `nd` is hashed: each of these traversals updates the loop flags of the `ConfigPath`. -/
def nodeRefs (onst : Nat → Bool) (ceq : Nat → Nat → Bool) (mt : Nat → Option Bool) (self : Nat) (nd : Node) : List Nat :=
  (match nd.task with | some t => if t ≠ self then [t] else [] | none => [])
  ++ (nd.args.map (argDynRefs onst ceq mt)).flatten

structure Caches (D : Type) where
  raw : Nat → Option (D × Bool)       -- `_raw_identifier` with its `has_loops`
  full : Nat → Option D               -- `_full_identifier`

def Caches.empty {D : Type} : Caches D := { raw := fun _ => none, full := fun _ => none }

def updF {α : Type} (f : Nat → α) (j : Nat) (v : α) (i : Nat) : α := if i = j then v else f i

/-- cache hit of `HashComputer.compute`: sealed, cached, and the cached flag is false. -/
def cacheHit {D : Type} (g : Graph) (c : Caches D) (n : Nat) : Option D :=
  if (g.node n).sealed then
    match c.raw n with
    | some (d, false) => some d
    | _ => none
  else none

/-- `HashComputer.compute(config, config_path)` with the cache lookup. -/
def computeAt {D : Type} (hc : HC D) (g : Graph) (c : Caches D) : Nat → List Nat → Nat → D
  | 0, _, _ => hc.H []
  | fuel + 1, stack, n =>
    match cacheHit g c n with
    | some d => d
    | none =>
      hc.H (nodeStream
        (ctxCfg (n :: stack) (fun m => hc.emb (computeAt hc g c fuel (n :: stack) m)))
        (ctxEq (n :: stack) (ctxCfg (n :: stack) (fun m => hc.emb (computeAt hc g c fuel (n :: stack) m))))
        g.mt n (g.node n))

/-- how far above itself the traversal of `n` referenced: 0 = no reference to `n` or above;
    `k ≥ 1` = a cycle reference reached `k − 1` levels above `n` (so `≥ 1` ⇔ `ConfigPath.has_loop()`).
    The traversals are those of `nodeRefs`: the encoder's and the two `compute` calls of every
    `Config`/`Config` comparison made by `_is_default` (decided with the identifiers `computeAt` returns). -/
def escAt {D : Type} (hc : HC D) (g : Graph) (c : Caches D) : Nat → List Nat → Nat → Nat
  | 0, _, _ => 0
  | fuel + 1, stack, n =>
    match cacheHit g c n with
    | some _ => 0
    | none =>
      (nodeRefs (fun m => (relIndex (n :: stack) m).isSome)
          (ctxEq (n :: stack) (ctxCfg (n :: stack) (fun m => hc.emb (computeAt hc g c fuel (n :: stack) m))))
          g.mt n (g.node n)).foldl (fun acc m =>
        max acc (match relIndex (n :: stack) m with
          | some k => k
          | none => escAt hc g c fuel (n :: stack) m - 1)) 0

structure St (D : Type) where
  g : Graph
  c : Caches D

/-- `identifiers(True)[0]`: the raw identifier, cached when sealed. -/
def reqRaw {D : Type} (hc : HC D) (flagStored : Bool) (s : St D) (n : Nat) : St D × D :=
  let nd := s.g.node n
  match (if nd.sealed then s.c.raw n else none) with
  | some (d, _) => (s, d)
  | none =>
    let d := computeAt hc s.g s.c (s.g.size + 1) [] n
    let flag := flagStored && decide (escAt hc s.g s.c (s.g.size + 1) [] n ≥ 1)
    if nd.sealed then ({ s with c := { s.c with raw := updF s.c.raw n (some (d, flag)) } }, d) else (s, d)

def reqRaws {D : Type} (hc : HC D) (flagStored : Bool) : St D → List Nat → St D × List D
  | s, [] => (s, [])
  | s, n :: ns =>
    let (s1, d) := reqRaw hc flagStored s n
    let (s2, ds) := reqRaws hc flagStored s1 ns
    (s2, d :: ds)

/-- post-order of the `ConfigWalk` (the order in which `postprocess` runs); state = (visited, post). -/
def walkPV (cfg : Nat → List Nat × List Nat → List Nat × List Nat) : List Nat → List Nat × List Nat → List Nat × List Nat
  | [], s => s
  | n :: ns, s => walkPV cfg ns (cfg n s)

mutual
def walkValP (cfg : Nat → List Nat × List Nat → List Nat × List Nat) : Val → List Nat × List Nat → List Nat × List Nat
  | .list l, s => walkValsP cfg l s
  | .dict _ vs, s => walkValsP cfg vs s
  | .ref n, s => cfg n s
  | _, s => s
def walkValsP (cfg : Nat → List Nat × List Nat → List Nat × List Nat) : List Val → List Nat × List Nat → List Nat × List Nat
  | [], s => s
  | v :: vs, s => walkValsP cfg vs (walkValP cfg v s)
end

def visitP (g : Graph) (stop : Nat → Bool) : Nat → Nat → List Nat × List Nat → List Nat × List Nat
  | 0, _, s => s
  | fuel + 1, n, (vis, post) =>
    if vis.contains n then (vis, post) else
    let s := (n :: vis, post)
    if stop n then s else
    let nd := g.node n
    let rec_ := visitP g stop fuel
    let s := walkValsP rec_ (nd.args.map (·.value)) s
    let s := walkPV rec_ nd.preTasks s
    let s := walkPV rec_ nd.initTasks s
    let s := match nd.task with
      | some t => if t ≠ n then rec_ t s else s
      | none => s
    (s.1, s.2 ++ [n])

/-- `collect_pre_tasks()` in the order of the real dict (first insertion wins). -/
def collectPreTasksOrdered (g : Graph) (n : Nat) : List Nat :=
  let post := (visitP g (fun _ => false) (g.size + 1) n ([], [])).2
  (post.map (fun m => (g.node m).preTasks)).flatten.foldl (fun acc p => if acc.contains p then acc else acc ++ [p]) []

/-- `identifiers(False)[1]`: the full identifier, cached when sealed. -/
def reqFull {D : Type} (hc : HC D) (flagStored : Bool) (s : St D) (n : Nat) : St D × D :=
  let (s1, raw) := reqRaw hc flagStored s n
  let nd := s1.g.node n
  match (if nd.sealed then s1.c.full n else none) with
  | some d => (s1, d)
  | none =>
    let (s2, pre) := reqRaws hc flagStored s1 (collectPreTasksOrdered s1.g n)
    let (s3, ini) := reqRaws hc flagStored s2 nd.initTasks
    let d := hc.H (hc.emb raw ++ ((sortBy hc.le pre).map hc.emb).flatten
              ++ (if nd.initTasks.isEmpty then [] else 12 :: (ini.map hc.emb).flatten))
    if nd.sealed then ({ s3 with c := { s3.c with full := updF s3.c.full n (some d) } }, d) else (s3, d)

/-! ### sealing and mutators -/

def setSealed (g : Graph) (ns : List Nat) : Graph :=
  { nodes := g.nodes.zipIdx.map (fun (nd, i) => if ns.contains i then { nd with sealed := true } else nd) }

/-- `seal`: the Sealer walk stops at already sealed nodes; every visited unsealed node becomes sealed. -/
def sealFrom (g : Graph) (n : Nat) : Graph :=
  let vis := visit g (fun m => (g.node m).sealed) (g.size + 1) n []
  setSealed g (vis.filter (fun m => !(g.node m).sealed))

def setNode (g : Graph) (n : Nat) (f : Node → Node) : Graph :=
  { nodes := g.nodes.zipIdx.map (fun (nd, i) => if i = n then f nd else nd) }

inductive Op where
  | sealOp (n : Nat)
  | reqRaw (n : Nat)
  | reqFull (n : Nat)
  | set (n : Nat) (name : List Nat) (v : Val)     -- `cfg.name = v` (value already validated)
  | setMeta (n : Nat) (b : Option Bool)
  | addPretask (n p : Nat)
  deriving Repr

inductive Out (D : Type) where
  | ok
  | id (d : D)
  | sealedError
  deriving Repr

def step {D : Type} (hc : HC D) (flagStored : Bool) (s : St D) : Op → St D × Out D
  | .sealOp n => ({ s with g := sealFrom s.g n }, .ok)
  | .reqRaw n => let (s', d) := reqRaw hc flagStored s n; (s', .id d)
  | .reqFull n => let (s', d) := reqFull hc flagStored s n; (s', .id d)
  | .set n name v =>
    if (s.g.node n).sealed then (s, .sealedError) else
    ({ s with g := setNode s.g n (fun nd => { nd with args := nd.args.map (fun a => if a.name = name then { a with value := v } else a) }) }, .ok)
  | .setMeta n b =>
    if (s.g.node n).sealed then (s, .sealedError) else
    ({ s with g := setNode s.g n (fun nd => { nd with mflag := b }) }, .ok)
  | .addPretask n p =>
    if (s.g.node n).sealed then (s, .sealedError) else
    ({ s with g := setNode s.g n (fun nd => { nd with preTasks := nd.preTasks ++ [p] }) }, .ok)

end XpmVerif.Ident
