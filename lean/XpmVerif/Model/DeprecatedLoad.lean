import XpmVerif.Model.Deprecated
import XpmVerif.Model.Serial
/-! M10 composed with M5 and M1 — C20 with C12/C01: the location `fix_deprecated` recomputes for a job directory
    is *derived* inside the model from the `params.json` the run wrote:

      `recompute dir := (type identifier, Ident.fullId) of Serial.fromParameters (paramsOf dir)`

    (`tools/jobs.py::load_job` = `ConfigInformation.fromParameters(params["objects"], False, discard_id=True)`,
    then `str(job.__xpmtype__.identifier)` and `job.__xpm__.identifier.all.hex()`), the class library being the
    one of the *current* class table (deprecated classes carry their replacement's type identifier), and the
    marker files of a job directory (`<name>.done`, `.out`, `.err`, named after the last component of the task
    identifier) with `alias_job_files`.

    Decision structure of one iteration of `fix_deprecated` (`action`) and of `alias_job_files` (`aliasCond`):
    what `harness/xv/translate/fixsrc.py` regenerates from the source as `Generated/FixSrc.lean`. -/
namespace XpmVerif.Deprecated
open XpmVerif.Ident XpmVerif.Serial

/-! ## the class library of a class table -/

/-- what the library says about a class besides its type identifier: the name written into `params.json`
    (`module` + `type`), the declared arguments right after the parameter-less `__init__()` (those of the
    replacement for a deprecated class: it declares none of its own), the `is_data` argument names. -/
structure ClassInfo where
  name : List Nat
  args : List Arg
  data : List (List Nat) := []
  deriving Repr

def ClassInfo.dflt : ClassInfo := { name := [], args := [] }

def cinfo (infos : List ClassInfo) (c : Nat) : ClassInfo := infos.getD c ClassInfo.dflt

def clsOf (cs : List ClassDecl) (infos : List ClassInfo) (c : Nat) : Cls :=
  { name := (cinfo infos c).name, typeId := eff cs c, args := (cinfo infos c).args, data := (cinfo infos c).data }

/-- the class library as `load_objects` sees it under the class table `cs`: the type identifier of class `c`
    is `eff cs c` (`ObjectType.deprecate` has copied the parent's). -/
def libOf (cs : List ClassDecl) (infos : List ClassInfo) : List Cls :=
  (List.range infos.length).map (clsOf cs infos)

/-- a configuration graph over class indices with the class name of every node. -/
def sgraphOf (infos : List ClassInfo) (g : CGraph) : SGraph :=
  { g := g.toGraph, cname := g.nodes.map (fun n => (cinfo infos n.cls).name) }

/-- `params.json["objects"]` of the job of `root`, written by a run under the class table `g.classes`. -/
def paramsOf (fl : Flags) (infos : List ClassInfo) (g : CGraph) (root : Nat) : List Def :=
  serialize fl (libOf g.classes infos) (sgraphOf infos g) [root]

/-- what `fix_deprecated` recomputes from `params.json` under the class table `cs`:
    `(str(job.__xpmtype__.identifier), job.__xpm__.identifier.all)`; `none` = `load_job` returned `None`. -/
def recompute {D : Type} (hc : HC D) (fl : Flags) (cs : List ClassDecl) (infos : List ClassInfo) (size : Nat)
    (defs : List Def) : Option (List Nat × D) :=
  match fromParameters fl (libOf cs infos) defs with
  | .ok (L, r) => some (((toGraph L size).node r).typeId, fullId hc (toGraph L size) r)
  | .error _ => none

/-- the `Params` component of a directory of the jobs tree, derived from its `params.json`
    (`intern` names the location `jobs/<type identifier>/<identifier>` as a key of the tree). -/
def derivedParams {D : Type} (intern : List Nat × D → Key) (hc : HC D) (fl : Flags) (cs : List ClassDecl)
    (infos : List ClassInfo) (size : Nat) (defs : List Def) : Params :=
  match recompute hc fl cs infos size defs with
  | some loc => .ok (intern loc)
  | none => .broken

/-- the job of `root` spelled with the replacement classes: every node re-classed to the non-deprecated class
    its class ultimately stands for. -/
def replaced (g : CGraph) : CGraph := reclassWith (ultimate g.classes) (fun _ => true) g

/-- the location a resubmission with the replacement classes computes. -/
def replacementLoc {D : Type} (hc : HC D) (g : CGraph) (root : Nat) : List Nat × D :=
  (eff g.classes (ultimate g.classes ((g.nodes.getD root default).cls)), cFullId hc (replaced g) root)

/-! ## decision structure of `fix_deprecated` -/

/-- what one iteration of the second loop observes. -/
structure Obs where
  isLink : Bool       -- `job_path.parent.is_symlink()`
  loaded : Bool       -- `job is not None`
  changed : Bool      -- `new_identifier != old_identifier`
  newIsLink : Bool    -- `newjobpath.is_symlink()`
  newExists : Bool    -- `newjobpath.exists()`
  same : Bool         -- `newjobpath.resolve() == oldjobpath.resolve()`
  deriving Repr, DecidableEq

/-- what it does (in order). -/
inductive Eff where
  | unlinkNew         -- `newjobpath.unlink()` (dangling link)
  | aliasNew          -- `alias_job_files(newjobpath, …)`: already linked
  | aliasOld          -- `alias_job_files(oldjobpath, …)`
  | rewrite           -- `params.json` rewritten with the reloaded configuration
  | move              -- `oldjobpath.rename(newjobpath)`
  | link              -- `newjobpath.symlink_to(oldjobpath)`
  | unlinkSelf        -- `job_path.parent.unlink()` inside the second loop (not in the current source: never produced by `action`)
  deriving Repr, DecidableEq

/-- second loop of `fix_deprecated(workpath, fix, cleanup)`, one yielded path. -/
def action (fx cl : Bool) (o : Obs) : List Eff :=
  if o.isLink then []
  else if !o.loaded then []
  else if !o.changed then []
  else if !fx then []
  else
    (if o.newIsLink && !o.newExists then [Eff.unlinkNew] else []) ++
    (if o.newExists then (if o.same then [Eff.aliasNew] else [])
     else Eff.aliasOld :: (if cl then [Eff.rewrite, Eff.move] else [Eff.link]))

/-- first loop (`if cleanup:`): is the yielded entry unlinked? -/
def pass1 (cl isLink : Bool) : Bool := cl && isLink

/-- `alias_job_files`: is `<new>.<suffix>` created (as a link to the *name* `<old>.<suffix>`)? -/
def aliasCond (differs srcExists aliasExists aliasIsLink : Bool) : Bool :=
  differs && srcExists && !aliasExists && !aliasIsLink

/-! ## marker files -/

/-- a marker file of a job directory: a regular file, or a symbolic link to the *name* `<src>.<suffix>` in the same
    directory (`alias.symlink_to(source.name)`: relative, so it survives the move of the directory). -/
inductive MFile where
  | real
  | alias (src : Nat)
  deriving Repr, DecidableEq

/-- files of the job directories, keyed by the content identity of the directory (a rename moves them along):
    `fs d name suffix` (suffix 0 = `.done`, 1 = `.out`, 2 = `.err`). -/
abbrev FS := Nat → Nat → Nat → Option MFile

def updF (fs : FS) (d n s : Nat) (v : Option MFile) : FS :=
  fun d' n' s' => if d' = d ∧ n' = n ∧ s' = s then v else fs d' n' s'

/-- `Path.exists()` of `<name>.<suffix>` in directory `d`: follows aliases (at most `fuel`, `ELOOP` beyond). -/
def fexists (fs : FS) (d : Nat) : Nat → Nat → Nat → Bool
  | 0, _, _ => false
  | fuel + 1, n, s =>
    match fs d n s with
    | some .real => true
    | some (.alias m) => fexists fs d fuel m s
    | none => false

def fIsLink (fs : FS) (d n s : Nat) : Bool :=
  match fs d n s with
  | some (.alias _) => true
  | _ => false

def aliasOne (old new d : Nat) (fs : FS) (s : Nat) : FS :=
  if aliasCond (old != new) (fexists fs d depth old s) (fexists fs d depth new s) (fIsLink fs d new s)
  then updF fs d new s (some (.alias old)) else fs

/-- `alias_job_files(jobpath, old_type, new_type)` on the directory with content `d`; `old`, `new` are the last
    components of the two type identifiers. -/
def aliasFiles (old new d : Nat) (fs : FS) : FS := [0, 1, 2].foldl (aliasOne old new d) fs

/-- the directory (content identity) a location leads to. -/
def dataAt (t : Tree) (k : Key) : Option Nat :=
  match resolve t depth k with
  | some r => (match t r with
    | some (.dir d _) => some d
    | _ => none)
  | none => none

/-- what `aio_submit` looks at for a job at location `nk`: `Job.donepath.exists()` =
    `jobs/<type>/<identifier>/<last component of type>.done`, through the link of the directory and the aliases. -/
def doneTest (nm : Nat → Nat) (t : Tree) (fs : FS) (nk : Key) : Bool :=
  match dataAt t nk with
  | some d => fexists fs d depth (nm nk.1) 0
  | none => false

/-- what the second loop observes at `k` whose `params.json` recomputes to `nk`. -/
def observe (t : Tree) (k nk : Key) : Obs :=
  { isLink := false, loaded := true, changed := nk.2 != k.2, newIsLink := isLink t nk,
    newExists := (resolve t depth nk).isSome, same := resolve t depth nk == some k }

/-- one effect on the tree and the marker files (`nm` = last component of a type identifier). -/
def applyEff (nm : Nat → Nat) (k nk : Key) (d : Nat) (s : Tree × FS) : Eff → Tree × FS
  | .unlinkNew => (upd s.1 nk none, s.2)
  | .aliasNew => (s.1, match dataAt s.1 nk with
      | some d' => aliasFiles (nm k.1) (nm nk.1) d' s.2
      | none => s.2)
  | .aliasOld => (s.1, aliasFiles (nm k.1) (nm nk.1) d s.2)
  | .rewrite => s        -- the directory keeps its `Params` (the rewritten file recomputes to the same location)
  | .move => (upd (upd s.1 nk (some (.dir d (.ok nk)))) k none, s.2)
  | .link => (upd s.1 nk (some (.link k)), s.2)
  | .unlinkSelf => (upd s.1 k none, s.2)

/-- second pass with the marker files, driven by `action`. -/
def step2F (fx cl : Bool) (nm : Nat → Nat) (s : Tree × FS) (k : Key) : Tree × FS :=
  match s.1 k with
  | some (.dir d (.ok nk)) => (action fx cl (observe s.1 k nk)).foldl (applyEff nm k nk d) s
  | _ => s

/-- `fix_deprecated` on the tree and the marker files (the first pass touches no file). -/
def fixTreeF (fx cl : Bool) (nm : Nat → Nat) (ks1 ks2 : List Key) (s : Tree × FS) : Tree × FS :=
  ks2.foldl (step2F fx cl nm) (phase1 cl ks1 s.1, s.2)

end XpmVerif.Deprecated
