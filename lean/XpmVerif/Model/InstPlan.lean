/-! The *plans* of the three routes that create runtime objects (`core/objects.py`: `ConfigInformation.FromPython` + `fromConfig`,
    `fromParameters`, `load_objects(as_instance=True)`; `run.py::run`): which effect happens at which point, keyed by what.
    A plan is an abstraction of the method bodies in normal form; `Generated/InstSrc.lean` holds the plans read off the Python AST
    on every run (harness/xv/translate/instsrc.py), `expected*` are the plans the hand-written logs of `Model/Serial.lean`
    (`instanceLog`, `loadObjectsLog`, `loadInstanceLog`, `runLog`) follow, and `Properties/C13Src.lean` proves both facts.
    Import-free. -/
namespace XpmVerif.Inst

/-- what an `ObjectStore` entry / a dictionary of gathered tasks is keyed by. -/
inductive Key where
  | config   -- `id(config)`: the configuration
  | stub     -- `id(stub)`: the runtime object
  | other
  deriving DecidableEq, Repr

/-- the effects of `FromPython.postprocess`, in source order. -/
inductive PostStep where
  | setAttrs                      -- `for key, value in values.items(): setattr(stub, key, value)`
  | postInit                      -- `stub.__post_init__()`
  | gatherPre                     -- the pre-tasks of the configuration are recorded
  | setConstructed (k : Key)      -- `self.objects.set_constructed(id(…))`
  deriving DecidableEq, Repr

structure FromPython where
  /-- `preprocess`: `is_constructed(id(config))` decides; a refused configuration yields `retrieve(id(config))` -/
  preprocessTests : Key
  refusedReturnsStored : Bool
  /-- `stub`: `retrieve(id(config))`, a new `config.XPMValue()` exactly when that is `None`, `add_stub(id(config), o)` -/
  stubLooksUp : Key
  stubCreatesWhenNone : Bool
  stubStores : Key
  post : List PostStep
  /-- gathered pre-tasks: a dictionary keyed by `id(pre_task)` (insertion order, one entry per object) -/
  preTasksKeyedById : Bool
  /-- … created empty by every `FromPython(…)` -/
  preTasksFresh : Bool
  /-- `fromConfig`: after the walk, `execute()` on every gathered pre-task, in the order of the dictionary -/
  execGatheredAfterWalk : Bool
  deriving DecidableEq, Repr

def expectedFromPython : FromPython :=
  { preprocessTests := .config, refusedReturnsStored := true, stubLooksUp := .config, stubCreatesWhenNone := true,
    stubStores := .config, post := [.setAttrs, .postInit, .gatherPre, .setConstructed .config],
    preTasksKeyedById := true, preTasksFresh := true, execGatheredAfterWalk := true }

inductive FillStep where
  | init | setFields | postInit
  deriving DecidableEq, Repr

/-- `load_objects(as_instance=True)` -/
structure Load where
  /-- every object is created (first loop) before any is filled (second loop) -/
  twoPasses : Bool
  /-- per definition, in source order: parameter-less `__init__()`, `setattr` of every field, `__post_init__()` -/
  fill : List FillStep
  /-- `__post_init__()` is called for EVERY definition (no other condition than `as_instance`) -/
  postInitEveryDefinition : Bool
  deriving DecidableEq, Repr

def expectedLoad : Load := { twoPasses := true, fill := [.init, .setFields, .postInit], postInitEveryDefinition := true }

inductive Phase where
  | pre | init
  deriving DecidableEq, Repr

/-- `fromParameters` -/
structure FromParams where
  /-- `load_objects` runs first -/
  loadsFirst : Bool
  /-- pre-tasks: over all definitions in order, each id appended the first time it is met (`if id not in done: done.add(id); append`) -/
  preOverAllDefinitions : Bool
  preOncePerId : Bool
  /-- init tasks: those of the LAST definition, in order -/
  initOfLast : Bool
  /-- executed when `as_instance`, in this order -/
  exec : List Phase
  /-- returned when `return_tasks`, in this order -/
  returned : List Phase
  deriving DecidableEq, Repr

def expectedFromParams : FromParams :=
  { loadsFirst := true, preOverAllDefinitions := true, preOncePerId := true, initOfLast := true,
    exec := [.pre, .init], returned := [.pre, .init] }

/-- `run.py::run`, in source order -/
inductive RunStep where
  | load      -- `task = ConfigInformation.fromParameters(params["objects"])`
  | tags      -- `task.__tags__ = params["tags"]`
  | body      -- `task.execute()`
  deriving DecidableEq, Repr

def expectedRun : List RunStep := [.load, .tags, .body]

end XpmVerif.Inst
