import XpmVerif.Proofs.IdentPerm
/-! Signature-neutral changes (C02): the stream of a node only depends on its *included* arguments. -/
namespace XpmVerif.Ident
open List

/-- two argument lists that are pointwise "stream-equivalent": same names, same contribution. -/
inductive ArgsRel (cfg : Nat → List Nat) (ceq : Nat → Nat → Bool) (mt mt' : Nat → Option Bool) : List Arg → List Arg → Prop
  | nil : ArgsRel cfg ceq mt mt' [] []
  | cons {a a' l l'} : a.name = a'.name → argStream cfg ceq mt a = argStream cfg ceq mt' a' →
      ArgsRel cfg ceq mt mt' l l' → ArgsRel cfg ceq mt mt' (a :: l) (a' :: l')

theorem ArgsRel.insertBy {cfg ceq mt mt'} {x x' : Arg} {l l' : List Arg}
    (hn : x.name = x'.name) (hs : argStream cfg ceq mt x = argStream cfg ceq mt' x') (h : ArgsRel cfg ceq mt mt' l l') :
    ArgsRel cfg ceq mt mt' (insertBy (fun a b => bytesLe a.name b.name) x l) (insertBy (fun a b => bytesLe a.name b.name) x' l') := by
  induction h with
  | nil => exact .cons hn hs .nil
  | cons hn1 hs1 _ ih =>
    simp only [XpmVerif.Ident.insertBy, hn, hn1]
    split
    · exact .cons hn1 hs1 ih
    · exact .cons hn hs (.cons hn1 hs1 (by assumption))

theorem ArgsRel.sortBy {cfg ceq mt mt'} {l l' : List Arg} (h : ArgsRel cfg ceq mt mt' l l') :
    ArgsRel cfg ceq mt mt' (sortBy (fun a b => bytesLe a.name b.name) l) (sortBy (fun a b => bytesLe a.name b.name) l') := by
  induction h with
  | nil => exact .nil
  | cons hn hs _ ih => simp only [XpmVerif.Ident.sortBy, foldr_cons] at *; exact ArgsRel.insertBy hn hs ih

theorem ArgsRel.streams {cfg ceq mt mt'} {l l' : List Arg} (h : ArgsRel cfg ceq mt mt' l l') :
    (l.map (argStream cfg ceq mt)).flatten = (l'.map (argStream cfg ceq mt')).flatten := by
  induction h with
  | nil => rfl
  | cons _ hs _ ih => simp [hs, ih]

theorem ArgsRel.refl (cfg ceq mt) : ∀ l : List Arg, ArgsRel cfg ceq mt mt l l
  | [] => .nil
  | _ :: l => .cons rfl rfl (ArgsRel.refl cfg ceq mt l)

/-- **node-level congruence**: same type identifier, same producing task, pointwise
    stream-equivalent arguments ⇒ same stream. -/
theorem nodeStream_congr_args (cfg : Nat → List Nat) (ceq : Nat → Nat → Bool) (mt mt' : Nat → Option Bool) (self : Nat) (nd nd' : Node)
    (ht : nd.typeId = nd'.typeId) (hk : nd.task = nd'.task) (h : ArgsRel cfg ceq mt mt' nd.args nd'.args) :
    nodeStream cfg ceq mt self nd = nodeStream cfg ceq mt' self nd' := by
  simp only [nodeStream, ht, hk, h.sortBy.streams]

/-- inserting an argument that contributes nothing does not change the flattened stream. -/
theorem flatten_insertBy_nil {cfg ceq mt} (x : Arg) (hx : argStream cfg ceq mt x = []) (l : List Arg) :
    ((insertBy (fun a b => bytesLe a.name b.name) x l).map (argStream cfg ceq mt)).flatten = (l.map (argStream cfg ceq mt)).flatten := by
  induction l with
  | nil => simp [XpmVerif.Ident.insertBy, hx]
  | cons y ys ih =>
    simp only [XpmVerif.Ident.insertBy]
    split
    · simp [ih]
    · simp [hx]

/-- **adding a parameter** whose value is outside the signature (defaulted, Meta, generated) to a node
    leaves its stream unchanged, wherever the new argument is declared (combine with
    `nodeStream_args_perm`). -/
theorem nodeStream_add_excluded (cfg : Nat → List Nat) (ceq : Nat → Nat → Bool) (mt : Nat → Option Bool) (self : Nat) (nd : Node) (a : Arg)
    (ha : argStream cfg ceq mt a = []) :
    nodeStream cfg ceq mt self { nd with args := a :: nd.args } = nodeStream cfg ceq mt self nd := by
  simp only [nodeStream, XpmVerif.Ident.sortBy, foldr_cons]
  rw [flatten_insertBy_nil a ha]

/-! the skip rules, one by one -/

theorem argStream_of_not_included {cfg ceq mt} (a : Arg) (h : included ceq mt a = false) : argStream cfg ceq mt a = [] := by
  simp [argStream, h]

/-- an ignored argument (Meta / Option / Path typed) whose value is not a configuration forced in with
    `meta = False` contributes nothing, whatever its value. -/
theorem ignored_excluded (ceq : Nat → Nat → Bool) (mt : Nat → Option Bool) (a : Arg) (hi : a.ignored = true)
    (hv : ∀ n, a.value = .ref n → mt n ≠ some false) : included ceq mt a = false := by
  unfold included ignoredOut
  cases hval : a.value <;> simp_all

theorem generator_excluded (ceq : Nat → Nat → Bool) (mt : Nat → Option Bool) (a : Arg) (hg : a.generator = true) :
    included ceq mt a = false := by
  unfold included; simp [hg]

/-- a non-constant argument whose (meta-filtered) value is its default (`_is_default`) contributes nothing. -/
theorem default_excluded (ceq : Nat → Nat → Bool) (mt : Nat → Option Bool) (a : Arg) (d : Val) (hc : a.constant = false)
    (hd : a.default = some d) (he : isDefault ceq mt d (removeMeta mt a.value) = true) : included ceq mt a = false := by
  unfold included defaultOut; simp [hc, hd, he]

/-- an optional argument without default left unset (`None`) contributes nothing. -/
theorem unset_optional_excluded (ceq : Nat → Nat → Bool) (mt : Nat → Option Bool) (a : Arg) (hc : a.constant = false)
    (hr : a.required = false) (hd : a.default = none) (hv : a.value = .none) : included ceq mt a = false := by
  unfold included defaultOut; simp [hc, hr, hd, hv]

/-- a sub-configuration flagged `meta = True` given as the value of an argument contributes nothing. -/
theorem meta_value_excluded (ceq : Nat → Nat → Bool) (mt : Nat → Option Bool) (a : Arg) (n : Nat) (hv : a.value = .ref n)
    (hm : mt n = some true) : included ceq mt a = false := by
  unfold included metaOut; simp [hv, hm]

/-- a `meta = True` configuration inside a list is invisible (anywhere in the list). -/
theorem encItems_drop (cfg mt) (l1 l2 : List Val) (v : Val) (hv : dropped mt v = true) :
    encItems cfg mt (l1 ++ v :: l2) = encItems cfg mt (l1 ++ l2) := by
  induction l1 with
  | nil => simp [encItems, hv]
  | cons x xs ih => simp only [cons_append, encItems, ih]

theorem list_meta_member (cfg mt) (l1 l2 : List Val) (m : Nat) (hm : mt m = some true) :
    encVal cfg mt (.list (l1 ++ .ref m :: l2)) = encVal cfg mt (.list (l1 ++ l2)) := by
  simp only [encVal]
  rw [encItems_drop cfg mt l1 l2 (.ref m) (by simp [dropped, hm])]

theorem encPairs_drop (cfg mt) : ∀ (k1 : List (List Nat)) (l1 : List Val), k1.length = l1.length →
    ∀ (k : List Nat) (v : Val) (k2 : List (List Nat)) (l2 : List Val), dropped mt v = true →
    encPairs cfg mt (k1 ++ k :: k2) (l1 ++ v :: l2) = encPairs cfg mt (k1 ++ k2) (l1 ++ l2)
  | [], [], _, k, v, k2, l2, hv => by simp [encPairs, hv]
  | x :: xs, y :: ys, hl, k, v, k2, l2, hv => by
    have ih := encPairs_drop cfg mt xs ys (by simpa using hl) k v k2 l2 hv
    simp only [cons_append, encPairs, ih]
  | [], _ :: _, hl, _, _, _, _, _ => by simp at hl
  | _ :: _, [], hl, _, _, _, _, _ => by simp at hl

/-- a `meta = True` configuration as a dict value is invisible (at any insertion position). -/
theorem dict_meta_member (cfg mt) (k1 k2 : List (List Nat)) (l1 l2 : List Val) (k : List Nat) (m : Nat)
    (hl : k1.length = l1.length) (hm : mt m = some true) :
    encVal cfg mt (.dict (k1 ++ k :: k2) (l1 ++ .ref m :: l2)) = encVal cfg mt (.dict (k1 ++ k2) (l1 ++ l2)) := by
  simp only [encVal]
  rw [encPairs_drop cfg mt k1 l1 hl k (.ref m) k2 l2 (by simp [dropped, hm])]

end XpmVerif.Ident
