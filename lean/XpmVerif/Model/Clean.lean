import XpmVerif.Model.Filter
/-! M9 (second half): workspace layouts, `jobs clean` (`cli/jobs.py` `process(clean=True)`) and
    `orphans` (`cli/__init__.py`).

    A layout lists the job directories of `<workspace>/jobs/<type>/<id>` with their marker files and
    tags, and the experiments of `<workspace>/xp/<name>` with the link names found under `jobs/`
    (index) and, when the directory exists, `jobs.bak/` (backup index).  Index links are named after
    the job they point to (`xp/<name>/jobs/<type>/<id> -> <workspace>/jobs/<type>/<id>`, as
    `Scheduler.aio_registerJob` creates them); the target may be missing.

    Not in the model: store entries that are symbolic links (left by `deprecated list --fix`) or
    plain files, job directories without `params.json`, the `kill` action, the printed report. -/
namespace XpmVerif.Filter

structure Job where
  ty : String          -- directory name = task identifier, e.g. `pkg.module.task`
  id : String
  done : Bool          -- `<script>.done` exists
  failed : Bool        -- `<script>.failed` exists
  pid : Bool           -- `<script>.pid` exists
  alive : Bool         -- the process recorded in the pid file is alive
  tags : List (String × String)
  deriving Repr, DecidableEq

abbrev Key := String × String

def Job.key (j : Job) : Key := (j.ty, j.id)

structure Xp where
  name : String
  index : List Key             -- link names under `xp/<name>/jobs`
  backup : Option (List Key)   -- link names under `xp/<name>/jobs.bak` (`none`: no such directory)
  deriving Repr, DecidableEq

structure Layout where
  jobs : List Job
  xps : List Xp
  deriving Repr, DecidableEq

inductive JState where
  | done
  | error
  | running
  deriving Repr, DecidableEq

def JState.name : JState → String
  | .done => "DONE"
  | .error => "ERROR"
  | .running => "RUNNING"

/-- `JobState.finished()` -/
def JState.finished : JState → Bool
  | .running => false
  | _ => true

/-- state derived from the marker files, safe precedence: a completion marker wins, then a pid file
    (a process may be running), then the failure marker (which a restarted job only removes once it
    holds its locks). -/
def stateSpec (j : Job) : Option JState :=
  if j.done then some .done
  else if j.pid then some .running
  else if j.failed then some .error
  else none

/-- `JobInformation.state` -/
def stateImpl (q : Quirks) (j : Job) : Option JState :=
  if j.done then some .done
  else if q.failedFirst then
    (if j.failed then some .error else if j.pid then some .running else none)
  else
    (if j.pid then some .running else if j.failed then some .error else none)

def infoOf (st : Job → Option JState) (j : Job) : Info :=
  { state := (st j).map JState.name, name := j.ty, tags := j.tags }

def isFinished (s : Option JState) : Bool :=
  match s with
  | some s => s.finished
  | none => false

/-- a job is running when its process is alive and it has not recorded successful completion. -/
def Job.running (j : Job) : Bool := j.pid && j.alive && !j.done

/-! ### `jobs clean` -/

structure CleanOpts where
  experiment : Option String := none   -- `--experiment`
  filter : Option Expr := none         -- `--filter`
  perform : Bool := false              -- `--perform`
  deriving Repr, DecidableEq

/-- documented restriction `--experiment X`: the job is in the index of experiment `X`. -/
def inXp (L : Layout) (X : String) (j : Job) : Bool :=
  L.xps.any (fun x => x.name == X && x.index.contains j.key)

def inScope (L : Layout) (o : CleanOpts) (j : Job) : Bool :=
  match o.experiment with
  | none => true
  | some X => inXp L X j

def selected (rx : Rx) (o : CleanOpts) (j : Job) : Bool :=
  match o.filter with
  | none => true
  | some e => evalSpec rx e (infoOf stateSpec j)

/-- specification: what `jobs clean` deletes. -/
def toRemove (rx : Rx) (L : Layout) (o : CleanOpts) (j : Job) : Bool :=
  o.perform && inScope L o j && selected rx o j && isFinished (stateSpec j)

def clean (rx : Rx) (L : Layout) (o : CleanOpts) : Layout :=
  { L with jobs := L.jobs.filter (fun j => !toRemove rx L o j) }

/-! implementation -/

def Layout.has (L : Layout) (k : Key) : Bool := L.jobs.any (fun j => j.key == k)

/-- experiments recorded for a job by the first loop of `process()`.  Repaired code: keyed by the
    resolved job path.  Quirk `xpByScript`: keyed by the script name `sc type` of every index link
    whose target is a directory. -/
def xpsOf (q : Quirks) (sc : String → String) (L : Layout) (j : Job) : List String :=
  if q.xpByScript then
    (L.xps.filter (fun x => x.index.any (fun k => L.has k && sc k.1 == sc j.ty))).map (·.name)
  else
    (L.xps.filter (fun x => x.index.contains j.key)).map (·.name)

/-- `kill`/`clean` are switched off when an experiment has a `jobs.bak` and `--perform` is absent. -/
def cleanEnabled (L : Layout) (o : CleanOpts) : Bool :=
  !(L.xps.any (fun x => x.backup.isSome) && !o.perform)

/-- the decisions of the second loop for one job directory; `none` cannot occur here (the filter
    was compiled before the loop). -/
def removesImpl (q : Quirks) (rx : Rx) (sc : String → String) (L : Layout) (o : CleanOpts)
    (flt : Option Obj) (j : Job) : Bool :=
  let xps := xpsOf q sc L j
  let skipXp := match o.experiment with
    | none => false
    | some X => !xps.contains X
  if skipXp then false else
  let info := infoOf (stateImpl q) j
  let pass := match flt with
    | none => true
    | some f => f.filter q rx info
  if !pass then false else
  cleanEnabled L o && isFinished (stateImpl q j) && o.perform

/-- `process(workspace, experiment, filter, clean=True, perform)`: `none` = the command raised before
    touching the workspace (`createFilter` failed). -/
def cleanImpl (q : Quirks) (rx : Rx) (sc : String → String) (L : Layout) (o : CleanOpts) : Option Layout :=
  match o.filter with
  | none => some { L with jobs := L.jobs.filter (fun j => !removesImpl q rx sc L o none j) }
  | some e =>
    match compile q e with
    | none => none
    | some f => some { L with jobs := L.jobs.filter (fun j => !removesImpl q rx sc L o (some f) j) }

/-! ### `orphans` -/

structure OrphOpts where
  clean : Bool := false       -- `--clean`
  ignoreOld : Bool := false   -- `--ignore-old`
  deriving Repr, DecidableEq

/-- specification: the job is referenced by an index, or (unless `--ignore-old`) a backup index. -/
def referenced (L : Layout) (o : OrphOpts) (j : Job) : Bool :=
  L.xps.any (fun x => x.index.contains j.key || (!o.ignoreOld && (x.backup.getD []).contains j.key))

/-- the set `xpjobs` collected by the command: all `*/jobs`, then all `*/jobs.bak`. -/
def xpjobs (L : Layout) (o : OrphOpts) : List Key :=
  L.xps.flatMap (·.index) ++ (if o.ignoreOld then [] else L.xps.flatMap (fun x => x.backup.getD []))

def orphansImpl (L : Layout) (o : OrphOpts) : Layout :=
  { L with jobs := L.jobs.filter (fun j => !(o.clean && !(xpjobs L o).contains j.key)) }

/-! ### command histories -/

inductive Cmd where
  | clean (o : CleanOpts)
  | orphans (o : OrphOpts)
  deriving Repr

/-- run one command (a command that raises leaves the layout as it is). -/
def runCmd (q : Quirks) (rx : Rx) (sc : String → String) (L : Layout) : Cmd → Layout
  | .clean o => (cleanImpl q rx sc L o).getD L
  | .orphans o => orphansImpl L o

def runCmds (q : Quirks) (rx : Rx) (sc : String → String) (L : Layout) (cs : List Cmd) : Layout :=
  cs.foldl (runCmd q rx sc) L

end XpmVerif.Filter
