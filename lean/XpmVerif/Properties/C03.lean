import XpmVerif.Proofs.IdentPerm
namespace XpmVerif.C03
open XpmVerif.Ident
theorem placeholder_trivial : True := trivial
end XpmVerif.C03
