"""Multi-instance engine: several *real* `CounterToken` instances (one per simulated scheduler
process) on one token directory, each with its own real `Scheduler` on its own single-stepped
asyncio loop (built on xv.impl.schedeng).

What is real: `CounterToken.__init__/_update/acquire/release/on_created/on_modified/on_deleted`,
`TokenFile.__init__/create/delete`, `CounterTokenLock`, `Locks`, the `Scheduler`, the directory and the
token files.  What the harness replaces:
  * `ipcom().fswatch` (no watchdog thread): file-system events are produced by the harness at the moment
    a token file is created / written / removed (hooks in the `Path` subclass the token directory is
    given as, plus a directory diff after every event for changes the hooks did not see) and are
    dispatched to `on_created/on_modified/on_deleted` of each instance in harness-chosen order,
    FIFO per instance.  An exception in a callback ends the instance's observer (watchdog's
    `BaseThread.run` has no handler around `dispatch_events`): later events are never dispatched.
  * `TokenFile.watch` (no thread): the watcher becomes a harness item that runs the real
    `TokenFile.delete()` once the job is gone.
  * helper threads / processes exactly as in schedeng.

Engine events
  ["submit", j] ["step", s] ["deliver", k] ["fs", p] ["race", q] ["racedel"] ["reclaim", p, k] ["jobgone", j]
  ["drop", s] ["restart", s] ["recreate", s, total']
`recreate`: the process asks again for the same named token with another total through the real `CounterToken.create`
(its registry holds its one token object): observed are the identity of the returned object, the `total` of the
instance and the number of token objects the process has on the directory.
`racedel`: at the next `TokenFile.delete()` of a releasing instance, a watcher thread of another instance that is
entitled to remove the same file does so between `is_file()` and `unlink()`.
`race q`: at the next `open("wt")` of a token file by another instance, every pending event of `q`
is dispatched before the content is written (the reader sees the half-written file).

Every token-level operation is logged as one model op with the token-level observation after it
(`oplog`): acquireBegin/acquireEnd/release/fsEvent/reclaim/jobGone/drop/restart; a release that finds its cache entry is
logged as its two halves relBegin (recount + cache update, observed at the call of `unlink`) and relEnd (the unlink; a
`reclaim` of another instance may come in between: `racedel`).
"""
import asyncio
import os
import shutil
import sys
from pathlib import Path

from . import schedeng
from .schedeng import OSet, NullLock

import experimaestro.tokens as tokens  # noqa: E402
import experimaestro.scheduler.base as base  # noqa: E402
import experimaestro.locking as locking  # noqa: E402
import experimaestro.connectors as connectors  # noqa: E402
from experimaestro.scheduler.base import JobDependency, JobState, Scheduler  # noqa: E402
from experimaestro.tokens import CounterToken, ProcessCounterToken, TokenFile  # noqa: E402
from watchdog.events import FileCreatedEvent, FileDeletedEvent, FileModifiedEvent  # noqa: E402


class FakeIPC:
    def fswatch(self, handler, path, recursive=False):
        return None

    def fsunwatch(self, watcher):
        return None


_PosixPath = type(Path())


class HookPath(_PosixPath):
    """a Path whose `open("w…")` / `unlink` on `*.token` files report to the engine"""
    engine = None

    def open(self, mode="r", *a, **kw):
        f = super().open(mode, *a, **kw)
        eng = HookPath.engine
        if eng is not None and self.name.endswith(".token") and mode[:1] in ("w", "x", "a"):
            return _HalfFile(f, self, eng)
        return f

    def is_file(self):
        r = super().is_file()
        eng = HookPath.engine
        if r and eng is not None and self.name.endswith(".token"):
            eng._between_check_and_unlink(self.name)
        return r

    def unlink(self, missing_ok=False):
        eng = HookPath.engine
        if eng is not None and self.name.endswith(".token"):
            # second half of a two-step release (`tf.delete()` after the recount and the cache update): a watcher
            # thread of another instance, which takes no IPC lock, may unlink the same file first (`racedel`)
            eng._between_check_and_unlink(self.name)
        existed = os.path.lexists(self)
        super().unlink(missing_ok=missing_ok)
        if existed and eng is not None and self.name.endswith(".token"):
            if eng.in_release is not None:
                eng.release_unlinked = True
            eng._file_deleted(self.name)


class _HalfFile:
    def __init__(self, f, path, eng):
        self._f, self._path, self._eng = f, path, eng
        self._announced = False
        eng._file_created(path.name)

    def write(self, data):
        if not self._announced:
            self._announced = True
            self._eng._half_written(self._path.name)
        return self._f.write(data)

    def __enter__(self):
        return self

    def __exit__(self, *a):
        self._f.close()
        self._eng._file_written(self._path.name)
        return False

    def close(self):
        self._f.close()
        self._eng._file_written(self._path.name)

    def __getattr__(self, k):
        return getattr(self._f, k)


def fid(name):
    """`id<n>.token` -> n"""
    return int(name[2:-6])


class MultiWorld(schedeng.World):
    """spec: {"total": n, "nsched": k, "ptokens": [totals], "jobs": [{"sched": s, "ident": i, "deps": [...],
    "code": c}]} with deps ["j", earlier job of the same scheduler] | ["f", count] (the shared file token) |
    ["t", index, count] (a process-level token private to the job's scheduler)"""

    def __init__(self, spec):
        super().__init__({"tokens": [], "jobs": spec["jobs"]})
        self.mspec = spec
        world = self
        self.ns = spec["nsched"]
        self.total = spec["total"]
        # --- loops / schedulers ------------------------------------------------------------------
        XP0 = type(self.xp)

        class XPk(XP0):
            def __init__(s, loop):
                super().__init__()
                s._loop = loop
            loop = property(lambda s: s._loop)
        self.XPk = XPk
        self.loops, self.xps, self.schs = [], [], []
        self.all_loops = [self.loop]
        for s in range(self.ns):
            self._new_sched(s, first=True)

        def fake_async_threadcheck(name, func, *args, **kwargs):
            loop = asyncio.events._get_running_loop()
            fut = loop.create_future()
            world.threads.append((name, func, args, kwargs, fut, world.loops.index(loop)))
            return fut
        for m, _ in self._saved:
            m.asyncThreadcheck = fake_async_threadcheck
        # --- tokens ---------------------------------------------------------------------------------
        self._saved_tok = (tokens.ipcom, TokenFile.watch)
        tokens.ipcom = lambda: FakeIPC()
        TokenFile.watch = lambda tf: world._watch(tf)
        self.dir = HookPath(self.ws / "tok")
        HookPath.engine = None
        self.cur = None  # instance running token code
        self.T = [None] * self.ns
        self.alive = [True] * self.ns
        self.dropped = [False] * self.ns
        self.pending = [[] for _ in range(self.ns)]  # [(kind, name)]
        self.watched = [[] for _ in range(self.ns)]  # [(name, TokenFile)]
        self.files = {}  # name -> written?
        self.active = set()  # file ids whose job lock is held / process alive
        self.ipc = None
        self.race = []
        self.racedel = False
        self.in_release = None
        self.release_unlinked = False
        self.raced_now = False
        self.race_injected = 0
        self.release_name = None
        self.rel_logged = False
        self.decided = {q: [] for q in range(spec["nsched"])}
        self.notified = False
        self.oplog = []  # (op, out, observation)
        self.viol = []  # (prop, key, what)
        self.observer_died = False
        self.ptoks = []
        self.all_tokens = []
        self.asked = self.total  # largest total asked so far through `recreate`
        self.objs = [[] for _ in range(self.ns)]  # live CounterToken objects of each simulated process on the directory
        for s in range(self.ns):
            self.T[s] = self._new_token(s)
            self.ptoks.append(self._new_ptoks())
        HookPath.engine = self
        self.jobsched = {}
        self.gone_orphans = set()
        self.ended = set()  # jobs whose process has exited

    # -- construction helpers -------------------------------------------------------------------------
    def _new_sched(self, s, first=False):
        loop = self.loop if (s == 0 and first) else asyncio.new_event_loop()
        if loop not in self.all_loops:
            self.all_loops.append(loop)
        asyncio.events._set_running_loop(loop)
        try:
            xp = self.XPk(loop)
            xp.central.exitCondition = asyncio.Condition()
            xp.central.dependencyLock = asyncio.Lock()
        finally:
            asyncio.events._set_running_loop(None)
        sch = Scheduler(xp, f"xv{s}")
        if first:
            self.loops.append(loop)
            self.xps.append(xp)
            self.schs.append(sch)
        else:
            self.loops[s], self.xps[s], self.schs[s] = loop, xp, sch

    def _new_ptoks(self):
        pt = []
        for tot in self.mspec.get("ptokens", []):
            t = ProcessCounterToken(tot)
            t.dependents._dependents = OSet()
            pt.append(t)
        return pt

    def _new_token(self, s):
        world = self
        self.cur = s
        try:
            T = CounterToken("t", self.dir, self.total)
        finally:
            self.cur = None
        T.dependents._dependents = OSet()
        real_acquire, real_release, real_notify = T.acquire, T.release, T.aio_notify

        def acquire(dep):
            world.cur = s
            n0 = len(world.oplog)
            try:
                real_acquire(dep)
            except BaseException:
                if world.ipc is not None:  # failed after the file was created
                    world.ipc = None
                    world._log(["acquireEnd", s], {"ok": False, "notify": False})
                else:
                    world._log(["acquireBegin", s, fid(dep.name)], {"ok": False, "notify": False})
                raise
            finally:
                world.cur = None
            if len(world.oplog) == n0:
                # no file was opened: the real code took the token without creating a file
                world._log(["acquireBegin", s, fid(dep.name)], {"ok": True, "notify": False})
            world.ipc = None
            world._log(["acquireEnd", s], {"ok": True, "notify": False})

        def release(dep):
            world.cur = s
            world.notified = False
            name = dep.name
            plain = _PosixPath(world.dir) / name
            existed = plain.is_file()
            # the `racedel` interleaving is injected only when the file is in the cache before the recount: then
            # "reclaim, then a release that finds nothing" is an exact linearisation (otherwise the recount also
            # starts a watcher for the file)
            world.in_release = s if name in T.cache else None
            world.release_unlinked = False
            world.raced_now = False
            world.release_name = name
            world.rel_logged = False
            try:
                real_release(dep)
            except BaseException:
                world.in_release = None
                world.cur = None
                world._log(["release", s, fid(name)], {"ok": False, "notify": world.notified})
                raise
            finally:
                world.in_release = None
                world.cur = None
            # found = the release itself removed the file (a foreign watcher that unlinks between the cache update and the
            # unlink of this release is linearised before it: "reclaim, then a release that finds nothing")
            if world.rel_logged:
                # second half (`relEnd`): did the unlink of this release remove the file, or had a foreign watcher done it
                found = world.release_unlinked
                if found:
                    world.active.discard(fid(name))
                world._log(["relEnd", s, fid(name)], {"ok": found, "notify": world.notified})
                return
            found = existed and not plain.is_file() and not world.raced_now
            if found:
                # the holding ends here (an aborted start releases inside the failed acquisition callback, while
                # the job lock is still held; a completed job after its process has ended)
                world.active.discard(fid(name))
            world._log(["release", s, fid(name)], {"ok": found, "notify": world.notified})

        def notify():
            world.notified = True
            return real_notify()
        T.acquire, T.release, T.aio_notify = acquire, release, notify
        self.all_tokens.append(T)
        self.objs[s] = [T]
        return T

    def _watch(self, tf):
        if self.cur is not None:
            self.watched[self.cur].append((tf.path.name, tf))

    # -- file hooks ---------------------------------------------------------------------------------------
    def _enqueue(self, kind, name):
        for q in range(self.ns):
            if self.alive[q] and not self.dropped[q]:
                self.pending[q].append((kind, name))

    def _file_created(self, name):
        self.files[name] = False
        self._enqueue("c", name)

    def _half_written(self, name):
        """between `open` and `write` of TokenFile.create (inside `acquire` of instance `cur`)"""
        p = self.cur
        if p is None:
            return
        self.ipc = (p, fid(name))
        self.active.add(fid(name))
        self._log(["acquireBegin", p, fid(name)], {"ok": True, "notify": False})
        race, self.race = self.race, []
        for q in race:
            if q != p:
                while self.pending[q] and self.alive[q] and not self.dropped[q]:
                    self._dispatch(q)

    def _file_written(self, name):
        if name in self.files:
            self.files[name] = True
        self._enqueue("m", name)

    def _file_deleted(self, name):
        self.files.pop(name, None)
        self._enqueue("d", name)

    def _reconcile(self):
        """directory diff: changes made without going through the hooks"""
        real = {p.name for p in _PosixPath(self.dir).glob("*.token")}
        for n in sorted(real - set(self.files)):
            self.files[n] = (_PosixPath(self.dir) / n).stat().st_size > 0
            self._enqueue("c", n)
            self._enqueue("m", n)
        for n in sorted(set(self.files) - real):
            del self.files[n]
            self._enqueue("d", n)

    # -- observation / log ------------------------------------------------------------------------------------
    def tobs(self):
        procs = []
        for s in range(self.ns):
            T = self.T[s]
            procs.append({
                "cache": sorted(fid(n) for n in T.cache), "avail": T.available, "alive": self.alive[s],
                "dropped": self.dropped[s], "total": T.total, "nobj": len(self.objs[s]),
                "pending": [[k, fid(n)] for k, n in self.pending[s]],
                "watch": sorted(fid(n) for n, _ in self.watched[s]),
            })
        disk = []
        for p in sorted(_PosixPath(self.dir).glob("*.token"), key=lambda p: fid(p.name)):
            disk.append([fid(p.name), p.stat().st_size > 0])
        return {"disk": disk, "procs": procs, "ipc": list(self.ipc) if self.ipc else None, "active": sorted(self.active)}

    def _log(self, op, out):
        self._reconcile()  # e.g. `TokenFile.delete()` of a file read through a plain `Path(event.src_path)`
        o = self.tobs()
        self.oplog.append((op, out, o))
        self._monitor_disk(o)

    def reported_total(self):
        """the total the token itself reports (token.info)"""
        try:
            return int((_PosixPath(self.dir) / "token.info").read_text())
        except Exception:
            return self.total

    def _monitor_disk(self, o):
        tot = 0
        for f, w in o["disk"]:
            if w:
                try:
                    tot += int((_PosixPath(self.dir) / f"id{f}.token").read_text().splitlines()[0])
                except Exception:
                    pass
            else:
                tot += self.req.get(f, 0)
        total = self.reported_total()
        if tot > total:
            self.viol.append(("C08", "token-files-exceed-total", f"token files on disk add up to {tot} > total {total}: {o['disk']}"))

    # -- events ---------------------------------------------------------------------------------------------
    def _run_handle_on(self, s):
        loop = self.loops[s]
        h = loop._ready.popleft()
        if h._cancelled:
            return
        asyncio.events._set_running_loop(loop)
        try:
            h._run()
        finally:
            asyncio.events._set_running_loop(None)

    @property
    def req(self):
        r = getattr(self, "_req", None)
        if r is None:
            r = self._req = {js["ident"]: d[1] for js in self.mspec["jobs"] for d in js["deps"] if d[0] == "f"}
        return r

    def submit(self, idx):
        js = self.mspec["jobs"][idx]
        s = js["sched"]
        job = self.FakeJob(idx, js)
        world = self

        class Conn:
            def lock(self_inner, path, max_delay=-1):
                l = NullLock()
                l.job = job
                return l

        class Launcher:
            connector = Conn()
        job.launcher = Launcher()
        for d in js["deps"]:
            if d[0] == "j":
                job.dependencies.add(JobDependency(self.jobs[d[1]]))
            elif d[0] == "f":
                job.dependencies.add(self.T[s].dependency(d[1]))
            else:
                job.dependencies.add(self.ptoks[s][d[1]].dependency(d[2]))
        self.jobs[idx] = job
        self.jobsched[idx] = s
        loop = self.loops[s]
        t = loop.create_task(self.schs[s].aio_registerJob(job))
        while not t.done():
            self._run_handle_on(s)
        t.result()
        self.tasks[idx] = loop.create_task(self.schs[s].aio_submit(job))

    def _dispatch(self, p):
        kind, name = self.pending[p].pop(0)
        T = self.T[p]
        path = str(self.dir / name)
        ev = {"c": FileCreatedEvent, "m": FileModifiedEvent, "d": FileDeletedEvent}[kind](path)
        self.cur = p
        self.notified = False
        ok = True
        try:
            {"c": T.on_created, "m": T.on_modified, "d": T.on_deleted}[kind](ev)
        except Exception as e:
            ok = False
            self.alive[p] = False
            self.pending[p] = []
            self.observer_died = True
            self.viol.append(("C09", "watcher-dies-on-half-written-token-file",
                              f"instance {p}: {'on_created' if kind == 'c' else 'on_modified' if kind == 'm' else 'on_deleted'}"
                              f"({name}) raised {type(e).__name__} ({e}); the exception ends the watchdog dispatcher thread, "
                              f"so this process never sees another release"))
        finally:
            self.cur = None
        self._log(["fsEvent", p], {"ok": ok, "notify": self.notified})

    def _recreate(self, s, newtotal):
        """process `s` asks again for the same named token with `newtotal`, through the real per-process registry
        (`CounterToken.create`, what `connector.createtoken` / `xp.token` call); the registry of the simulated process
        holds its one token object"""
        self.asked = max(self.asked, newtotal)
        saved = CounterToken.TOKENS
        CounterToken.TOKENS = {"t": self.T[s]}
        self.cur = s
        try:
            obj = CounterToken.create("t", self.dir, newtotal)
        finally:
            CounterToken.TOKENS = saved
            self.cur = None
        same = obj is self.T[s]
        if not same and all(obj is not o for o in self.objs[s]):
            # a second token object of the same process on the same directory (it stays alive with the first)
            self.objs[s].append(obj)
            self.all_tokens.append(obj)
        self._log(["recreate", s], {"ok": same, "notify": False})

    def _reclaim(self, p, i):
        """the watcher thread of instance `p` ends: the real `TokenFile.delete()`"""
        name, tf = self.watched[p].pop(i)
        cur, self.cur = self.cur, p
        inr, self.in_release = self.in_release, None
        ok = True
        try:
            tf.delete()
        except Exception:
            ok = False  # the watcher thread ends with a traceback (an observation about the code under test)
        finally:
            self.cur, self.in_release = cur, inr
        out = {"ok": ok, "notify": False}
        if inr is not None and not self.rel_logged:
            # linearised before the release it interrupts: the releasing instance has already recounted
            out["skip_proc"] = inr
        self._log(["reclaim", p, fid(name)], out)

    def _between_check_and_unlink(self, name):
        """`TokenFile.delete` of a releasing instance has just seen `is_file()` true: if planned (`racedel`), the
        watcher thread of another instance removes the same file first"""
        if self.in_release is None or name != self.release_name:
            return
        p = self.in_release
        if not self.rel_logged:
            # first half of the release done (recount, cache and counter updated), the unlink comes next: one model op
            # (`relBegin`, Model/FileTokSteps.lean) with the observation at this very point
            self.rel_logged = True
            self._log(["relBegin", p, fid(name)], {"ok": True, "notify": False})
        if not self.racedel:
            return
        for q in range(self.ns):
            if q == p or self.dropped[q]:
                continue
            for i, (n, tf) in enumerate(self.watched[q]):
                if n == name and fid(n) not in self.active:
                    self.racedel = False
                    self.raced_now = True
                    self.race_injected += 1
                    self._reclaim(q, i)
                    return

    def _job_gone(self, f):
        if f in self.active:
            self.active.discard(f)
            self._log(["jobGone", f], {"ok": True, "notify": False})

    def apply(self, ev):
        k = ev[0]
        if k == "submit":
            self.submit(ev[1])
        elif k == "step":
            self._run_handle_on(ev[1])
        elif k == "deliver":
            name, f, a, kw, fut, s = self.threads.pop(ev[1])
            owner = None
            if name == "aio_code":
                job = f.__self__.job
                f.__self__.code = job.js["code"]
                owner = job
            r = f(*a, **kw)
            if owner is not None:
                self.ended.add(owner.idx)
                self._job_gone(owner.js["ident"])
            elif name == "lock (aexit)":
                job = getattr(f.__self__, "job", None)
                if job is not None and job.state != JobState.RUNNING:
                    self._job_gone(job.js["ident"])
            fut.set_result(r)
        elif k == "fs":
            self._dispatch(ev[1])
        elif k == "race":
            self.race.append(ev[1])
        elif k == "reclaim":
            self._reclaim(ev[1], ev[2])
        elif k == "racedel":
            self.racedel = True
        elif k == "watchdecide":
            # the watcher thread has obtained the job lock and found the job gone; it has given the lock back and is
            # about to call `self.delete()` (outside the model's step relation: only for the stale-watcher finding)
            self.decided[ev[1]].append(self.watched[ev[1]].pop(ev[2]))
        elif k == "watchunlink":
            name, tf = self.decided[ev[1]].pop(ev[2])
            cur, self.cur = self.cur, ev[1]
            try:
                tf.delete()
            except Exception:
                pass
            finally:
                self.cur = cur
        elif k == "recreate":
            self._recreate(ev[1], ev[2])
        elif k == "jobgone":
            job = self.jobs[ev[1]]
            self.gone_orphans.add(ev[1])
            self.ended.add(ev[1])
            self._job_gone(job.js["ident"])
        elif k == "drop":
            s = ev[1]
            self.dropped[s] = True
            self.alive[s] = False
            self.pending[s] = []
            self.watched[s] = []
            self.threads = [t for t in self.threads if t[5] != s]
            self._log(["drop", s], {"ok": True, "notify": False})
            # jobs of the dead process that were not launched: their job lock is free, no process
            for idx, sj in self.jobsched.items():
                if sj == s and self.jobs[idx].state != JobState.RUNNING:
                    self._job_gone(self.jobs[idx].js["ident"])
        elif k == "restart":
            s = ev[1]
            self.dropped[s] = False
            self.alive[s] = True
            self.pending[s] = []
            self.watched[s] = []
            self._new_sched(s)
            self.T[s] = self._new_token(s)
            self.ptoks[s] = self._new_ptoks()  # process-level tokens live in the (new) process
            self._log(["restart", s], {"ok": True, "notify": False})
        else:
            raise ValueError(ev)
        self._reconcile()
        self._monitor_running()

    def _monitor_running(self):
        held = 0
        who = []
        for idx, job in self.jobs.items():
            if job.launches > 0 and idx not in self.ended:  # between launch and process exit
                c = self.req.get(job.js["ident"], 0)
                held += c
                if c:
                    who.append(idx)
        total = self.reported_total()
        if held > total:
            self.viol.append(("C08", "capacity-exceeded", f"jobs {who} of all schedulers run together and hold {held} > total {total}"))

    def choices(self, pending_submits, faults=None):
        """enabled events; `faults` = {"drop": bool, "race": bool, "restart": bool}"""
        faults = faults or {}
        ch = []
        for s in range(self.ns):
            if not self.dropped[s] and any(not h._cancelled for h in self.loops[s]._ready):
                ch.append(["step", s])
        ch += [["deliver", i] for i in range(len(self.threads))]
        for j in pending_submits:
            if self._submittable(j):
                ch.append(["submit", j])
                break
        for p in range(self.ns):
            if self.pending[p] and self.alive[p] and not self.dropped[p]:
                ch.append(["fs", p])
            for i, (name, tf) in enumerate(self.watched[p]):
                if fid(name) not in self.active and not self.dropped[p]:
                    ch.append(["reclaim", p, i])
        for idx, job in self.jobs.items():
            s = self.jobsched[idx]
            if job.state == JobState.RUNNING and idx not in self.gone_orphans and self._orphan(idx):
                ch.append(["jobgone", idx])
        return ch

    def _submittable(self, j):
        js = self.mspec["jobs"][j]
        if self.dropped[js["sched"]]:
            return False
        return all(d[0] != "j" or (d[1] in self.jobs and not self._orphan(d[1])) for d in js["deps"])

    def _orphan(self, idx):
        """a launched job whose scheduler died before seeing its end"""
        job = self.jobs[idx]
        s = self.jobsched[idx]
        return job.scheduler is not self.schs[s] or self.dropped[s]

    def fault_choices(self, faults):
        ch = []
        if faults.get("drop"):
            ch += [["drop", s] for s in range(self.ns) if not self.dropped[s] and self.ipc is None and sum(not d for d in self.dropped) > 1]
        if faults.get("restart"):
            ch += [["restart", s] for s in range(self.ns) if self.dropped[s]]
        if faults.get("racedel") and not self.racedel:
            ch.append(["racedel"])
        if faults.get("recreate"):
            ch += [["recreate", s, t] for s in range(self.ns) if not self.dropped[s] and self.ipc is None
                   for t in (self.asked, self.asked + 1)]  # never a lower total: shrinking under running jobs is not at issue
        if faults.get("latewatch"):
            for p in range(self.ns):
                if not self.dropped[p]:
                    ch += [["watchdecide", p, i] for i, (name, tf) in enumerate(self.watched[p]) if fid(name) not in self.active]
                    ch += [["watchunlink", p, k] for k in range(len(self.decided[p]))]
        if faults.get("race"):
            ch += [["race", q] for q in range(self.ns) if self.alive[q] and not self.dropped[q] and q not in self.race]
        return ch

    def sobs(self):
        """scheduler-level observation for the quiescence monitors"""
        out = []
        for idx in range(len(self.mspec["jobs"])):
            job = self.jobs.get(idx)
            if job is None:
                out.append(None)
                continue
            t = self.tasks.get(idx)
            fut = "none" if t is None else "pending" if not t.done() else ("exc:" + type(t.exception()).__name__ if t.exception() else t.result().name)
            out.append({"state": job.state.name, "future": fut, "unsat": job.unsatisfied, "launches": job.launches,
                        "orphan": self._orphan(idx)})
        return out

    def close(self):
        HookPath.engine = None
        tokens.ipcom, TokenFile.watch = self._saved_tok
        for T in self.all_tokens:  # coroutines abandoned with a dead scheduler must not touch the directory any more
            T.acquire = T.release = lambda dep: None
        for t in list(self.tasks.values()):
            if not t.done():
                try:
                    t.get_coro().close()
                except BaseException:
                    pass
        self.tasks = {}
        super().close()
        for loop in self.all_loops:
            if loop is not self.loop:
                try:
                    loop.close()
                except Exception:
                    pass


def quiescence_monitors(w, submitted_all):
    """C09 at quiescence: no token file, every job of a live scheduler final, availability restored"""
    fails = []
    if w.observer_died:
        return fails  # consequences of the recorded observer death
    so = w.sobs()
    o = w.tobs()
    for i, x in enumerate(so):
        if x is not None and x["future"].startswith("exc:"):
            if x["future"] == "exc:FileNotFoundError":
                fails.append(("C09", "release-raises-when-watcher-deleted-first",
                              f"job {i} of scheduler {w.mspec['jobs'][i]['sched']}: TokenFile.delete() saw is_file() true, the watcher thread of another "
                              f"process removed the file, unlink() raised FileNotFoundError out of release(): the job's coroutine ends with the "
                              f"exception (state {x['state']}), the remaining locks are not released, aio_notify() is skipped and unfinishedJobs is never decremented"))
            else:
                fails.append(("C09", "job-coroutine-raised:" + x["future"][4:], f"job {i}: aio_submit ended with {x['future'][4:]} (state {x['state']})"))
    hanging = [i for i, x in enumerate(so) if x is not None and x["future"] == "pending" and not x["orphan"]]
    for i in hanging:
        x = so[i]
        js = w.mspec["jobs"][i]
        s = js["sched"]
        fits = all(d[0] != "f" or d[1] <= w.total for d in js["deps"])
        deps_ok = all(d[0] != "j" or (so[d[1]] and so[d[1]]["state"] == "DONE") for d in js["deps"])
        ptok_ok = all(d[0] != "t" or d[2] <= w.ptoks[s][d[1]].available for d in js["deps"])
        silent = [op for op, out, _ in w.oplog if op[0] == "release" and op[1] == s and not out["ok"] and not out["notify"]]
        if fits and deps_ok and ptok_ok and not o["disk"] and silent:
            fails.append(("C09", "release-of-reclaimed-token-does-not-notify",
                          f"scheduler {s} released the token of job {silent[0][2]} after a foreign watcher had already removed its file: "
                          f"release() returned without aio_notify(), so job {i} of the same scheduler stays {x['state']} "
                          f"(unsatisfied={x['unsat']}) although nothing runs, no token file is left and its in-memory "
                          f"available is {w.T[s].available} of {w.total}"))
        elif fits and deps_ok and ptok_ok and not o["disk"]:
            fails.append(("C09", "waiting-job-never-launched",
                          f"nothing left to run, no token file on disk, but job {i} of scheduler {s} is {x['state']} "
                          f"(unsatisfied={x['unsat']}, in-memory available={w.T[s].available} of {w.total})"))
        else:
            fails.append(("C09", "hang", f"nothing left to run but job {i} of scheduler {s} is {x['state']} (unsatisfied={x['unsat']})"))
    if any(f[1] != "hang" for f in fails):
        fails = [f for f in fails if f[1] != "hang"]  # jobs waiting behind an identified cause
    if o["disk"]:
        fails.append(("C09", "token-file-left", f"token files {o['disk']} remain although nothing is left to run"))
    if not hanging and not o["disk"]:
        for s in range(w.ns):
            if not w.dropped[s] and w.alive[s] and w.T[s].available < w.total:
                fails.append(("C09", "token-not-returned", f"idle token: instance {s} shows {w.T[s].available} of {w.total} with no token file on disk"))
    return fails


def run_schedule(spec, chooser, faults=None, max_events=1500):
    """drives one run; `chooser(choices) -> event`; returns dict(events, oplog, viol, quiescent, sobs)"""
    w = MultiWorld(spec)
    try:
        pending = list(range(len(spec["jobs"])))
        events = []
        quiescent = False
        for _ in range(max_events):
            ch = w.choices(pending)
            if not ch:
                quiescent = True
                break
            ev = chooser(w, ch, w.fault_choices(faults or {}))
            if ev is None:
                quiescent = True
                break
            w.apply(ev)
            if ev[0] == "submit":
                pending.remove(ev[1])
            events.append(ev)
        viol = list(w.viol)
        if quiescent:
            viol += quiescence_monitors(w, not pending)
        elif not w.observer_died:
            so = w.sobs()
            stuck = [i for i, x in enumerate(so) if x is not None and x["future"] == "pending" and not x["orphan"]]
            viol.append(("C09", "livelock", f"after {max_events} events jobs {stuck} are still not final "
                         f"(states {[so[i]['state'] for i in stuck]}, launches {[so[i]['launches'] for i in stuck]}): starts are retried for ever"))
        return {"events": events, "oplog": list(w.oplog), "viol": viol, "quiescent": quiescent, "sobs": w.sobs(), "race_injected": w.race_injected,
                "final": w.tobs()}
    finally:
        w.close()


def run_random(spec, rng, faults=None, fault_p=0.04, max_events=1500):
    budget = {"drop": 1, "restart": 1, "race": 3, "racedel": 2, "recreate": 2, "watchdecide": 3, "watchunlink": 3}

    def chooser(w, ch, fch):
        fch = [f for f in fch if budget.get(f[0], 0) > 0]
        if fch and rng.random() < fault_p:
            ev = rng.choice(fch)
            budget[ev[0]] -= 1
            return ev
        # delay file-system events and reclaims with some probability so that staleness is explored
        slow = [c for c in ch if c[0] in ("fs", "reclaim")]
        fast = [c for c in ch if c[0] not in ("fs", "reclaim")]
        if fast and slow and rng.random() < spec.get("lag", 0.5):
            return rng.choice(fast)
        return rng.choice(ch)
    return run_schedule(spec, chooser, faults, max_events)


def run_replay(spec, events, complete=True, max_events=1500, extra_faults=None):
    """replays `events` as far as they are enabled, then (complete) finishes with the first choice"""
    queue = list(events)

    def chooser(w, ch, fch):
        while queue:
            cand = queue.pop(0)
            if cand in ch or cand in fch:
                return cand
        if not complete:
            return None
        return ch[0]
    return run_schedule(spec, chooser, dict({"drop": True, "restart": True, "race": True, "racedel": True, "recreate": True}, **(extra_faults or {})), max_events)
