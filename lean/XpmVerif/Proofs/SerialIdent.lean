import XpmVerif.Model.Serial
import XpmVerif.Proofs.Sort
import XpmVerif.Proofs.IsDefault
/-! Local congruence of identifiers: the raw and full identifiers of a node, and its collected
    pre-tasks, only depend on the nodes reachable from it (`succAll`-closed set that also contains the
    configurations of the declared defaults of its members), up to `sealed`. -/
namespace XpmVerif.Serial
open XpmVerif.Ident

/-- two nodes equal up to the `sealed` flag -/
def NodeSame (a b : Node) : Prop :=
  a.typeId = b.typeId ∧ a.args = b.args ∧ a.task = b.task ∧ a.mflag = b.mflag ∧
  a.preTasks = b.preTasks ∧ a.initTasks = b.initTasks

/-! ### membership facts about references -/

theorem mem_cfgRefsL_of_mem {m : Nat} {v : Val} : ∀ {l : List Val}, v ∈ l → m ∈ cfgRefs v → m ∈ cfgRefsL l
  | [], hv, _ => by cases hv
  | w :: ws, hv, hm => by
    simp only [cfgRefsL, List.mem_append]
    rcases List.mem_cons.mp hv with h | h
    · subst h; exact Or.inl hm
    · exact Or.inr (mem_cfgRefsL_of_mem h hm)

theorem mem_argRefs_of_mem {nd : Node} {a : Arg} {m : Nat} (ha : a ∈ nd.args) (hm : m ∈ cfgRefs a.value) :
    m ∈ argRefs nd :=
  mem_cfgRefsL_of_mem (List.mem_map.mpr ⟨a, ha, rfl⟩) hm

/-! ### value level -/

theorem dropped_congr_on (mt mt' : Nat → Option Bool) (v : Val)
    (h : ∀ m ∈ cfgRefs v, mt m = mt' m) : dropped mt v = dropped mt' v := by
  cases v <;> simp only [dropped]
  rename_i n
  rw [h n (by simp [cfgRefs])]

mutual
theorem encVal_congr_on (cfg cfg' : Nat → List Nat) (mt mt' : Nat → Option Bool) :
    ∀ v : Val, (∀ m ∈ cfgRefs v, cfg m = cfg' m ∧ mt m = mt' m) → encVal cfg mt v = encVal cfg' mt' v
  | .none, _ => by simp only [encVal]
  | .bool _, _ => by simp only [encVal]
  | .int _, _ => by simp only [encVal]
  | .float _, _ => by simp only [encVal]
  | .str _, _ => by simp only [encVal]
  | .enum _, _ => by simp only [encVal]
  | .path _, _ => by simp only [encVal]
  | .list l, h => by
    simp only [encVal]
    rw [encItems_congr_on cfg cfg' mt mt' l (fun m hm => h m (by simpa only [cfgRefs] using hm))]
  | .dict ks vs, h => by
    simp only [encVal]
    rw [encPairs_congr_on cfg cfg' mt mt' ks vs (fun m hm => h m (by simpa only [cfgRefs] using hm))]
  | .ref n, h => by
    simp only [encVal]
    rw [(h n (by simp [cfgRefs])).1]
theorem encItems_congr_on (cfg cfg' : Nat → List Nat) (mt mt' : Nat → Option Bool) :
    ∀ l : List Val, (∀ m ∈ cfgRefsL l, cfg m = cfg' m ∧ mt m = mt' m) → encItems cfg mt l = encItems cfg' mt' l
  | [], _ => by simp only [encItems]
  | v :: vs, h => by
    have hv : ∀ m ∈ cfgRefs v, cfg m = cfg' m ∧ mt m = mt' m :=
      fun m hm => h m (by simp only [cfgRefsL, List.mem_append]; exact Or.inl hm)
    have hvs : ∀ m ∈ cfgRefsL vs, cfg m = cfg' m ∧ mt m = mt' m :=
      fun m hm => h m (by simp only [cfgRefsL, List.mem_append]; exact Or.inr hm)
    simp only [encItems]
    rw [dropped_congr_on mt mt' v (fun m hm => (hv m hm).2), encVal_congr_on cfg cfg' mt mt' v hv,
      encItems_congr_on cfg cfg' mt mt' vs hvs]
theorem encPairs_congr_on (cfg cfg' : Nat → List Nat) (mt mt' : Nat → Option Bool) :
    ∀ (ks : List (List Nat)) (vs : List Val), (∀ m ∈ cfgRefsL vs, cfg m = cfg' m ∧ mt m = mt' m) →
      encPairs cfg mt ks vs = encPairs cfg' mt' ks vs
  | [], _, _ => by simp only [encPairs]
  | _ :: _, [], _ => by simp only [encPairs]
  | k :: ks, v :: vs, h => by
    have hv : ∀ m ∈ cfgRefs v, cfg m = cfg' m ∧ mt m = mt' m :=
      fun m hm => h m (by simp only [cfgRefsL, List.mem_append]; exact Or.inl hm)
    have hvs : ∀ m ∈ cfgRefsL vs, cfg m = cfg' m ∧ mt m = mt' m :=
      fun m hm => h m (by simp only [cfgRefsL, List.mem_append]; exact Or.inr hm)
    simp only [encPairs]
    rw [dropped_congr_on mt mt' v (fun m hm => (hv m hm).2), encVal_congr_on cfg cfg' mt mt' v hv,
      encPairs_congr_on cfg cfg' mt mt' ks vs hvs]
end

theorem removeMeta_congr_on (mt mt' : Nat → Option Bool) (v : Val)
    (h : ∀ m ∈ cfgRefs v, mt m = mt' m) : removeMeta mt v = removeMeta mt' v := by
  cases v with
  | list l =>
    simp only [removeMeta]
    congr 1
    apply List.filter_congr
    intro x hx
    rw [dropped_congr_on mt mt' x (fun m hm => h m (by simp only [cfgRefs]; exact mem_cfgRefsL_of_mem hx hm))]
  | dict ks vs =>
    have hf : (ks.zip vs).filter (fun kv => !dropped mt kv.2) = (ks.zip vs).filter (fun kv => !dropped mt' kv.2) := by
      apply List.filter_congr
      intro x hx
      have hx2 : x.2 ∈ vs := (List.of_mem_zip (a := x.1) (b := x.2) hx).2
      rw [dropped_congr_on mt mt' x.2 (fun m hm => h m (by simp only [cfgRefs]; exact mem_cfgRefsL_of_mem hx2 hm))]
    simp only [removeMeta, hf]
  | _ => simp only [removeMeta]

/-- `refsAll` (items of the value that the encoder can see) is contained in `cfgRefs`. -/
theorem refsAll_sub_cfgRefs {m : Nat} {v : Val} (h : m ∈ refsAll v) : m ∈ cfgRefs v := by
  induction v using Val.rec (motive_2 := fun l => ∀ ks : List (List Nat), (m ∈ refsAllL l → m ∈ cfgRefsL l) ∧
      (m ∈ refsPairs noMeta ks l → m ∈ cfgRefsL l)) with
  | none => simp [refsAll, refsVal] at h
  | bool b => simp [refsAll, refsVal] at h
  | int i => simp [refsAll, refsVal] at h
  | float b => simp [refsAll, refsVal] at h
  | str s => simp [refsAll, refsVal] at h
  | enum s => simp [refsAll, refsVal] at h
  | path s => simp [refsAll, refsVal] at h
  | ref n => simpa [refsAll, refsVal, cfgRefs] using h
  | list l ih => rw [refsAll_list] at h; simp only [cfgRefs]; exact (ih []).1 h
  | dict ks vs ih => simp only [refsAll, refsVal] at h; simp only [cfgRefs]; exact (ih ks).2 h
  | nil => simp [refsAllL, refsVals, refsPairs]
  | cons v vs ih1 ih2 =>
    rename_i ks
    refine ⟨?_, ?_⟩
    · intro h
      rw [refsAllL_cons, List.mem_append] at h
      simp only [cfgRefsL, List.mem_append]
      exact h.imp ih1 (ih2 []).1
    · intro h
      cases ks with
      | nil => simp [refsPairs] at h
      | cons k ks =>
        simp only [refsPairs, dropped_noMeta, Bool.false_eq_true, if_false, List.mem_append] at h
        simp only [cfgRefsL, List.mem_append]
        exact h.imp ih1 (ih2 ks).2

theorem refsVal_sub_cfgRefs {mt : Nat → Option Bool} {m : Nat} {v : Val} (h : m ∈ refsVal mt v) : m ∈ cfgRefs v :=
  refsAll_sub_cfgRefs (refsVal_sub_refsAll mt m v h)

/-- the configurations of the declared default of an argument. -/
def dfltRefs (a : Arg) : List Nat := match a.default with | some d => cfgRefs d | none => []

/-- the configurations of the declared defaults of a node. -/
def nodeDfltRefs (nd : Node) : List Nat := (nd.args.map dfltRefs).flatten

theorem mem_nodeDfltRefs_of_mem {nd : Node} {a : Arg} {m : Nat} (ha : a ∈ nd.args) (hm : m ∈ dfltRefs a) :
    m ∈ nodeDfltRefs nd :=
  List.mem_flatten.mpr ⟨_, List.mem_map.mpr ⟨a, ha, rfl⟩, hm⟩

theorem included_congr_on (ceq ceq' : Nat → Nat → Bool) (mt mt' : Nat → Option Bool) (a : Arg)
    (h : ∀ m ∈ cfgRefs a.value, mt m = mt' m)
    (hq : ∀ x ∈ dfltRefs a, ∀ y ∈ cfgRefs a.value, ceq x y = ceq' x y) :
    included ceq mt a = included ceq' mt' a := by
  have hd : defaultOut ceq mt a = defaultOut ceq' mt' a := by
    unfold defaultOut
    cases hdf : a.default with
    | none => rfl
    | some d =>
      simp only
      rw [isDefault_removeMeta, isDefault_removeMeta,
        isDefault_congr_mt ceq mt mt' d a.value (fun m hm => h m (refsAll_sub_cfgRefs hm)),
        isDefault_congr_ceq ceq ceq' mt' d a.value (fun x hx y hy =>
          hq x (by simp only [dfltRefs, hdf]; exact refsAll_sub_cfgRefs hx) y (refsVal_sub_cfgRefs hy))]
  unfold included ignoredOut metaOut
  rw [hd]
  cases hv : a.value with
  | ref n =>
    have := h n (by simp [hv, cfgRefs])
    simp only [this]
  | _ => rfl

theorem argStream_congr_on (cfg cfg' : Nat → List Nat) (ceq ceq' : Nat → Nat → Bool) (mt mt' : Nat → Option Bool) (a : Arg)
    (h : ∀ m ∈ cfgRefs a.value, cfg m = cfg' m ∧ mt m = mt' m)
    (hq : ∀ x ∈ dfltRefs a, ∀ y ∈ cfgRefs a.value, ceq x y = ceq' x y) :
    argStream cfg ceq mt a = argStream cfg' ceq' mt' a := by
  simp only [argStream, included_congr_on ceq ceq' mt mt' a (fun m hm => (h m hm).2) hq,
    encVal_congr_on cfg cfg' mt mt' a.value h]

theorem nodeStream_congr_on (cfg cfg' : Nat → List Nat) (ceq ceq' : Nat → Nat → Bool) (mt mt' : Nat → Option Bool)
    (self : Nat) (nd nd' : Node)
    (hs : NodeSame nd nd')
    (h : ∀ m ∈ argRefs nd ++ optL nd.task, cfg m = cfg' m ∧ mt m = mt' m)
    (hq : ∀ x ∈ nodeDfltRefs nd, ∀ y ∈ argRefs nd, ceq x y = ceq' x y) :
    nodeStream cfg ceq mt self nd = nodeStream cfg' ceq' mt' self nd' := by
  obtain ⟨h1, h2, h3, _, _, _⟩ := hs
  have hargs : (sortBy (fun a b => bytesLe a.name b.name) nd.args).map (argStream cfg ceq mt)
      = (sortBy (fun a b => bytesLe a.name b.name) nd.args).map (argStream cfg' ceq' mt') := by
    apply List.map_congr_left
    intro a ha
    have ha' : a ∈ nd.args := (XpmVerif.Ident.sortBy_perm _ nd.args).mem_iff.mp ha
    exact argStream_congr_on cfg cfg' ceq ceq' mt mt' a
      (fun m hm => h m (List.mem_append.mpr (Or.inl (mem_argRefs_of_mem ha' hm))))
      (fun x hx y hy => hq x (mem_nodeDfltRefs_of_mem ha' hx) y (mem_argRefs_of_mem ha' hy))
  simp only [nodeStream, ← h1, ← h2, ← h3, hargs]
  cases ht : nd.task with
  | none => rfl
  | some t =>
    have := (h t (by simp [ht, optL])).1
    simp only [this]

/-! ### raw identifiers -/

theorem rawAt_congr_on {D : Type} (hc : HC D) (g g' : Graph) (S : Nat → Prop)
    (hclosed : ∀ n, S n → ∀ m ∈ succAll g n, S m)
    (hdflt : ∀ n, S n → ∀ m ∈ nodeDfltRefs (g.node n), S m)
    (hagree : ∀ n, S n → NodeSame (g.node n) (g'.node n)) :
    ∀ fuel stack n, S n → rawAt hc g' fuel stack n = rawAt hc g fuel stack n := by
  intro fuel
  induction fuel with
  | zero => intro stack n _; simp only [rawAt]
  | succ fuel ih =>
    intro stack n hn
    have hcfg : ∀ m, S m →
        ctxCfg (n :: stack) (fun m => hc.emb (rawAt hc g fuel (n :: stack) m)) m
          = ctxCfg (n :: stack) (fun m => hc.emb (rawAt hc g' fuel (n :: stack) m)) m := by
      intro m hm
      unfold ctxCfg
      split
      · rfl
      · show hc.emb (rawAt hc g fuel (n :: stack) m) = hc.emb (rawAt hc g' fuel (n :: stack) m)
        rw [ih (n :: stack) m hm]
    have hSv : ∀ m ∈ argRefs (g.node n), S m := fun m hm =>
      hclosed n hn m (by simp only [succAll, List.mem_append]; exact Or.inl (Or.inl (Or.inl hm)))
    simp only [rawAt]
    congr 1
    symm
    apply nodeStream_congr_on _ _ _ _ _ _ _ _ _ (hagree n hn)
    · intro m hm
      have hSm : S m := hclosed n hn m (by
        simp only [succAll, List.mem_append] at hm ⊢
        rcases hm with hm | hm
        · exact Or.inl (Or.inl (Or.inl hm))
        · exact Or.inl (Or.inl (Or.inr hm)))
      exact ⟨hcfg m hSm, (hagree m hSm).2.2.2.1⟩
    · intro x hx y hy
      unfold ctxEq
      rw [hcfg x (hdflt n hn x hx), hcfg y (hSv y hy)]

theorem rawId_congr_on {D : Type} (hc : HC D) (g g' : Graph) (S : Nat → Prop)
    (hsize : g.size = g'.size)
    (hclosed : ∀ n, S n → ∀ m ∈ succAll g n, S m)
    (hdflt : ∀ n, S n → ∀ m ∈ nodeDfltRefs (g.node n), S m)
    (hagree : ∀ n, S n → NodeSame (g.node n) (g'.node n))
    (n : Nat) (hn : S n) : rawId hc g' n = rawId hc g n := by
  simp only [rawId, ← hsize]
  exact rawAt_congr_on hc g g' S hclosed hdflt hagree _ _ n hn

/-! ### the configuration walk -/

mutual
theorem walkVal_congr_on (Q : List Nat → Prop) (r r' : Nat → List Nat → List Nat) :
    ∀ v : Val, (∀ m ∈ cfgRefs v, ∀ vis, Q vis → r' m vis = r m vis ∧ Q (r m vis)) →
      ∀ vis, Q vis → walkVal r' v vis = walkVal r v vis ∧ Q (walkVal r v vis)
  | .none, _, vis, hq => by simp only [walkVal]; exact ⟨trivial, hq⟩
  | .bool _, _, vis, hq => by simp only [walkVal]; exact ⟨trivial, hq⟩
  | .int _, _, vis, hq => by simp only [walkVal]; exact ⟨trivial, hq⟩
  | .float _, _, vis, hq => by simp only [walkVal]; exact ⟨trivial, hq⟩
  | .str _, _, vis, hq => by simp only [walkVal]; exact ⟨trivial, hq⟩
  | .enum _, _, vis, hq => by simp only [walkVal]; exact ⟨trivial, hq⟩
  | .path _, _, vis, hq => by simp only [walkVal]; exact ⟨trivial, hq⟩
  | .list l, h, vis, hq => by
    simp only [walkVal]
    exact walkVals_congr_on Q r r' l (fun m hm => h m (by simpa only [cfgRefs] using hm)) vis hq
  | .dict _ vs, h, vis, hq => by
    simp only [walkVal]
    exact walkVals_congr_on Q r r' vs (fun m hm => h m (by simpa only [cfgRefs] using hm)) vis hq
  | .ref n, h, vis, hq => by
    simp only [walkVal]
    exact h n (by simp [cfgRefs]) vis hq
theorem walkVals_congr_on (Q : List Nat → Prop) (r r' : Nat → List Nat → List Nat) :
    ∀ l : List Val, (∀ m ∈ cfgRefsL l, ∀ vis, Q vis → r' m vis = r m vis ∧ Q (r m vis)) →
      ∀ vis, Q vis → walkVals r' l vis = walkVals r l vis ∧ Q (walkVals r l vis)
  | [], _, vis, hq => by simp only [walkVals]; exact ⟨trivial, hq⟩
  | v :: vs, h, vis, hq => by
    have hv := walkVal_congr_on Q r r' v
      (fun m hm => h m (by simp only [cfgRefsL, List.mem_append]; exact Or.inl hm)) vis hq
    have hvs := walkVals_congr_on Q r r' vs
      (fun m hm => h m (by simp only [cfgRefsL, List.mem_append]; exact Or.inr hm)) _ hv.2
    simp only [walkVals]
    rw [hv.1]
    exact hvs
end

theorem walkNodes_congr_on (Q : List Nat → Prop) (r r' : Nat → List Nat → List Nat) :
    ∀ l : List Nat, (∀ m ∈ l, ∀ vis, Q vis → r' m vis = r m vis ∧ Q (r m vis)) →
      ∀ vis, Q vis → walkNodes r' l vis = walkNodes r l vis ∧ Q (walkNodes r l vis)
  | [], _, vis, hq => by simp only [walkNodes]; exact ⟨trivial, hq⟩
  | n :: ns, h, vis, hq => by
    have hn := h n (List.mem_cons_self) vis hq
    have hns := walkNodes_congr_on Q r r' ns (fun m hm => h m (List.mem_cons_of_mem _ hm)) _ hn.2
    simp only [walkNodes]
    rw [hn.1]
    exact hns

theorem visit_congr_on (g g' : Graph) (S T : Nat → Prop) (stop : Nat → Bool)
    (hST : ∀ n, S n → T n)
    (hclosed : ∀ n, S n → ∀ m ∈ succAll g n, S m)
    (hagree : ∀ n, S n → NodeSame (g.node n) (g'.node n)) :
    ∀ fuel n, S n → ∀ vis, (∀ x ∈ vis, T x) →
      visit g' stop fuel n vis = visit g stop fuel n vis ∧ ∀ x ∈ visit g stop fuel n vis, T x := by
  intro fuel
  induction fuel with
  | zero => intro n _ vis hq; simp only [visit]; exact ⟨trivial, hq⟩
  | succ fuel ih =>
    intro n hn vis hq
    obtain ⟨_, h2, h3, _, h5, h6⟩ := hagree n hn
    have hsucc : ∀ m ∈ succAll g n, S m := hclosed n hn
    simp only [succAll, List.mem_append] at hsucc
    simp only [visit, ← h2, ← h3, ← h5, ← h6]
    by_cases hc : vis.contains n = true
    · simp only [hc, if_true]; exact ⟨trivial, hq⟩
    · simp only [hc]
      have hq1 : ∀ x ∈ n :: vis, T x := by
        intro x hx
        rcases List.mem_cons.mp hx with h | h
        · subst h; exact hST _ hn
        · exact hq x h
      by_cases hs : stop n = true
      · simp only [hs, if_true]; exact ⟨by simp, hq1⟩
      · simp only [hs]
        have hrec : ∀ m, S m → ∀ vis, (∀ x ∈ vis, T x) →
            visit g' stop fuel m vis = visit g stop fuel m vis ∧ ∀ x ∈ visit g stop fuel m vis, T x := ih
        have ha := walkVals_congr_on (fun vis => ∀ x ∈ vis, T x) (visit g stop fuel) (visit g' stop fuel)
          ((g.node n).args.map (fun a : Arg => a.value))
          (fun m hm => hrec m (hsucc m (Or.inl (Or.inl (Or.inl (show m ∈ argRefs (g.node n) from hm)))))) (n :: vis) hq1
        have hp := walkNodes_congr_on (fun vis => ∀ x ∈ vis, T x) (visit g stop fuel) (visit g' stop fuel)
          (g.node n).preTasks
          (fun m hm => hrec m (hsucc m (Or.inl (Or.inr hm)))) _ ha.2
        have hi := walkNodes_congr_on (fun vis => ∀ x ∈ vis, T x) (visit g stop fuel) (visit g' stop fuel)
          (g.node n).initTasks
          (fun m hm => hrec m (hsucc m (Or.inr hm))) _ hp.2
        rw [ha.1, hp.1, hi.1]
        cases ht : (g.node n).task with
        | none => simp only [Bool.false_eq_true, if_false]; exact ⟨trivial, hi.2⟩
        | some t =>
          by_cases htn : t = n
          · simp only [htn, ne_eq, not_true_eq_false, if_false, Bool.false_eq_true]; exact ⟨trivial, hi.2⟩
          · have hSt : S t := hsucc t (Or.inl (Or.inl (Or.inr (by simp [ht, optL]))))
            simp only [ne_eq, htn, not_false_eq_true, if_true, Bool.false_eq_true, if_false]
            exact hrec t hSt _ hi.2

theorem mem_of_mem_dedup {x : Nat} : ∀ {l : List Nat}, x ∈ dedup l → x ∈ l
  | [], h => by simp [dedup] at h
  | y :: ys, h => by
    simp only [dedup] at h
    split at h
    · exact List.mem_cons_of_mem _ (mem_of_mem_dedup h)
    · rcases List.mem_cons.mp h with h | h
      · subst h; exact List.mem_cons_self
      · exact List.mem_cons_of_mem _ (mem_of_mem_dedup h)

theorem reachable_congr_on (g g' : Graph) (S : Nat → Prop)
    (hsize : g.size = g'.size)
    (hclosed : ∀ n, S n → ∀ m ∈ succAll g n, S m)
    (hagree : ∀ n, S n → NodeSame (g.node n) (g'.node n))
    (n : Nat) (hn : S n) : reachable g' n = reachable g n ∧ ∀ m ∈ reachable g n, S m := by
  simp only [reachable, ← hsize]
  exact visit_congr_on g g' S S _ (fun _ h => h) hclosed hagree _ n hn [] (by simp)

theorem collectPreTasks_congr_on (g g' : Graph) (S : Nat → Prop)
    (hsize : g.size = g'.size)
    (hclosed : ∀ n, S n → ∀ m ∈ succAll g n, S m)
    (hagree : ∀ n, S n → NodeSame (g.node n) (g'.node n))
    (n : Nat) (hn : S n) :
    collectPreTasks g' n = collectPreTasks g n ∧ ∀ p ∈ collectPreTasks g n, S p := by
  obtain ⟨hr, hS⟩ := reachable_congr_on g g' S hsize hclosed hagree n hn
  refine ⟨?_, ?_⟩
  · simp only [collectPreTasks, hr]
    congr 2
    apply List.map_congr_left
    intro m hm
    exact (hagree m (hS m hm)).2.2.2.2.1.symm
  · intro p hp
    have hp' := mem_of_mem_dedup hp
    simp only [List.mem_flatten, List.mem_map] at hp'
    obtain ⟨l, ⟨m, hm, rfl⟩, hpl⟩ := hp'
    apply hclosed m (hS m hm) p
    simp only [succAll, List.mem_append]
    exact Or.inl (Or.inr hpl)

/-! ### full identifier -/

theorem fullId_congr_on {D : Type} (hc : HC D) (g g' : Graph) (S : Nat → Prop)
    (hsize : g.size = g'.size)
    (hclosed : ∀ n, S n → ∀ m ∈ succAll g n, S m)
    (hdflt : ∀ n, S n → ∀ m ∈ nodeDfltRefs (g.node n), S m)
    (hagree : ∀ n, S n → NodeSame (g.node n) (g'.node n))
    (root : Nat) (hr : S root) : fullId hc g' root = fullId hc g root := by
  obtain ⟨hcp, hcS⟩ := collectPreTasks_congr_on g g' S hsize hclosed hagree root hr
  have hraw := rawId_congr_on hc g g' S hsize hclosed hdflt hagree
  have hinit : (g'.node root).initTasks = (g.node root).initTasks := (hagree root hr).2.2.2.2.2.symm
  have hpre : (collectPreTasks g root).map (rawId hc g') = (collectPreTasks g root).map (rawId hc g) :=
    List.map_congr_left (fun p hp => hraw p (hcS p hp))
  have hin : (g.node root).initTasks.map (fun i => hc.emb (rawId hc g' i))
      = (g.node root).initTasks.map (fun i => hc.emb (rawId hc g i)) := by
    apply List.map_congr_left
    intro i hi
    rw [hraw i (hclosed root hr i (by simp only [succAll, List.mem_append]; exact Or.inr hi))]
  simp only [fullId, hcp, hraw root hr, hinit, hpre, hin]

end XpmVerif.Serial
