"""Common body of the scheduler-family checks (C04 C05 C06 C07 C08 C09): random and exhaustive
schedules on the real Scheduler (xv.impl.schedeng), implementation-only monitors (xv.schedlib),
event-by-event correspondence with the Lean model (Drive/Sched.lean)."""
import json
import multiprocessing as mp
import random
import time

from .. import common, schedlib
from ..translate import schedflags


PROBE_WITNESS = {"readyGuarded": "F3", "resubmitRegisters": "F4", "abortRechecks": "F5", "abortReleases": "F32"}


def _probe_flag(flag):
    """behavioural reading of one model flag on the real scheduler: the flag is `true` (repaired behaviour) iff the
    witness schedule of the corresponding defect no longer exhibits it.  Only used for a decision point whose source
    shape the AST reader does not recognise; the event-by-event correspondence then validates the model with that flag."""
    fid = PROBE_WITNESS[flag]
    import json as _json
    finding = next((f for f in _json.loads((common.VERIF / "known_findings.json").read_text()) if f.get("id") == fid), None)
    if finding is None:
        raise RuntimeError(f"no witness for {flag}")

    class _C:
        hit = False

        def monitor_fail(self, *a, **k):
            self.hit = True
    c = _C()
    run_witness(c, finding.get("property", "C06"), finding, focus={"C04", "C05", "C06", "C07", "C08", "C09"})
    return not c.hit


def prove(ctx, modules, extra_msgs=()):
    from ..translate import enums, schedsrc
    msgs = [schedflags.generate(common.REPO, common.LEAN, probe=_probe_flag), enums.generate(common.REPO, common.LEAN),
            schedsrc.generate(common.REPO, common.LEAN)] + list(extra_msgs)
    ctx.notes.append(f"translator(schedflags): {msgs[0][1]}")
    ctx.notes.append(f"translator(enums): {msgs[1][1]}")
    ctx.notes.append(f"translator(schedsrc): {msgs[2][1]}")
    from ..translate import schedskeleton
    msgs.append(schedskeleton.generate(common.REPO, common.LEAN))
    ctx.notes.append(f"translator(schedskeleton): {msgs[-1][1]}")
    ctx.extra_cov["schedskeleton_translator"] = dict(schedskeleton.LAST)
    # which decision functions were regenerated from the source text in this run, which fell back on the model's own definition
    ctx.extra_cov["schedsrc_translator"] = dict(schedsrc.LAST)
    # source obligations on JobState / DependencyStatus (Properties/SchedSrc.lean) belong to every scheduler property
    common.check_proofs(ctx, list(modules) + [m for m in ["XpmVerif.Properties.SchedSrc", "XpmVerif.Properties.SchedSkeletonSrc"] if m not in modules], translate_msgs=msgs)


def _run_one(args):
    seed, gen_kwargs = args
    from ..impl import schedeng
    rng = random.Random(seed)
    spec = schedlib.gen_workload(rng, **gen_kwargs)
    ev, obs, tr, q = schedeng.run_random(spec, rng)
    fails = schedlib.monitors(spec, ev, obs, tr, q)
    return seed, spec, ev, obs, fails, q


def _run_one_cov(args):
    """`_run_one` + the lines of the scheduler's decision functions executed for the first time in this worker"""
    from ..impl import linecov
    on = linecov.start()
    return _run_one(args), (linecov.drain() if on else None)


def _explore_cov(args):
    from ..impl import linecov
    on = linecov.start()
    return _explore(args), (linecov.drain() if on else None)


def _explore(args):
    """exhaustive DFS over all schedules of a small workload (stateless replay)"""
    spec, limit = args
    from ..impl import schedeng
    results = []
    stack = [[]]
    count = 0
    while stack and count < limit:
        prefix = stack.pop()
        w = schedeng.World(spec)
        try:
            pending = list(range(len(spec["jobs"])))
            waited = False
            obs = []
            for ev in prefix:
                w.apply(ev)
                if ev[0] == "submit":
                    pending.pop(0)
                if ev[0] == "wait":
                    waited = True
                obs.append(w.observe())
            # extend deterministically until a branching point
            events = list(prefix)
            while True:
                ch = w.choices(pending, waited)
                if not ch:
                    count += 1
                    fails = schedlib.monitors(spec, events, obs, list(w.trace), True)
                    results.append((events, obs if fails else None, fails))
                    break
                if len(events) > 400:
                    # an over-long schedule counts as an enumerated one: under a change that makes starts abort for ever no
                    # schedule ever completes and the enumeration would otherwise never reach its limit
                    count += 1
                    results.append((events, None, [("C06", "livelock", "schedule exceeds 400 events")]))
                    break
                if len(ch) == 1:
                    ev = ch[0]
                else:
                    for alt in ch[1:]:
                        stack.append(events + [alt])
                    ev = ch[0]
                w.apply(ev)
                if ev[0] == "submit":
                    pending.pop(0)
                if ev[0] == "wait":
                    waited = True
                events.append(ev)
                obs.append(w.observe())
        finally:
            w.close()
    return spec, results, not stack


def small_workloads(prop):
    """hand-picked small workloads whose schedules are enumerated exhaustively"""
    J = lambda ident, deps, code=0, marker=False: {"ident": ident, "deps": deps, "code": code, "marker": marker}
    ws = [
        {"tokens": [1], "jobs": [J(0, [["t", 0, 1]]), J(1, [["t", 0, 1]])]},
        {"tokens": [], "jobs": [J(0, [], 1), J(1, [["j", 0]])]},
        {"tokens": [2], "jobs": [J(0, [["t", 0, 2]]), J(1, [["t", 0, 1]], 1)]},
        {"tokens": [], "jobs": [J(0, [], 1), J(0, [], 0)]},
        {"tokens": [1], "jobs": [J(0, [["t", 0, 1]]), J(1, [["j", 0], ["t", 0, 1]])]},
    ]
    return ws


def run(ctx, prop, gen_kwargs, rule, n_quick, n_thorough, focus=None, nontrivial_fn=None):
    """focus: the set of properties whose monitor failures this check reports"""
    focus = focus or {prop}
    ctx.rule = rule
    ctx.assumptions += ["asyncio: FIFO ready queue, Event/Condition semantics of CPython 3.12 (the engine runs the real asyncio objects)",
                        "thread interleavings inside one coroutine segment are not explored (segments are atomic on the loop thread)",
                        "job.dependencies / dependents are iterated in insertion order (shuffled per job by the generator); the real code uses sets"]
    n = ctx.scale(n_quick, n_thorough)
    base = ctx.rng.randrange(10**9)
    t0 = time.time()
    with mp.Pool(min(16, mp.cpu_count())) as pool:
        results = pool.map(_run_one_cov, [(base + i, gen_kwargs) for i in range(n)], chunksize=16)
        exh = []
        if not ctx.quick() or True:
            limit = ctx.scale(150, 6000)
            exh = pool.map(_explore_cov, [(w, limit) for w in small_workloads(prop)])
    # lines of dependencychanged / check / aio_submit / aio_start / ... that the engine executed in this run: the branches
    # the event-by-event correspondence never reached are listed in the evidence
    hits = [h for _, hs in list(results) + list(exh) if hs is not None for h in hs]
    if all(hs is not None for _, hs in list(results) + list(exh)):
        from ..impl import linecov
        try:
            ctx.extra_cov["engine_line_coverage"] = linecov.report({tuple(h) for h in hits})
        except Exception as e:   # the report is an observation, never a verdict
            ctx.notes.append(f"engine line coverage not available: {e}")
    results = [r for r, _ in results]
    exh = [r for r, _ in exh]
    lines, impl, owner = [], [], []
    for seed, spec, ev, obs, fails, q in results:
        reordered = sum(1 for e in ev if e[0] == "deliver" and e[1] > 0)
        nontrivial = any(js["deps"] for js in spec["jobs"]) and reordered >= 2
        if nontrivial_fn is not None:
            nontrivial = nontrivial_fn(spec, ev)
        ctx.case({"seed": seed, "workload": spec, "events": ev[:60]}, nontrivial)
        ctx.count("jobs", len(spec["jobs"]))
        ctx.count("tokens", len(spec["tokens"]))
        ctx.count("quiescent", q)
        ctx.count("failing_jobs", sum(1 for j in spec["jobs"] if j["code"] != 0))
        ctx.count("duplicates", len(spec["jobs"]) - len({j["ident"] for j in spec["jobs"]}))
        for e in ev:
            ctx.count("event_kind", e[0])
        for p, key, what in fails:
            if p in focus:
                ctx.monitor_fail(key, f"{what} [workload {json.dumps(spec)}; schedule seed {seed}]", {"workload": spec, "events": ev, "seed": seed})
        lines.append({"op": "init", "tokens": spec["tokens"], "jobs": spec["jobs"]})
        impl.append(None)
        owner.append((seed, spec, ev))
        for e, o in zip(ev, obs):
            lines.append({"op": "ev", "e": e})
            impl.append(o)
            owner.append((seed, spec, ev))
    total_sched = 0
    complete = True
    for spec, res, done in exh:
        complete = complete and done
        total_sched += len(res)
        for events, obs, fails in res:
            for p, key, what in fails:
                if p in focus:
                    ctx.monitor_fail(key, f"{what} [exhaustive; workload {json.dumps(spec)}]", {"workload": spec, "events": events})
    ctx.extra_cov["exhaustive_small_workloads"] = {"workloads": len(exh), "complete_schedules": total_sched, "all_enumerated": complete}
    ctx.evaluations += total_sched
    # correspondence with the Lean model, event by event
    try:
        outs = common.run_driver("Sched", lines)
    except Exception as e:
        ctx.disagree({"driver": "Sched"}, None, None, f"model driver failed: {e}")
        return
    bad = set()
    for line, m, i, (seed, spec, ev) in zip(lines, outs, impl, owner):
        if i is None or seed in bad:
            continue
        m["failed"] = sorted(m.get("failed", []))
        if m != i:
            bad.add(seed)
            diff = {k: {"impl": i[k], "model": m.get(k)} for k in i if i[k] != m.get(k)}
            ctx.disagree({"workload": spec, "events": ev, "seed": seed}, diff, None, "scheduler model and implementation differ")
    ctx.traces_validated += len(results) - len(bad)


def search(ctx, prop, gen_kwargs, focus=None):
    focus = focus or {prop}
    t0 = time.time()
    base = 7_000_000 + ctx.seed * 100_000
    with mp.Pool(min(16, mp.cpu_count())) as pool:
        k = 0
        while time.time() - t0 < ctx.scale(40, 300) and not ctx.monitor_failures:
            for seed, spec, ev, obs, fails, q in pool.map(_run_one, [(base + k * 800 + i, gen_kwargs) for i in range(800)], chunksize=16):
                for p, key, what in fails:
                    if p in focus:
                        ctx.monitor_fail(key, f"{what} [workload {json.dumps(spec)}; schedule seed {seed}]", {"workload": spec, "events": ev, "seed": seed})
            k += 1


def replay_events(ctx, prop, obj, focus=None):
    """re-executes the stored schedule(s) on the real scheduler"""
    from ..impl import schedeng
    focus = focus or {prop}
    rc = 0
    for f in obj.get("failures", []):
        c = f["case"]
        ev, obs, tr, q = schedeng.run_replay_complete(c["workload"], c["events"])
        fails = [x for x in schedlib.monitors(c["workload"], ev, obs, tr, q) if x[0] in focus]
        print("replay:", fails[:3] if fails else "no failure on this tree")
        if fails:
            rc = 1
            print(f"VIOLATION property={prop} replay=(replayed)")
    return rc


def run_witness(ctx, prop, finding, focus=None):
    """replays the stored schedule of a finding on the real scheduler"""
    from ..impl import schedeng
    focus = focus or {prop}
    w = finding.get("witness")
    if w and "cycle" in w and "workload" in w:
        # a periodic schedule: prefix, then the cycle again and again; it is a livelock if every event stays
        # possible, the observable state after each turn is the same, and some job is not final
        world = schedeng.World(w["workload"])
        try:
            pending, waited, seen, ok = list(range(len(w["workload"]["jobs"]))), False, [], True
            for ev in w["prefix"] + w["cycle"] * 6:
                if ev[0] != "submit" and ev not in world.choices(pending, waited):
                    ok = False
                    break
                world.apply(ev)
                if ev[0] == "submit":
                    pending.pop(0)
                seen.append(world.observe())
            n, c = len(w["prefix"]), len(w["cycle"])
            if ok and all(seen[n + c * k - 1] == seen[n - 1] for k in range(1, 7)) and "pending" in seen[-1]["futures"]:
                ctx.monitor_fail("livelock-aborted-starts",
                                 f"fair periodic schedule under which jobs {[i for i, f in enumerate(seen[-1]['futures']) if f == 'pending']} are never launched "
                                 f"(state after each of 6 turns identical: {seen[-1]['states']}, avail {seen[-1]['avail']}) [witness of {finding['id']}]",
                                 {"workload": w["workload"], "prefix": w["prefix"], "cycle": w["cycle"]})
        finally:
            world.close()
        return
    if not w or "events" not in w or "workload" not in w:
        return
    ev, obs, tr, q = schedeng.run_replay_complete(w["workload"], w["events"])
    for p, key, what in schedlib.monitors(w["workload"], ev, obs, tr, q):
        if p in focus:
            ctx.monitor_fail(key, f"{what} [witness of {finding['id']}]", {"workload": w["workload"], "events": w["events"]})


def restart_part(ctx, prop, n):
    """the adoption path of `aio_submit` (a job found running through its pid file after a scheduler restart) is only
    exercised by the restart engine (xv.impl.restart_eng, the real Scheduler on a persistent simulated workspace with
    crashes): C04 / C07 monitors on the last run of each history"""
    from . import c11
    base = ctx.rng.randrange(10**9)
    with mp.Pool(min(16, mp.cpu_count())) as pool:
        results = pool.map(c11._engine_one, [base + i for i in range(n)], chunksize=8)
    for seed, spec, ev, obs, q, fails in results:
        if not obs:
            continue
        last = obs[-1]
        jobs = spec["jobs"]
        marker = {d["ident"]: d["done"] for d in last["dirs"]}
        adopted_seen = any(any(o["adopted"]) for o in obs)
        ctx.case({"restart_history": {"seed": seed, "workload": spec, "events": ev[:60]}}, adopted_seen)
        ctx.count("restart_adoption_seen", adopted_seen)
        case = {"engine": "restart", "workload": spec, "events": ev, "seed": seed}
        for j, js in enumerate(jobs):
            if last["states"][j] is None:
                continue
            deps = [d[1] for d in js["deps"] if d[0] == "j"]
            if prop == "C04" and last["launches"][j] > 0:
                bad = [d for d in deps if not marker[jobs[d]["ident"]]]
                if bad:
                    ctx.monitor_fail("launch-before-dependency:after-restart",
                                     f"last run: job {j} was launched although job(s) {bad} it depends on did not succeed (no success marker) "
                                     f"[restart engine; workload {json.dumps(spec)}; seed {seed}]", case)
                    break
            if prop == "C06" and last["futures"][j] == "DONE" and not marker[js["ident"]]:
                ctx.monitor_fail("untruthful-done:after-restart",
                                 f"last run: job {j} is final DONE but its process did not exit with status 0 (no success marker): waiting on it returns a state "
                                 f"that does not tell what happened [restart engine; workload {json.dumps(spec)}; seed {seed}]", case)
                break
            if prop == "C07":
                if last["futures"][j] == "DONE" and not marker[js["ident"]]:
                    ctx.monitor_fail("failure-read-as-success:after-restart",
                                     f"last run: job {j} is reported DONE but its success marker does not exist (its process failed) "
                                     f"[restart engine; workload {json.dumps(spec)}; seed {seed}]", case)
                    break
                failed_dep = [d for d in deps if last["futures"][d] == "ERROR"]
                if failed_dep and (last["launches"][j] > 0 or last["futures"][j] == "DONE") and not marker[js["ident"]]:
                    ctx.monitor_fail("dependent-not-cancelled:after-restart",
                                     f"last run: job {j} ran although job(s) {failed_dep} it depends on failed [restart engine; seed {seed}]", case)
                    break
