"""Spec-level edits of configuration graphs.

* neutral edits (C02): change only what the documentation excludes from the signature;
* signature edits (C03): one small structural change that must change the identifier of the
  edited node.

An edit returns (new_graph, description) or None when not applicable.  Node indices of the
original graph are preserved (edits only append nodes)."""
import copy

from . import cfggen


def cls_of(lib, name):
    return next(c for c in lib["classes"] if c["name"] == name)


def values_dict(nd):
    return {k: v for k, v in nd["values"]}


def set_value(nd, name, v):
    for kv in nd["values"]:
        if kv[0] == name:
            kv[1] = v
            return
    nd["values"].append([name, v])


def del_value(nd, name):
    nd["values"] = [kv for kv in nd["values"] if kv[0] != name]


def new_node_of(rng, lib, g, cname, meta=None):
    gg = cfggen.GraphGen(rng, lib, max_nodes=len(g["nodes"]) + 3, cycles=False)
    gg.nodes = g["nodes"]
    i = gg.new_node(cname, 3)
    g["nodes"][i]["meta"] = meta
    return i


def _num(v):
    """the number a scalar spec denotes once stored in a parameter (an int literal given to a float parameter is stored as
    a float: `2` and `2.0` are the same value), else None"""
    import struct
    if isinstance(v, bool):
        return None
    if isinstance(v, int):
        return float(v)
    if isinstance(v, dict) and "f" in v:
        return struct.unpack("!d", bytes.fromhex(v["f"]))[0]
    return None


def diff_scalar(rng, ty, lib, old):
    for _ in range(20):
        v = cfggen.gen_scalar(rng, ty, lib)
        if ty == "float" and _num(v) is not None and _num(v) == _num(old):
            continue
        if v != old and not (isinstance(v, bool) != isinstance(old, bool) and v == old):
            return v
    return None


# ------------------------------------------------------------------ neutral edits (C02)


def _inner_cfg_containers(ty, v, path):
    """[(path, class name)]: the containers inside value `v` of type `ty` whose members are configurations; path = indices
    (list position / dict entry position) from the value down to the container"""
    out = []
    if not (isinstance(ty, dict) and isinstance(v, dict)):
        return out
    inner = ty.get("list") if "list" in ty else ty.get("dict") if "dict" in ty else None
    if inner is None or not ("l" in v or "d" in v):
        return out
    if isinstance(inner, dict) and "cfg" in inner:
        out.append((path, inner["cfg"]))
        return out
    items = v["l"] if "l" in v else [kv[1] for kv in v["d"]]
    for i, x in enumerate(items):
        out += _inner_cfg_containers(inner, x, path + (i,))
    return out


def neutral_edit(rng, lib, g):
    g = copy.deepcopy(g)
    n = rng.randrange(len(g["nodes"]))
    nd = g["nodes"][n]
    args = cfggen.all_args(lib, nd["cls"])
    vals = values_dict(nd)
    kinds = ["explicit_default", "optional_none", "meta_value", "path_value", "meta_member", "inside_meta"]
    rng.shuffle(kinds)
    tail = ["tag", "dependency"]
    rng.shuffle(tail)
    kinds = (tail + kinds) if rng.random() < 0.15 else (kinds + tail)
    if cfggen.NESTED_DEFAULTS and rng.random() < 0.5 and any(
            len(pth) > 0 for a in args if a["decl"] == "param" and vals.get(a["name"]) is not None
            for pth, _ in _inner_cfg_containers(a["ty"], vals[a["name"]], ())):
        kinds = ["meta_member"] + [k for k in kinds if k != "meta_member"]      # an inner container is there: prefer the deep edit
    for kind in kinds:
        if kind == "explicit_default":
            c = [a for a in args if "default" in a and a["decl"] in ("param",)]
            if c:
                a = rng.choice(c)
                if a["name"] in vals and vals[a["name"]] == a["default"]:
                    del_value(nd, a["name"])
                    return g, {"kind": kind, "node": n, "arg": a["name"], "how": "removed explicit default"}
                if a["name"] not in vals:
                    # a configuration-valued default is given as another object with the same content
                    set_value(nd, a["name"], cfggen.materialize(g["nodes"], copy.deepcopy(a["default"])))
                    return g, {"kind": kind, "node": n, "arg": a["name"], "how": "set to default explicitly"}
        if kind == "optional_none":
            c = [a for a in args if a["optional"] and "default" not in a and a["decl"] == "param"]
            if c:
                a = rng.choice(c)
                if a["name"] in vals and vals[a["name"]] is None:
                    del_value(nd, a["name"])
                    return g, {"kind": kind, "node": n, "arg": a["name"], "how": "removed explicit None"}
                if a["name"] not in vals:
                    set_value(nd, a["name"], None)
                    return g, {"kind": kind, "node": n, "arg": a["name"], "how": "set to None explicitly"}
        if kind == "meta_value":
            c = [a for a in args if a["decl"] in ("meta", "option") and not cfggen.has_cfg(a["ty"]) and a["ty"] != "path"]
            if c:
                a = rng.choice(c)
                gg = cfggen.GraphGen(rng, lib, 0, False)
                set_value(nd, a["name"], gg.gen_val(a["ty"], 3, n))
                return g, {"kind": kind, "node": n, "arg": a["name"], "how": "changed Meta/Option value"}
        if kind == "path_value":
            c = [a for a in args if a["ty"] == "path" and a["decl"] in ("param", "meta", "option")]
            if c:
                a = rng.choice(c)
                set_value(nd, a["name"], {"p": rng.choice(["other.txt", "/tmp/zz", "q/r/s"])})
                return g, {"kind": kind, "node": n, "arg": a["name"], "how": "changed Path value"}
        if kind == "meta_member":
            # a sub-configuration flagged as meta added as list element / dict value
            c = [a for a in args if a["decl"] == "param" and isinstance(a["ty"], dict)
                 and (("list" in a["ty"] and isinstance(a["ty"]["list"], dict) and "cfg" in a["ty"]["list"])
                      or ("dict" in a["ty"] and isinstance(a["ty"]["dict"], dict) and "cfg" in a["ty"]["dict"]))
                 and a["name"] in vals and vals[a["name"]] is not None]
            # … at any depth: an inner container (list in a list, list in a dict, …) whose members are configurations
            deep = [(a, sites) for a in args if a["decl"] == "param" and a["name"] in vals and vals[a["name"]] is not None
                    for sites in [_inner_cfg_containers(a["ty"], vals[a["name"]], ())] if any(len(pth) > 0 for pth, _ in sites)] \
                if cfggen.NESTED_DEFAULTS else []
            if deep and (not c or rng.random() < 0.6):
                a, sites = rng.choice(deep)
                pth, cname = rng.choice([s for s in sites if len(s[0]) > 0])
                m = new_node_of(rng, lib, g, rng.choice(cfggen.subclasses(lib, cname)), meta=True)
                v = copy.deepcopy(vals[a["name"]])
                tgt = v
                for step in pth:
                    tgt = tgt["l"][step] if "l" in tgt else tgt["d"][step][1]
                if "l" in tgt:
                    tgt["l"].insert(rng.randrange(len(tgt["l"]) + 1), {"r": m})
                else:
                    free = [k for k in cfggen.KEYS if k not in [kk for kk, _ in tgt["d"]]]
                    if not free:
                        continue
                    tgt["d"].insert(rng.randrange(len(tgt["d"]) + 1), [rng.choice(free), {"r": m}])
                set_value(g["nodes"][n], a["name"], v)
                return g, {"kind": kind, "node": n, "arg": a["name"], "how": "added meta=True member at depth %d" % (len(pth) + 1)}
            if c:
                a = rng.choice(c)
                inner = a["ty"].get("list") or a["ty"].get("dict")
                m = new_node_of(rng, lib, g, rng.choice(cfggen.subclasses(lib, inner["cfg"])), meta=True)
                v = copy.deepcopy(vals[a["name"]])
                if "l" in v:
                    v["l"].insert(rng.randrange(len(v["l"]) + 1), {"r": m})
                else:
                    free = [k for k in cfggen.KEYS if k not in [kk for kk, _ in v["d"]]]
                    if not free:
                        continue
                    v["d"].insert(rng.randrange(len(v["d"]) + 1), [rng.choice(free), {"r": m}])
                set_value(g["nodes"][n], a["name"], v)
                return g, {"kind": kind, "node": n, "arg": a["name"], "how": "added meta=True member"}
        if kind == "tag":
            nd.setdefault("tags", []).append([rng.choice(["t", "model", "lr"]), rng.choice([1, "x", 0.5])])
            return g, {"kind": kind, "node": n, "how": "tag added"}
        if kind == "dependency":
            nd["deps"] = nd.get("deps", 0) + 1
            return g, {"kind": kind, "node": n, "how": "token dependency added"}
        if kind == "inside_meta":
            special = {x["task"] for x in g["nodes"] if x["task"] is not None} | {p for x in g["nodes"] for p in x["pre"] + x["init"]}
            metas = [i for i, x in enumerate(g["nodes"]) if x["meta"] is True and i not in special]
            if metas:
                m = rng.choice(metas)
                e = signature_edit(rng, lib, g, node=m, kinds=["scalar"])
                if e:
                    return e[0], {"kind": kind, "node": m, "how": "changed content of a meta=True configuration", "inner": e[1]}
    return None


def class_edit(rng, lib, prefer=None):
    """adds a defaulted / Meta / generated parameter to a random class (same package name, same xpmids);
    `prefer`: class names to choose from when possible (classes used by the graphs of the case)"""
    lib = copy.deepcopy(lib)
    cands = [c for c in lib["classes"] if c["name"].startswith("C")]
    if prefer:
        cands = [c for c in cands if c["name"] in prefer] or cands
    c = rng.choice(cands)
    used = set()
    for cc in lib["classes"]:
        used |= {a["name"] for a in cc["args"]}
    name = next(a for a in ["extra", "extra2", "zzz", "aaa0"] if a not in used)
    r = rng.random()
    if r < 0.2:
        # `x: Param[float] = 1`: the default keeps the Python type of the literal, values are normalised to float
        arg = {"name": name, "decl": "param", "ty": "float", "optional": False, "default": rng.choice([0, 1, 2, 10, -1])}
    elif r < 0.4:
        ty = rng.choice(["int", "str", "float", "float", "bool"])
        default = cfggen.gen_plain_default(rng, ty, lib)
        if ty == "float" and rng.random() < 0.5:
            default = rng.choice([0, 1, 2, 10, -1])  # numeric literal of the other Python type (`Param[float] = 1`)
        arg = {"name": name, "decl": "param", "ty": ty, "optional": False, "default": default}
    elif r < 0.55:
        arg = {"name": name, "decl": "param", "ty": {"list": "int"}, "optional": False, "default": {"l": []}}
    elif r < 0.7:
        arg = {"name": name, "decl": "param", "ty": "int", "optional": True}
    elif r < 0.8:
        arg = {"name": name, "decl": "meta", "ty": "int", "optional": True}
    elif r < 0.9:
        # a generated value that is not a path (`field(default_factory=...)`): present once the graph is sealed
        arg = {"name": name, "decl": "factory", "ty": "int", "optional": False, "fval": rng.choice([0, 1, 7, 42])}
    else:
        arg = {"name": name, "decl": "pathgen", "ty": "path", "optional": False, "file": "extra.txt"}
    c["args"].append(arg)
    return lib, {"class": c["name"], "added": arg}


# ------------------------------------------------------------------ signature edits (C03)


def effective(a, vals):
    if a["name"] in vals:
        return vals[a["name"]]
    return a.get("default")


def ty_unamb(ty):
    """the decidable predicate `Unamb` of the Lean development (need / first-tag sets)"""
    def fts(t):
        if isinstance(t, str):
            return {{"int": 1, "bool": 1, "float": 2, "str": 3}.get(t, 99)}
        if "enum" in t:
            return {10}
        if "cfg" in t:
            return {0}
        if "list" in t:
            return {7}
        return {9}

    def need(t):
        if isinstance(t, dict) and "list" in t:
            return need(t["list"])
        if isinstance(t, dict) and "dict" in t:
            return fts(t["dict"]) | need(t["dict"])
        return set()

    def ok(t):
        if isinstance(t, dict) and "list" in t:
            return ok(t["list"])
        if isinstance(t, dict) and "dict" in t:
            return ok(t["dict"]) and not (fts(t["dict"]) & need(t["dict"]))
        return True

    return ok(ty)


def edit_value(rng, lib, ty, v, g, owner):
    """one small change inside a value of type ty; returns (new value, kind) or None"""
    if v is None:
        return None
    if isinstance(ty, dict) and "list" in ty:
        items = list(v["l"])
        inner = ty["list"]
        opts = ["len+", "len-", "swap", "elem", "move"]
        rng.shuffle(opts)
        for o in opts:
            if o == "len+" and not cfggen.has_cfg(inner):
                gg = cfggen.GraphGen(rng, lib, 0, False)
                x = gg.gen_val(inner, 3, owner)
                return {"l": items + [x]}, "list-append"
            if o == "len-" and items:
                last = items[-1]
                if isinstance(last, dict) and "r" in last and g["nodes"][last["r"]]["meta"] is True:
                    continue
                return {"l": items[:-1]}, "list-drop-last"
            if o == "swap" and len(items) >= 2:
                i, j = rng.sample(range(len(items)), 2)
                if items[i] != items[j] and not _is_meta_ref(g, items[i]) and not _is_meta_ref(g, items[j]):
                    items[i], items[j] = items[j], items[i]
                    return {"l": items}, "list-swap"
            if o == "elem" and items:
                i = rng.randrange(len(items))
                if _is_meta_ref(g, items[i]):
                    continue
                e = edit_value(rng, lib, inner, items[i], g, owner)
                if e:
                    items[i] = e[0]
                    return {"l": items}, "list-elem:" + e[1]
            if o == "move" and isinstance(inner, dict) and "list" in inner and len(items) >= 2:
                # move an element between neighbouring inner lists
                i = rng.randrange(len(items) - 1)
                a, b = list(items[i]["l"]), list(items[i + 1]["l"])
                if a and not _is_meta_ref(g, a[-1]):
                    b.insert(0, a.pop())
                    items[i], items[i + 1] = {"l": a}, {"l": b}
                    return {"l": items}, "move-between-neighbouring-lists"
        return None
    if isinstance(ty, dict) and "dict" in ty:
        items = [list(kv) for kv in v["d"]]
        inner = ty["dict"]
        opts = ["rename", "val", "add", "drop", "nest"]
        rng.shuffle(opts)
        for o in opts:
            if o == "rename" and items:
                i = rng.randrange(len(items))
                free = [k for k in cfggen.KEYS if k not in [kk for kk, _ in items]]
                if free and not _is_meta_ref(g, items[i][1]):
                    items[i][0] = rng.choice(free)
                    return {"d": items}, "dict-rename-key"
            if o == "val" and items:
                i = rng.randrange(len(items))
                if _is_meta_ref(g, items[i][1]):
                    continue
                e = edit_value(rng, lib, inner, items[i][1], g, owner)
                if e:
                    items[i][1] = e[0]
                    return {"d": items}, "dict-value:" + e[1]
            if o == "add" and not cfggen.has_cfg(inner):
                free = [k for k in cfggen.KEYS if k not in [kk for kk, _ in items]]
                if free:
                    gg = cfggen.GraphGen(rng, lib, 0, False)
                    return {"d": items + [[rng.choice(free), gg.gen_val(inner, 3, owner)]]}, "dict-add"
            if o == "drop" and items:
                i = rng.randrange(len(items))
                if not _is_meta_ref(g, items[i][1]):
                    return {"d": items[:i] + items[i + 1:]}, "dict-drop"
            if o == "nest" and isinstance(inner, dict) and "dict" in inner and len(items) >= 1:
                # move an item of an inner dict to a sibling inner dict
                cands = [i for i, (_, x) in enumerate(items) if x["d"]]
                if cands and len(items) >= 2:
                    i = rng.choice(cands)
                    j = rng.choice([k for k in range(len(items)) if k != i])
                    src = [list(kv) for kv in items[i][1]["d"]]
                    dst = [list(kv) for kv in items[j][1]["d"]]
                    kv = src.pop(rng.randrange(len(src)))
                    if kv[0] not in [k for k, _ in dst] and not _is_meta_ref(g, kv[1]):
                        dst.append(kv)
                        items[i][1], items[j][1] = {"d": src}, {"d": dst}
                        return {"d": items}, "move-between-sibling-dicts"
        return None
    if isinstance(ty, dict) and "cfg" in ty:
        return None  # handled at node level
    nv = diff_scalar(rng, ty, lib, v)
    if nv is None:
        return None
    return nv, "scalar"


def _is_meta_ref(g, v):
    return isinstance(v, dict) and "r" in v and g["nodes"][v["r"]]["meta"] is True


def signature_edit(rng, lib, g, node=None, kinds=None):
    """returns (g', info) where info['node'] is the node whose own identifier must change"""
    g = copy.deepcopy(g)
    order = list(range(len(g["nodes"]))) if node is None else [node]
    rng.shuffle(order)
    for n in order:
        nd = g["nodes"][n]
        if nd["cls"] in ("LW", "LW2") and node is None:
            continue
        args = cfggen.all_args(lib, nd["cls"])
        vals = values_dict(nd)
        cands = [a for a in args if a["decl"] == "param" and a["ty"] != "path"]
        rng.shuffle(cands)
        opts = kinds or ["value", "value", "value", "sibling", "pretask", "init", "taskout", "twin", "pre2init", "constheld"]
        opts = list(opts)
        rng.shuffle(opts)
        if kinds is None and rng.random() < 0.75:  # prefer edits of parameter values
            opts = ["value", "sibling"] + [o for o in opts if o not in ("value", "sibling")]
        if kinds is None and rng.random() < 0.15:
            opts = ["constheld"] + [o for o in opts if o != "constheld"]
        for o in opts:
            if o in ("value", "scalar"):
                for a in cands:
                    if o == "scalar" and not isinstance(a["ty"], str):
                        continue
                    old = effective(a, vals)
                    if isinstance(a["ty"], dict) and "cfg" in a["ty"]:
                        continue
                    if old is None:
                        if isinstance(a["ty"], str) or "enum" in a["ty"]:
                            nv = cfggen.gen_scalar(rng, a["ty"], lib)
                            if "default" in a and (nv == a["default"] or (_num(nv) is not None and _num(nv) == _num(a["default"]))):
                                continue
                            set_value(nd, a["name"], nv)
                            return g, {"node": n, "arg": a["name"], "kind": "set-unset-optional", "unamb": True}
                        continue
                    e = edit_value(rng, lib, a["ty"], old, g, n)
                    if e is None or strip_meta(g, e[0]) == strip_meta(g, old):
                        continue
                    set_value(nd, a["name"], cfggen.materialize(g["nodes"], e[0]))
                    return g, {"node": n, "arg": a["name"], "kind": e[1], "unamb": ty_unamb(a["ty"])}
            if o == "constheld":
                # the configuration *holds* another value for a Constant parameter than its class declares (a file saved under
                # an earlier version of the class and loaded now; copyconfig with an override)
                e = hold_constant_edit(rng, lib, g, n)
                if e is not None:
                    return g, e
            if o == "sibling":
                # move a value to a sibling parameter of the same type
                for a in cands:
                    for b in cands:
                        if a is not b and a["ty"] == b["ty"] and isinstance(a["ty"], str):
                            va, vb = effective(a, vals), effective(b, vals)
                            if va is not None and vb is not None and va != vb and not (_num(va) is not None and _num(va) == _num(vb)):
                                set_value(nd, a["name"], vb)
                                set_value(nd, b["name"], va)
                                return g, {"node": n, "arg": a["name"], "kind": "swap-sibling-parameters", "unamb": True}
            if o == "pretask":
                if nd["pre"] and rng.random() < 0.5:
                    nd["pre"] = nd["pre"][:-1]
                    # the same object may still be collected elsewhere in the graph: only a fresh one is decisive
                    continue
                g["nodes"].append({"cls": "LW", "values": [["v", rng.choice([11, 12, 13, 14])]], "meta": None, "pre": [], "init": [], "task": None})
                nd["pre"] = nd["pre"] + [len(g["nodes"]) - 1]
                return g, {"node": n, "kind": "pretask-added", "unamb": True, "full_only": True}
            if o == "pre2init" and nd["pre"]:
                p = nd["pre"][-1]
                elsewhere = any(p in x["pre"] for i, x in enumerate(g["nodes"]) if i != n)
                if not elsewhere and p not in nd["init"]:
                    nd["pre"] = nd["pre"][:-1]
                    nd["init"] = nd["init"] + [p]
                    return g, {"node": n, "kind": "pretask-moved-to-init-tasks", "unamb": True, "full_only": True}
            if o == "init" and len(nd["init"]) >= 2:
                a, b = nd["init"][0], nd["init"][1]
                if g["nodes"][a] != g["nodes"][b]:
                    nd["init"][0], nd["init"][1] = b, a
                    return g, {"node": n, "kind": "init-tasks-permuted", "unamb": True, "full_only": True}
            if o == "taskout":
                tasks = [i for i, x in enumerate(g["nodes"]) if cls_of(lib, x["cls"])["kind"] == "task" and i != n]
                if cls_of(lib, nd["cls"])["kind"] == "config" and tasks:
                    cur = nd["task"]
                    other = [t for t in tasks if t != cur]
                    if other:
                        nd["task"] = rng.choice(other)
                        return g, {"node": n, "kind": "producing-task-changed", "unamb": True}
            if o == "twin":
                twin = next((c["name"] for c in lib["classes"] if c.get("twin_of") == nd["cls"]), None)
                referenced = any(n in _all_refs(x) for x in g["nodes"])
                if twin and not referenced:
                    nd["cls"] = twin
                    return g, {"node": n, "kind": "type-identifier-changed", "unamb": True}
    return None


def hold_constant_edit(rng, lib, g, n):
    """in place: node n holds another value for one of its Constant parameters (scalars only); None if it has none or the node is
    referenced before it exists (cycles are closed by later assignments on the object that is replaced here)"""
    nd = g["nodes"][n]
    consts = [a for a in cfggen.all_args(lib, nd["cls"]) if a["decl"] == "constant" and isinstance(a["ty"], str)]
    if not consts or str(n) in (g.get("constset") or {}) or str(n) in (g.get("loaded") or {}):
        return None
    if any(r >= n for _, v in nd["values"] for r in _all_refs({"values": [["", v]], "pre": [], "init": [], "task": None})):
        return None
    if any(n in _all_refs(x) for i, x in enumerate(g["nodes"]) if i <= n):
        return None
    a = rng.choice(consts)
    for _ in range(8):
        nv = cfggen.gen_scalar(rng, a["ty"], lib)
        if nv != a["default"] and not (_num(nv) is not None and _num(nv) == _num(a["default"])):
            g.setdefault("constset", {})[str(n)] = {"via": rng.choice(["state", "copyconfig"]), "vals": [[a["name"], nv]]}
            return {"node": n, "arg": a["name"], "kind": "constant-held-value", "unamb": True}
    return None


def _all_refs(nd):
    out = []

    def go(v):
        if isinstance(v, dict):
            if "r" in v:
                out.append(v["r"])
            for x in v.get("l", []):
                go(x)
            for _, x in v.get("d", []):
                go(x)

    for _, v in nd["values"]:
        go(v)
    return out + nd["pre"] + nd["init"] + ([nd["task"]] if nd["task"] is not None else [])


def strip_meta(g, v):
    """the value as the signature sees it: meta=True members of lists and dicts removed (at any depth)"""
    if isinstance(v, dict):
        if "l" in v:
            return {"l": [strip_meta(g, x) for x in v["l"] if not _is_meta_ref(g, x)]}
        if "d" in v:
            return {"d": sorted([[k, strip_meta(g, x)] for k, x in v["d"] if not _is_meta_ref(g, x)], key=lambda kv: kv[0])}
    return v
