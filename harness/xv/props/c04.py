"""C04 — no job is launched before everything it depends on has succeeded (scheduling part; dependency collection is checked by xv.props.c04deps)."""
from .. import common
from . import _sched

PROP = "C04"
MODULES = ["XpmVerif.Properties.C04"]
GEN = dict(max_jobs=7, max_tokens=2, resubmit=True, markers=True, fail_p=0.2)
RULE = ('random DAG workloads (<= 7 jobs, <= 2 tokens, failures, markers, duplicates) x random schedules on the real Scheduler + exhaustive schedules of 5 small workloads; monitor: at every launch all upstream jobs have been DONE; non-trivial = some dependency and >= 2 out-of-FIFO deliveries')


def prove(ctx):
    from ..translate import depsrc
    m = depsrc.generate(common.REPO, common.LEAN)
    ctx.notes.append(f"translator(depsrc: plan of dependency collection at submission): {m[1]}")
    ctx.extra_cov["translator_fallbacks_depsrc"] = m[1].count("UNTRANSLATED") + (1 if m[1].startswith("untranslated") else 0)
    _sched.prove(ctx, MODULES, extra_msgs=[m])


def correspond(ctx):
    _sched.run(ctx, PROP, GEN, RULE, 1500, 25000)


def search(ctx):
    _sched.search(ctx, PROP, GEN)


def run_witness(ctx, finding):
    if common.run_script_witness(ctx, finding):
        return
    _sched.run_witness(ctx, PROP, finding)


def replay(ctx, obj):
    return _sched.replay_events(ctx, PROP, obj)


# ---------------------------------------------------------------------------------------------
# second sentence of the property: dependency collection at submission (updatedependencies)

MODULES = ["XpmVerif.Properties.C04", "XpmVerif.Properties.C04Deps", "XpmVerif.Properties.C04DepsSrc"]
POSITIONS = ["a", "items", "m", "ma", "h.inner", "h.sub.inner", "h.sub.sub.items", "hs.inner", "hs.items", "o", "os", "mo", "h.out",
             "pre", "pre.hs", "init", "explicit", "o.pre", "o.pre", "h.loaded", "h.loaded"]


def gen_dep_cases(rng, n):
    cases = []
    for c in range(n):
        tasks = []
        for i in range(rng.randint(2, 6)):
            emb = [[rng.choice(POSITIONS), j] for j in range(i) if rng.random() < 0.5]
            emb = [e + [rng.randrange(i)] if e[0] in ("o.pre", "h.loaded") else e for e in emb]
            cls = rng.choice(["G", "GO", "GO", "GPT"])
            if cls == "GPT":
                # pass-through task: its parameter `o` is the output of an upstream task (when there is one)
                ups = [j for j in range(i) if tasks[j]["cls"] in ("GO", "GPT")]
                if ups:
                    j = rng.choice(ups)
                    emb = [["o", j]] + [e for e in emb if not (e[0] in ("o", "o.pre") and True)]
            tasks.append({"cls": cls, "k": i * 1000 + c, "embeds": emb, "copy": rng.random() < 0.2,
                          # who adds the explicit dependencies: the user (add_dependencies) or a submit listener of the launcher
                          # ("this allows the launcher to add token dependencies", launchers/__init__.py)
                          "via": rng.choice(["add", "add", "listener"])})
        cases.append({"tasks": tasks})
    return cases


def deps_monitor(ctx, case, rec):
    for i, (exp, act) in enumerate(zip(rec["expected"], rec["actual"])):
        missing = sorted(set(exp) - set(act))
        if missing:
            where = [e[0] for e in case["tasks"][i]["embeds"] if e[1] in missing] or ["pre-task of a task output"]
            ctx.monitor_fail(f"dependency-not-collected:{where[0]}",
                             f"task {i} embeds upstream task(s) {missing} at {where} but submit attached only dependencies {act}",
                             {"deps_case": case, "task": i})
            return


def _deps_part(ctx, n):
    from .. import identlib
    rng = ctx.rng
    cases = gen_dep_cases(rng, n)
    tmp = ctx.tmpdir()
    parts, k = identlib.split(list(enumerate(cases)), 8)
    from concurrent.futures import ThreadPoolExecutor
    recs = [None] * len(cases)
    with ThreadPoolExecutor(max_workers=8) as ex:
        futs = [(part, ex.submit(identlib.run_worker, {"cases": [c for _, c in part]}, tmp, f"deps-{pi}", None, "xv.impl.deps_worker"))
                for pi, part in enumerate(parts)]
        for part, f in futs:
            for (ci, _), r in zip(part, f.result()):
                recs[ci] = r
    good = []
    for case, rec in zip(cases, recs):
        if rec["error"]:
            ctx.count("deps_case_errors", rec["error"][:60])
            continue
        for t in case["tasks"]:
            for e in t["embeds"]:
                ctx.count("embed_position", e[0])
        ctx.case({"deps_case": case}, any(len(t["embeds"]) >= 2 for t in case["tasks"]))
        deps_monitor(ctx, case, rec)
        good.append((case, rec))
    if len(good) < len(cases) * 0.9 and not ctx.monitor_failures:
        raise RuntimeError(f"too many failing dependency cases: {next(r['error'] for r in recs if r['error'])}")
    try:
        mouts = identlib.model_outputs(ctx, [r for _, r in good])
    except Exception as e:
        ctx.disagree({"driver": "Ident(deps)"}, None, None, f"model driver failed: {e}")
        return
    for (c, r), mo in zip(good, mouts):
        for line, m, im in zip(r["lines"], mo, r["impl"]):
            if m != im:
                ctx.disagree({"deps_case": c, "line": line if line["op"] != "graph" else "graph"}, m, im,
                             "dependencies collected by the model differ from the real submit")
                break


_base_correspond = correspond
_base_search = search


def correspond(ctx):  # noqa: F811
    # real experiments whose jobs go through different launchers (direct / Slurm with the whole sacct life of a job): real job
    # processes, started first and collected last so that they run while the single-stepped parts use the other cores
    from . import c04x_launchers
    collect = c04x_launchers.start(ctx, ctx.scale(LAUNCHER_CASES_QUICK, LAUNCHER_CASES_THOROUGH))
    try:
        _base_correspond(ctx)
        _sched.restart_part(ctx, PROP, ctx.scale(300, 3000))
        ctx.rule += ("; + dependency collection: 2-6 really submitted (dry-run) tasks, each embedding earlier ones at random positions (direct, list, dict, Meta, nested "
                     "configuration 1-3 deep, list of nested, task output direct/list/dict/nested, pre-task, pre-task's nested configuration, init task, explicit, "
                     "inside a *loaded* configuration that keeps the task that once produced it)")
        _deps_part(ctx, ctx.scale(120, 1500))
    except BaseException:
        collect()
        raise
    c04x_launchers.finish(ctx, collect)


def search(ctx):  # noqa: F811
    _base_search(ctx)
    if not ctx.monitor_failures:
        _deps_part(ctx, 600)
    if not ctx.monitor_failures:
        from . import c04x_launchers
        c04x_launchers.part(ctx, 36)


LAUNCHER_CASES_QUICK, LAUNCHER_CASES_THOROUGH = 18, 120
_base_replay = replay


def replay(ctx, obj):  # noqa: F811
    from . import c04x_launchers
    rc = 0
    mine = [f for f in obj.get("failures", []) if f["case"].get("engine") == "launchers"]
    for f in mine:
        fails = c04x_launchers.replay(ctx, f["case"])
        print("replay:", [w[:400] for _, w in fails[:2]] if fails else "no failure on this tree")
        if fails:
            rc = 1
            print(f"VIOLATION property={PROP} replay=(replayed)")
    return max(rc, _base_replay(ctx, dict(obj, failures=[f for f in obj.get("failures", []) if f not in mine])))
