import XpmVerif.Proofs.FileTokRelease
/-! C08, file-based part: the capacity statements re-proved when `CounterToken.release` is *not* atomic — recount and
    cache update first (`relBegin`), `TokenFile.delete` = `unlink(missing_ok=True)` afterwards (`relEnd`) — and the watcher
    thread of another process, which takes no IPC lock, unlinks the same file in between (the window of finding F30).
    `Reachable2 cfg s rel` (`Proofs/FileTokRelease.lean`) = the step relation of `Model/FileTokens.lean` plus that window. -/
namespace XpmVerif.C08Release
open XpmVerif.FileTokens

/-- every state of the atomic model is a state of the extended one. -/
theorem reachable_reachable2 (cfg : Cfg) (s : St) (r : Reachable cfg s) : Reachable2 cfg s none := by
  induction r with
  | init => exact .init
  | step e _ en ih => exact .step e ih en

/-- C08 "at no instant … more than the token's total", with the two-step release: in every state, the open window
    included, the token files record at most the total. -/
theorem disk_capacity_two_step (cfg : Cfg) (s : St) (rel) (r : Reachable2 cfg s rel) : diskSum cfg s ≤ cfg.total :=
  (reachable2_inv cfg s rel r).1.cap

/-- the jobs that hold the token all have their file, are distinct, and ask at most the total — also while a release is
    between its cache update and its unlink, and whoever unlinks first. -/
theorem running_capacity_two_step (cfg : Cfg) (s : St) (rel) (r : Reachable2 cfg s rel) :
    (∀ f ∈ s.active, f ∈ names s.disk) ∧ s.active.Nodup ∧ sumReq cfg.req s.active ≤ cfg.total := by
  have h := (reachable2_inv cfg s rel r).1
  exact ⟨h.activeDisk, h.nodupActive,
    Nat.le_trans (sumReq_le_of_subset cfg.req _ _ h.nodupActive h.activeDisk) h.cap⟩

/-- the in-memory counters never under-estimate, in the window too. -/
theorem mem_overapprox_two_step (cfg : Cfg) (s : St) (rel) (r : Reachable2 cfg s rel) (p : Proc) :
    (s.procs p).avail + (sumReq cfg.req (s.procs p).cache : Nat) + (inflight cfg s p : Nat) ≥ (cfg.total : Int) :=
  (reachable2_inv cfg s rel r).1.over p

/-- the two halves without interference are the atomic release. -/
theorem two_step_is_release (cfg : Cfg) (s : St) (p : Proc) (f : Name) (hf : f ∈ names s.disk) :
    (relBegin cfg s p f).2 = true ∧ (relEnd (relBegin cfg s p f).1 f).1 = (apply cfg s (.release p f)).1 :=
  ⟨(relEnd_relBegin_eq_release cfg s p f hf).1, (relEnd_relBegin_eq_release cfg s p f hf).2.1⟩

/-- the race itself: a foreign watcher unlinking between the halves of a release that had the file in its cache leaves
    exactly the state of "reclaim, then a release that finds nothing" of the atomic model (this is the linearisation the
    correspondence check uses when it injects the race into the real `release`). -/
theorem release_race_is_reclaim_then_release (cfg : Cfg) (s : St) (r : Reachable cfg s) (p q : Proc) (f : Name) (hpq : q ≠ p)
    (hc : f ∈ (s.procs p).cache) (hf : f ∈ names s.disk) (hfa : f ∉ s.active) :
    let two := relEnd (apply cfg (relBegin cfg s p f).1 (.reclaim q f)).1 f
    let lin := apply cfg (apply cfg s (.reclaim q f)).1 (.release p f)
    two.2 = false ∧ lin.2.ok = false ∧ two.1.disk = lin.1.disk ∧ two.1.active = lin.1.active ∧ two.1.ipc = lin.1.ipc ∧
    ∀ r, two.1.procs r = lin.1.procs r :=
  release_race_linearised cfg s p q f (reachable_inv cfg s r) hpq hc hf hfa

/-! ### non-vacuity: process 1 watches file 7 of process 0; the job ends; process 0 starts its release, process 1 unlinks,
    process 0 finds nothing -/

example : Reachable2 cfgFixed (relEnd (apply cfgFixed (relBegin cfgFixed (run cfgFixed (init cfgFixed) evsW) 0 7).1 (.reclaim 1 7)).1 7).1 none := by
  have r0 : Reachable cfgFixed (run cfgFixed (init cfgFixed) evsW) := reachable_run cfgFixed evsW _ .init (by decide +kernel)
  have r1 := Reachable2.relBegin (cfg := cfgFixed) 0 7 (reachable_reachable2 _ _ r0) (by decide +kernel) (by decide +kernel)
  have r2 := Reachable2.inWindow (cfg := cfgFixed) (.reclaim 1 7) r1 (by decide +kernel) (by decide +kernel)
  exact Reachable2.relEnd r2
example : let s := run cfgFixed (init cfgFixed) evsW
    7 ∈ (s.procs 0).cache ∧ 7 ∈ names s.disk ∧ 7 ∉ s.active ∧ enabled (relBegin cfgFixed s 0 7).1 (.reclaim 1 7) = true ∧
    (relEnd (apply cfgFixed (relBegin cfgFixed s 0 7).1 (.reclaim 1 7)).1 7).2 = false := by decide +kernel


/-! ### what the atomic `reclaim` hides: the real watcher thread decides under the job lock and unlinks afterwards -/

/-- negative witness (finding of this round, reproduced on the real code by `harness/xv/impl/c08x_stale_watcher_witness.py`):
    when the unlink of a watcher thread is separated from its decision (`watchDecide` … `watchUnlink`, which is what
    `TokenFile.watch` does: the job lock is given back before `self.delete()`), the owner can give the token back and take it
    again for the same job in between; the stale thread then removes the file of the *running* job (`7 ∈ active`, no file),
    process 1 takes the token of total 1 for job 8, and the jobs that hold the token ask 2 > 1.  Every step is enabled; the
    decision itself is legitimate (`reclaim` is enabled when it is taken).  With the atomic `reclaim` of the model this
    state is unreachable (`C08Files.running_capacity`): the guard `f ∉ active` of the model is an assumption the source
    does not implement. -/
theorem stale_watcher_unlink_breaks_capacity :
    let s0 := run cfgFixed (init cfgFixed) evsW
    let s1 := watchDecide s0 1 7
    let s2 := run cfgFixed s1 evsRetry
    let s3 := watchUnlink s2 7
    let s4 := run cfgFixed s3 evsSecond
    allEnabled cfgFixed (init cfgFixed) evsW = true ∧ enabled s0 (.reclaim 1 7) = true ∧
    allEnabled cfgFixed s1 evsRetry = true ∧ 7 ∈ s2.active ∧ 7 ∈ names s2.disk ∧
    7 ∈ s3.active ∧ 7 ∉ names s3.disk ∧
    allEnabled cfgFixed s3 evsSecond = true ∧ s4.active = [8, 7] ∧ sumReq cfgFixed.req s4.active = 2 ∧ cfgFixed.total = 1 := by
  decide +kernel

end XpmVerif.C08Release
