import XpmVerif.Model.XpIndexFine
import XpmVerif.Proofs.XpIndex
/-! C16 — source obligations: facts about the statement sequences that `harness/xv/translate/xpindexsrc.py`
    reads off `experiment.__enter__`, `experiment.__exit__` and the link step of `Scheduler.aio_submit`
    (`Generated/XpIndexSrc.lean`, rewritten from the tree under test on every run).  Each is a statement about
    finite generated data, checked by evaluation; the theorems of `Properties/C16Fine.lean` hold for the model
    whose programs *are* these sequences, and the last three theorems show that the steps of the coarse model
    `XpIndex` (Properties/C16.lean) are the fold of the same sequences. -/
namespace XpmVerif.C16Src
open XpmVerif.XpEff XpmVerif.Gen XpmVerif.XpFine

def effs (l : List GEff) : List Eff := l.map (·.eff)
def isRotate : Eff → Bool
  | .rotate _ _ _ => true
  | _ => false

/-- **The lock comes first** (third sentence of C16; seeded change C16c): in `__enter__`, `takeLock` is listed
    before `mkBak` and before the rotation loop, it is executed in every mode in which they are, and in no run
    mode is `jobs` or `jobs.bak` written before the process owns the lock. -/
theorem lock_precedes_rotation :
    (effs enterSeq).idxOf .takeLock < (effs enterSeq).idxOf .mkBak ∧
    (effs enterSeq).idxOf .takeLock < (effs enterSeq).findIdx isRotate ∧
    (effs enterSeq).findIdx isRotate < enterSeq.length ∧
    (∀ m, guarded false (enterProg m) = true) ∧
    (∀ m, m ≠ Mode.dryRun → Eff.takeLock ∈ enterProg m) := by
  refine ⟨by decide, by decide, by decide, fun m => ?_, fun m hm => ?_⟩
  · cases m <;> decide
  · cases m <;> first | decide | exact absurd rfl hm

/-- **The backup is dropped only without an exception** (first / second sentence of C16): every `dropBak` of
    `__exit__` is under `exc_type is None` and `run_mode == NORMAL`; a normal run that ends without an
    exception does drop it; no run that ends by an exception, and no `__enter__`, has a `dropBak`. -/
theorem backup_dropped_only_without_exception :
    (∀ g, g ∈ exitSeq → g.eff = .dropBak → g.exc = .noExc ∧ g.guard = .normalOnly) ∧
    Eff.dropBak ∈ exitProg .normal false ∧
    (∀ m, Eff.dropBak ∉ exitProg m true) ∧ (∀ m, Eff.dropBak ∉ enterProg m) := by
  refine ⟨by decide, by decide, fun m => ?_, fun m => ?_⟩ <;> cases m <;> decide

/-- **The lock is released last, in the `finally`** : `__exit__` releases the lock in every mode and for every
    outcome (the statement sits in the `finally`, unguarded), after its last write to the index; at the end
    of `__exit__` the process does not own the lock. -/
theorem lock_released_last :
    (∀ g, g ∈ exitSeq → g.eff = .releaseLock → g.fin = true ∧ g.guard = .always ∧ g.exc = .any) ∧
    Eff.releaseLock ∈ effs exitSeq ∧
    (∀ m exc, guarded (m != .dryRun) (exitProg m exc) = true) ∧
    (∀ m exc, finalLk (m != .dryRun) (exitProg m exc) = false) := by
  refine ⟨by decide, by decide, fun m exc => ?_, fun m exc => ?_⟩ <;> cases m <;> cases exc <;> decide

/-- **The lock file is never removed** (seeded change C16-lockunlink: unlinking `xp/<name>/lock` while holding
    it lets the next process lock a fresh inode). -/
theorem lock_file_not_unlinked : Eff.unlinkLockFile ∉ effs enterSeq ++ effs exitSeq := by decide

/-- **Rotation rule** (seeded change C16b): a link of `jobs` whose name `jobs.bak` already has is unlinked,
    any other link is renamed into `jobs.bak`, a path that is not a link is left alone; and a normal run has
    such a loop. -/
theorem duplicate_in_backup_unlinked :
    (∀ g d f o, g ∈ enterSeq → g.eff = .rotate d f o → d = .unlink ∧ f = .rename ∧ o = .skip ∧ g.guard = .normalOnly) ∧
    (enterProg .normal).any isRotate = true := by
  refine ⟨?_, by decide⟩
  intro g d f o hg he
  have hall : enterSeq.all (fun g => match g.eff with
      | .rotate d f o => d == .unlink && f == .rename && o == .skip && g.guard == .normalOnly
      | _ => true) = true := by decide
  have := List.all_eq_true.1 hall g hg
  rw [he] at this
  simp at this
  exact ⟨this.1.1.1, this.1.1.2, this.1.2, this.2⟩

/-- **The link of a submitted job is refreshed** (seeded changes C06b, C07d, C16d): the link step of
    `aio_submit` is, in its first segment (before the first `await`): make the parent directory, unlink the
    path if it *is a symbolic link* (dangling or not), create the link to the job directory unconditionally. -/
theorem link_refreshed_by_is_symlink :
    linkProg = [.mkParent, .unlinkIf .isSymlink, .symlinkIf .always] ∧ linkInFirstSegment = true := by decide

/-- **The coarse `enter` is the fold of the generated sequence**: executing the statements of `__enter__` a
    normal run lets through, each as one step (`wholeEff`: a loop runs to its end), on a state whose lock is
    free gives exactly the `enter` step of the coarse model `XpIndex` (about which Properties/C16.lean speaks). -/
theorem enter_is_fold (s : XpIndex.St) (p : XpIndex.Proc) (h : s.lock = none) :
    (enterProg .normal).foldl (wholeEff p) s = XpIndex.step s (.enter p) := by
  simp [enterProg, select, Gen.enterSeq, Guard.holds, ExcCond.holds, wholeEff, XpIndex.step, h, XpIndex.bakList]

/-- … the coarse `exitOk` agrees with the fold of `__exit__` without exception on `jobs`, `jobs.bak`, lock
    (the other fields of the coarse state are history variables) … -/
theorem exit_ok_is_fold (s : XpIndex.St) (p : XpIndex.Proc) (h : p ∈ s.inside) :
    let a := (exitProg .normal false).foldl (wholeEff p) s
    let b := XpIndex.step s (.exitOk p)
    a.jobs = b.jobs ∧ a.bak = b.bak ∧ a.lock = b.lock := by
  simp [exitProg, select, Gen.exitSeq, Guard.holds, ExcCond.holds, wholeEff, XpIndex.step, h]

/-- … and `exitExc` with the fold of `__exit__` with an exception. -/
theorem exit_exc_is_fold (s : XpIndex.St) (p : XpIndex.Proc) (h : p ∈ s.inside) :
    let a := (exitProg .normal true).foldl (wholeEff p) s
    let b := XpIndex.step s (.exitExc p)
    a.jobs = b.jobs ∧ a.bak = b.bak ∧ a.lock = b.lock := by
  simp [exitProg, select, Gen.exitSeq, Guard.holds, ExcCond.holds, wholeEff, XpIndex.step, h]

/-- the folds are not trivial: a state with two links, one of them a duplicate -/
example : ((enterProg .normal).foldl (wholeEff 1)
    { XpIndex.init with jobs := [⟨1, 1⟩, ⟨2, 2⟩], bak := some [⟨2, 2⟩, ⟨3, 3⟩] }).bak = some [⟨2, 2⟩, ⟨3, 3⟩, ⟨1, 1⟩] := by
  decide

end XpmVerif.C16Src
