import XpmVerif.Proofs.SpecsLex
import XpmVerif.Model.SpecsFind
/-! C18 — "alternatives are tried in the order given", for `LauncherRegistry.find`. -/
namespace XpmVerif.C18Find
open XpmVerif.Specs

/-- **what "tried in the order given" means in `find`**: the answer is launcher `l` exactly when some entry `i` of the
    flattened list makes the user function return `l` and every earlier entry made it return nothing; no later entry,
    no score and no priority can change that. -/
theorem find_first_alternative {ρ L : Type} (fn : ρ → Option L) (specs : List ρ) (l : L) :
    findLoop fn specs = some l ↔
      ∃ i, ∃ h : i < specs.length, fn specs[i] = some l ∧ ∀ j, ∀ hj : j < i, fn (specs[j]'(by omega)) = none := by
  induction specs with
  | nil => simp [findLoop]
  | cons s rest ih =>
    simp only [findLoop]
    cases hs : fn s with
    | some l' =>
      constructor
      · intro h; injection h with h; subst h
        exact ⟨0, by simp, by simpa using hs, by intro j hj; omega⟩
      · rintro ⟨i, hi, hfi, hbefore⟩
        cases i with
        | zero => simp [hs] at hfi; simp [hfi]
        | succ k => have := hbefore 0 (by omega); simp [hs] at this
    | none =>
      simp only []
      rw [ih]
      constructor
      · rintro ⟨i, hi, hfi, hbefore⟩
        refine ⟨i + 1, by simp; omega, by simpa using hfi, ?_⟩
        intro j hj
        cases j with
        | zero => simpa using hs
        | succ k => simpa using hbefore k (by omega)
      · rintro ⟨i, hi, hfi, hbefore⟩
        cases i with
        | zero => simp [hs] at hfi
        | succ k =>
          refine ⟨k, by simp at hi; omega, by simpa using hfi, ?_⟩
          intro j hj
          simpa using hbefore (j + 1) (by omega)

/-- nothing is found exactly when the user function refuses every entry. -/
theorem find_none_iff {ρ L : Type} (fn : ρ → Option L) (specs : List ρ) :
    findLoop fn specs = none ↔ ∀ s ∈ specs, fn s = none := by
  induction specs with
  | nil => simp [findLoop]
  | cons s rest ih =>
    simp only [findLoop]
    cases hs : fn s with
    | some l => simp [hs]
    | none => simp [hs, ih]

/-- **a text contributes its alternatives in the order written**: `find(text)` for the text of the request `a` (any
    padding) asks the user function about the alternatives of `a` from left to right. -/
theorem find_text_in_order {L : Type} (a : List (List Specs.Term)) (hne : a ≠ [])
    (hok : ∀ c ∈ a, c ≠ [] ∧ c.all termOK = true) (ws : Nat → List Char) (hws : ∀ i, ∀ c ∈ ws i, isWs c = true)
    (direct : L) (fn : Req → Option L) :
    registryFind true direct evalText fn [.text (renderText a ws)] = (evalAlt a).map (findLoop fn) := by
  have h : evalText (renderText a ws) = evalAlt a := by
    unfold evalText parseText
    rw [lexText_renderText a ws hws]
    simp only [Option.bind_some, parseToks]
    rw [parseAlts_render a _ hne hok (by have := renderAlts_length' a (fun c hc => (hok c hc).1); omega)]
    rfl
  simp only [registryFind, if_true, flattenSpecs, h]
  cases evalAlt a <;> simp

/-- programmatic arguments keep their position: `find(r₁, r₂, …)` asks about `r₁` first. -/
theorem find_reqs_in_order {ρ L : Type} (direct : L) (parse : String → Option (List ρ)) (fn : ρ → Option L) (rs : List ρ) :
    registryFind true direct parse fn (rs.map FindArg.req) = some (findLoop fn rs) := by
  have : flattenSpecs parse (rs.map FindArg.req) = some rs := by
    induction rs with
    | nil => rfl
    | cons r rest ih => simp [flattenSpecs, ih]
  simp [registryFind, this]

/-- non-vacuity: the second entry is taken when the first is refused, whatever comes later. -/
example : findLoop (fun n : Nat => if n % 2 = 0 then some (n * 10) else none) [3, 4, 6] = some 40 := by decide

end XpmVerif.C18Find
