import XpmVerif.Model.Ident
/-! M1 (`sig_deprecated`) and M10 (`fix_deprecated`) — C20.

    Part (a): `core/types.py::ObjectType.deprecate` (l.429-441) — a deprecated class takes the type
    identifier its single parent has *at that moment* (`self.identifier = parent.identifier`); with the
    `@deprecate` decorator this happens at class-definition time, i.e. parents first.  A class table gives
    every class its own identifier and, when deprecated, the index of its parent (the replacement);
    `eff` is the identifier the class ends up with; a configuration graph over class indices (`CGraph`)
    becomes a `Graph` of Model/Ident.lean by taking `typeId := eff classes cls`.

    Part (b): `tools/jobs.py::fix_deprecated(workpath, fix, cleanup)` (l.23-91) on the jobs tree
    `jobs/<type dir>/<identifier dir>`.  Import-free apart from Model/Ident, executable. -/
namespace XpmVerif.Deprecated
open XpmVerif.Ident

/-! ## (a) class table and deprecated classes -/

structure ClassDecl where
  ownId : List Nat                      -- the class's own `__xpmid__` (UTF-8 bytes)
  deprecatedOf : Option Nat := none     -- `some p`: `deprecate()` was called, `p` = index of the single parent
  deriving Repr, Inhabited

def ClassDecl.dflt : ClassDecl := { ownId := [] }

def cdecl (cs : List ClassDecl) (c : Nat) : ClassDecl := cs.getD c ClassDecl.dflt

/-- identifier of class `c` after the class table has been processed in definition order
    (a parent is always defined, and — if it is itself deprecated — deprecated, before its children:
    `p < c`; the guard makes the function total on any table). -/
def effAt (cs : List ClassDecl) : Nat → Nat → List Nat
  | 0, c => (cdecl cs c).ownId
  | fuel + 1, c =>
    match (cdecl cs c).deprecatedOf with
    | some p => if p < c then effAt cs fuel p else (cdecl cs c).ownId
    | none => (cdecl cs c).ownId

/-- `xpmtype.identifier` of class `c` (the fuel `c` suffices: indices strictly decrease). -/
def eff (cs : List ClassDecl) (c : Nat) : List Nat := effAt cs c c

/-- the class a deprecated class stands for, one step (`basetype.__bases__[0]`). -/
def replacement (cs : List ClassDecl) (c : Nat) : Nat :=
  match (cdecl cs c).deprecatedOf with
  | some p => if p < c then p else c
  | none => c

/-- the non-deprecated class at the end of the chain. -/
def ultimateAt (cs : List ClassDecl) : Nat → Nat → Nat
  | 0, c => c
  | fuel + 1, c => ultimateAt cs fuel (replacement cs c)

def ultimate (cs : List ClassDecl) (c : Nat) : Nat := ultimateAt cs c c

/-- a configuration object: its class and what Model/Ident's `Node` holds besides the type identifier.
    A deprecated class declares no argument of its own, so the argument list is that of the replacement. -/
structure CNode where
  cls : Nat
  args : List Arg
  task : Option Nat := none
  mflag : Option Bool := none
  preTasks : List Nat := []
  initTasks : List Nat := []
  deriving Repr, Inhabited

structure CGraph where
  classes : List ClassDecl
  nodes : List CNode
  deriving Repr, Inhabited

def CNode.toNode (cs : List ClassDecl) (n : CNode) : Node :=
  { typeId := eff cs n.cls, args := n.args, task := n.task, mflag := n.mflag, sealed := false,
    preTasks := n.preTasks, initTasks := n.initTasks }

def CGraph.toGraph (g : CGraph) : Graph := { nodes := g.nodes.map (CNode.toNode g.classes) }

/-- re-class the selected nodes with `r` (e.g. `replacement cs` or `ultimate cs`). -/
def reclassWith (r : Nat → Nat) (sel : Nat → Bool) (g : CGraph) : CGraph :=
  { g with nodes := g.nodes.mapIdx (fun i n => if sel i then { n with cls := r n.cls } else n) }

def reclass (sel : Nat → Bool) (g : CGraph) : CGraph := reclassWith (replacement g.classes) sel g

def cRawId {D : Type} (hc : HC D) (g : CGraph) (n : Nat) : D := rawId hc g.toGraph n
def cFullId {D : Type} (hc : HC D) (g : CGraph) (n : Nat) : D := fullId hc g.toGraph n

/-! ## (b) the jobs tree and `fix_deprecated` -/

/-- a job location `jobs/<type dir>/<identifier dir>` (names interned as numbers). -/
abbrev Key := Nat × Nat

/-- what `params.json` of a job directory gives: no such file, a file that cannot be loaded
    (`load_job` returns `None`), or a configuration whose recomputed location is `nk`
    (`str(job.__xpmtype__.identifier)`, `job.__xpm__.identifier.all.hex()`). -/
inductive Params where
  | absent
  | broken
  | ok (nk : Key)
  deriving Repr, DecidableEq, Inhabited

inductive Entry where
  | dir (data : Nat) (p : Params)       -- a real directory; `data` identifies its content
  | link (tgt : Key)                    -- a symbolic link to another job location
  deriving Repr, DecidableEq, Inhabited

abbrev Tree := Key → Option Entry

def upd (t : Tree) (k : Key) (v : Option Entry) : Tree := fun i => if i = k then v else t i

/-- `Path.resolve()` / `exists()`: follow links (at most `fuel` of them, `ELOOP` beyond). -/
def resolve (t : Tree) : Nat → Key → Option Key
  | 0, _ => none
  | fuel + 1, k =>
    match t k with
    | some (.dir _ _) => some k
    | some (.link g) => resolve t fuel g
    | none => none

/-- Linux follows at most 40 nested symbolic links. -/
def depth : Nat := 41

def isLink (t : Tree) (k : Key) : Bool :=
  match t k with
  | some (.link _) => true
  | _ => false

/-- `k/params.json` exists (through links): what `jobspath.glob("*/*/params.json")` yields. -/
def globbed (t : Tree) (k : Key) : Bool :=
  match resolve t depth k with
  | some k' =>
    (match t k' with
     | some (.dir _ .absent) => false
     | some (.dir _ _) => true
     | _ => false)
  | none => false

/-- first pass (only when `cleanup`): a symbolic link through which a `params.json` is seen is removed. -/
def step1 (t : Tree) (k : Key) : Tree :=
  if isLink t k && globbed t k then upd t k none else t

/-- "Remove the old symlink if dangling": `if newjobpath.is_symlink() and not newjobpath.exists(): unlink`. -/
def rmDangling (t : Tree) (x : Key) : Tree :=
  if isLink t x && (resolve t depth x).isNone then upd t x none else t

/-- second pass, one yielded `k/params.json`. -/
def step2 (fx cl : Bool) (t : Tree) (k : Key) : Tree :=
  match t k with
  | some (.dir d (.ok nk)) =>
    if nk.2 = k.2 then t                                     -- `new_identifier != old_identifier`
    else if !fx then t
    else
      let t1 := rmDangling t nk
      match resolve t1 depth nk with
      | some _ => t1                                         -- exists: same target, or a warning
      | none =>
        if cl then upd (upd t1 nk (some (.dir d (.ok nk)))) k none   -- rewrite params.json, rename
        else upd t1 nk (some (.link k))                              -- `newjobpath.symlink_to(oldjobpath)`
  | _ => t                                                   -- symlink (skipped), unloadable, or gone

/-- the first pass as a whole -/
def phase1 (cl : Bool) (ks1 : List Key) (t : Tree) : Tree := if cl then ks1.foldl step1 t else t

/-- `fix_deprecated(workpath, fix, cleanup)`; `ks1`, `ks2` are what the two (lazy) `glob` calls yield. -/
def fixTree (fx cl : Bool) (ks1 ks2 : List Key) (t : Tree) : Tree :=
  ks2.foldl (step2 fx cl) (phase1 cl ks1 t)

/-- the documented behaviour of the command line (`deprecated list`): "Ignoring --cleanup since we are
    not fixing old IDs". -/
def cliDocumented (fx cl : Bool) (ks1 ks2 : List Key) (t : Tree) : Tree := fixTree fx (cl && fx) ks1 ks2 t

/-- what `cli/__init__.py::deprecated_list` does: the flag is passed on unchanged. -/
def cliActual (fx cl : Bool) (ks1 ks2 : List Key) (t : Tree) : Tree := fixTree fx cl ks1 ks2 t

/-- assoc-list view for the driver -/
def ofList (l : List (Key × Entry)) : Tree := fun k => (l.find? (fun e => e.1 == k)).map (·.2)

end XpmVerif.Deprecated
