import XpmVerif.Model.ValidateX
import XpmVerif.Proofs.Validate
/-! Helper lemmas for the extension of C15 (model `Model/ValidateX.lean`): checkers, hooks. -/
namespace XpmVerif.Validate

/-! ### `Argument.validate` with a checker only removes acceptances -/

theorem argValidate_ok {I : Impl} {a : ArgX} {v w : PyVal} (h : argValidate I a v = .ok w) :
    validate I a.decl.ty.stripOpt v = .ok w ∧ ∀ c, a.checker = some c → c.check w = true := by
  unfold argValidate at h
  cases hv : validate I a.decl.ty.stripOpt v with
  | error e => simp [hv] at h
  | ok w' =>
    simp only [hv] at h
    cases hc : a.checker with
    | none =>
      simp only [hc, Except.ok.injEq] at h
      subst h
      exact ⟨rfl, fun c hc' => by cases hc'⟩
    | some c =>
      simp only [hc] at h
      by_cases hk : c.check w' = true
      · simp only [hk, if_true, Except.ok.injEq] at h
        subst h
        exact ⟨rfl, fun c' hc' => by cases hc'; exact hk⟩
      · simp [hk] at h

theorem setArgX_ok {I : Impl} {a : ArgX} {v w : PyVal} (h : setArgX I a v = .ok w) :
    setArg I a.decl v = .ok w ∧ (w = .none ∨ ∀ c, a.checker = some c → c.check w = true) := by
  unfold setArgX at h
  unfold setArg
  by_cases hg : (a.decl.generator || a.decl.constant) = true
  · simp [hg] at h
  · simp only [hg, if_false, Bool.false_eq_true] at h ⊢
    cases v with
    | none =>
      by_cases hr : a.decl.required = true
      · simp [hr] at h
      · simp only [hr, if_false, Bool.false_eq_true, Except.ok.injEq] at h ⊢
        exact ⟨h, Or.inl h.symm⟩
    | _ => exact ⟨(argValidate_ok h).1, Or.inr (argValidate_ok h).2⟩

theorem setArgX_of_setArg {I : Impl} {a : ArgX} {v w : PyVal} (h : setArg I a.decl v = .ok w)
    (hc : ∀ c, a.checker = some c → c.check w = true) : setArgX I a v = .ok w := by
  unfold setArg at h
  unfold setArgX
  by_cases hg : (a.decl.generator || a.decl.constant) = true
  · simp [hg] at h
  · simp only [hg, if_false, Bool.false_eq_true] at h ⊢
    have key : ∀ v', validate I a.decl.ty.stripOpt v' = .ok w → argValidate I a v' = .ok w := by
      intro v' hv
      unfold argValidate
      rw [hv]
      cases hk : a.checker with
      | none => rfl
      | some c => simp [hc c hk]
    cases v with
    | none => exact h
    | _ => exact key _ h

/-! ### the walk with hooks -/

theorem visits_append (a b : List Item) : visits (a ++ b) = visits a ++ visits b := by
  simp [visits, List.filterMap_append]

theorem visits_nodeItemsX (d : Bool) (H : Hooks) (g : Graph) (n : Nat) :
    visits (nodeItemsX d H g n) = visits (nodeItems d g n) := by
  unfold nodeItemsX
  rw [visits_append]
  split <;> simp [visits]

theorem hasFail_nodeItemsX (I : Impl) (H : Hooks) (g : Graph) (n : Nat) :
    hasFail (nodeItemsX I.deepValidate H g n) = nodeBad H g n := by
  unfold nodeItemsX nodeBad
  rw [hasFail_append, ← nodeMissing_eq I]
  split <;> simp_all

theorem validateWith_fst (reset : Bool) (items : Nat → List Item) (N : Nat) (vis : List Nat) (root : Nat) :
    (validateWith reset items N vis root).1 = (walkNode items N vis root).1 := by
  unfold validateWith
  simp only
  split <;> rfl

theorem validateWith_ok {reset : Bool} {items : Nat → List Item} {N : Nat} {vis : List Nat} {root : Nat}
    (h : (validateWith reset items N vis root).1 = .ok) :
    walkNode items N vis root = (.ok, (validateWith reset items N vis root).2) := by
  have h1 := validateWith_fst reset items N vis root
  rw [h] at h1
  unfold validateWith
  simp only
  rw [← h1]
  simp only [bne_self_eq_false, Bool.and_false, Bool.false_eq_true, if_false]
  generalize walkNode items N vis root = r at h1
  obtain ⟨o, v⟩ := r
  simp only at h1
  rw [← h1]

theorem validateWith_reset {items : Nat → List Item} {N : Nat} {vis : List Nat} {root : Nat}
    (h : (validateWith true items N vis root).1 ≠ .ok) : (validateWith true items N vis root).2 = vis := by
  unfold validateWith at h ⊢
  simp only at h ⊢
  split
  · rfl
  · rename_i hc
    simp only [Bool.true_and, bne_iff_ne, ne_eq, Decidable.not_not] at hc
    rw [if_neg (by simp [hc])] at h
    exact absurd hc h

theorem validateFromX_ok_spec (I : Impl) (H : Hooks) (g : Graph) (vis : List Nat) (hinv : FlagsOkX I H g vis) (root : Nat)
    (h : (validateFromX I H g vis root).1 = .ok) :
    (∀ n, Reach (succs I g) root n → nodeBad H g n = false) ∧ FlagsOkX I H g (validateFromX I H g vis root).2 := by
  have hw := validateWith_ok h
  unfold validateFromX
  generalize (validateWith I.resetOnFail (nodeItemsX I.deepValidate H g) (g.nodes.length + 1) vis root).2 = vis' at hw
  obtain ⟨hroot, hsub, hcl⟩ := walkNode_ok (nodeItemsX I.deepValidate H g) _ vis root vis' hw
  have key : FlagsOkX I H g vis' := by
    intro m hm
    rcases hcl m hm with h0 | ⟨hf, hk⟩
    · exact ⟨(hinv m h0).1, fun k hk => hsub ((hinv m h0).2 k hk)⟩
    · refine ⟨by rw [← hasFail_nodeItemsX I]; exact hf, ?_⟩
      intro k hk'
      apply hk
      rw [visits_nodeItemsX]
      exact hk'
  refine ⟨?_, key⟩
  intro n hr
  have : n ∈ vis' := by
    induction hr with
    | refl => exact hroot
    | step _ hc ih => exact (key _ ih).2 _ hc
  exact (key n this).1

theorem flagsOkX_nil (I : Impl) (H : Hooks) (g : Graph) : FlagsOkX I H g [] := by intro m hm; simp at hm

theorem hookFails_setVal_ne (H : Hooks) (g : Graph) (n k : Nat) (v : PyVal) (m : Nat) (h : m ≠ n) :
    hookFails H (g.setVal n k v) m = hookFails H g m := by
  unfold Graph.setVal
  cases hn : g.nodes[n]? with
  | none => rfl
  | some nd =>
    simp only [hookFails]
    rw [List.getElem?_set_ne (Ne.symm h)]

theorem flagsOkX_setVal (I : Impl) (H : Hooks) (g : Graph) (vis : List Nat) (h : FlagsOkX I H g vis) (n k : Nat) (v : PyVal)
    (hn : n ∉ vis) : FlagsOkX I H (g.setVal n k v) vis := by
  intro m hm
  have hne : m ≠ n := fun e => hn (e ▸ hm)
  have h1 := h m hm
  unfold nodeBad nodeMissing succs at *
  rw [nodeItems_setVal_ne _ g n k v m hne, nodeItems_setVal_ne _ g n k v m hne, hookFails_setVal_ne H g n k v m hne]
  exact h1

theorem hstepX_assign_cases (I : Impl) (C : Checkers) (H : Hooks) (s : HState) (n k : Nat) (v : PyVal) :
    ((hstepX I C H s (.assign n k v)).2 = s) ∨
    (∃ w, (hstepX I C H s (.assign n k v)).1 = .stored ∧ (hstepX I C H s (.assign n k v)).2 = { s with g := s.g.setVal n k w }) := by
  simp only [hstepX]
  split
  · exact Or.inl rfl
  · split
    · exact Or.inl rfl
    · split
      · exact Or.inl rfl
      · split
        · exact Or.inl rfl
        · exact Or.inl rfl
        · split
          · exact Or.inl rfl
          · exact Or.inr ⟨_, rfl, rfl⟩

/-- one operation of a history with checkers and hooks -/
theorem hstepX_sound (I : Impl) (C : Checkers) (H : Hooks) (s : HState) (op : HOp) (hinv : FlagsOkX I H s.g s.flags)
    (hadm : ∀ n k v, op = .assign n k v → n ∉ s.flags) :
    (I.resetOnFail = true → FlagsOkX I H (hstepX I C H s op).2.g (hstepX I C H s op).2.flags) ∧
    (∀ n, op = .submit n → (hstepX I C H s op).1 = .accepted →
        ∀ m, Reach (succs I s.g) n m → nodeBad H s.g m = false) ∧
    ((hstepX I C H s op).1 ≠ .accepted → (hstepX I C H s op).2.registry = s.registry) ∧
    (∀ n, op = .submit n → (hstepX I C H s op).1 = .accepted → (hstepX I C H s op).2.registry = n :: s.registry) := by
  cases op with
  | assign n k v =>
    refine ⟨?_, ?_, ?_, ?_⟩
    · intro _
      rcases hstepX_assign_cases I C H s n k v with h | ⟨w, _, h⟩
      · rw [h]; exact hinv
      · rw [h]; exact flagsOkX_setVal I H s.g s.flags hinv n k w (hadm n k v rfl)
    · intro n' h; cases h
    · intro _
      rcases hstepX_assign_cases I C H s n k v with h | ⟨w, _, h⟩ <;> rw [h]
    · intro n' h; cases h
  | submit n =>
    have triv : ∀ (o : HOut), o ≠ .accepted →
        (I.resetOnFail = true → FlagsOkX I H ((o, s) : HOut × HState).2.g ((o, s) : HOut × HState).2.flags) ∧
        (∀ n', HOp.submit n = .submit n' → ((o, s) : HOut × HState).1 = .accepted →
            ∀ m, Reach (succs I s.g) n' m → nodeBad H s.g m = false) ∧
        (((o, s) : HOut × HState).1 ≠ .accepted → ((o, s) : HOut × HState).2.registry = s.registry) ∧
        (∀ n', HOp.submit n = .submit n' → ((o, s) : HOut × HState).1 = .accepted →
            ((o, s) : HOut × HState).2.registry = n' :: s.registry) := by
      intro o ho
      exact ⟨fun _ => hinv, fun _ _ h => absurd h ho, fun _ => rfl, fun _ _ h => absurd h ho⟩
    simp only [hstepX]
    by_cases hj : n ∈ s.jobAttr
    · rw [if_pos hj]; exact triv _ (by simp)
    · rw [if_neg hj]
      cases hnd : s.g.nodes[n]? with
      | none => exact triv _ (by simp)
      | some nd =>
        simp only
        by_cases ht : (!s.g.tasks.contains nd.cls) = true
        · rw [if_pos ht]; exact triv _ (by simp)
        · rw [if_neg ht]
          by_cases hok : (validateFromX I H s.g s.flags n).1 = .ok
          · rw [if_pos hok]
            have hs := validateFromX_ok_spec I H s.g s.flags hinv n hok
            refine ⟨fun _ => hs.2, ?_, ?_, ?_⟩
            · intro n' hn' _ m hr
              cases hn'
              exact hs.1 m hr
            · intro h; exact absurd rfl h
            · intro n' hn' _
              cases hn'
              rfl
          · rw [if_neg hok]
            refine ⟨?_, ?_, ?_, ?_⟩
            · intro hI
              show FlagsOkX I H s.g (validateFromX I H s.g s.flags n).2
              have : (validateFromX I H s.g s.flags n).2 = s.flags := by
                unfold validateFromX at hok ⊢
                rw [hI] at hok ⊢
                exact validateWith_reset hok
              rw [this]
              exact hinv
            · intro _ _ h; simp at h
            · intro _; rfl
            · intro _ _ h; simp at h

theorem hrunX_sound (I : Impl) (C : Checkers) (H : Hooks) (hI : I.resetOnFail = true) : ∀ (ops : List HOp) (s : HState),
    FlagsOkX I H s.g s.flags → AdmissibleX I C H s ops →
    ∀ t ∈ hrunX I C H s ops,
      (∀ n, t.2.1 = .submit n → t.2.2 = .accepted → ∀ m, Reach (succs I t.1.g) n m → nodeBad H t.1.g m = false) ∧
      (t.2.2 ≠ .accepted → (hstepX I C H t.1 t.2.1).2.registry = t.1.registry) ∧
      (∀ n, t.2.1 = .submit n → t.2.2 = .accepted → (hstepX I C H t.1 t.2.1).2.registry = n :: t.1.registry)
  | [], _, _, _, t, ht => by simp [hrunX] at ht
  | op :: ops, s, hinv, hadm, t, ht => by
    simp only [hrunX, List.mem_cons] at ht
    have hs := hstepX_sound I C H s op hinv hadm.1
    rcases ht with rfl | ht
    · exact ⟨hs.2.1, hs.2.2.1, hs.2.2.2⟩
    · exact hrunX_sound I C H hI ops (hstepX I C H s op).2 (hs.1 hI) hadm.2 t ht

end XpmVerif.Validate
