import XpmVerif.Proofs.RestartAdopt
/-! C11, adoption: one event of the scheduler of the restart world, seen on the abstract state `abs adopted s`
    (`Proofs/RestartAbs.lean`):
    * a callback that acts on a job that is not adopted, or the `codeWait` / `doneHandler` segment of an adopted job, is
      the same callback of M2 on the abstract state (with the marker edited for a first segment): `sim_normal`;
    * a `check` / `notifyCheck` of a dependency of an adopted job is invisible: `sim_stutter`;
    * the first segment of a job that finds its process alive is the adoption step `adoptAbs`: `sim_adopt`;
    * the completion of a helper thread is the completion in M2 (with the code edited): `sim_deliver`. -/
set_option linter.unusedSimpArgs false
set_option linter.unusedVariables false
namespace XpmVerif.RestartAbs
open XpmVerif.Sched hiding Reachable flOK submitPre submitPost sumTo
open XpmVerif.SchedFinal XpmVerif.Restart XpmVerif.RestartTerm

/-! ### DONE is stable (M2) -/

theorem done_stable {fl : Flags} (hg : fl.readyGuarded = true) {t : St} {cb : Cb} {rest : List Cb} (hG : Good fl t)
    (hr : t.ready = cb :: rest) (o : Nat) (hd : (t.jobs o).state = .done) :
    ((({ t with ready := rest } : St).runCb fl cb).jobs o).state = .done := by
  have hC := hG.e.c
  have hF := runCb_frame fl ({ t with ready := rest } : St) cb
  have hend := (hC.d.recs o).doneEnd hd
  by_cases ho : o = target cb
  · subst ho
    cases cb with
    | register j => simp only [St.runCb]; rw [(register_jobs fl _ j).1]; exact hd
    | waiterRun => simp only [St.runCb]; rw [(waiterRun_jobs _).1]; exact hd
    | start j =>
      exfalso
      have hpc := head_start_pc (s := t) hC.a.ctl hr
      have := hC.f j (Or.inr hpc)
      simp only [target] at hd
      rw [this] at hd; cases hd
    | wake j =>
      exfalso
      have hpc := head_wake_pc (s := t) hC.a.ctl hr
      simp only [target] at hend
      rw [hpc] at hend; simp [pcEnd] at hend
    | resume j =>
      have hk := head_resume_kind (s := t) hC.a.ctl hr
      simp only [target] at hend hd ⊢
      have hp : (t.jobs j).pc = .doneHandler := by
        revert hk hend; cases (t.jobs j).pc <;> simp [pcKind, pcEnd]
      have hp' : (({ t with ready := rest } : St).jobs j).pc = .doneHandler := hp
      simp only [St.runCb]
      rw [resume_doneHandler fl ({ t with ready := rest } : St) j hp']
      simp only [doneStep, put_jobs, SchedFinal.upd_same]
      exact hd
    | check j d =>
      simp only [target] at hd ⊢
      simp only [St.runCb, St.check, put_jobs, SchedFinal.upd_same]
      rw [(depChanged_inert fl hg _ d _ (by rw [hd]; simp) (fun _ => by rw [hd]; rfl)).2.1]
      exact hd
    | notifyCheck j d =>
      simp only [target] at hd ⊢
      rcases notifyCheck_cases fl ({ t with ready := rest } : St) j d with e | e <;> rw [e]
      · simp only [St.check, put_jobs, SchedFinal.upd_same]
        rw [(depChanged_inert fl hg _ d _ (by rw [hd]; simp) (fun _ => by rw [hd]; rfl)).2.1]
        exact hd
      · exact hd
  · rw [hF.2.2.2.2.1 o ho]; exact hd

/-! ### the queue of the abstract state -/

theorem abs_pop (ad : Nat → Bool) (s : St) (rest : List Cb) :
    abs ad ({ s with ready := rest } : St) = ({ abs ad s with ready := rest.filter (keepCb ad) } : St) := rfl

theorem abs_ready_cons_keep {ad : Nat → Bool} {s : St} {cb : Cb} {rest : List Cb} (hr : s.ready = cb :: rest)
    (hk : keepCb ad cb = true) : (abs ad s).ready = cb :: rest.filter (keepCb ad) := by
  rw [abs_ready, hr, List.filter_cons, if_pos hk]

theorem abs_ready_cons_drop {ad : Nat → Bool} {s : St} {cb : Cb} {rest : List Cb} (hr : s.ready = cb :: rest)
    (hk : keepCb ad cb = false) : (abs ad s).ready = rest.filter (keepCb ad) := by
  rw [abs_ready, hr, List.filter_cons, hk]; rfl

/-- the record of a job that is not adopted, with the marker the job directory shows. -/
def markerRecA (a : StA Disk) (j : Nat) : Job :=
  { (a.s.jobs j) with marker := (world.look a.d j (a.s.jobs j)).marker }

theorem abs_edit_na {ad : Nat → Bool} {x : Nat} (h : ad x = false) (s : St) (jb : Job) :
    abs ad (s.put x jb) = edit (abs ad s) x jb := by
  rw [abs_put_na h]
  simp only [List.filter_nil]
  exact put_nil_eq _ _ _

/-- **a callback that adopts nothing and is not dropped** is the callback of M2 on the abstract state. -/
theorem sim_normal (fl : Flags) (a : StA Disk) (cb : Cb) (rest : List Cb) (hr : a.s.ready = cb :: rest)
    (hk : keepCb a.adopted cb = true)
    (hna : ∀ x, cb = .start x → (world.look a.d x (a.s.jobs x)).adopt = false)
    (hst : ∀ x, cb = .start x → a.adopted x = false)
    (hwk : ∀ x, cb = .wake x → a.adopted x = false)
    (hres : ∀ x, cb = .resume x → a.adopted x = true →
      (a.s.jobs x).held = [] ∧ ((a.s.jobs x).pc = .codeWait ∨ (a.s.jobs x).pc = .doneHandler)) :
    (stepA fl world a).adopted = a.adopted ∧
    abs a.adopted (stepA fl world a).s =
      (match cb with
       | .start x => edit (abs a.adopted a.s) x (markerRecA a x)
       | _ => abs a.adopted a.s).apply fl .step := by
  rw [stepA_cons fl world a cb rest hr]
  have hq := abs_ready_cons_keep hr hk
  cases cb with
  | start x =>
    have h0 : (world.look a.d x (({ a.s with ready := rest } : St).jobs x)).adopt = false := hna x rfl
    have hx := hst x rfl
    simp only [runCbA, h0, Bool.false_eq_true, if_false, startJobA]
    refine ⟨by first | rfl | trivial, ?_⟩
    rw [apply_step_cons fl _ (.start x) (rest.filter (keepCb a.adopted)) (by rw [edit_ready]; exact hq)]
    simp only [St.runCb]
    rw [abs_startJob hx, abs_edit_na hx]
    rfl
  | resume x =>
    have e : (runCbA fl world { a with s := { a.s with ready := rest } } (.resume x)).s =
        ({ a.s with ready := rest } : St).resume fl x := by
      simp only [runCbA]; split <;> rfl
    have e2 : (runCbA fl world { a with s := { a.s with ready := rest } } (.resume x)).adopted = a.adopted := by
      simp only [runCbA]; split <;> rfl
    refine ⟨e2, ?_⟩
    rw [e, apply_step_cons fl _ (.resume x) (rest.filter (keepCb a.adopted)) hq]
    simp only [St.runCb]
    cases hx : a.adopted x with
    | false => rw [abs_resume hx fl ({ a.s with ready := rest } : St)]; rfl
    | true =>
      obtain ⟨h1, h2⟩ := hres x rfl hx
      rw [abs_resume_ad hx fl ({ a.s with ready := rest } : St) h1 h2]; rfl
  | register j =>
    refine ⟨rfl, ?_⟩
    rw [apply_step_cons fl _ (.register j) (rest.filter (keepCb a.adopted)) hq]
    show abs a.adopted (St.runCb fl _ _) = _
    rw [abs_runCb fl _ _ (by intro x hx; simp [cbJob] at hx)]; rfl
  | wake j =>
    refine ⟨rfl, ?_⟩
    rw [apply_step_cons fl _ (.wake j) (rest.filter (keepCb a.adopted)) hq]
    show abs a.adopted (St.runCb fl _ _) = _
    rw [abs_runCb fl _ _ (by intro x hx; simp [cbJob] at hx; subst hx; exact hwk _ rfl)]; rfl
  | check j d =>
    refine ⟨rfl, ?_⟩
    rw [apply_step_cons fl _ (.check j d) (rest.filter (keepCb a.adopted)) hq]
    show abs a.adopted (St.runCb fl _ _) = _
    rw [abs_runCb fl _ _ (by intro x hx; simp [cbJob] at hx; subst hx; simpa [keepCb] using hk)]; rfl
  | notifyCheck j d =>
    refine ⟨rfl, ?_⟩
    rw [apply_step_cons fl _ (.notifyCheck j d) (rest.filter (keepCb a.adopted)) hq]
    show abs a.adopted (St.runCb fl _ _) = _
    rw [abs_runCb fl _ _ (by intro x hx; simp [cbJob] at hx; subst hx; simpa [keepCb] using hk)]; rfl
  | waiterRun =>
    refine ⟨rfl, ?_⟩
    rw [apply_step_cons fl _ .waiterRun (rest.filter (keepCb a.adopted)) hq]
    show abs a.adopted (St.runCb fl _ _) = _
    rw [abs_runCb fl _ _ (by intro x hx; simp [cbJob] at hx)]; rfl

/-- a dropped callback (a `check` / `notifyCheck` that targets an adopted job): what it needs to be invisible. -/
def StutterOK (s : St) (cb : Cb) : Prop :=
  match cb with
  | .check x d | .notifyCheck x d =>
    (s.jobs x).state ≠ .waiting ∧
    (s.status ((s.jobs x).deps.getD d default).origin = .fail → (s.jobs x).state.finished = true)
  | _ => True

/-- **a dropped callback is invisible.** -/
theorem sim_stutter (fl : Flags) (hg : fl.readyGuarded = true) (a : StA Disk) (cb : Cb) (rest : List Cb)
    (hr : a.s.ready = cb :: rest) (hk : keepCb a.adopted cb = false) (hok : StutterOK a.s cb) :
    (stepA fl world a).adopted = a.adopted ∧ (stepA fl world a).d = a.d ∧
    abs a.adopted (stepA fl world a).s = abs a.adopted a.s := by
  rw [stepA_cons fl world a cb rest hr]
  have hq := abs_ready_cons_drop hr hk
  have hpop : abs a.adopted ({ a.s with ready := rest } : St) = abs a.adopted a.s := by
    rw [abs_pop]
    unfold abs at hq ⊢
    simp only [] at hq ⊢
    rw [← hq]
  cases cb with
  | check x d =>
    have hx : a.adopted x = true := by simpa [keepCb] using hk
    refine ⟨rfl, rfl, ?_⟩
    show abs a.adopted (St.check fl ({ a.s with ready := rest } : St) x d) = _
    rw [abs_check_ad hx fl hg ({ a.s with ready := rest } : St) d hok.1 hok.2]; exact hpop
  | notifyCheck x d =>
    have hx : a.adopted x = true := by simpa [keepCb] using hk
    refine ⟨rfl, rfl, ?_⟩
    show abs a.adopted (St.runCb fl ({ a.s with ready := rest } : St) (.notifyCheck x d)) = _
    rw [abs_notifyCheck_ad hx fl hg ({ a.s with ready := rest } : St) d hok.1 hok.2]; exact hpop
  | start x => simp [keepCb] at hk
  | wake x => simp [keepCb] at hk
  | resume x => simp [keepCb] at hk
  | register x => simp [keepCb] at hk
  | waiterRun => simp [keepCb] at hk

/-- **the first segment of a job whose process is alive** is the adoption step on the abstract state. -/
theorem sim_adopt (fl : Flags) (a : StA Disk) (x : Nat) (rest : List Cb) (hr : a.s.ready = .start x :: rest)
    (had : (world.look a.d x (a.s.jobs x)).adopt = true) (hx : a.adopted x = false) (hn : NoRef a.s x) :
    (stepA fl world a).adopted = upd a.adopted x true ∧
    (stepA fl world a).d = world.onAdopt a.d x (a.s.jobs x) ∧
    abs (upd a.adopted x true) (stepA fl world a).s = adoptAbs (abs a.adopted a.s) x (rest.filter (keepCb a.adopted)) := by
  rw [stepA_cons fl world a (.start x) rest hr]
  have h0 : (world.look a.d x (({ a.s with ready := rest } : St).jobs x)).adopt = true := had
  simp only [runCbA, h0, if_true]
  refine ⟨by first | rfl | trivial, by first | rfl | trivial, ?_⟩
  have hn' : NoRef ({ a.s with ready := rest } : St) x :=
    ⟨hn.tok, hn.job, fun d => ⟨fun h => (hn.chk d).1 (by rw [hr]; exact List.mem_cons_of_mem _ h),
      fun h => (hn.chk d).2 (by rw [hr]; exact List.mem_cons_of_mem _ h)⟩⟩
  rw [abs_adopt a.adopted fl _ x _ h0 hn']
  unfold adoptAbs
  rw [abs_pop]
  congr 1
  show adoptRec (a.s.jobs x) = adoptRec ((abs a.adopted a.s).jobs x)
  rw [abs_jobs_na hx]

theorem absRec_with_code (ad : Nat → Bool) (x : Nat) (jb : Job) (c : Nat) :
    absRec ad x { jb with code := c } = { (absRec ad x jb) with code := c } := by
  unfold absRec; split <;> rfl

/-- **the completion of a helper thread** is the completion in M2, on the abstract state with the code edited. -/
theorem sim_deliver (fl : Flags) (a : StA Disk) (k j : Nat) (kind : TK) (c : Option Nat) (d' : Disk)
    (hk : a.s.threads[k]? = some (kind, j)) :
    abs a.adopted (deliverA a k j c d').s =
      (match c with
       | some cv => edit (abs a.adopted a.s) j { ((abs a.adopted a.s).jobs j) with code := cv }
       | none => abs a.adopted a.s).apply fl (.deliver k) := by
  cases c with
  | none =>
    simp only [deliverA, setCode, St.apply, abs_threads, hk]
    unfold abs
    simp only [List.filter_append]
    rfl
  | some cv =>
    simp only [deliverA, setCode, St.apply, edit_threads, abs_threads, hk]
    have e : abs a.adopted (a.s.put j { (a.s.jobs j) with code := cv }) =
        edit (abs a.adopted a.s) j { ((abs a.adopted a.s).jobs j) with code := cv } := by
      rw [abs_put, absRec_with_code]
      simp only [List.filter_nil]
      exact put_nil_eq _ _ _
    rw [← e]
    unfold abs
    simp only [List.filter_append, put_ready, put_threads, List.append_nil]
    rfl

end XpmVerif.RestartAbs
