import XpmVerif.Proofs.Runner
/-! Helper lemmas for C05 (a success marker that appears while a job waits): the success marker of the process
    model M3 is stable (no action of a launcher or of a runner process removes it) and `Reach` is closed under actions. -/
namespace XpmVerif.Runner

/-- no action of the model removes the success marker: launchers (`aio_start`/`aio_run`: lock, spawn, pid file,
    release) do not touch it, runner processes only ever create it. -/
theorem act_done_stable (cfg : Cfg) (s : St) (a : Act) (hd : s.sh.done = true) : (act cfg s a).sh.done = true := by
  cases a <;> unfold_act <;> grind

theorem reach_act {cfg : Cfg} {done : Bool} {failed : Option Nat} {s : St} (h : Reach cfg done failed s) (a : Act) :
    Reach cfg done failed (act cfg s a) := by
  obtain ⟨acts, rfl⟩ := h
  refine ⟨acts ++ [a], ?_⟩
  generalize St.init done failed = s0
  induction acts generalizing s0 with
  | nil => rfl
  | cons b bs ih => simp only [run, List.cons_append]; exact ih _

end XpmVerif.Runner
