import XpmVerif.Model.Validate
/-! M6 (validation part) — the argument table of a configuration class under (multiple) inheritance.

`ObjectType.__initialize__` (`core/types.py` l.343-345) builds

    self._arguments = ChainMap({}, *(tp.arguments for tp in self.parents()))

and `addArgument` writes the class's own declarations into the first map.  `tp.arguments` of a parent is
itself such a `ChainMap`, so a lookup goes: own declarations, then the first base *and everything that base
inherits*, then the second base, … — a depth-first, left-to-right search of the class graph.  Python
(`typing.get_type_hints`, attribute lookup) resolves a re-declared annotation along the MRO (C3).  The two
agree on every single-inheritance chain and on most diamonds; they differ when a later base re-declares a
parameter that an earlier base merely inherits from the common ancestor (finding C15-N5).

The model takes the linearisation as a parameter: `Lin.dfs` = the source as found, `Lin.mro` = Python's
MRO (given as data with every class, as computed by Python).  Import-free apart from `Model.Validate`. -/
namespace XpmVerif.Validate

/-- one configuration class as declared -/
structure ClassDecl where
  /-- the direct configuration bases, in the order of the class statement (`ObjectType.parents()`:
      `Config`/`Task` themselves are left out) -/
  bases : List Nat := []
  /-- Python's `__mro__` restricted to the classes of the library, the class itself first -/
  mro : List Nat := []
  /-- the parameters the class declares itself (own annotations / decorators), in declaration order -/
  own : List (String × ArgDecl) := []
deriving Repr

abbrev Lib := List ClassDecl

inductive Lin
  /-- `ChainMap` of the parents' `ChainMap`s: depth-first, left to right (the source as found) -/
  | dfs
  /-- Python's method resolution order -/
  | mro
deriving DecidableEq, Repr

def Lib.own (lib : Lib) (c : Nat) : List (String × ArgDecl) :=
  match lib[c]? with
  | some d => d.own
  | none => []

mutual
/-- the order in which a lookup in the nested `ChainMap`s meets the classes (with repetitions) -/
def dfsLin (lib : Lib) : Nat → Nat → List Nat
  | 0, _ => []
  | f + 1, c =>
    match lib[c]? with
    | some d => c :: dfsLinL lib f d.bases
    | none => [c]
def dfsLinL (lib : Lib) : Nat → List Nat → List Nat
  | _, [] => []
  | f, b :: bs => dfsLin lib f b ++ dfsLinL lib f bs
end

/-- the classes a lookup for class `c` goes through, in order -/
def linOf (lib : Lib) (l : Lin) (c : Nat) : List Nat :=
  match l with
  | .dfs => dfsLin lib (lib.length + 1) c
  | .mro => match lib[c]? with
    | some d => d.mro
    | none => []

def ownLookup (x : String) : List (String × ArgDecl) → Option ArgDecl
  | [] => none
  | (y, a) :: r => if y = x then some a else ownLookup x r

/-- the first class of `L` that declares `x`, with its declaration -/
def lookupIn (lib : Lib) (x : String) : List Nat → Option (Nat × ArgDecl)
  | [] => none
  | c :: L =>
    match ownLookup x (lib.own c) with
    | some a => some (c, a)
    | none => lookupIn lib x L

/-- `xpmtype.arguments[x]` of class `c`: the class whose declaration is used, and the declaration -/
def argLookup (lib : Lib) (l : Lin) (c : Nat) (x : String) : Option (Nat × ArgDecl) := lookupIn lib x (linOf lib l c)

def dedup : List String → List String
  | [] => []
  | x :: r => x :: (dedup r).filter (· != x)

/-- the names of the table, base-most class first, each at the place of its first declaration
    (the iteration order of the `ChainMap`) -/
def tableNames (lib : Lib) (L : List Nat) : List String :=
  dedup ((L.reverse.map (fun c => (lib.own c).map (·.1))).flatten)

/-- the argument table of class `c`: (name, declaring class, declaration) -/
def argTable (lib : Lib) (l : Lin) (c : Nat) : List (String × Nat × ArgDecl) :=
  (tableNames lib (linOf lib l c)).filterMap (fun x => (argLookup lib l c x).map (fun p => (x, p.1, p.2)))

/-- the flat class table `Graph.classes` that the validation model works on -/
def Lib.classes (lib : Lib) (l : Lin) : List (List ArgDecl) :=
  (List.range lib.length).map (fun c => (argTable lib l c).map (·.2.2))

/-- every class has at most one configuration base and its MRO is the chain of bases -/
def Lib.single (lib : Lib) : Prop := ∀ (c : Nat) (d : ClassDecl), lib[c]? = some d → d.bases.length ≤ 1

end XpmVerif.Validate
