import XpmVerif.Proofs.RestartPhase
/-! C11, adoption, FULL statement: the abstraction `absF ad s`.  It differs from `RestartAbs.abs` in one point: while an
    adopted job waits for its process (`codeWait`) the abstract record shows RUNNING whatever the concrete record shows —
    a failing dependency can set the concrete record to ERROR, and the exit code overwrites it later
    (`C11.adopted_overwritten`).  Nobody reads the state of a job in that limbo: the first segments run while no job is in
    state ERROR (`NoLimbo`), and a `check` of a dependency is queued only when its origin has returned (`StOK`).  Under
    these conditions every primitive of M2 commutes with `absF` (`absF_runCb`). -/
set_option linter.unusedSimpArgs false
set_option linter.unusedVariables false
namespace XpmVerif.RestartFull
open XpmVerif.Sched hiding Reachable flOK submitPre submitPost sumTo
open XpmVerif.SchedFinal XpmVerif.Restart XpmVerif.RestartAbs

/-- what the rest of the scheduler sees of an adopted job: identifier, exit code, program counter, and its state once
    the process has ended (RUNNING before). -/
def absJobF (jb : Job) : Job :=
  { ident := jb.ident, deps := [], code := jb.code, marker := false,
    state := if jb.pc = .codeWait then .running else jb.state, unsat := 0, event := false,
    sleeping := false, pc := jb.pc, held := [], launches := 1, failedDep := false }

def absRecF (ad : Nat → Bool) (i : Nat) (jb : Job) : Job := if ad i then absJobF jb else jb

/-- the abstract state. -/
def absF (ad : Nat → Bool) (s : St) : St :=
  { s with jobs := fun i => absRecF ad i (s.jobs i),
           tokDeps := fun t => (s.tokDeps t).filter (keepP ad),
           jobDeps := fun o => (s.jobDeps o).filter (keepP ad),
           ready := s.ready.filter (keepCb ad) }

section basic
variable (ad : Nat → Bool) (s : St)
@[simp] theorem absF_n : (absF ad s).n = s.n := rfl
@[simp] theorem absF_eff : (absF ad s).eff = s.eff := rfl
@[simp] theorem absF_ntok : (absF ad s).ntok = s.ntok := rfl
@[simp] theorem absF_total : (absF ad s).total = s.total := rfl
@[simp] theorem absF_avail : (absF ad s).avail = s.avail := rfl
@[simp] theorem absF_registry : (absF ad s).registry = s.registry := rfl
@[simp] theorem absF_unfinished : (absF ad s).unfinished = s.unfinished := rfl
@[simp] theorem absF_failed : (absF ad s).failed = s.failed := rfl
@[simp] theorem absF_threads : (absF ad s).threads = s.threads := rfl
@[simp] theorem absF_waiter : (absF ad s).waiter = s.waiter := rfl
@[simp] theorem absF_regResult : (absF ad s).regResult = s.regResult := rfl
theorem absF_ready : (absF ad s).ready = s.ready.filter (keepCb ad) := rfl
theorem absF_jobs (i : Nat) : (absF ad s).jobs i = absRecF ad i (s.jobs i) := rfl
theorem absF_tokDeps (t : Nat) : (absF ad s).tokDeps t = (s.tokDeps t).filter (keepP ad) := rfl
theorem absF_jobDeps (o : Nat) : (absF ad s).jobDeps o = (s.jobDeps o).filter (keepP ad) := rfl
end basic

theorem absRecF_na {ad : Nat → Bool} {i : Nat} (h : ad i = false) (jb : Job) : absRecF ad i jb = jb := by
  simp [absRecF, h]
theorem absRecF_ad {ad : Nat → Bool} {i : Nat} (h : ad i = true) (jb : Job) : absRecF ad i jb = absJobF jb := by
  simp [absRecF, h]
theorem absF_jobs_na {ad : Nat → Bool} {i : Nat} (h : ad i = false) (s : St) : (absF ad s).jobs i = s.jobs i := by
  rw [absF_jobs, absRecF_na h]
theorem absF_jobs_ad {ad : Nat → Bool} {i : Nat} (h : ad i = true) (s : St) : (absF ad s).jobs i = absJobF (s.jobs i) := by
  rw [absF_jobs, absRecF_ad h]

@[simp] theorem absRecF_pc (ad : Nat → Bool) (i : Nat) (jb : Job) : (absRecF ad i jb).pc = jb.pc := by
  unfold absRecF; split <;> rfl
@[simp] theorem absRecF_ident (ad : Nat → Bool) (i : Nat) (jb : Job) : (absRecF ad i jb).ident = jb.ident := by
  unfold absRecF; split <;> rfl
@[simp] theorem absRecF_code (ad : Nat → Bool) (i : Nat) (jb : Job) : (absRecF ad i jb).code = jb.code := by
  unfold absRecF; split <;> rfl

/-- the state of a record is shown unless the job is adopted and waits for its process. -/
theorem absRecF_state (ad : Nat → Bool) (i : Nat) (jb : Job) (h : ad i = true → jb.pc = .codeWait → jb.state = .running) :
    (absRecF ad i jb).state = jb.state := by
  unfold absRecF
  split
  · rename_i hi
    unfold absJobF
    simp only []
    split
    · rename_i hp; exact (h hi hp).symm
    · rfl
  · rfl

theorem absRecF_state' (ad : Nat → Bool) (i : Nat) (jb : Job) (h : jb.pc ≠ .codeWait) : (absRecF ad i jb).state = jb.state :=
  absRecF_state ad i jb (fun _ hp => absurd hp h)

/-- no adopted job that waits for its process shows anything but RUNNING. -/
def NoLimbo (ad : Nat → Bool) (s : St) : Prop :=
  ∀ k, ad k = true → (s.jobs k).pc = .codeWait → (s.jobs k).state = .running

/-- the origin `o` is not an adopted job in limbo. -/
def StOK (ad : Nat → Bool) (s : St) (o : Origin) : Prop :=
  ∀ k, o = .job k → ad k = true → (s.jobs k).pc = .codeWait → (s.jobs k).state = .running

theorem NoLimbo.stOK {ad : Nat → Bool} {s : St} (h : NoLimbo ad s) (o : Origin) : StOK ad s o := fun k _ => h k

theorem stOK_tok (ad : Nat → Bool) (s : St) (t c : Nat) : StOK ad s (.tok t c) := by
  intro k e; cases e

theorem absF_status (ad : Nat → Bool) (s : St) (o : Origin) (h : StOK ad s o) : (absF ad s).status o = s.status o := by
  cases o with
  | job k => simp only [St.status, absF_jobs]; rw [absRecF_state ad k _ (h k rfl)]
  | tok t c => rfl

/-! ### `put` -/

theorem absF_put (ad : Nat → Bool) (s : St) (x : Nat) (jb : Job) (cbs : List Cb) (ths : List (TK × Nat)) :
    absF ad (s.put x jb cbs ths) = (absF ad s).put x (absRecF ad x jb) (cbs.filter (keepCb ad)) ths := by
  unfold absF St.put
  simp only [List.filter_append]
  congr 1
  funext i
  unfold upd
  split
  · rename_i h; subst h; rfl
  · rfl

theorem absF_put_na {ad : Nat → Bool} {x : Nat} (h : ad x = false) (s : St) (jb : Job) (cbs : List Cb) (ths : List (TK × Nat)) :
    absF ad (s.put x jb cbs ths) = (absF ad s).put x jb (cbs.filter (keepCb ad)) ths := by
  rw [absF_put, absRecF_na h]

/-- a record update of a job that is not adopted keeps `NoLimbo` / `StOK`. -/
theorem noLimbo_put {ad : Nat → Bool} {x : Nat} (h : ad x = false) {s : St} (hl : NoLimbo ad s) (jb : Job) (cbs : List Cb)
    (ths : List (TK × Nat)) : NoLimbo ad (s.put x jb cbs ths) := by
  intro k hk
  have : k ≠ x := by intro e; subst e; rw [h] at hk; cases hk
  simp only [put_jobs, upd_ne _ _ this]
  exact hl k hk

/-! ### the primitives on a job that is not adopted -/

theorem absF_check {ad : Nat → Bool} {x : Nat} (h : ad x = false) (fl : Flags) (s : St) (d : Nat)
    (ho : StOK ad s ((s.jobs x).deps.getD d default).origin) :
    absF ad (s.check fl x d) = (absF ad s).check fl x d := by
  unfold St.check
  simp only [absF_jobs_na h]
  rw [absF_status ad s _ ho, absF_put_na h, filter_wake]

theorem noLimbo_check {ad : Nat → Bool} {x : Nat} (h : ad x = false) {s : St} (hl : NoLimbo ad s) (fl : Flags) (d : Nat) :
    NoLimbo ad (s.check fl x d) := by
  unfold St.check; exact noLimbo_put h hl _ _ _

theorem absF_finish {ad : Nat → Bool} {x : Nat} (h : ad x = false) (s : St) :
    absF ad (s.finish x) = (absF ad s).finish x := by
  unfold St.finish
  simp only [absF_jobs_na h, absF_failed]
  split
  · rw [absF_put_na h]; rfl
  · rw [absF_put_na h]; rfl

theorem absF_loopHead {ad : Nat → Bool} {x : Nat} (h : ad x = false) (s : St) :
    absF ad (s.loopHead x) = (absF ad s).loopHead x := by
  unfold St.loopHead
  simp only [absF_jobs_na h]
  split
  · exact absF_finish h s
  · split
    · split
      · rw [absF_put_na h]; rfl
      · rw [absF_put_na h]; rfl
    · rw [absF_put_na h]; rfl

theorem absF_regOne {ad : Nat → Bool} {x : Nat} (h : ad x = false) (s : St) (d : Nat) :
    absF ad (regOne s x d) = regOne (absF ad s) x d := by
  unfold regOne
  simp only [absF_jobs_na h]
  split
  · unfold absF; simp only []
    congr 1
    funext o'
    unfold upd
    split
    · simp [List.filter_append, keepP, h]
    · rfl
  · unfold absF; simp only []
    congr 1
    funext o'
    unfold upd
    split
    · simp [List.filter_append, keepP, h]
    · rfl

theorem noLimbo_regOne {ad : Nat → Bool} {s : St} (hl : NoLimbo ad s) (x d : Nat) : NoLimbo ad (regOne s x d) := by
  intro k hk; rw [regOne_jobs]; exact hl k hk

theorem absF_registerDeps {ad : Nat → Bool} {x : Nat} (h : ad x = false) (fl : Flags) :
    ∀ (k d : Nat) (s : St), NoLimbo ad s →
      absF ad (St.registerDeps fl s x k d) = St.registerDeps fl (absF ad s) x k d := by
  intro k
  induction k with
  | zero => intro d s _; rfl
  | succ k ih =>
    intro d s hl
    rw [registerDeps_succ, registerDeps_succ]
    have hl1 := noLimbo_regOne hl x d
    rw [ih (d + 1) _ (noLimbo_check h hl1 fl d), absF_check h fl _ d (hl1.stOK _), absF_regOne h]

theorem absF_markStep {ad : Nat → Bool} {x : Nat} (h : ad x = false) (s : St) :
    absF ad (markStep s x) = markStep (absF ad s) x := by
  unfold markStep
  rw [absF_jobs_na h]
  split
  · rw [absF_put_na h]; rfl
  · rfl

theorem absF_prefBody {ad : Nat → Bool} {x : Nat} (h : ad x = false) (fl : Flags) (s : St) (hl : NoLimbo ad s) :
    absF ad (prefBody fl s x) = prefBody fl (absF ad s) x := by
  unfold prefBody
  simp only [absF_jobs_na h]
  split
  · rw [absF_put_na h, absF_put_na h]; rfl
  · rw [absF_registerDeps h fl _ _ _ (noLimbo_put h (noLimbo_put h hl _ _ _) _ _ _), absF_put_na h, absF_put_na h]; rfl

theorem absF_startPrefix {ad : Nat → Bool} {x : Nat} (h : ad x = false) (fl : Flags) (s : St) (hl : NoLimbo ad s) :
    absF ad (startPrefix fl s x) = startPrefix fl (absF ad s) x := by
  rw [startPrefix_eq, startPrefix_eq, absF_markStep h, absF_prefBody h fl s hl]

theorem absF_startJob {ad : Nat → Bool} {x : Nat} (h : ad x = false) (fl : Flags) (s : St) (hl : NoLimbo ad s) :
    absF ad (s.startJob fl x) = (absF ad s).startJob fl x := by
  rw [Restart.startJob_eq, Restart.startJob_eq, absF_loopHead h, absF_startPrefix h fl s hl]

theorem absF_relOne {ad : Nat → Bool} {x : Nat} (h : ad x = false) (s : St) (d : Nat) :
    absF ad (relOne s x d) = relOne (absF ad s) x d := by
  unfold relOne
  simp only [absF_jobs_na h]
  split
  · rfl
  · unfold absF; simp only [List.filter_append, filter_notify]

theorem absF_releaseAll {ad : Nat → Bool} {x : Nat} (h : ad x = false) :
    ∀ (ds : List Nat) (s : St), absF ad (St.releaseAll s x ds) = St.releaseAll (absF ad s) x ds := by
  intro ds
  induction ds with
  | nil =>
    intro s
    simp only [St.releaseAll]
    rw [absF_put_na h, absF_jobs_na h]; rfl
  | cons d ds ih =>
    intro s
    rw [releaseAll_cons, releaseAll_cons, ih, absF_relOne h]

theorem absF_acquireAll {ad : Nat → Bool} {x : Nat} (h : ad x = false) :
    ∀ (k d : Nat) (s : St), absF ad (St.acquireAll s x k d).1 = (St.acquireAll (absF ad s) x k d).1 ∧
      (St.acquireAll s x k d).2 = (St.acquireAll (absF ad s) x k d).2 := by
  intro k
  induction k with
  | zero => intro d s; exact ⟨rfl, rfl⟩
  | succ k ih =>
    intro d s
    cases ho : ((s.jobs x).deps.getD d default).origin with
    | job o =>
      have ho' : (((absF ad s).jobs x).deps.getD d default).origin = .job o := by rw [absF_jobs_na h]; exact ho
      simp only [St.acquireAll, ho, ho']
      have := ih (d + 1) (s.put x { (s.jobs x) with held := (s.jobs x).held ++ [d] })
      rw [absF_put_na h] at this
      rw [absF_jobs_na h]
      exact this
    | tok t c =>
      have ho' : (((absF ad s).jobs x).deps.getD d default).origin = .tok t c := by rw [absF_jobs_na h]; exact ho
      simp only [St.acquireAll, ho, ho', absF_avail]
      by_cases hlt : s.avail t < c
      · simp only [hlt, if_true]; exact ⟨trivial, trivial⟩
      · simp only [hlt, if_false]
        have := ih (d + 1) (({ s with avail := upd s.avail t (s.avail t - c) } : St).put x { (s.jobs x) with held := (s.jobs x).held ++ [d] })
        rw [absF_put_na h] at this
        rw [absF_jobs_na h]
        exact this

theorem absF_abortRelease {ad : Nat → Bool} {x : Nat} (h : ad x = false) (fl : Flags) (s : St) :
    absF ad (abortRelease fl s x) = abortRelease fl (absF ad s) x := by
  unfold abortRelease
  split
  · rw [absF_releaseAll h, absF_jobs_na h]
  · rfl

/-- the dependency at which an acquisition fails is a token. -/
theorem acquire_fail_tok (s : St) (x : Nat) (k d : Nat) (e : Nat) (h : (St.acquireAll s x k d).2 = some e) :
    ∃ t c, (((St.acquireAll s x k d).1.jobs x).deps.getD e default).origin = .tok t c := by
  have := (acquireAll_ind (fun _ => True) x (d + k) (fun _ _ _ _ _ => trivial) k d s rfl trivial).2 e h
  have hf := this.2
  unfold acqFails at hf
  split at hf
  · exact absurd hf id
  · rename_i t c ho; exact ⟨t, c, ho⟩

theorem origin_releaseAll (s : St) (x : Nat) (ds : List Nat) (e : Nat) :
    (((St.releaseAll s x ds).jobs x).deps.getD e default).origin = ((s.jobs x).deps.getD e default).origin := by
  have := (sameConst_origin (releaseAll_frame s x ds).2.2.2.2.2).2 e
  unfold depAt at this; exact this

theorem absF_enterTail {ad : Nat → Bool} {x : Nat} (h : ad x = false) (fl : Flags) (r : St × Option Nat)
    (htok : ∀ e, r.2 = some e → ∃ t c, ((r.1.jobs x).deps.getD e default).origin = .tok t c) :
    absF ad (enterTail fl r x) = enterTail fl (absF ad r.1, r.2) x := by
  unfold enterTail
  cases hr : r.2 with
  | some d =>
    simp only []
    obtain ⟨t, c, ho⟩ := htok d hr
    have hst : StOK ad (abortRelease fl r.1 x) (((abortRelease fl r.1 x).jobs x).deps.getD d default).origin := by
      have e : (((abortRelease fl r.1 x).jobs x).deps.getD d default).origin = .tok t c := by
        unfold abortRelease
        split
        · rw [origin_releaseAll]; exact ho
        · exact ho
      rw [e]; exact stOK_tok _ _ _ _
    rw [absF_put_na h, ← absF_jobs_na h (St.check fl (abortRelease fl r.1 x) x d), absF_check h fl _ d hst, absF_abortRelease h]; rfl
  | none =>
    simp only []
    rw [absF_put_na h, ← absF_jobs_na h r.1]; rfl

theorem absF_abortTail {ad : Nat → Bool} {x : Nat} (h : ad x = false) (fl : Flags) (s : St) :
    absF ad (abortTail fl s x) = abortTail fl (absF ad s) x := by
  unfold abortTail
  simp only [absF_jobs_na h]
  rw [absF_loopHead h, absF_put_na h, filter_wake]

theorem absF_codeTail {ad : Nat → Bool} {x : Nat} (h : ad x = false) (s : St) :
    absF ad (codeTail s x) = codeTail (absF ad s) x := by
  unfold codeTail
  rw [absF_finish h, absF_put_na h, absF_jobs_na h]; rfl

/-- the done-handler segment (any job: its record shows its state once the process has ended). -/
theorem absF_doneStep (ad : Nat → Bool) (x : Nat) (s : St) (hp : (s.jobs x).pc ≠ .codeWait) :
    absF ad (doneStep s x) = doneStep (absF ad s) x := by
  unfold doneStep
  rw [absF_put]
  have e : absRecF ad x { (s.jobs x) with pc := .finished (s.jobs x).state } =
      { ((absF ad s).jobs x) with pc := .finished ((absF ad s).jobs x).state } := by
    rw [absF_jobs]
    unfold absRecF
    split
    · unfold absJobF
      simp only [hp, if_false]
      simp
    · rfl
  rw [e]
  congr 1
  unfold absF
  simp only [List.filter_append, filter_checks, filter_waiterRun, List.filter_nil]

theorem absF_resume {ad : Nat → Bool} {x : Nat} (h : ad x = false) (fl : Flags) (s : St) :
    absF ad (s.resume fl x) = (absF ad s).resume fl x := by
  have hj := absF_jobs_na h s
  cases hp : (s.jobs x).pc with
  | lockEnter =>
    rw [resume_lockEnter fl s x hp, resume_lockEnter fl (absF ad s) x (by rw [hj]; exact hp),
      absF_enterTail h fl _ (fun e he => acquire_fail_tok s x _ _ e he), hj]
    obtain ⟨e1, e2⟩ := absF_acquireAll h (s.jobs x).deps.length 0 s
    rw [e1, e2]
  | lockExitAbort =>
    rw [resume_lockExitAbort fl s x hp, resume_lockExitAbort fl (absF ad s) x (by rw [hj]; exact hp), absF_abortTail h,
      absF_releaseAll h, hj]
  | lockExitRun =>
    rw [resume_lockExitRun fl s x hp, resume_lockExitRun fl (absF ad s) x (by rw [hj]; exact hp), absF_put_na h, hj]; rfl
  | codeWait =>
    rw [resume_codeWait fl s x hp, resume_codeWait fl (absF ad s) x (by rw [hj]; exact hp), absF_codeTail h,
      absF_releaseAll h, hj]
  | doneHandler =>
    rw [resume_doneHandler fl s x hp, resume_doneHandler fl (absF ad s) x (by rw [hj]; exact hp),
      absF_doneStep ad x s (by rw [hp]; simp)]
  | none => rw [resume_other fl s x (by simp [hp, pcKind]), resume_other fl (absF ad s) x (by simp [hj, hp, pcKind])]
  | created => rw [resume_other fl s x (by simp [hp, pcKind]), resume_other fl (absF ad s) x (by simp [hj, hp, pcKind])]
  | evtWait => rw [resume_other fl s x (by simp [hp, pcKind]), resume_other fl (absF ad s) x (by simp [hj, hp, pcKind])]
  | finished r => rw [resume_other fl s x (by simp [hp, pcKind]), resume_other fl (absF ad s) x (by simp [hj, hp, pcKind])]

theorem absF_register (ad : Nat → Bool) (fl : Flags) (s : St) (j : Nat) (hl : NoLimbo ad s) :
    absF ad (s.register fl j) = (absF ad s).register fl j := by
  unfold St.register
  simp only [absF_jobs, absRecF_ident, absF_registry]
  split
  · rename_i o _
    rw [absRecF_state ad o _ (hl o)]
    split
    · split <;> rfl
    · rfl
  · rfl

theorem absF_waiterRun (ad : Nat → Bool) (s : St) : absF ad s.waiterRun = (absF ad s).waiterRun := by
  unfold St.waiterRun
  simp only [absF_unfinished, absF_failed]
  by_cases hu : s.unfinished = 0
  · simp only [hu, if_true]; rfl
  · simp only [hu, if_false]; rfl

theorem absF_wake {ad : Nat → Bool} {x : Nat} (h : ad x = false) (fl : Flags) (s : St) :
    absF ad (s.runCb fl (.wake x)) = (absF ad s).runCb fl (.wake x) := by
  simp only [St.runCb, absF_jobs_na h]
  split
  · rw [absF_put_na h]; rfl
  · rw [absF_loopHead h, absF_put_na h]; rfl

/-- what a callback may read of the other jobs. -/
def ReadOK (ad : Nat → Bool) (s : St) : Cb → Prop
  | .start _ => NoLimbo ad s
  | .register _ => NoLimbo ad s
  | .check x d => StOK ad s ((s.jobs x).deps.getD d default).origin
  | .notifyCheck x d => StOK ad s ((s.jobs x).deps.getD d default).origin
  | _ => True

/-- **commutation**: a callback that acts on a job that is not adopted, and reads no job in limbo, does the same on the
    abstract state. -/
theorem absF_runCb {ad : Nat → Bool} (fl : Flags) (s : St) (cb : Cb) (h : ∀ x, cbJob cb = some x → ad x = false)
    (hr : ReadOK ad s cb) : absF ad (s.runCb fl cb) = (absF ad s).runCb fl cb := by
  cases cb with
  | register j => exact absF_register ad fl s j hr
  | start j => exact absF_startJob (h j rfl) fl s hr
  | wake j => exact absF_wake (h j rfl) fl s
  | resume j => exact absF_resume (h j rfl) fl s
  | check j d => exact absF_check (h j rfl) fl s d hr
  | notifyCheck j d =>
    have hj := h j rfl
    simp only [St.runCb, absF_jobs_na hj, absF_avail]
    split
    · split
      · rename_i hpos; simp only [hpos, if_true]; exact absF_check hj fl s d hr
      · rename_i hpos; simp only [hpos, if_false]
    · exact absF_check hj fl s d hr
  | waiterRun => exact absF_waiterRun ad s

/-! ### an adopted job: its bookkeeping is invisible -/

theorem absF_put_ad {ad : Nat → Bool} {x : Nat} (h : ad x = true) (s : St) (jb : Job) (cbs : List Cb) (ths : List (TK × Nat)) :
    absF ad (s.put x jb cbs ths) = (absF ad s).put x (absJobF jb) (cbs.filter (keepCb ad)) ths := by
  rw [absF_put, absRecF_ad h]

theorem absF_regOne_ad {ad : Nat → Bool} {x : Nat} (h : ad x = true) (s : St) (d : Nat) :
    absF ad (regOne s x d) = absF ad s := by
  unfold regOne
  split
  · unfold absF; simp only []
    congr 1
    funext o'
    unfold upd
    split
    · rename_i e; subst e; simp [List.filter_append, keepP, h]
    · rfl
  · unfold absF; simp only []
    congr 1
    funext o'
    unfold upd
    split
    · rename_i e; subst e; simp [List.filter_append, keepP, h]
    · rfl

theorem eqXF_put {ad : Nat → Bool} {x : Nat} (h : ad x = true) (s : St) (jb : Job) :
    EqX x (absF ad s) (absF ad (s.put x jb)) := by
  unfold EqX
  rw [absF_put_ad h]
  simp only [List.filter_nil, put_jobs, SchedFinal.upd_same]

theorem eqXF_check {ad : Nat → Bool} {x : Nat} (h : ad x = true) (fl : Flags) (s : St) (d : Nat)
    (hs : (s.jobs x).sleeping = false) : EqX x (absF ad s) (absF ad (s.check fl x d)) := by
  unfold St.check
  have hw := (depChanged_awake fl (s.jobs x) d (s.status ((s.jobs x).deps.getD d default).origin) hs).1
  simp only [hw]
  exact eqXF_put h s _

theorem eqXF_registerDeps {ad : Nat → Bool} {x : Nat} (h : ad x = true) (fl : Flags) :
    ∀ (k d : Nat) (s : St), (s.jobs x).sleeping = false →
      EqX x (absF ad s) (absF ad (St.registerDeps fl s x k d)) ∧ ((St.registerDeps fl s x k d).jobs x).sleeping = false := by
  intro k
  induction k with
  | zero => intro d s hs; exact ⟨EqX.refl x _, hs⟩
  | succ k ih =>
    intro d s hs
    rw [registerDeps_succ]
    have hs1 : ((regOne s x d).jobs x).sleeping = false := by rw [regOne_jobs]; exact hs
    have h1 := eqXF_check h fl (regOne s x d) d hs1
    rw [absF_regOne_ad h] at h1
    obtain ⟨h2, h3⟩ := ih (d + 1) _ (check_sleeping fl _ x d hs1)
    exact ⟨h1.trans h2, h3⟩

theorem eqXF_startPrefix {ad : Nat → Bool} {x : Nat} (h : ad x = true) (fl : Flags) (s : St) :
    EqX x (absF ad s) (absF ad (startPrefix fl s x)) := by
  rw [startPrefix_eq]
  have hb : EqX x (absF ad s) (absF ad (prefBody fl s x)) := by
    unfold prefBody
    simp only []
    split
    · exact (eqXF_put h s _).trans (eqXF_put h _ _)
    · refine ((eqXF_put h s _).trans (eqXF_put h _ _)).trans (eqXF_registerDeps h fl _ _ _ ?_).1
      simp
  refine hb.trans ?_
  unfold markStep
  split
  · exact eqXF_put h _ _
  · exact EqX.refl x _

/-- adopting a job to which nothing refers changes the abstract state in its record only. -/
theorem absF_upd_ad (ad : Nat → Bool) (s : St) (x : Nat) (hn : NoRef s x) :
    EqX x (absF ad s) (absF (upd ad x true) s) := by
  unfold EqX absF St.put
  simp only [List.append_nil]
  congr 1
  · funext i
    unfold upd absRecF
    by_cases hi : i = x
    · subst hi; simp
    · simp [hi]
  · funext t
    apply filter_congr'
    intro p hp
    have := hn.tok t p hp
    simp [keepP, upd, this]
  · funext o
    apply filter_congr'
    intro p hp
    have := hn.job o p hp
    simp [keepP, upd, this]
  · apply filter_congr'
    intro cb hcb
    cases cb with
    | check j d =>
      have : j ≠ x := by intro e; subst e; exact (hn.chk d).1 hcb
      simp [keepCb, upd, this]
    | notifyCheck j d =>
      have : j ≠ x := by intro e; subst e; exact (hn.chk d).2 hcb
      simp [keepCb, upd, this]
    | _ => rfl

/-- **the adoption step on the abstract state**: the job is at `codeWait`, launched, without dependencies. -/
theorem absF_adopt (ad : Nat → Bool) (fl : Flags) (s : St) (x : Nat) (lk : Look) (hl : lk.adopt = true) (hn : NoRef s x) :
    absF (upd ad x true) (startJobA fl s x lk) = (absF ad s).put x (adoptRec (s.jobs x)) [] [(.code, x)] := by
  have hx : upd ad x true x = true := by simp [upd]
  unfold startJobA
  simp only [hl, if_true]
  rw [absF_put_ad hx]
  have h1 := absF_upd_ad ad s x hn
  have h2 := eqXF_put hx s { (s.jobs x) with marker := lk.marker }
  have h3 := eqXF_startPrefix hx fl (s.put x { (s.jobs x) with marker := lk.marker })
  have h4 := (h1.trans h2).trans h3
  unfold EqX at h4
  rw [h4, put_put]
  obtain ⟨c1, c2⟩ := startPrefix_const fl (s.put x { (s.jobs x) with marker := lk.marker }) x
  simp only [put_jobs, SchedFinal.upd_same] at c1 c2
  simp only [List.filter_nil]
  congr 1
  unfold absJobF adoptRec
  simp only [c1, c2, if_true]

/-! ### the dropped callbacks, and the last segments of an adopted job -/

theorem absJobF_congr {a b : Job} (h1 : b.ident = a.ident) (h2 : b.code = a.code) (h4 : b.pc = a.pc)
    (h3 : a.pc ≠ .codeWait → b.state = a.state) : absJobF b = absJobF a := by
  unfold absJobF
  rw [h1, h2, h4]
  by_cases hp : a.pc = .codeWait
  · simp only [hp, if_true]
  · simp only [hp, if_false]; rw [h3 hp]

theorem depChanged_pcs (fl : Flags) (jb : Job) (d : Nat) (st : DS) :
    (depChanged fl jb d st).1.pc = jb.pc ∧ (depChanged fl jb d st).1.ident = jb.ident ∧ (depChanged fl jb d st).1.code = jb.code :=
  ⟨(depChanged_ctl fl jb d st).1, (depChanged_const fl jb d st).1, (depChanged_const fl jb d st).2.1⟩

/-- a `check` of a dependency of an adopted job is invisible: while the job waits for its process its state is masked;
    afterwards it is final. -/
theorem absF_check_ad {ad : Nat → Bool} {x : Nat} (h : ad x = true) (fl : Flags) (hg : fl.readyGuarded = true) (s : St) (d : Nat)
    (hs : (s.jobs x).sleeping = false)
    (hf : (s.jobs x).pc ≠ .codeWait → (s.jobs x).state.finished = true) :
    absF ad (s.check fl x d) = absF ad s := by
  unfold St.check
  obtain ⟨e3, e4, e5⟩ := depChanged_pcs fl (s.jobs x) d (s.status ((s.jobs x).deps.getD d default).origin)
  have hw := (depChanged_awake fl (s.jobs x) d (s.status ((s.jobs x).deps.getD d default).origin) hs).1
  simp only [hw]
  rw [absF_put_ad h, absJobF_congr e4 e5 e3 (fun hp => by
    have hfin := hf hp
    exact (depChanged_inert fl hg (s.jobs x) d _ (by intro e; rw [e] at hfin; simp [JS.finished] at hfin) (fun _ => hfin)).2.1)]
  exact put_self' _ _ _ (absF_jobs_ad h s)

theorem absF_notifyCheck_ad {ad : Nat → Bool} {x : Nat} (h : ad x = true) (fl : Flags) (hg : fl.readyGuarded = true) (s : St) (d : Nat)
    (hs : (s.jobs x).sleeping = false)
    (hf : (s.jobs x).pc ≠ .codeWait → (s.jobs x).state.finished = true) :
    absF ad (s.runCb fl (.notifyCheck x d)) = absF ad s := by
  simp only [St.runCb]
  split
  · split
    · exact absF_check_ad h fl hg s d hs hf
    · rfl
  · exact absF_check_ad h fl hg s d hs hf

/-- the process-ended segment when nothing is held, in closed form. -/
theorem resume_codeWait_closed (fl : Flags) (u : St) (x : Nat) (hp : (u.jobs x).pc = .codeWait) (hh : (u.jobs x).held = []) :
    u.resume fl x =
      ({ u with failed := if (if (u.jobs x).code = 0 then JS.done else JS.error) ≠ .done ∧ (!u.failed.contains (u.jobs x).ident) = true
                          then u.failed ++ [(u.jobs x).ident] else u.failed } : St).put x
        { (u.jobs x) with held := [], state := if (u.jobs x).code = 0 then JS.done else JS.error, pc := .doneHandler }
        [] [(.doneH, x)] := by
  rw [resume_codeWait fl u x hp, hh]
  simp only [St.releaseAll]
  unfold codeTail St.finish
  simp only [put_jobs, SchedFinal.upd_same, put_failed]
  by_cases hc : (if (u.jobs x).code = 0 then JS.done else JS.error) ≠ .done ∧ (!u.failed.contains (u.jobs x).ident) = true
  · rw [if_pos hc, if_pos hc]
    unfold St.put
    simp only [List.append_nil, List.nil_append]
    congr 1
    funext i; unfold upd; split <;> rfl
  · rw [if_neg hc, if_neg hc]
    unfold St.put
    simp only [List.append_nil, List.nil_append]
    congr 1
    funext i; unfold upd; split <;> rfl

/-- the process-ended segment of an adopted job, in closed form on both sides. -/
theorem absF_resume_codeWait_ad {ad : Nat → Bool} {x : Nat} (h : ad x = true) (fl : Flags) (s : St)
    (hh : (s.jobs x).held = []) (hp : (s.jobs x).pc = .codeWait) :
    absF ad (s.resume fl x) = (absF ad s).resume fl x := by
  have hj : ((absF ad s).jobs x).pc = .codeWait := by rw [absF_jobs, absRecF_pc]; exact hp
  have hh' : ((absF ad s).jobs x).held = [] := by rw [absF_jobs_ad h]; rfl
  have hcode : ((absF ad s).jobs x).code = (s.jobs x).code := by rw [absF_jobs, absRecF_code]
  have hid : ((absF ad s).jobs x).ident = (s.jobs x).ident := by rw [absF_jobs, absRecF_ident]
  rw [resume_codeWait_closed fl s x hp hh, resume_codeWait_closed fl (absF ad s) x hj hh', hcode, hid, absF_failed,
    absF_put_ad h]
  simp only [List.filter_nil]
  congr 1
  rw [absF_jobs_ad h]
  unfold absJobF
  simp

theorem absF_resume_ad {ad : Nat → Bool} {x : Nat} (h : ad x = true) (fl : Flags) (s : St) (hh : (s.jobs x).held = [])
    (hp : (s.jobs x).pc = .codeWait ∨ (s.jobs x).pc = .doneHandler) :
    absF ad (s.resume fl x) = (absF ad s).resume fl x := by
  rcases hp with hp | hp
  · exact absF_resume_codeWait_ad h fl s hh hp
  · have hj : ((absF ad s).jobs x).pc = (s.jobs x).pc := by rw [absF_jobs, absRecF_pc]
    rw [resume_doneHandler fl s x hp, resume_doneHandler fl (absF ad s) x (by rw [hj]; exact hp),
      absF_doneStep ad x s (by rw [hp]; simp)]

end XpmVerif.RestartFull
