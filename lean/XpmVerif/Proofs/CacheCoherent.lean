import XpmVerif.Proofs.CacheCoherentAcyclic
/-! Cache coherence (C01), stage 2: every graph, cycles included (DESIGN.md Appendix G).
    `Edge g n m` — the value of the stream of `n` depends on `m` (`relRefs`: a *value edge* — producing task,
    kept configuration of an argument value, examined in every context — or a *default edge* to a
    configuration of a declared default, examined by `_is_default` in some contexts only).
    `DefaultsClosed g` — well-formedness of the default objects: a default edge is never on a cycle.
    (1) the traversal stack is a chain of hash-relevant edges (`StackOK`);
    (2) from a node on a cycle the traversal emits a reference to the root: `escAt ≥ 1` (`escAt_onCycle`);
    (3) a node on no cycle has the same specification value in every context (`rawAt_ctx`);
    (4) cache invariant `CycleInv`: a cached value is the specification value, and a cached entry whose
        flag is false belongs to a node on no cycle; hence (5) `computeAt = rawAt` (`computeAt_eq_rawAt`). -/
namespace XpmVerif.Ident
open List

/-! ### the hash-relevant edge relation, paths, cycles -/

/-- `n → m`: the stream hashed for `n` depends on `m` — hashing `n` descends into `m`, emits a cycle
    reference to it, or compares its identifier with a value's (`m` a configuration of a declared default). -/
def Edge (g : Graph) (n m : Nat) : Prop := m ∈ relRefs g.mt n (g.node n)

/-- `Path g x [b₁,…,bₖ] y`: `x → b₁ → … → bₖ → y` (at least one edge). -/
inductive Path (g : Graph) : Nat → List Nat → Nat → Prop
  | single {x y : Nat} : Edge g x y → Path g x [] y
  | cons {x b y : Nat} {p : List Nat} : Edge g x b → Path g b p y → Path g x (b :: p) y

/-- `n` lies on a cycle of hash-relevant references. -/
def OnCycle (g : Graph) (n : Nat) : Prop := ∃ p, Path g n p n

/-- reflexive-transitive reachability. -/
def Reach (g : Graph) (x y : Nat) : Prop := x = y ∨ ∃ p, Path g x p y

theorem node_default (g : Graph) {n : Nat} (h : g.size ≤ n) : g.node n = { typeId := [], args := [] } := by
  unfold Graph.node
  rw [getD_eq_getElem?_getD, getElem?_eq_none h]; rfl

/-- only nodes of the graph have outgoing edges. -/
theorem Edge.lt {g : Graph} {n m : Nat} (h : Edge g n m) : n < g.size := by
  false_or_by_contra
  rename_i hn
  unfold Edge at h
  rw [node_default g (Nat.le_of_not_lt hn)] at h
  simp [relRefs, valueRefs, defaultRefs, taskRefs] at h

theorem allRefs_lt {g : Graph} {n m : Nat} (h : m ∈ allRefs g.mt n (g.node n)) : n < g.size := by
  false_or_by_contra
  rename_i hn
  rw [node_default g (Nat.le_of_not_lt hn)] at h
  simp [allRefs, metaRefs, relRefs, valueRefs, defaultRefs, taskRefs] at h

theorem Path.lt {g : Graph} {x y : Nat} {p : List Nat} (h : Path g x p y) : x < g.size := by
  cases h with
  | single e => exact e.lt
  | cons e _ => exact e.lt

theorem Path.trans {g : Graph} {x y z : Nat} {p q : List Nat} (h : Path g x p y) (h' : Path g y q z) :
    Path g x (p ++ y :: q) z := by
  induction h with
  | single e => exact .cons e h'
  | cons e _ ih => exact .cons e (ih h')

theorem Path.snoc {g : Graph} {x y z : Nat} {p : List Nat} (h : Path g x p y) (e : Edge g y z) :
    Path g x (p ++ [y]) z := h.trans (.single e)

/-- the part of a path after one of its inner nodes. -/
theorem Path.suffix {g : Graph} {x y b : Nat} {l1 l2 : List Nat} (h : Path g x (l1 ++ b :: l2) y) : Path g b l2 y := by
  induction l1 generalizing x with
  | nil =>
    cases h with
    | cons _ h' => exact h'
  | cons a l1 ih =>
    cases h with
    | cons _ h' => exact ih h'

/-- the part of a path before one of its inner nodes. -/
theorem Path.prefix {g : Graph} {x y b : Nat} {l1 l2 : List Nat} (h : Path g x (l1 ++ b :: l2) y) : Path g x l1 b := by
  induction l1 generalizing x with
  | nil =>
    cases h with
    | cons e _ => exact .single e
  | cons a l1 ih =>
    cases h with
    | cons e h' => exact .cons e (ih h')

/-- every inner node of a cycle lies on a cycle. -/
theorem Path.inner_onCycle {g : Graph} {n b : Nat} {p : List Nat} (h : Path g n p n) (hb : b ∈ p) : OnCycle g b := by
  obtain ⟨l1, l2, rfl⟩ := append_of_mem hb
  exact ⟨_, h.suffix.trans h.prefix⟩

/-- **simple paths**: a path can be shortened to one whose inner nodes are distinct and differ from both ends. -/
theorem Path.simple {g : Graph} {x y : Nat} {p : List Nat} (h : Path g x p y) :
    ∃ p', Path g x p' y ∧ p'.Nodup ∧ x ∉ p' ∧ y ∉ p' := by
  induction h with
  | single e => exact ⟨[], .single e, nodup_nil, not_mem_nil, not_mem_nil⟩
  | @cons x b y p e _ ih =>
    obtain ⟨p', hp, hnd, hb, hy⟩ := ih
    by_cases hyb : y = b
    · subst hyb; exact ⟨[], .single e, nodup_nil, not_mem_nil, not_mem_nil⟩
    by_cases hxb : x = b
    · subst hxb; exact ⟨p', hp, hnd, hb, hy⟩
    by_cases hx : x ∈ p'
    · obtain ⟨l1, l2, rfl⟩ := append_of_mem hx
      have hnd2 : (x :: l2).Nodup := (nodup_append.mp hnd).2.1
      refine ⟨l2, hp.suffix, (nodup_cons.mp hnd2).2, (nodup_cons.mp hnd2).1, ?_⟩
      intro hm; exact hy (mem_append_right _ (mem_cons_of_mem _ hm))
    · refine ⟨b :: p', .cons e hp, nodup_cons.mpr ⟨hb, hnd⟩, ?_, ?_⟩
      · intro hm
        rcases mem_cons.mp hm with h | h
        · exact hxb h
        · exact hx h
      · intro hm
        rcases mem_cons.mp hm with h | h
        · exact hyb h
        · exact hy h

theorem Reach.refl (g : Graph) (x : Nat) : Reach g x x := Or.inl rfl

theorem Reach.of_edge {g : Graph} {x y z : Nat} (e : Edge g x y) (h : Reach g y z) : Reach g x z := by
  rcases h with rfl | ⟨p, hp⟩
  · exact Or.inr ⟨[], .single e⟩
  · exact Or.inr ⟨_, .cons e hp⟩

/-- a stack node that reaches `n` and is reachable from `n` puts `n` on a cycle. -/
theorem onCycle_of_reach {g : Graph} {n m : Nat} {p : List Nat} (h : Reach g n m) (hp : Path g m p n) : OnCycle g n := by
  rcases h with rfl | ⟨q, hq⟩
  · exact ⟨p, hp⟩
  · exact ⟨_, hq.trans hp⟩

theorem SameContent.edge {g g' : Graph} (h : SameContent g g') (n m : Nat) : Edge g' n m ↔ Edge g n m := by
  unfold Edge; rw [h.relRefs]

theorem SameContent.path {g g' : Graph} (h : SameContent g g') {x y : Nat} {p : List Nat} (hp : Path g' x p y) : Path g x p y := by
  induction hp with
  | single e => exact .single ((h.edge _ _).mp e)
  | cons e _ ih => exact .cons ((h.edge _ _).mp e) ih

theorem SameContent.symm {g g' : Graph} (h : SameContent g g') : SameContent g' g :=
  ⟨h.1.symm, fun n => (h.2 n).symm⟩

theorem SameContent.onCycle {g g' : Graph} (h : SameContent g g') (n : Nat) : OnCycle g' n ↔ OnCycle g n :=
  ⟨fun ⟨p, hp⟩ => ⟨p, h.path hp⟩, fun ⟨p, hp⟩ => ⟨p, h.symm.path hp⟩⟩

theorem Reach.of_path {g : Graph} {x y : Nat} {p : List Nat} (h : Path g x p y) : Reach g x y := Or.inr ⟨p, h⟩

theorem Reach.trans {g : Graph} {x y z : Nat} (h : Reach g x y) (h' : Reach g y z) : Reach g x z := by
  rcases h with rfl | ⟨p, hp⟩
  · exact h'
  · rcases h' with rfl | ⟨q, hq⟩
    · exact Or.inr ⟨p, hp⟩
    · exact Or.inr ⟨_, hp.trans hq⟩

theorem Reach.snoc {g : Graph} {x y z : Nat} (h : Reach g x y) (e : Edge g y z) : Reach g x z :=
  h.trans (Or.inr ⟨[], .single e⟩)

/-- **well-formedness of the default objects**: a configuration that occurs in the declared default of an
    argument of `n` (and is not also one of the values of `n`) does not reach `n` back through
    hash-relevant references.  True of the real defaults: they are created in the class body — before any
    instance of the class exists — and never mutated, so they only refer to older objects.  (If the default
    object itself were being hashed while it is examined, the real code would fail on the `assert` of
    `ConfigPath.push`.)  Vacuous when no default contains a configuration. -/
def DefaultsClosed (g : Graph) : Prop :=
  ∀ n d, d ∈ defaultRefs g.mt (g.node n) → d ∉ valueRefs g.mt n (g.node n) → ¬ Reach g d n

/-- a sufficient condition that can be checked by evaluation on a concrete graph: a rank function that is
    positive on the default objects and strictly decreases — staying positive — along every reference that
    leaves a node of positive rank (`DefaultsClosed.of_rank`). -/
structure DefaultsRanked (g : Graph) (rank : Nat → Nat) : Prop where
  pos : ∀ n, n < g.size → ∀ d, d ∈ defaultRefs g.mt (g.node n) → 1 ≤ rank d
  decr : ∀ n, n < g.size → 1 ≤ rank n → ∀ m, m ∈ relRefs g.mt n (g.node n) → 1 ≤ rank m ∧ rank m < rank n

theorem DefaultsRanked.path {g : Graph} {rank : Nat → Nat} (h : DefaultsRanked g rank) {x y : Nat} {p : List Nat}
    (hp : Path g x p y) (hx : 1 ≤ rank x) : 1 ≤ rank y ∧ rank y < rank x := by
  induction hp with
  | single e => exact h.decr _ e.lt hx _ e
  | cons e _ ih =>
    have h1 := h.decr _ e.lt hx _ e
    have h2 := ih h1.1
    exact ⟨h2.1, by omega⟩

theorem DefaultsClosed.of_rank {g : Graph} {rank : Nat → Nat} (h : DefaultsRanked g rank) : DefaultsClosed g := by
  intro n d hd _ hr
  have hn : n < g.size := Edge.lt (g := g) (m := d) (defaultRefs_sub_relRefs hd)
  have hpos := h.pos n hn d hd
  rcases hr with rfl | ⟨p, hp⟩
  · have := h.decr d hn hpos d (defaultRefs_sub_relRefs hd); omega
  · have h1 := h.path hp hpos
    have := h.decr n hn h1.1 d (defaultRefs_sub_relRefs hd)
    omega

theorem DefaultsClosed.of_sameContent {g g' : Graph} (h : SameContent g g') (hd : DefaultsClosed g) : DefaultsClosed g' := by
  intro n d h1 h2 hr
  rw [h.defaultRefs] at h1
  rw [h.valueRefs] at h2
  refine hd n d h1 h2 ?_
  rcases hr with rfl | ⟨p, hp⟩
  · exact Or.inl rfl
  · exact Or.inr ⟨p, h.path hp⟩

/-- no default contains a configuration: the hypothesis is vacuous. -/
theorem DefaultsClosed.of_no_default_refs {g : Graph} (h : ∀ n, defaultRefs g.mt (g.node n) = []) : DefaultsClosed g := by
  intro n d hd; rw [h n] at hd; cases hd

/-- decidable form of "no default contains a configuration". -/
def noDefaultRefsB (g : Graph) : Bool := (List.range g.size).all (fun n => (defaultRefs g.mt (g.node n)).isEmpty)

theorem DefaultsClosed.of_noDefaultRefsB {g : Graph} (h : noDefaultRefsB g = true) : DefaultsClosed g := by
  apply DefaultsClosed.of_no_default_refs
  intro n
  by_cases hn : n < g.size
  · simp only [noDefaultRefsB, all_eq_true, mem_range, isEmpty_iff] at h
    exact h n hn
  · rw [node_default g (Nat.le_of_not_lt hn)]; rfl

/-- decidable form of `DefaultsRanked`. -/
def defaultsRankedB (g : Graph) (rank : Nat → Nat) : Bool :=
  (List.range g.size).all (fun n =>
    (defaultRefs g.mt (g.node n)).all (fun d => decide (1 ≤ rank d)) &&
    (decide (rank n = 0) || (relRefs g.mt n (g.node n)).all (fun m => decide (1 ≤ rank m ∧ rank m < rank n))))

theorem DefaultsRanked.of_B {g : Graph} {rank : Nat → Nat} (h : defaultsRankedB g rank = true) : DefaultsRanked g rank := by
  simp only [defaultsRankedB, all_eq_true, mem_range, Bool.and_eq_true, Bool.or_eq_true, decide_eq_true_eq] at h
  refine ⟨fun n hn d hd => (h n hn).1 d hd, fun n hn hr m hm => ?_⟩
  rcases (h n hn).2 with h0 | h1
  · omega
  · exact h1 m hm

/-! ### fuel: `g.size + 1` is always enough -/

/-- pigeonhole: a list of distinct numbers below `N` has at most `N` elements. -/
theorem nodup_length_le : ∀ (N : Nat) (l : List Nat), l.Nodup → (∀ x, x ∈ l → x < N) → l.length ≤ N := by
  intro N
  induction N with
  | zero =>
    intro l _ h
    cases l with
    | nil => simp
    | cons a _ => exact absurd (h a (by simp)) (by omega)
  | succ N ih =>
    intro l hnd h
    have h1 : (l.erase N).length ≤ N := by
      apply ih _ (hnd.sublist erase_sublist)
      intro x hx
      have := (hnd.mem_erase_iff.mp hx)
      have := h x this.2
      omega
    by_cases hm : N ∈ l
    · rw [length_erase_of_mem hm] at h1; omega
    · rw [erase_of_not_mem hm] at h1; omega

/-- the stack is duplicate free, inside the graph, does not contain the current node, and the remaining
    fuel covers the rest of the graph. -/
def FuelOK (g : Graph) (f : Nat) (stack : List Nat) (n : Nat) : Prop :=
  stack.Nodup ∧ n ∉ stack ∧ (∀ x, x ∈ stack → x < g.size) ∧ g.size + 1 ≤ f + stack.length

theorem FuelOK.pos {g : Graph} {f : Nat} {stack : List Nat} {n : Nat} (h : FuelOK g f stack n) : 1 ≤ f := by
  have := nodup_length_le g.size stack h.1 h.2.2.1
  have := h.2.2.2
  omega

theorem FuelOK.child {g : Graph} {f : Nat} {stack : List Nat} {n m : Nat} (h : FuelOK g (f + 1) stack n)
    (e : Edge g n m) (hm : m ∉ n :: stack) : FuelOK g f (n :: stack) m := by
  refine ⟨nodup_cons.mpr ⟨h.2.1, h.1⟩, hm, ?_, ?_⟩
  · intro x hx
    rcases mem_cons.mp hx with rfl | hx
    · exact e.lt
    · exact h.2.2.1 x hx
  · have := h.2.2.2
    simp only [length_cons]; omega

theorem FuelOK.root (g : Graph) (n : Nat) : FuelOK g (g.size + 1) [] n := by
  refine ⟨nodup_nil, not_mem_nil, ?_, ?_⟩
  · intro x hx; cases hx
  · simp

/-! ### `DefaultsClosed` is decidable by evaluation -/

/-- the nodes reachable from `x` by at most `k` hash-relevant references (with repetitions). -/
def reachK (g : Graph) : Nat → Nat → List Nat
  | 0, x => [x]
  | k + 1, x => x :: ((relRefs g.mt x (g.node x)).map (reachK g k)).flatten

theorem reachK_self (g : Graph) (k x : Nat) : x ∈ reachK g k x := by
  cases k <;> simp [reachK]

theorem reachK_of_path {g : Graph} {x y : Nat} {p : List Nat} (hp : Path g x p y) :
    ∀ k, p.length ≤ k → y ∈ reachK g (k + 1) x := by
  induction hp with
  | @single x y e =>
    intro k _
    simp only [reachK, mem_cons, mem_flatten, mem_map]
    exact .inr ⟨_, ⟨y, e, rfl⟩, reachK_self g k y⟩
  | @cons x b y p e _ ih =>
    intro k hk
    cases k with
    | zero => simp at hk
    | succ k =>
      simp only [reachK, mem_cons, mem_flatten, mem_map]
      exact .inr ⟨_, ⟨b, e, rfl⟩, ih k (by simpa using hk)⟩

/-- exact Boolean form of `DefaultsClosed` (for concrete graphs; exponential in the worst case). -/
def defaultsClosedB (g : Graph) : Bool :=
  (List.range g.size).all (fun n => (defaultRefs g.mt (g.node n)).all (fun d =>
    (valueRefs g.mt n (g.node n)).contains d || !(reachK g (g.size + 1) d).contains n))

theorem DefaultsClosed.of_B {g : Graph} (h : defaultsClosedB g = true) : DefaultsClosed g := by
  intro n d hd hv hr
  have hn : n < g.size := Edge.lt (g := g) (m := d) (defaultRefs_sub_relRefs hd)
  simp only [defaultsClosedB, all_eq_true, mem_range, Bool.or_eq_true, contains_iff_mem, Bool.not_eq_true',
    ← Bool.not_eq_true] at h
  rcases h n hn d hd with h | h
  · exact hv h
  · apply h
    rcases hr with rfl | ⟨p0, hp0⟩
    · exact reachK_self g _ _
    · obtain ⟨p, hp, hnd, hdp, _⟩ := hp0.simple
      apply reachK_of_path hp
      have hlen : (d :: p).length ≤ g.size := by
        apply nodup_length_le _ _ (nodup_cons.mpr ⟨hdp, hnd⟩)
        intro x hx
        rcases mem_cons.mp hx with rfl | hx
        · exact hp.lt
        · obtain ⟨l1, l2, rfl⟩ := append_of_mem hx
          exact hp.suffix.lt
      simp only [length_cons] at hlen
      omega

/-! ### (3) context independence -/

theorem relIndex_eq_none_iff {stack : List Nat} {m : Nat} : relIndex stack m = none ↔ m ∉ stack := by
  constructor
  · intro h hm
    obtain ⟨k, hk, _⟩ := relIndex_some hm
    rw [h] at hk; cases hk
  · exact relIndex_none

/-- **context independence**: two stacks with a common prefix `P` whose remaining parts `S`, `S'` are not
    reachable from `n` give the same specification value (any sufficient fuels). -/
theorem rawAt_ctx {D : Type} (hc : HC D) (g : Graph) (S S' : List Nat) :
    ∀ (f f' : Nat) (P : List Nat) (n : Nat), (∀ m, Reach g n m → m ∉ S ∧ m ∉ S') →
      FuelOK g f (P ++ S) n → FuelOK g f' (P ++ S') n →
      rawAt hc g f (P ++ S) n = rawAt hc g f' (P ++ S') n := by
  intro f
  induction f with
  | zero => intro f' P n _ h; have := h.pos; omega
  | succ f ih =>
    intro f' P n hr h h'
    cases f' with
    | zero => have := h'.pos; omega
    | succ f' =>
      simp only [rawAt]
      congr 1
      apply nodeStream_congr_ctx
      intro m hm
      have e : Edge g n m := hm
      by_cases hp : m ∈ n :: P
      · rw [← cons_append, ← cons_append, relIndex_append_of_mem hp, relIndex_append_of_mem hp]
        obtain ⟨k, hk, _⟩ := relIndex_some hp
        refine ⟨rfl, fun hnone => ?_⟩
        rw [hk] at hnone; cases hnone
      · have hS := hr m (Reach.of_edge e (Reach.refl g m))
        have h1 : m ∉ n :: (P ++ S) := by
          rw [← cons_append]; intro hmem
          rcases mem_append.mp hmem with h | h
          · exact hp h
          · exact hS.1 h
        have h2 : m ∉ n :: (P ++ S') := by
          rw [← cons_append]; intro hmem
          rcases mem_append.mp hmem with h | h
          · exact hp h
          · exact hS.2 h
        rw [relIndex_none h1, relIndex_none h2]
        refine ⟨rfl, fun _ => ?_⟩
        have := ih f' (n :: P) m (fun m' hm' => hr m' (Reach.of_edge e hm')) (h.child e h1) (h'.child e h2)
        rw [cons_append, cons_append] at this
        rw [this]

/-- the traversal stack is a chain: every node on it reaches the current node by at least one edge. -/
def StackOK (g : Graph) (stack : List Nat) (n : Nat) : Prop := ∀ x, x ∈ stack → ∃ p, Path g x p n

theorem StackOK.child {g : Graph} {stack : List Nat} {n m : Nat} (h : StackOK g stack n) (e : Edge g n m) :
    StackOK g (n :: stack) m := by
  intro x hx
  rcases mem_cons.mp hx with rfl | hx
  · exact ⟨[], .single e⟩
  · obtain ⟨p, hp⟩ := h x hx
    exact ⟨_, hp.snoc e⟩

/-- a node on no cycle has its `rawId` in every context the traversal can reach it in. -/
theorem rawAt_of_not_onCycle {D : Type} (hc : HC D) (g : Graph) (f : Nat) (stack : List Nat) (n : Nat)
    (hn : ¬ OnCycle g n) (hs : StackOK g stack n) (hf : FuelOK g f stack n) :
    rawAt hc g f stack n = rawId hc g n := by
  have := rawAt_ctx hc g stack [] f (g.size + 1) [] n
    (fun m hm => ⟨fun hmem => by
      obtain ⟨p, hp⟩ := hs m hmem
      exact hn (onCycle_of_reach hm hp), not_mem_nil⟩)
    (by simpa using hf) (by simpa using FuelOK.root g n)
  unfold rawId
  simpa using this

/-! ### (4)/(5) cache invariant and `computeAt` -/

/-- a cached raw identifier is the specification value; if its loop flag is false the node is on no cycle. -/
def CycleInv {D : Type} (hc : HC D) (g : Graph) (raw : Nat → Option (D × Bool)) : Prop :=
  ∀ n d b, raw n = some (d, b) → d = rawId hc g n ∧ (b = false → ¬ OnCycle g n)

/-- **`computeAt` equals the specification** under the cache invariant, for every chain stack. -/
theorem computeAt_eq_rawAt {D : Type} (hc : HC D) (g : Graph) (c : Caches D) (hinv : CycleInv hc g c.raw) :
    ∀ (f : Nat) (stack : List Nat) (n : Nat), StackOK g stack n → FuelOK g f stack n →
      computeAt hc g c f stack n = rawAt hc g f stack n := by
  intro f
  induction f with
  | zero => intro stack n _ _; rfl
  | succ f ih =>
    intro stack n hs hf
    simp only [computeAt]
    split
    · rename_i d heq
      obtain ⟨h1, h2⟩ := hinv n d false (cacheHit_some heq)
      rw [h1, rawAt_of_not_onCycle hc g (f + 1) stack n (h2 rfl) hs hf]
    · simp only [rawAt]
      congr 1
      apply nodeStream_congr_ctx
      intro m hm
      have e : Edge g n m := hm
      refine ⟨rfl, fun hk => ?_⟩
      rw [ih (n :: stack) m (hs.child e) (hf.child e (relIndex_eq_none_iff.mp hk))]

/-! ### (2) a traversal started on a cycle references its root -/

/-- the comparison made under a stack never finds a member of the stack equal to a default. -/
theorem ctxEq_onStack (stack : List Nat) (cfg : Nat → List Nat) (d v : Nat) (h : ctxEq stack cfg d v = true) :
    (relIndex stack v).isSome = false := by
  unfold ctxEq at h
  cases hk : relIndex stack v <;> simp_all

/-- a value edge is followed in every context. -/
theorem valueRef_mem_nodeRefs {g : Graph} {x y : Nat} (stack : List Nat) (cfg : Nat → List Nat)
    (h : y ∈ valueRefs g.mt x (g.node x)) :
    y ∈ nodeRefs (fun m => (relIndex stack m).isSome) (ctxEq stack cfg) g.mt x (g.node x) :=
  valueRefs_sub_nodeRefs (ctxEq_onStack stack cfg) h

/-- an edge that lies on a cycle is a value edge (`DefaultsClosed`). -/
theorem Edge.value_of_back {g : Graph} (hdc : DefaultsClosed g) {x y : Nat} (e : Edge g x y) (hr : Reach g y x) :
    y ∈ valueRefs g.mt x (g.node x) := by
  false_or_by_contra
  rename_i hv
  rcases mem_append.1 e with h | h
  · exact hv h
  · exact hdc x y h hv hr

theorem escAt_path {D : Type} (hc : HC D) (g : Graph) (c : Caches D) (hdc : DefaultsClosed g)
    {x y : Nat} {p : List Nat} (hp : Path g x p y) :
    ∀ (stack : List Nat) (k f : Nat), Reach g y x → (∀ b, b ∈ p → b ∉ x :: stack) → p.Nodup →
      relIndex (x :: stack) y = some k → (∀ b, b ∈ x :: p → cacheHit g c b = none) → p.length < f →
      k ≤ escAt hc g c f stack x := by
  induction hp with
  | @single x y e =>
    intro stack k f hback _ _ hk hch hf
    cases f with
    | zero => omega
    | succ f =>
      simp only [escAt, hch x (by simp)]
      refine Nat.le_trans ?_ (foldl_max_ge_mem _ _ 0
        (valueRef_mem_nodeRefs (x :: stack) _ (e.value_of_back hdc hback)))
      simp only [hk]; exact Nat.le_refl _
  | @cons x b y p e hp' ih =>
    intro stack k f hback hav hnd hk hch hf
    cases f with
    | zero => omega
    | succ f =>
      have hb : b ∉ x :: stack := hav b (by simp)
      have hy : y ∈ x :: stack := relIndex_mem hk
      have hby : b ≠ y := fun h => hb (h ▸ hy)
      have hk' : relIndex (b :: x :: stack) y = some (k + 1) := by
        rw [relIndex, if_neg hby, hk]; rfl
      have := ih (x :: stack) (k + 1) f (hback.snoc e)
        (by
          intro b' hb' hmem
          rcases mem_cons.mp hmem with h | h
          · subst h; exact (nodup_cons.mp hnd).1 hb'
          · exact hav b' (by simp [hb']) h)
        (nodup_cons.mp hnd).2 hk' (fun b' hb' => hch b' (by simp [hb'])) (by simp at hf; omega)
      simp only [escAt, hch x (by simp)]
      refine Nat.le_trans ?_ (foldl_max_ge_mem _ _ 0
        (valueRef_mem_nodeRefs (x :: stack) _ (e.value_of_back hdc ((Reach.of_path hp').trans hback))))
      simp only [relIndex_none hb]; omega

/-- **cycle detection**: if `n` lies on a cycle, the loop flag computed by `reqRaw` is set
    (the cache invariant guarantees that no node of the cycle is skipped). -/
theorem escAt_onCycle {D : Type} (hc : HC D) (g : Graph) (hdc : DefaultsClosed g) (c : Caches D)
    (hinv : CycleInv hc g c.raw) (n : Nat)
    (hn : OnCycle g n) : 1 ≤ escAt hc g c (g.size + 1) [] n := by
  obtain ⟨p0, hp0⟩ := hn
  obtain ⟨p, hp, hnd, hnp, _⟩ := hp0.simple
  have hmiss : ∀ b, OnCycle g b → cacheHit g c b = none := by
    intro b hb
    cases h : cacheHit g c b with
    | none => rfl
    | some d => exact absurd hb ((hinv b d false (cacheHit_some h)).2 rfl)
  apply escAt_path hc g c hdc hp [] 1 (g.size + 1)
  · exact Reach.refl g n
  · intro b hb hmem
    simp only [mem_singleton] at hmem
    subst hmem; exact hnp hb
  · exact hnd
  · simp [relIndex]
  · intro b hb
    rcases mem_cons.mp hb with rfl | hb
    · exact hmiss _ ⟨p, hp⟩
    · exact hmiss b (hp.inner_onCycle hb)
  · have hlen : (n :: p).length ≤ g.size := by
      apply nodup_length_le _ _ (nodup_cons.mpr ⟨hnp, hnd⟩)
      intro x hx
      rcases mem_cons.mp hx with rfl | hx
      · exact hp.lt
      · obtain ⟨l1, l2, rfl⟩ := append_of_mem hx
        exact hp.suffix.lt
    simp only [length_cons] at hlen
    omega

/-! ### the general theorem -/

theorem rawSound_general {D : Type} (hc : HC D) (g0 : Graph) (hdc : DefaultsClosed g0) :
    RawSound hc g0 (CycleInv hc g0) := by
  have tr : ∀ (s : St D), SameContent g0 s.g → CycleInv hc g0 s.c.raw → CycleInv hc s.g s.c.raw := by
    intro s hg hJ m d b h
    obtain ⟨h1, h2⟩ := hJ m d b h
    exact ⟨by rw [hg.rawId]; exact h1, fun hb hcyc => h2 hb ((hg.onCycle m).mp hcyc)⟩
  apply rawSound_of
  · intro raw n d b hJ h; exact (hJ n d b h).1
  · intro s n hg hJ
    rw [← hg.rawId hc n]
    exact computeAt_eq_rawAt hc s.g s.c (tr s hg hJ) _ [] n (fun _ hx => by cases hx) (FuelOK.root s.g n)
  · intro s n hg hJ m d b h
    simp only [updF] at h
    split at h
    · rename_i hm
      cases h
      refine ⟨by rw [hm], ?_⟩
      intro hflag hcyc
      have := escAt_onCycle hc s.g (hdc.of_sameContent hg) s.c (tr s hg hJ) n ((hg.onCycle n).mpr (hm ▸ hcyc))
      simp only [decide_eq_false_iff_not] at hflag
      exact hflag this
    · exact hJ m d b h

/-- **stage 2**: on every graph, every answer of a query-only history started with empty caches is the
    specification's answer. -/
theorem runOps_general {D : Type} (hc : HC D) (ho : LeOrder hc) (g : Graph) (hdc : DefaultsClosed g)
    (ops : List Op) (hq : ∀ o, o ∈ ops → o.isQuery = true) :
    (runOps hc true { g := g, c := Caches.empty } ops).2 = ops.map (specOut hc g) :=
  runOps_sound hc ho g _ (rawSound_general hc g hdc) ops _ hq (good_empty hc g _ (fun _ _ _ h => by cases h))

/-- the invariant holds in every state reached by a query-only history. -/
theorem runOps_good {D : Type} (hc : HC D) (ho : LeOrder hc) (g0 : Graph) (J : (Nat → Option (D × Bool)) → Prop)
    (hRS : RawSound hc g0 J) : ∀ (ops : List Op) (s : St D), (∀ o, o ∈ ops → o.isQuery = true) → Good hc g0 J s →
    Good hc g0 J (runOps hc true s ops).1
  | [], _, _, hs => hs
  | o :: os, s, hq, hs => by
    simp only [runOps]
    exact runOps_good hc ho g0 J hRS os _ (fun o ho => hq o (by simp [ho]))
      (step_sound hc ho g0 J hRS s o (hq o (by simp)) hs).2

/-! ### histories of `seal` and raw-identifier requests only: no assumption on the digest order -/

/-- `seal` and `identifiers(only_raw=True)` requests. -/
def Op.isRawQuery : Op → Bool
  | .sealOp _ | .reqRaw _ => true
  | _ => false

theorem runOps_raw_sound {D : Type} (hc : HC D) (g0 : Graph) (J : (Nat → Option (D × Bool)) → Prop)
    (hRS : RawSound hc g0 J) : ∀ (ops : List Op) (s : St D), (∀ o, o ∈ ops → o.isRawQuery = true) →
    SameContent g0 s.g → J s.c.raw → (runOps hc true s ops).2 = ops.map (specOut hc g0)
  | [], _, _, _, _ => rfl
  | o :: os, s, hq, hg, hJ => by
    have ho := hq o (by simp)
    have hq' : ∀ o, o ∈ os → o.isRawQuery = true := fun o ho => hq o (by simp [ho])
    cases o with
    | sealOp n =>
      simp only [runOps, map_cons, step, specOut]
      rw [runOps_raw_sound hc g0 J hRS os { g := sealFrom s.g n, c := s.c } hq'
        (hg.trans (sameContent_sealFrom s.g n)) hJ]
    | reqRaw n =>
      obtain ⟨h1, h2, h3, _⟩ := hRS s n hg hJ
      simp only [runOps, map_cons, step, specOut]
      rw [h1, runOps_raw_sound hc g0 J hRS os _ hq' (h2 ▸ hg) h3]
    | reqFull _ => cases ho
    | set _ _ _ => cases ho
    | setMeta _ _ => cases ho
    | addPretask _ _ => cases ho

/-! ### concrete values for the non-vacuity examples -/

/-- a toy hash whose digests are atomic tokens, ordered as numbers. -/
def exHC : HC Nat :=
  { H := fun l => l.foldl (fun a b => (a * 31 + b + 1) % 1000003) 7, emb := fun d => [256 + d], le := fun a b => decide (a ≤ b) }

theorem exHC_order : LeOrder exHC :=
  ⟨fun a b => by simp only [exHC, decide_eq_true_eq]; omega,
   fun a b c => by simp only [exHC, decide_eq_true_eq]; omega,
   fun a b => by simp only [exHC, decide_eq_true_eq]; omega⟩

/-- a cycle `0 → 1 → 2 → 0` with a shared leaf `3` (a list element of 2), node 1 has pre-task 3 and init-task 2;
    node 0 is already sealed. -/
def exCyc : Graph :=
  { nodes := [
      { typeId := [99], args := [{ name := [120], value := .ref 1 }], sealed := true },
      { typeId := [99], args := [{ name := [120], value := .ref 2 }], preTasks := [3], initTasks := [2] },
      { typeId := [99], args := [{ name := [120], value := .ref 0 }, { name := [121], value := .list [.ref 3, .int 4] }] },
      { typeId := [100], args := [{ name := [122], value := .str [65] }] }] }

/-- a diamond `0 → {1, 2} → 3` (shared sub-configuration), node 1 is the task producing 0. -/
def exDag : Graph :=
  { nodes := [
      { typeId := [99], args := [{ name := [120], value := .ref 2 }], task := some 1, preTasks := [3] },
      { typeId := [98], args := [{ name := [120], value := .dict [[1], [2]] [.ref 3, .int 1] }], sealed := true },
      { typeId := [99], args := [{ name := [121], value := .list [.ref 3] }] },
      { typeId := [100], args := [{ name := [122], value := .str [65] }] }] }

theorem exDag_ranked : Ranked exDag (fun n => 4 - n) := by
  refine ⟨?_, fun n => by simp only [exDag, Graph.size, length_cons, length_nil]; omega⟩
  intro n m h
  have hn : n < 4 := allRefs_lt h
  match n, hn with
  | 0, _ => revert m; decide
  | 1, _ => revert m; decide
  | 2, _ => revert m; decide
  | 3, _ => revert m; decide

theorem exCyc_onCycle : OnCycle exCyc 0 :=
  ⟨[1, 2], .cons (by unfold Edge; decide) (.cons (by unfold Edge; decide) (.single (by unfold Edge; decide)))⟩

/-- the identifiers in a list of outputs (for kernel-checked examples). -/
def outIds {D : Type} : List (Out D) → List (Option D)
  | [] => []
  | .id d :: l => some d :: outIds l
  | _ :: l => none :: outIds l

end XpmVerif.Ident
