import XpmVerif.Basic.JsonUtil
import XpmVerif.Model.FileTokensNames
/-! Line-protocol driver for the naming layer of M2' (C08, who a token file names).
    {"op":"resolve","uri":"<second line of a token file>","cwds":["/abs/cwd of process 0", …],"jobdir":"/abs/path of the job the writer means"}
    output: {"absolute":b,"resolves":[b per process: `resolvePath` reaches that job],"segs":[…]} -/
open Lean XpmVerif XpmVerif.J XpmVerif.FileTokens XpmVerif.FileTokensNames

def stepJ (u : Unit) (j : Json) : Unit × Json :=
  match strF j "op" with
  | "resolve" =>
    let d := parsePath (strF j "uri")
    let cwds := (arrF j "cwds").map fun c => (parsePath (J.str c)).segs
    let job := (parsePath (strF j "jobdir")).segs
    let w : World String := { cwd := fun p => cwds.getD p [], jobAt := fun l => if l == job then some 0 else none }
    let res := (List.range cwds.length).map fun p => resolvePath w p d == some 0
    (u, Json.mkObj [("absolute", d.isAbs), ("resolves", Json.arr (res.map fun (b : Bool) => (b : Json)).toArray),
                    ("segs", Json.arr (d.segs.map fun (x : String) => (x : Json)).toArray)])
  | op => (u, Json.mkObj [("error", Json.str s!"bad-op {op}")])

def main : IO Unit := J.loop stepJ ()
