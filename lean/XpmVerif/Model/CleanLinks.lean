import XpmVerif.Model.Clean
/-! M9 (third part): symbolic links in the job store.

    `deprecated list --fix` leaves `jobs/<type>/<old-id>` as a symbolic link to the directory of the
    new identifier; removing the target leaves a dangling link; an index link
    `xp/<name>/jobs/<type>/<id>` may thus point to a store entry that is itself a link.  This file
    extends the layouts of `Model/Clean.lean` with such entries and models what the two loops of
    `process()` and the loops of `orphans()` do with them:

    * `Path.resolve()` + `is_dir()` on a store entry (`resolve`): a real directory is itself, a link is
      followed (chains allowed, fuel = number of links), a dangling link resolves to nothing;
    * `process()`: experiment membership is recorded under the *resolved* directory of every index
      link; every store entry (directory or link) is resolved and the decisions are taken on — and
      `rmtree` is applied to — the resolved directory; links themselves are never touched;
    * `orphans()`: every live index link contributes its own name and the name of its resolved
      directory to the reference set; a live store entry outside the set is removed with `unlink` when
      it is a link, `rmtree` otherwise; dangling links are not listed.

    Enumeration order: when a link and its target are both orphans, the real command unlinks the link
    if it is listed first and leaves it dangling otherwise; the model lists links first.  The theorems
    on links are therefore stated for links whose target survives. -/
namespace XpmVerif.Filter

/-- the store entry `jobs/<key.1>/<key.2>` is a symbolic link to `jobs/<target.1>/<target.2>`. -/
structure Link where
  key : Key
  target : Key
  deriving Repr, DecidableEq

structure LLayout where
  jobs : List Job
  links : List Link
  xps : List Xp
  deriving Repr, DecidableEq

def findJob (jobs : List Job) (k : Key) : Option Job := jobs.find? (fun j => j.key == k)
def findLink (links : List Link) (k : Key) : Option Link := links.find? (fun l => l.key == k)

/-- `(<workspace>/jobs/<k>).resolve()` when it is a directory: a real directory wins, a link is
    followed for at most `fuel` steps. -/
def resolve (LL : LLayout) : Nat → Key → Option Job
  | 0, k => findJob LL.jobs k
  | n + 1, k =>
    match findJob LL.jobs k with
    | some j => some j
    | none =>
      match findLink LL.links k with
      | some l => resolve LL n l.target
      | none => none

def LLayout.res (LL : LLayout) (k : Key) : Option Job := resolve LL LL.links.length k

/-- the layout as `process()` sees it through `resolve()`: every index link stands for the directory
    it resolves to (an index link whose target is not a directory is skipped by the first loop). -/
def LLayout.view (LL : LLayout) : Layout :=
  { jobs := LL.jobs,
    xps := LL.xps.map (fun x => { x with index := x.index.filterMap (fun k => (LL.res k).map Job.key) }) }

/-- the resolved directories reached by the second loop of `process()`: one per store entry that
    resolves to a directory (a directory that is also the target of links is reached several times). -/
def LLayout.reached (LL : LLayout) : List Job :=
  LL.jobs ++ LL.links.filterMap (fun l => LL.res l.key)

/-- `process(clean=True)` on a store with links. -/
def cleanImplL (q : Quirks) (rx : Rx) (sc : String → String) (LL : LLayout) (o : CleanOpts) : Option LLayout :=
  let go (flt : Option Obj) : LLayout :=
    { LL with jobs := LL.jobs.filter (fun j =>
        !(LL.reached.any (fun j' => j' == j && removesImpl q rx sc LL.view o flt j'))) }
  match o.filter with
  | none => some (go none)
  | some e =>
    match compile q e with
    | none => none
    | some f => some (go (some f))

/-- names added to `xpjobs` for the links of one index directory: the link's own name and the name of
    the directory it resolves to, for the links that are directories. -/
def liveRefs (LL : LLayout) (ks : List Key) : List Key :=
  ks.flatMap (fun k => match LL.res k with
    | some j => [k, j.key]
    | none => [])

def xpjobsL (LL : LLayout) (o : OrphOpts) : List Key :=
  LL.xps.flatMap (fun x => liveRefs LL x.index)
    ++ (if o.ignoreOld then [] else LL.xps.flatMap (fun x => liveRefs LL (x.backup.getD [])))

/-- `orphans` on a store with links (links listed first). -/
def orphansImplL (LL : LLayout) (o : OrphOpts) : LLayout :=
  { LL with
    jobs := LL.jobs.filter (fun j => !(o.clean && !(xpjobsL LL o).contains j.key)),
    links := LL.links.filter (fun l => !(o.clean && (LL.res l.key).isSome && !(xpjobsL LL o).contains l.key)) }

def runCmdL (q : Quirks) (rx : Rx) (sc : String → String) (LL : LLayout) : Cmd → LLayout
  | .clean o => (cleanImplL q rx sc LL o).getD LL
  | .orphans o => orphansImplL LL o

def runCmdsL (q : Quirks) (rx : Rx) (sc : String → String) (LL : LLayout) (cs : List Cmd) : LLayout :=
  cs.foldl (runCmdL q rx sc) LL

/-- a layout without links. -/
def Layout.noLinks (L : Layout) : LLayout := { jobs := L.jobs, links := [], xps := L.xps }

end XpmVerif.Filter
