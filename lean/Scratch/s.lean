def a : List String := ["id", "pre-tasks", "meta"]
def b : List String := ["meta", "id", "pre-tasks"]
def sameKeys (a b : List String) : Bool := a.all (b.contains ·) && b.all (a.contains ·)
example : sameKeys a b = true := by decide
def idx (l : List String) (k : String) : Nat := l.idxOf k
example : idx a "meta" = 2 := by decide
