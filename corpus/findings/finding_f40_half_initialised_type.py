"""F40 (C03, C15): a configuration class whose first use raised while its parameters were being gathered stays half initialised.

`ObjectType.__initialize__` sets `__initialized__ = True` before it gathers the arguments; if gathering raises (here: an annotation
that names a class which does not exist yet) the flag stays set, so the next use of the class silently finds a type WITHOUT
arguments: assignments become plain attributes, nothing is type-checked (C15: a str is stored in `x: Param[int]`) and nothing
enters the identifier (C03: x=1 and x=2 share one identifier and would share one job directory).
Stand-alone, public API only.  Exit 1 = the defect shows, exit 0 = it does not."""
import logging
import sys

sys._called_from_test = True
from experimaestro import Config, Param

logging.disable(logging.CRITICAL)


class A(Config):
    __xpmid__ = "f40.a"
    x: Param[int]
    y: Param["NotDefinedYet"]  # noqa: F821 - unresolved forward reference


def first_use_raises():
    try:
        A(x=1)
    except NameError:
        return True
    return False


bad = []
if not first_use_raises():
    print("the first use did not raise: scenario not applicable")
    sys.exit(0)
# the caller swallowed the error (a notebook cell run again, a try/except around an optional component)
try:
    a = A()
    a.x = 1
    b = A()
    b.x = 2
    if a.__xpm__.identifier.all == b.__xpm__.identifier.all:
        bad.append(f"x=1 and x=2 share the identifier {a.__xpm__.identifier.all.hex()[:16]} (argument table: {dict(A.__xpmtype__.arguments)})")
    c = A()
    try:
        c.x = "not an int"
        if not isinstance(c.x, int):
            bad.append(f"x: Param[int] holds {c.x!r}")
    except (TypeError, ValueError):
        pass
except NameError:
    pass  # the second use raises again: the class is unusable until it is repaired, which is the expected behaviour
for b_ in bad:
    print("DEFECT:", b_)
sys.exit(1 if bad else 0)
