import XpmVerif.Model.XpIndexFine
/-! Invariant of the fine-grained index model `XpFine` (M7-fine).

The proofs use the generated programs only through the eight facts of the first section, each checked by
evaluation of the generated lists (`decide` on finite data): when the source orders or guards its statements
differently the fact concerned stops checking, and with it everything below. -/
namespace XpmVerif.XpFine
open XpmVerif.XpIndex (Entry Link Proc names hasName unlock)
open XpmVerif.XpEff

/-! ### what the proofs need of the generated programs -/

theorem guarded_enter (m : Mode) (lk : Bool) : guarded lk (enterProg m) = true := by
  cases m <;> cases lk <;> decide

theorem final_enter (m : Mode) : finalLk false (enterProg m) = (m != .dryRun) := by
  cases m <;> decide

theorem allowed_enter (m : Mode) (exc : Bool) : (enterProg m).all (allowed .entering m exc) = true := by
  cases m <;> cases exc <;> decide

theorem guarded_exit (m : Mode) (exc : Bool) : guarded (m != .dryRun) (exitProg m exc) = true := by
  cases m <;> cases exc <;> decide

theorem allowed_exit (m : Mode) (exc : Bool) : (exitProg m exc).all (allowed .exiting m exc) = true := by
  cases m <;> cases exc <;> decide

theorem guarded_link : guarded true linkProg = true := by decide

theorem final_link (lk : Bool) : finalLk lk linkProg = lk := by cases lk <;> decide

theorem allowed_link (exc : Bool) : linkProg.all (allowed .linking .normal exc) = true := by
  cases exc <;> decide

/-! ### process-local invariant -/

structure LocalOK (ps : PSt) : Prop where
  g : guarded ps.lk ps.todo = true
  a : ∀ e, e ∈ ps.todo → allowed ps.kind ps.mode ps.exc e = true
  f : (ps.kind = .entering ∨ ps.kind = .linking) → finalLk ps.lk ps.todo = (ps.mode != .dryRun)
  i : ps.kind = .inside → ps.lk = (ps.mode != .dryRun) ∧ ps.todo = []
  n : ps.kind = .linking → ps.mode = .normal
  z : ps.kind = .idle → ps.lk = false

theorem localOK_default : LocalOK {} := by
  constructor <;> simp [guarded]

theorem settle_lk (ps : PSt) : ps.settle.lk = ps.lk := by
  unfold PSt.settle
  split
  · split <;> try rfl
    split
    · rfl
    · simp_all
  · rfl

theorem settle_ok {ps : PSt} (h : LocalOK ps) : LocalOK ps.settle := by
  unfold PSt.settle
  split
  · rename_i ht
    have hf := h.f
    have hn := h.n
    split
    · rename_i hk
      constructor <;> simp_all [guarded, finalLk]
    · rename_i hk
      constructor <;> simp_all [guarded, finalLk]
    · split
      · rename_i hk hl
        constructor <;> simp_all [guarded]
      · exact localOK_default
    · exact h
  · exact h

theorem lkAfter_other {e : Eff} (lk : Bool) (h1 : e ≠ .takeLock) (h2 : e ≠ .releaseLock) : lkAfter lk e = lk := by
  cases e <;> simp_all [lkAfter]

theorem next_ok {ps : PSt} (h : LocalOK ps) (adv : Bool) : LocalOK (ps.next adv) := by
  unfold PSt.next
  split
  · exact h
  · rename_i e rest ht
    split
    · apply settle_ok
      have hg := h.g
      have ha := h.a
      have hf := h.f
      have hi := h.i
      have hn := h.n
      rw [ht] at hg ha hf hi
      simp only [guarded, Bool.and_eq_true] at hg
      constructor
      · exact hg.2
      · intro x hx; exact ha x (List.mem_cons_of_mem _ hx)
      · intro hk; simpa [finalLk] using hf hk
      · intro hk; have := (hi hk).2; simp at this
      · exact hn
      · intro hk; have := h.z hk; have hg1 := hg.1
        cases e <;> simp_all [lkAfter, Eff.writes, allowed]
    · exact h

theorem next_lk {ps : PSt} {e : Eff} {rest : List Eff} (ht : ps.todo = e :: rest) (adv : Bool) :
    (ps.next adv).lk = if adv then lkAfter ps.lk e else ps.lk := by
  unfold PSt.next
  rw [ht]
  simp only
  split
  · rw [settle_lk]
  · rfl

/-! ### global invariant -/

structure Inv (s : St) : Prop where
  loc : ∀ p, LocalOK (s.ph p)
  L : ∀ p, (s.ph p).lk = true ↔ s.lock = some p

theorem inv_init : Inv init := by
  constructor
  · intro p; exact localOK_default
  · intro p; simp [init]

theorem upd_ok {f : Proc → PSt} {p : Proc} {v : PSt} (hf : ∀ q, LocalOK (f q)) (hv : LocalOK v) :
    ∀ q, LocalOK (upd f p v q) := by
  intro q; unfold upd; split
  · exact hv
  · exact hf q

/-- an update of `p`'s control state that keeps its lock flag, with the lock unchanged -/
theorem L_keep {s : St} (h : Inv s) {p : Proc} {v : PSt} (hv : v.lk = (s.ph p).lk) :
    ∀ q, (upd s.ph p v q).lk = true ↔ s.lock = some q := by
  intro q; unfold upd; split
  · rename_i hq; subst hq; rw [hv]; exact h.L q
  · exact h.L q

theorem unlock_ne (lock : Option Proc) (p : Proc) : unlock lock p ≠ some p := by
  unfold unlock; split <;> simp_all

theorem unlock_other (lock : Option Proc) {p q : Proc} (h : q ≠ p) : unlock lock p = some q ↔ lock = some q := by
  unfold unlock; split
  · rename_i hl; subst hl; simp; exact fun h' => h h'.symm
  · rfl

theorem inv_tick {s : St} (h : Inv s) (p : Proc) (n : Link) : Inv (tick s p n) := by
  unfold tick
  split
  · exact h
  · rename_i e rest ht
    split
    · rename_i he
      split
      · exact h
      · rename_i hfree
        have hnone : s.lock = none := by cases hl : s.lock <;> simp_all
        constructor
        · exact upd_ok h.loc (next_ok (h.loc p) true)
        · intro q
          simp only [upd]
          split
          · rename_i hq; subst hq
            rw [next_lk ht, he]; simp [lkAfter]
          · rename_i hq
            have := (h.L q)
            rw [hnone] at this
            constructor
            · intro hlk; exact absurd (this.1 hlk) (by simp)
            · intro hl; exact absurd (Option.some.inj hl) (fun h' => hq h'.symm)
    · split
      · rename_i hne he
        constructor
        · exact upd_ok h.loc (next_ok (h.loc p) true)
        · intro q
          simp only [upd]
          split
          · rename_i hq; subst hq
            rw [next_lk ht, he]
            simp only [if_true, lkAfter]
            constructor
            · intro hc; exact absurd hc (by simp)
            · intro hc; exact absurd hc (unlock_ne _ _)
          · rename_i hq
            rw [unlock_other _ hq]; exact h.L q
      · rename_i hne1 hne2
        constructor
        · exact upd_ok h.loc (next_ok (h.loc p) _)
        · apply L_keep h
          rw [next_lk ht]
          simp only [lkAfter_other _ hne1 hne2, ite_self]

theorem inv_step {s : St} (h : Inv s) (op : Op) : Inv (step s op) := by
  cases op with
  | tick p n => exact inv_tick h p n
  | start p m =>
    simp only [step]
    split
    · constructor
      · apply upd_ok h.loc
        apply settle_ok
        constructor
        · exact guarded_enter m _
        · intro e he; exact List.all_eq_true.1 (allowed_enter m _) e he
        · intro _; rw [(h.loc p).z (by assumption)]; exact final_enter m
        · intro hk; simp at hk
        · intro hk; simp at hk
        · intro hk; simp at hk
      · apply L_keep h; rw [settle_lk]
    · exact h
  | enterRaises p =>
    simp only [step]
    split
    · constructor
      · apply upd_ok h.loc
        split
        · constructor <;> simp [guarded]
        · exact localOK_default
      · apply L_keep h
        split
        · rfl
        · rename_i hl; simp at hl; simp [hl]
    · exact h
  | submit p l =>
    simp only [step]
    split
    · rename_i hc
      have hi := (h.loc p).i hc.1
      constructor
      · apply upd_ok h.loc
        apply settle_ok
        constructor
        · have : (s.ph p).lk = true := by rw [hi.1, hc.2]; decide
          simp only [this]; exact guarded_link
        · intro e he; simp only [hc.2]; exact List.all_eq_true.1 (allowed_link _) e he
        · intro _; simp only [final_link]; exact hi.1
        · intro hk; simp at hk
        · intro _; exact hc.2
        · intro hk; simp at hk
      · apply L_keep h; rw [settle_lk]
    · exact h
  | endBlock p exc =>
    simp only [step]
    split
    · rename_i hc
      have hi := (h.loc p).i hc
      constructor
      · apply upd_ok h.loc
        apply settle_ok
        constructor
        · simp only [hi.1]; exact guarded_exit _ _
        · intro e he; exact List.all_eq_true.1 (allowed_exit _ _) e he
        · intro hk; simp at hk
        · intro hk; simp at hk
        · intro hk; simp at hk
        · intro hk; simp at hk
      · apply L_keep h; rw [settle_lk]
    · exact h
  | die p =>
    simp only [step]
    constructor
    · exact upd_ok h.loc localOK_default
    · intro q
      simp only [upd]
      split
      · rename_i hq; subst hq
        constructor
        · intro hc; simp at hc
        · intro hc; exact absurd hc (unlock_ne _ _)
      · rename_i hq
        rw [unlock_other _ hq]; exact h.L q

theorem run_append (a b : List Op) (s : St) : run (a ++ b) s = run b (run a s) := by
  simp [run, List.foldl_append]

theorem inv_run {s : St} (h : Inv s) (ops : List Op) : Inv (run ops s) := by
  induction ops generalizing s with
  | nil => exact h
  | cons op ops ih => exact ih (inv_step h op)

theorem inv_reach (ops : List Op) : Inv (run ops init) := inv_run inv_init ops

/-! ### effects on the files -/

theorem fsEff_nowrite (jobs : List Entry) (bak : Option (List Entry)) (cur : List Link) (l n : Link) (e : Eff)
    (h : e.writes = false) : fsEff jobs bak cur l n e = (jobs, bak, cur, true) := by
  cases e <;> simp_all [fsEff, Eff.writes]

/-- a write needs the lock flag -/
theorem guarded_head {lk : Bool} {e : Eff} {r : List Eff} (h : guarded lk (e :: r) = true) (hw : e.writes = true) :
    lk = true := by
  simp only [guarded, Bool.and_eq_true, Bool.or_eq_true] at h
  rcases h.1 with h' | h'
  · exact h'
  · simp [hw] at h'

theorem mem_names {es : List Entry} {n : Link} : n ∈ names es ↔ ∃ e, e ∈ es ∧ e.name = n := by
  simp [names]

theorem hasName_iff {es : List Entry} {n : Link} : hasName es n = true ↔ n ∈ names es := by
  simp [hasName, names, List.any_eq_true]

theorem pick_mem {es : List Entry} {n : Link} {e : Entry} (h : pick es n = some e) : e ∈ es := by
  unfold pick at h
  split at h
  · rename_i x hx
    cases h
    exact List.mem_of_find?_eq_some hx
  · exact List.mem_of_mem_head? h

/-- one iteration of the rotation loop, as the source has it (duplicate → unlink, otherwise rename): the set
    of names linked in `jobs ∪ jobs.bak` does not change -/
theorem rotate_names (jobs : List Entry) (bak : Option (List Entry)) (cur : List Link) (l n : Link) (o : Act) (x : Link) :
    let r := fsEff jobs bak cur l n (.rotate .unlink .rename o)
    (x ∈ names r.1 ∨ x ∈ names (r.2.1.getD [])) ↔ (x ∈ names jobs ∨ x ∈ names (bak.getD [])) := by
  intro r
  simp only [r, fsEff]
  split
  · rfl
  · rename_i e he
    have hmem := pick_mem he
    by_cases hd : hasName (bak.getD []) e.name = true
    · simp only [hd, if_true, act, Option.getD_some]
      have hd' := hasName_iff.1 hd
      simp only [mem_names, List.mem_filter, bne_iff_ne, ne_eq]
      constructor
      · rintro (⟨y, ⟨hy, _⟩, hn⟩ | h)
        · exact Or.inl ⟨y, hy, hn⟩
        · exact Or.inr h
      · rintro (⟨y, hy, hn⟩ | h)
        · by_cases hx : y.name = e.name
          · right
            obtain ⟨z, hz, hzn⟩ := mem_names.1 hd'
            exact ⟨z, hz, by rw [hzn, ← hx, hn]⟩
          · exact Or.inl ⟨y, ⟨hy, hx⟩, hn⟩
        · exact Or.inr h
    · simp only [hd, act, Option.getD_some, Bool.false_eq_true, if_false]
      simp only [mem_names, List.mem_filter, List.mem_append, List.mem_singleton, bne_iff_ne, ne_eq]
      constructor
      · rintro (⟨y, ⟨hy, _⟩, hn⟩ | ⟨y, (⟨hy, _⟩ | rfl), hn⟩)
        · exact Or.inl ⟨y, hy, hn⟩
        · exact Or.inr ⟨y, hy, hn⟩
        · exact Or.inl ⟨y, hmem, hn⟩
      · rintro (⟨y, hy, hn⟩ | ⟨y, hy, hn⟩)
        · by_cases hx : y.name = e.name
          · exact Or.inr ⟨e, Or.inr rfl, by rw [← hx, hn]⟩
          · exact Or.inl ⟨y, ⟨hy, hx⟩, hn⟩
        · by_cases hx : y.name = e.name
          · exact Or.inr ⟨e, Or.inr rfl, by rw [← hx, hn]⟩
          · exact Or.inr ⟨y, Or.inl ⟨hy, hx⟩, hn⟩

theorem allowed_writes {k : Kind} {m : Mode} {exc : Bool} {e : Eff} (h : allowed k m exc e = true)
    (hw : e.writes = true) : m = .normal := by
  cases e <;> simp_all [allowed, Eff.writes]

theorem tick_files_same {s : St} {p : Proc} {n : Link} {e : Eff} {rest : List Eff}
    (ht : (s.ph p).todo = e :: rest) (hw : e.writes = false) :
    (tick s p n).jobs = s.jobs ∧ (tick s p n).bak = s.bak := by
  unfold tick
  rw [ht]
  simp only
  split
  · split <;> exact ⟨rfl, rfl⟩
  · split
    · exact ⟨rfl, rfl⟩
    · rw [fsEff_nowrite _ _ _ _ _ _ hw]; exact ⟨rfl, rfl⟩

end XpmVerif.XpFine
