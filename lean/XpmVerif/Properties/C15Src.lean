import XpmVerif.Generated.ValidateSrc
import XpmVerif.Properties.C15
/-! C15 — source obligations: what `harness/xv/translate/typesrc.py` read in `core/types.py`, `core/arguments.py`
and `core/objects.py` of the tree under test (`Generated/ValidateSrc.lean`, rewritten on every run) means exactly
what `Model/Validate.lean` says.  Every theorem here is about the generated definitions: when the source changes
its behaviour, a table entry changes and the theorem about it no longer checks.  The last section restates the
property theorems for *this* source, without any hypothesis on the switches. -/
namespace XpmVerif.C15
open XpmVerif.Validate XpmVerif.Gen.ValidateSrc

/-! ## the scalar validators -/

/-- unfold the generated tables and the hand-written validators -/
local macro "kind_simp" : tactic => `(tactic|
  simp_all [runTable, kindOf, src, intTable, floatTable, strTable, boolTable, pathTable, anyTable, enumTable, cfgTable,
    runAct, vInt, vFloat, vStr, vPath, vEnum, vCfg, Src.impl, PyVal.truthy])

/-- one case per kind of value -/
local macro "kind_cases" v:ident c:ident uns:term : tactic => `(tactic|
  (cases $v:ident with
   | float f =>
     cases f with
     | fin n m e => cases hti : (Fl.fin n m e).toInt? <;> kind_simp
     | _ => kind_simp
   | int i => cases hoi : Fl.ofInt? i <;> kind_simp
   | enumMember c' n => by_cases hcc : c' = $c <;> kind_simp
   | dict ks vs => cases hpt : isPathTag (lookup "$type" ks vs) <;> kind_simp
   | config mro id => by_cases hcm : $c ∈ mro <;> cases hu : ($uns) id <;> kind_simp
   | _ => kind_simp))

/-- `IntType.validate`: `int`/`bool` unchanged, a float accepted iff it has no fractional part (`OverflowError`
    for an infinity), anything else `TypeError` -/
theorem source_int_validate (c : Nat) (uns : Nat → Bool) (v : PyVal) : runTable c uns src.int v = vInt v := by
  kind_cases v c uns

/-- `FloatType.validate`: a float unchanged, `float(value)` of an `int`/`bool`, anything else `TypeError` -/
theorem source_float_validate (c : Nat) (uns : Nat → Bool) (v : PyVal) : runTable c uns src.float v = vFloat v := by
  kind_cases v c uns

/-- `StrType.validate` -/
theorem source_str_validate (c : Nat) (uns : Nat → Bool) (v : PyVal) : runTable c uns src.str v = vStr v := by
  kind_cases v c uns

/-- `BoolType.validate` stores `bool(value)` for every value -/
theorem source_bool_validate (c : Nat) (uns : Nat → Bool) (v : PyVal) : runTable c uns src.bool v = .ok (.bool v.truthy) := by
  kind_cases v c uns

/-- `PathType.validate`: the serialised form `{"$type": "path", "$value": …}`, a `str` as that path, a `Path`
    unchanged, anything else `TypeError` -/
theorem source_path_validate (c : Nat) (uns : Nat → Bool) (v : PyVal) : runTable c uns src.path v = vPath v := by
  kind_cases v c uns

/-- `AnyType.validate` -/
theorem source_any_validate (c : Nat) (uns : Nat → Bool) (v : PyVal) : runTable c uns src.any v = .ok v := by
  kind_cases v c uns

/-- `EnumType.validate`, with the exception class that the switch `enumAssert` read off the same table says -/
theorem source_enum_validate (c : Nat) (uns : Nat → Bool) (v : PyVal) : runTable c uns src.enum v = vEnum src.impl c v := by
  kind_cases v c uns

/-- `ObjectType.validate` (for values that are not tasks waiting for their `submit()`), with the switch `cfgNoneOk`
    read off the same table -/
theorem source_cfg_validate (c : Nat) (v : PyVal) : runTable c (fun _ => false) src.cfg v = vCfg src.impl c v := by
  kind_cases v c (fun _ => false)

/-- "The value must be submitted before giving it": a task without `job` is refused as a parameter value (what
    `hstep` models with `unsubmitted`) -/
theorem source_cfg_unsubmitted (c : Nat) (uns : Nat → Bool) (mro : List Nat) (id : Nat) (hc : c ∈ mro) (hu : uns id = true) :
    runTable c uns src.cfg (.config mro id) = .error .invalid := by
  simp [runTable, kindOf, src, cfgTable, runAct, hc, hu]

/-! ## containers and unions -/

/-- `ArrayType.validate`: a `list` is mapped element by element, anything else (tuples included) is refused;
    `DictType.validate`: a `dict` is mapped item by item, *the key through the key type first*, anything else is
    refused — the shapes `validate` has for `Ty.list` / `Ty.dict` (`mapE`, `mapD` with `keyOk`) -/
theorem source_container_shapes :
    (∀ k, src.list k = if k = .list then .mapElems else .raise .invalid) ∧
    (∀ k, src.dict k = if k = .dictPath ∨ k = .dictOther then .mapItems true else .raise .invalid) := by
  constructor <;> intro k <;> cases k <;> rfl

/-- `UnionType.validate`: the loop swallows exactly the class `invalid` (`ValueError` and `TypeError`) of an
    alternative (`validateU`), and when no alternative accepted, it raises — or, where the switch `unionDictNone`
    read off the same table is set, returns `None` for a `dict` (F10) -/
theorem source_union_shape :
    (∀ e, src.unionCatch e = decide (e = .invalid)) ∧
    (∀ k, src.unionTail k = if src.impl.unionDictNone = true ∧ (k = .dictPath ∨ k = .dictOther) then .retNone else .raise .invalid) := by
  constructor
  · intro e; cases e <;> rfl
  · intro k; cases k <;> rfl

/-! ## arguments and `ConfigInformation.set` -/

/-- `Argument.validate` returns the value validated by the type; a checker that says no raises `ValueError` -/
theorem source_argument_validate :
    (∀ ok, src.argValidate false ok = .same) ∧ src.argValidate true true = .same ∧ src.argValidate true false = .raise .invalid := by
  refine ⟨fun ok => by cases ok <;> rfl, rfl, rfl⟩

/-- `required` of an argument: `ArgumentOptions.create` says "not `Optional` and no default" (`ArgDecl.required`), and
    `Argument.__init__` keeps an explicit value and takes `default is None` when none is given (the older decorators) -/
theorem source_required (a : ArgDecl) :
    a.required = src.createRequired a.ty.isOpt a.hasDefault ∧
    (∀ r d, src.argRequired r d = match r with | none => d | some x => x) := by
  refine ⟨?_, fun r d => by cases r with | none => cases d <;> rfl | some x => cases x <;> cases d <;> rfl⟩
  cases h1 : a.ty.isOpt <;> cases h2 : a.hasDefault <;> simp [ArgDecl.required, h1, h2, src, createRequiredTable]

/-- the meaning of an entry of the `set` table -/
def runSet (I : Impl) (a : ArgDecl) (v : PyVal) : SetAct → Except Err PyVal
  | .readonly => .error .attribute
  | .storeValidated => validate I a.ty.stripOpt v
  | .storeNone => .ok .none
  | _ => .ok unmodelled

def isNone : PyVal → Bool
  | .none => true
  | _ => false

/-- `ConfigInformation.set` on an object that is not sealed, without `bypass`, is `setArg`: generated and constant
    arguments are read-only, `None` is refused for a required argument and stored otherwise, everything else goes
    through `Argument.validate` -/
theorem source_set_is_setArg (I : Impl) (a : ArgDecl) (v : PyVal) :
    runSet I a v (src.set false (a.generator || a.constant) (isNone v) a.required) = setArg I a v := by
  cases hg : (a.generator || a.constant) <;> cases hr : a.required <;> cases v <;>
    simp [runSet, setArg, src, setTable, isNone, hg, hr]

/-- a sealed object refuses every assignment, and the internal callers (`bypass=True`: defaults, generated values,
    loaded values) do not skip the validation -/
theorem source_set_guards :
    src.setSealedRaises = true ∧ ∀ gc vn rq, src.set true gc vn rq ≠ .storeRaw ∧ src.set false gc vn rq ≠ .storeRaw := by
  refine ⟨rfl, fun gc vn rq => ?_⟩
  cases gc <;> cases vn <;> cases rq <;> exact ⟨by decide, by decide⟩

/-! ## `ConfigInformation.validate` -/

/-- `_validate_value`: a configuration is visited, the items of a `list` and the values of a `dict` are looked at
    recursively, nothing else holds configurations — `refsDeep` -/
theorem source_walk_value (c : Nat) (uns : Nat → Bool) (v : PyVal) :
    match src.walkValue (kindOf c uns v) with
    | .visit => ∃ mro id, v = .config mro id ∧ refsDeep v = [id]
    | .items => ∃ vs, v = .list vs ∧ refsDeep v = refsDeepL vs
    | .values => ∃ ks vs, v = .dict ks vs ∧ refsDeep v = refsDeepL vs
    | .nothing => refsDeep v = []
    | .other => False := by
  cases v with
  | float f =>
    cases f with
    | fin n m e => cases h : (Fl.fin n m e).toInt? <;> simp [kindOf, src, walkValueTable, refsDeep, h]
    | _ => simp [kindOf, src, walkValueTable, refsDeep]
  | enumMember c' n => by_cases h : c' = c <;> simp [kindOf, src, walkValueTable, refsDeep, h]
  | dict ks vs =>
    cases h : isPathTag (lookup "$type" ks vs) <;> simp [kindOf, src, walkValueTable, refsDeep, h] <;>
      exact ⟨ks, vs, ⟨rfl, rfl⟩, rfl⟩
  | config mro id =>
    by_cases h : c ∈ mro
    · cases hu : uns id <;> simp [kindOf, src, walkValueTable, refsDeep, h, hu]
    · simp [kindOf, src, walkValueTable, refsDeep, h]
  | _ => simp [kindOf, src, walkValueTable, refsDeep]

/-- the loop of `_validate` over the arguments: a value that is not `None` is looked at, a missing one fails iff the
    argument is required and has no generator — `argItems` -/
theorem source_walk_arg (d : Bool) (a : ArgDecl) (ov : Option PyVal) :
    hasFail (argItems d a ov) =
      decide (src.walkArg (match ov with | some .none => false | some _ => true | none => false) a.required a.generator = .fail) := by
  cases hr : a.required <;> cases hg : a.generator <;> cases ov with
  | none => simp [argItems, hr, hg, src, walkArgTable]
  | some v => cases v <;> simp [argItems, hr, hg, src, walkArgTable, hasFail_map_visit]

/-- the rest of the shape: the `_validated` memo is tested and set first, pre-tasks and init tasks are visited, the
    `__validate__` hook runs last, `submit` validates before it registers, and `Type.fromType` tests the container
    annotations before the catch-all for generics -/
theorem source_walk_shape :
    src.walkMemo = true ∧ src.walkPre = true ∧ src.walkInit = true ∧ src.walkHookLast = true ∧
    src.submitValidatesFirst = true ∧ fromTypeOk src.fromType = true := by
  refine ⟨rfl, rfl, rfl, rfl, rfl, by decide⟩

/-- the argument table of a class takes, for every name, the *first* declaration along a linearisation of its bases
    that starts with the class itself and goes through the bases in the order of the class statement (`Lin.dfs` or
    `Lin.mro` of `Model/ValidateMro.lean`) — not the last one -/
theorem source_argument_table : src.argLin = .dfs ∨ src.argLin = .mro := by decide

/-! ## the switches, and the property for this source -/

/-- the five repaired departures stay repaired: unions raise on an unmatched dict (F10), enum mismatches are caught
    by unions (N2), `ObjectType` refuses `None` (N1), the walk descends into lists and dicts (F11), a failed
    validation clears its flags (N3) -/
theorem source_switches :
    src.impl.unionDictNone = false ∧ src.impl.enumAssert = false ∧ src.impl.cfgNoneOk = false ∧
    src.impl.deepValidate = true ∧ src.impl.resetOnFail = true := by
  refine ⟨by decide, by decide, by decide, by decide, by decide⟩

/-- **first sentence, for this source**: every assignment of every value to every declared type -/
theorem source_set_sound (a : ArgDecl) (v w : PyVal) (h : setArg src.impl a v = .ok w) :
    conforms a.ty w = true ∨ (w = .none ∧ a.required = false) :=
  set_sound src.impl a v w (Or.inl source_switches.1) (Or.inl source_switches.2.2.1) h

/-- **second sentence, for this source** -/
theorem source_submit_rejects_missing (g : Graph) (s : Sched) (root n : Nat)
    (hr : Reach (allSuccs g) root n) (hm : nodeMissing g n = true) :
    (submit src.impl g s root).1 ≠ .ok ∧ (submit src.impl g s root).2 = s :=
  submit_rejects_missing src.impl source_switches.2.2.2.1 g s root n hr hm

/-- **second sentence over histories, for this source** -/
theorem source_history_rejects_missing (s : HState) (h0 : FlagsOk src.impl s.g s.flags)
    (n m : Nat) (hr : Reach (allSuccs s.g) n m) (hm : nodeMissing s.g m = true) :
    (hstep src.impl s (.submit n)).1 ≠ .accepted ∧ (hstep src.impl s (.submit n)).2.registry = s.registry :=
  history_rejects_missing src.impl source_switches.2.2.2.1 s h0 n m hr hm

example : setArg src.impl { ty := .union [.int, .str] } (.dict [.str "a"] [.int 1]) = .error .invalid := rfl

end XpmVerif.C15
