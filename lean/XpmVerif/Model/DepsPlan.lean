import XpmVerif.Model.Deps
/-! The *plan* of dependency collection at submission (`core/objects.py`): the module-level `updatedependencies` (what is walked
    below a value), `ConfigInformation.updatedependencies` (what is walked below a configuration, in which order, where the producing
    task stops the walk) and the call site in `submit()`.  The plan is an abstraction of the three bodies in normal form;
    `Generated/DepsSrc.lean` holds the plan read off the Python AST on every run (harness/xv/translate/depsrc.py), `expected` is the plan
    the hand-written `Ident.depsNode` follows, `depsNodePlan` is the interpreter of any plan, and `Properties/C04DepsSrc.lean` proves
    both links. -/
namespace XpmVerif.DepsPlan
open XpmVerif.Ident

inductive Which where
  | pre | init
  deriving DecidableEq, Repr

/-- module-level `updatedependencies(dependencies, value, path, taskids)`: the `isinstance` chain (the tested types are disjoint,
    so the order of the branches is not part of the plan). -/
structure ValuePlan where
  /-- `Config` → `value.__xpm__.updatedependencies(...)` -/
  config : Bool
  /-- `list` / `set` → every element -/
  listElems : Bool
  setElems : Bool
  /-- `dict` → every key / every value -/
  dictKeys : Bool
  dictValues : Bool
  /-- `str, int, float, Path, Enum` → nothing -/
  scalarsPass : Bool
  /-- anything else raises `NotImplementedError` -/
  elseRaises : Bool
  deriving DecidableEq, Repr

inductive Simple where
  /-- `for t in self.pre_tasks / self.init_tasks: t.__xpm__.updatedependencies(...)` -/
  | tasks (w : Which)
  /-- `for argument, value in self.xpmvalues(): [if value is not None:] updatedependencies(..., value, ...)` -/
  | args (skipNone : Bool)
  /-- `dependencies.add(self.task.__xpm__.dependency())`, `[once]` = guarded by `id(self.task) not in taskids` + `taskids.add` -/
  | addTask (oncePerIdentity : Bool)
  deriving DecidableEq, Repr

/-- `ConfigInformation.updatedependencies`: `before`; then `if self.task [and not self.loaded]: thenB else: elseB`. -/
structure NodePlan where
  before : List Simple
  condTask : Bool
  condNotLoaded : Bool
  thenB : List Simple
  elseB : List Simple
  deriving DecidableEq, Repr

/-- the call site in `ConfigInformation.submit` and `add_dependencies`. -/
structure SubmitPlan where
  /-- `taskids` starts as `{id(self.pyobject)}`: the submitted task never depends on itself -/
  startsWithSelf : Bool
  /-- `launcher.onSubmit(self.job)` runs before the walk: listeners add to `job.dependencies`, which the walk then extends -/
  listenersBeforeWalk : Bool
  /-- the walk adds into `self.job.dependencies` (it does not replace it) -/
  walkAddsToJob : Bool
  /-- `self.job.dependencies.update(self.dependencies)` after the walk: explicitly added dependencies join the set -/
  explicitUnion : Bool
  /-- `add_dependencies(*d)` = `self.dependencies.extend(d)` -/
  addExtends : Bool
  deriving DecidableEq, Repr

structure Plan where
  value : ValuePlan
  node : NodePlan
  submit : SubmitPlan
  deriving DecidableEq, Repr

def expected : Plan :=
  { value := { config := true, listElems := true, setElems := true, dictKeys := true, dictValues := true,
               scalarsPass := true, elseRaises := true },
    node := { before := [.tasks .pre, .tasks .init], condTask := true, condNotLoaded := true,
              thenB := [.addTask true], elseB := [.args true] },
    submit := { startsWithSelf := true, listenersBeforeWalk := true, walkAddsToJob := true, explicitUnion := true, addExtends := true } }

/-! ### interpreter -/

mutual
/-- the value walk of a plan (keys of a model dict are strings: walking them adds nothing; the model has no set values). -/
def walkValP (vp : ValuePlan) (cfg : Nat → List Nat → List Nat) : Val → List Nat → List Nat
  | .list l, acc => if vp.listElems then walkValsP vp cfg l acc else acc
  | .dict _ vs, acc => if vp.dictValues then walkValsP vp cfg vs acc else acc
  | .ref n, acc => if vp.config then cfg n acc else acc
  | _, acc => acc
def walkValsP (vp : ValuePlan) (cfg : Nat → List Nat → List Nat) : List Val → List Nat → List Nat
  | [], acc => acc
  | v :: vs, acc => walkValsP vp cfg vs (walkValP vp cfg v acc)
end

def runSimple (vp : ValuePlan) (rec_ : Nat → List Nat → List Nat) (nd : Node) : Simple → List Nat → List Nat
  | .tasks .pre, acc => walkNodes rec_ nd.preTasks acc
  | .tasks .init, acc => walkNodes rec_ nd.initTasks acc
  | .args _, acc => walkValsP vp rec_ (nd.args.map (·.value)) acc
  | .addTask once, acc =>
    match nd.task with
    | some t => if once && acc.contains t then acc else acc ++ [t]
    | none => acc

/-- `ConfigInformation.updatedependencies` of node `n` as the plan `p` says; `ld` = loaded nodes. -/
def depsNodePlan (p : Plan) (g : Graph) (ld : Nat → Bool) : Nat → Nat → List Nat → List Nat
  | 0, _, acc => acc
  | fuel + 1, n, acc =>
    let nd := g.node n
    let acc := p.node.before.foldl (fun a s => runSimple p.value (depsNodePlan p g ld fuel) nd s a) acc
    let cond : Bool := (!p.node.condTask || nd.task.isSome) && (!p.node.condNotLoaded || !ld n)
    if cond then p.node.thenB.foldl (fun a s => runSimple p.value (depsNodePlan p g ld fuel) nd s a) acc
    else p.node.elseB.foldl (fun a s => runSimple p.value (depsNodePlan p g ld fuel) nd s a) acc

/-- the dependencies `submit()` attaches for the plan `p` (walk part; the explicitly added ones are united afterwards). -/
def collectDepsPlan (p : Plan) (g : Graph) (ld : Nat → Bool) (root : Nat) : List Nat :=
  (depsNodePlan p g ld (g.size + 1) root (if p.submit.startsWithSelf then [root] else [])).filter (· ≠ root)

end XpmVerif.DepsPlan
